// corr-c11: correspondence between identity resolution in pkg/yang (real code: Modules.Parse,
// Process, Identity.Values, Entry.Type.IdentityBase) and the Lean model Goyang.Model.Identity
// (driver drv_ident), plus the executable specification Goyang.Spec.Identity evaluated on every
// Go result.
//
// The Go side runs in child processes (this binary re-executed with -child): a stack overflow is
// fatal in Go and cannot be recovered, so a dead child is attributed to the case it was on.
// Every source set is processed several times in fresh Modules under permuted load orders; two
// different results for one source set are a violation by themselves (the order of the lists
// has to be a function of the schema).
package main

import (
	"bufio"
	"encoding/json"
	"flag"
	"fmt"
	"math/rand"
	"os"
	"os/exec"
	"path/filepath"
	"runtime/debug"
	"sort"
	"strings"
	"sync"
	"sync/atomic"
	"time"

	"github.com/openconfig/goyang/pkg/yang"
	"verif/harness/lib"
)

// ---------------------------------------------------------------------------------------------
// cases

type srcFile struct {
	Name string `json:"name"`
	Text string `json:"text"`
}

type tcase struct {
	Tag   string    `json:"tag"`
	Files []srcFile `json:"files"`
	Runs  int       `json:"runs"`
	// Split > 0: the history run loads Files[:Split] in the written order, calls Process, loads
	// Files[Split:], calls Process again.  Split == 0: the history run is the reverse order with
	// the last file held back.
	Split int `json:"split,omitempty"`
	// Disk: a files-on-disk case (disk.go): per entry of Splits one run in which only the files
	// with these indices are handed to Parse (in this order) and the others lie in a directory on
	// the search path, where Process finds them when an import or include names them.
	Disk   bool    `json:"disk,omitempty"`
	Splits [][]int `json:"splits,omitempty"`
}

// history returns the load order and the split point of the history run (split 0: none).
func (c tcase) history() ([]int, int) {
	if c.Split > 0 && c.Split < len(c.Files) {
		return c.order(0), c.Split
	}
	if len(c.Files) >= 2 {
		return c.order(1), len(c.Files) - 1
	}
	return c.order(0), 0
}

func (c tcase) key() string {
	var sb strings.Builder
	for _, f := range c.Files {
		sb.WriteString(f.Name)
		sb.WriteByte(0)
		sb.WriteString(f.Text)
		sb.WriteByte(0)
	}
	if c.Disk {
		fmt.Fprintf(&sb, "disk %v", c.Splits)
	}
	return sb.String()
}

// order of run k: run 0 is the written order, run 1 the reverse, later ones seeded shuffles.
func (c tcase) order(k int) []int {
	n := len(c.Files)
	idx := make([]int, n)
	for i := range idx {
		idx[i] = i
	}
	switch {
	case k == 0:
	case k == 1:
		for i, j := 0, n-1; i < j; i, j = i+1, j-1 {
			idx[i], idx[j] = idx[j], idx[i]
		}
	default:
		h := int64(0)
		for _, b := range []byte(tcase{Files: c.Files}.key()) {
			h = h*131 + int64(b)
		}
		rand.New(rand.NewSource(h+int64(k))).Shuffle(n, func(i, j int) { idx[i], idx[j] = idx[j], idx[i] })
	}
	return idx
}

// ---------------------------------------------------------------------------------------------
// the Go side: one source set, one fresh Modules -> canonical dump

func ownerText(ms *yang.Modules, m *yang.Module) string {
	if m == nil {
		return "?"
	}
	if m.BelongsTo != nil {
		if o := ms.Modules[m.BelongsTo.Name]; o != nil {
			return o.Name
		}
		return "~" + m.BelongsTo.Name
	}
	return m.Name
}

func distinctMods(m map[string]*yang.Module) []*yang.Module {
	seen := map[*yang.Module]bool{}
	var out []*yang.Module
	for _, k := range lib.SortedKeys(m) {
		if !seen[m[k]] {
			seen[m[k]] = true
			out = append(out, m[k])
		}
	}
	return out
}

func encAll(l []string) string {
	var sb strings.Builder
	for _, s := range l {
		sb.WriteByte(' ')
		sb.WriteString(lib.HexS(s))
	}
	return sb.String()
}

func dedupSorted(l []string) []string {
	sort.Strings(l)
	var out []string
	for i, s := range l {
		if i == 0 || s != l[i-1] {
			out = append(out, s)
		}
	}
	return out
}

// goDump loads the files in the given order into fresh Modules, calls Process and renders what
// C11 observes.  Panics are turned into "crash …".
func goDump(files []srcFile, order []int, again bool) (out string) {
	defer func() {
		if r := recover(); r != nil {
			out = fmt.Sprintf("crash panic: %v", r)
		}
	}()
	ms := yang.NewModules()
	for _, i := range order {
		if err := ms.Parse(files[i].Text, files[i].Name); err != nil {
			return "loaderr"
		}
	}
	out = renderGo(ms, ms.Process())
	if again {
		// the AST mutation (Identity.Values) persists: a second Process on the same Modules must give the same
		if second := renderGo(ms, ms.Process()); second != out {
			return "second-process-differs " + out + " ### " + second
		}
	}
	return out
}

// goHistory: one Modules, files order[:split] loaded and processed, then the rest loaded and
// processed again.  What is observed afterwards has to be what fresh Modules with all the texts give.
func goHistory(files []srcFile, order []int, split int) (out string) {
	defer func() {
		if r := recover(); r != nil {
			out = fmt.Sprintf("crash panic: %v", r)
		}
	}()
	ms := yang.NewModules()
	for k, i := range order {
		if k == split {
			ms.Process() // whatever it reports: the set is incomplete at this point
		}
		if err := ms.Parse(files[i].Text, files[i].Name); err != nil {
			return "loaderr"
		}
	}
	return renderGo(ms, ms.Process())
}

// goToEntryFirst: ToEntry of every module and submodule before the first Process (it resolves
// the types against an identity dictionary that is still empty), then Process.
func goToEntryFirst(files []srcFile, order []int) (out string) {
	defer func() {
		if r := recover(); r != nil {
			out = fmt.Sprintf("crash panic: %v", r)
		}
	}()
	ms := yang.NewModules()
	for _, i := range order {
		if err := ms.Parse(files[i].Text, files[i].Name); err != nil {
			return "loaderr"
		}
	}
	for _, m := range append(distinctMods(ms.Modules), distinctMods(ms.SubModules)...) {
		yang.ToEntry(m)
	}
	return renderGo(ms, ms.Process())
}

// renderGo renders what C11 observes after a Process call that returned errs.
func renderGo(ms *yang.Modules, errs []error) string {
	var errLines []string
	linkFail := false
	for _, e := range errs {
		f, _, _, cls := lib.ErrClass(e.Error())
		if f == "-" && (cls == "no-such-module" || cls == "no-such-submodule") {
			linkFail = true
		}
		if identityError(e.Error()) {
			errLines = append(errLines, lib.ErrLine(e.Error()))
		}
	}
	if linkFail {
		return "linkfail"
	}
	mods := append(distinctMods(ms.Modules), distinctMods(ms.SubModules)...)
	known := map[*yang.Identity]bool{}
	for _, m := range mods {
		for _, id := range m.Identities() {
			known[id] = true
		}
	}
	vtx := func(id *yang.Identity) string { return ownerText(ms, yang.RootNode(id)) + ":" + id.Name }
	var items []string
	for _, m := range mods {
		for _, id := range m.Identities() {
			vs := make([]string, len(id.Values))
			for i, v := range id.Values {
				vs[i] = vtx(v)
				if !known[v] {
					vs[i] = "COPY!" + vs[i]
				}
			}
			items = append(items, m.FullName()+">"+ownerText(ms, m)+":"+id.Name+"="+strings.Join(vs, ","))
		}
		// identityref / union nodes at the top level of m's entry: own leaves and leaf-lists and
		// those of a grouping of m that a top-level uses names; the type written directly or
		// reached through typedefs of m
		type node struct {
			name string
			typ  *yang.Type
		}
		var nodes []node
		for _, l := range m.Leaf {
			nodes = append(nodes, node{l.Name, l.Type})
		}
		for _, l := range m.LeafList {
			nodes = append(nodes, node{l.Name, l.Type})
		}
		for _, u := range m.Uses {
			for _, g := range m.Grouping {
				if g.Name == u.Name {
					for _, l := range g.Leaf {
						nodes = append(nodes, node{l.Name, l.Type})
					}
					for _, l := range g.LeafList {
						nodes = append(nodes, node{l.Name, l.Type})
					}
					break
				}
			}
		}
		member := func(yt *yang.YangType) string {
			if yt.IdentityBase == nil {
				return "-"
			}
			ib := yt.IdentityBase
			vs := make([]string, len(ib.Values))
			for i, v := range ib.Values {
				vs[i] = vtx(v)
			}
			// which identity OBJECT (by the revision of the (sub)module that declares it) and the
			// list that is seen through it
			got := yang.RootNode(ib).FullName() + ">" + vtx(ib) + "~" + strings.Join(vs, ",")
			if !known[ib] {
				// the type must point at an identity of the loaded modules, so that it sees its list
				got = "COPY!" + got
			}
			return got
		}
		var e *yang.Entry
		for _, nd := range nodes {
			if !identityrefInterest(m, nd.typ, 8) {
				continue
			}
			if e == nil {
				e = yang.ToEntry(m)
			}
			got := "-"
			if le := e.Dir[nd.name]; le != nil && le.Type != nil {
				switch le.Type.Kind {
				case yang.Yidentityref:
					got = member(le.Type)
				case yang.Yunion:
					// every member of kind identityref that the resolved union holds
					var ms []string
					for _, mt := range le.Type.Type {
						if mt.Kind == yang.Yidentityref {
							ms = append(ms, member(mt))
						}
					}
					got = strings.Join(ms, "|")
				default:
					got = "?kind=" + le.Type.Kind.String()
				}
			}
			items = append(items, "@"+m.FullName()+":"+nd.name+"="+got)
		}
	}
	sort.Strings(items)
	return "ok" + encAll(items) + " ;" + encAll(dedupSorted(errLines))
}

// identityrefInterest: the type statement t, written in m, is an identityref or a union, directly
// or through typedefs of m named without prefix (chains up to depth).  Mirrors
// Goyang.Model.Identity.tyView != other.
func identityrefInterest(m *yang.Module, t *yang.Type, depth int) bool {
	if t == nil || depth == 0 {
		return false
	}
	switch t.Name {
	case "identityref", "union":
		return true
	}
	for _, td := range m.Typedef {
		if td.Name == t.Name {
			return identityrefInterest(m, td.Type, depth-1)
		}
	}
	return false
}

// identityError is the projection of Process' errors C11 speaks about: unresolved identity bases
// (of identity statements and of identityref types), derivation cycles, and included submodules
// whose module is absent.  Everything else (include cycles, unresolved includes of submodules
// nobody includes, …) belongs to other properties.
func identityError(msg string) bool {
	f, _, _, cls := lib.ErrClass(msg)
	switch cls {
	case "identity-base-local", "identity-base-remote", "identity-prefix", "identity-base-typedef",
		"identityref-no-base", "identity-null-base":
		return true
	case "cycle":
		return strings.Contains(msg, "identity")
	case "no-such-module":
		return f != "-"
	}
	return false
}

type childReq struct {
	Files     []srcFile `json:"files"`
	Runs      int       `json:"runs"`
	Order     [][]int   `json:"order"`
	HistOrder []int     `json:"hist_order"`
	Split     int       `json:"split"`
	Disk      bool      `json:"disk,omitempty"`
	Splits    [][]int   `json:"splits,omitempty"`
}

type childAns struct {
	Dumps []string `json:"dumps"`
}

func childMain() {
	// a runaway recursion should die after 32 MB of stack, not after the default 1 GB (seconds per case)
	debug.SetMaxStack(32 << 20)
	// FindModule falls back to reading <name>.yang from the current directory: run where there is none
	// the parent made this directory and removes it (a child is killed, its defers never run)
	dir := ""
	if os.Getenv("VERIF_CHILD_DIR") == "" {
		var err error
		if dir, err = os.MkdirTemp("", "corr-c11-"); err == nil {
			os.Chdir(dir)
			defer os.RemoveAll(dir)
		} else {
			dir = ""
		}
	}
	in := bufio.NewReaderSize(os.Stdin, 1<<20)
	out := bufio.NewWriter(os.Stdout)
	for {
		line, err := in.ReadBytes('\n')
		if len(line) > 0 {
			var rq childReq
			if json.Unmarshal(line, &rq) != nil {
				fmt.Fprintln(out, `{"dumps":["crash bad request"]}`)
			} else if rq.Disk {
				b, _ := json.Marshal(childDisk(rq))
				out.Write(b)
				out.WriteByte('\n')
			} else {
				var ans childAns
				for k := 0; k < rq.Runs; k++ {
					ans.Dumps = append(ans.Dumps, goDump(rq.Files, rq.Order[k], k == rq.Runs-1))
				}
				if len(ans.Dumps) > 0 && strings.HasPrefix(ans.Dumps[0], "ok") {
					// histories on one Modules must end where fresh Modules with all the texts end
					if rq.Split > 0 {
						if h := goHistory(rq.Files, rq.HistOrder, rq.Split); h != ans.Dumps[0] {
							ans.Dumps = append(ans.Dumps, "history-differs "+ans.Dumps[0]+" ### "+h)
						}
					}
					if h := goToEntryFirst(rq.Files, rq.Order[0]); h != ans.Dumps[0] {
						ans.Dumps = append(ans.Dumps, "toentry-first-differs "+ans.Dumps[0]+" ### "+h)
					}
				}
				b, _ := json.Marshal(ans)
				out.Write(b)
				out.WriteByte('\n')
			}
			out.Flush()
		}
		if err != nil {
			break
		}
	}
	if dir != "" {
		os.RemoveAll(dir)
	}
}

// child is one running worker.
type child struct {
	cmd *exec.Cmd
	in  *bufio.Writer
	out *bufio.Reader
	wc  interface{ Close() error }
	dir string // the child's working directory, made and removed by the parent
}

func startChild() (*child, error) {
	self, err := os.Executable()
	if err != nil {
		return nil, err
	}
	cmd := exec.Command(self, "-child")
	dir, derr := os.MkdirTemp("", "corr-c11-")
	if derr == nil {
		cmd.Dir = dir
		cmd.Env = append(os.Environ(), "VERIF_CHILD_DIR="+dir)
	} else {
		dir = ""
	}
	wc, err := cmd.StdinPipe()
	if err != nil {
		return nil, err
	}
	rc, err := cmd.StdoutPipe()
	if err != nil {
		return nil, err
	}
	cmd.Stderr = nil // a dying child prints a huge goroutine dump; the verdict is taken from its death
	if err := cmd.Start(); err != nil {
		return nil, err
	}
	return &child{cmd: cmd, in: bufio.NewWriterSize(wc, 1<<20), out: bufio.NewReaderSize(rc, 1<<20), wc: wc, dir: dir}, nil
}

func (c *child) stop() {
	c.wc.Close()
	c.cmd.Process.Kill()
	c.cmd.Wait()
	if c.dir != "" {
		os.RemoveAll(c.dir)
	}
}

// ask runs one case in the child; a dead or silent child yields "crash …" dumps.
func (c *child) ask(tc tcase) ([]string, bool) {
	rq := childReq{Files: tc.Files, Runs: tc.Runs, Disk: tc.Disk, Splits: tc.Splits}
	rq.HistOrder, rq.Split = tc.history()
	for k := 0; k < tc.Runs; k++ {
		rq.Order = append(rq.Order, tc.order(k))
	}
	b, _ := json.Marshal(rq)
	c.in.Write(b)
	c.in.WriteByte('\n')
	if err := c.in.Flush(); err != nil {
		return []string{"crash child process died (write): " + err.Error()}, false
	}
	type res struct {
		line []byte
		err  error
	}
	ch := make(chan res, 1)
	go func() {
		l, err := c.out.ReadBytes('\n')
		ch <- res{l, err}
	}()
	select {
	case r := <-ch:
		if r.err != nil {
			return []string{"crash child process died while processing this source set (fatal error such as stack overflow)"}, false
		}
		var ans childAns
		if json.Unmarshal(r.line, &ans) != nil {
			return []string{"crash unreadable child answer"}, false
		}
		return ans.Dumps, true
	case <-time.After(10 * time.Second):
		return []string{"crash no answer within 10 s (hang)"}, false
	}
}

var childDeaths int64

const maxChildDeaths = 64

// runGo runs all cases on `procs` children, preserving order.
func runGo(cases []tcase, procs int) [][]string {
	out := make([][]string, len(cases))
	var wg sync.WaitGroup
	next := make(chan int, len(cases))
	for i := range cases {
		next <- i
	}
	close(next)
	for p := 0; p < procs; p++ {
		wg.Add(1)
		go func() {
			defer wg.Done()
			var c *child
			for i := range next {
				if atomic.LoadInt64(&childDeaths) >= maxChildDeaths {
					out[i] = []string{"skipped"} // mass crash: enough evidence, do not grind through the rest
					continue
				}
				if c == nil {
					var err error
					if c, err = startChild(); err != nil {
						lib.Fatal("start child: %v", err)
					}
				}
				d, alive := c.ask(cases[i])
				out[i] = d
				if !alive {
					atomic.AddInt64(&childDeaths, 1)
					c.stop()
					c = nil
				}
			}
			if c != nil {
				c.stop()
			}
		}()
	}
	wg.Wait()
	return out
}

// ---------------------------------------------------------------------------------------------
// YANG text

type gImport struct{ Name, Prefix, RevDate string }

type gIdent struct {
	Name  string
	Bases []string
}

type gLeaf struct {
	Name    string
	Base    string
	HasBase bool
	// 0 leaf, 1 leaf-list, 2 union { string; identityref }, 3 through a typedef of the same (sub)module;
	// with More (2-3 identityref members in all): 4 union on a leaf, 5 union on a leaf-list, 6 typedef
	// chain t2 -> t1 -> union, 7 union of typedef'd identityrefs (one behind a chain), 8 union leaf in
	// a grouping that the root uses
	Form int
	More []string // further bases (forms 4..8)
}

func (l gLeaf) idref(base string) string { return fmt.Sprintf("type identityref { base %s; }", base) }

type gRoot struct {
	Name, Prefix string
	Sub          bool
	BelongsTo    string
	Revisions    []string
	Imports      []gImport
	Includes     []string
	Idents       []gIdent
	Leaves       []gLeaf
}

func (r *gRoot) text() string {
	var sb strings.Builder
	if r.Sub {
		fmt.Fprintf(&sb, "submodule %s {\n  belongs-to %s { prefix %s; }\n", r.Name, r.BelongsTo, r.Prefix)
	} else {
		fmt.Fprintf(&sb, "module %s {\n  namespace \"urn:%s\";\n  prefix %s;\n", r.Name, r.Name, r.Prefix)
	}
	for _, im := range r.Imports {
		if im.RevDate != "" {
			fmt.Fprintf(&sb, "  import %s { prefix %s; revision-date %s; }\n", im.Name, im.Prefix, im.RevDate)
		} else {
			fmt.Fprintf(&sb, "  import %s { prefix %s; }\n", im.Name, im.Prefix)
		}
	}
	for _, in := range r.Includes {
		fmt.Fprintf(&sb, "  include %s;\n", in)
	}
	for _, rv := range r.Revisions {
		fmt.Fprintf(&sb, "  revision %s;\n", rv)
	}
	for _, id := range r.Idents {
		if len(id.Bases) == 0 {
			fmt.Fprintf(&sb, "  identity %s;\n", id.Name)
			continue
		}
		fmt.Fprintf(&sb, "  identity %s {", id.Name)
		for _, b := range id.Bases {
			fmt.Fprintf(&sb, " base %s;", b)
		}
		sb.WriteString(" }\n")
	}
	for _, l := range r.Leaves {
		ty := "type identityref;"
		if l.HasBase {
			ty = fmt.Sprintf("type identityref { base %s; }", l.Base)
		}
		all := append([]string{l.Base}, l.More...)
		var members strings.Builder
		for _, b := range all {
			members.WriteString(" " + l.idref(b))
		}
		switch l.Form {
		case 4:
			fmt.Fprintf(&sb, "  leaf %s { type union {%s } }\n", l.Name, members.String())
			continue
		case 5:
			fmt.Fprintf(&sb, "  leaf-list %s { type union {%s } }\n", l.Name, members.String())
			continue
		case 6:
			fmt.Fprintf(&sb, "  typedef u1-%s { type union {%s } }\n  typedef u2-%s { type u1-%s; }\n  leaf %s { type u2-%s; }\n",
				l.Name, members.String(), l.Name, l.Name, l.Name, l.Name)
			continue
		case 7:
			var mt strings.Builder
			for k, b := range all {
				fmt.Fprintf(&sb, "  typedef m%d-%s { %s }\n", k, l.Name, l.idref(b))
				if k == 0 {
					fmt.Fprintf(&sb, "  typedef c-%s { type m0-%s; }\n", l.Name, l.Name)
					fmt.Fprintf(&mt, " type c-%s;", l.Name)
				} else {
					fmt.Fprintf(&mt, " type m%d-%s;", k, l.Name)
				}
			}
			fmt.Fprintf(&sb, "  leaf %s { type union {%s } }\n", l.Name, mt.String())
			continue
		case 8:
			fmt.Fprintf(&sb, "  grouping g-%s { leaf %s { type union {%s } } }\n  uses g-%s;\n", l.Name, l.Name, members.String(), l.Name)
			continue
		}
		switch l.Form {
		case 1:
			fmt.Fprintf(&sb, "  leaf-list %s { %s }\n", l.Name, ty)
		case 2:
			fmt.Fprintf(&sb, "  leaf %s { type union { type string; %s } }\n", l.Name, ty)
		case 3:
			fmt.Fprintf(&sb, "  typedef t-%s { %s }\n  leaf %s { type t-%s; }\n", l.Name, ty, l.Name, l.Name)
		default:
			fmt.Fprintf(&sb, "  leaf %s { %s }\n", l.Name, ty)
		}
	}
	sb.WriteString("}\n")
	return sb.String()
}

// filesOfRev names the file of a module with revisions name@latest.yang (two revisions of one
// module may be loaded).
func filesOfRev(roots []*gRoot) []srcFile {
	fs := make([]srcFile, len(roots))
	for i, r := range roots {
		n := r.Name
		if len(r.Revisions) > 0 {
			n += "@" + r.Revisions[0]
		}
		fs[i] = srcFile{Name: n + ".yang", Text: r.text()}
	}
	return fs
}

func filesOf(roots []*gRoot) []srcFile {
	fs := make([]srcFile, len(roots))
	for i, r := range roots {
		fs[i] = srcFile{Name: r.Name + ".yang", Text: r.text()}
	}
	return fs
}

// ---------------------------------------------------------------------------------------------
// generator 1: complete enumeration of small derivation graphs

func acyclic(n int, edge func(i, j int) bool) bool {
	// Kahn: repeatedly remove a vertex without outgoing edges into the remaining set
	alive := make([]bool, n)
	for i := range alive {
		alive[i] = true
	}
	for left := n; left > 0; {
		removed := false
		for i := 0; i < n; i++ {
			if !alive[i] {
				continue
			}
			free := true
			for j := 0; j < n; j++ {
				if alive[j] && edge(i, j) {
					free = false
				}
			}
			if free {
				alive[i] = false
				left--
				removed = true
			}
		}
		if !removed {
			return false
		}
	}
	return true
}

// smallCase: n identities, bit (i*n+j) of edges = "identity i has base j", identity k declared in
// root (assign>>k)&1, layout 0 = two modules importing each other, 1 = module + included
// submodule; naming 0 = distinct names (not in index order), 1 = equal names across the two modules.
func smallCase(n int, edges uint32, assign, layout, naming, samePrefix int) tcase {
	var roots []*gRoot
	if layout == 0 {
		roots = []*gRoot{
			{Name: "ma", Prefix: "a", Imports: []gImport{{Name: "mb", Prefix: "pb"}}},
			{Name: "mb", Prefix: "b", Imports: []gImport{{Name: "ma", Prefix: "pa"}}},
		}
		if samePrefix == 1 {
			// legal: a prefix only has to be unique among the prefixes one module uses
			roots[1].Prefix = "a"
		}
	} else {
		roots = []*gRoot{
			{Name: "ma", Prefix: "a", Includes: []string{"sb"}},
			{Name: "sb", Prefix: "s", Sub: true, BelongsTo: "ma"},
		}
	}
	pool := []string{"c", "a", "d", "b"}
	name := make([]string, n)
	where := make([]int, n)
	cnt := [2]int{}
	for k := 0; k < n; k++ {
		where[k] = (assign >> k) & 1
		if naming == 0 {
			name[k] = pool[k]
		} else {
			name[k] = fmt.Sprintf("n%d", cnt[where[k]])
		}
		cnt[where[k]]++
	}
	ref := func(from, to int) string {
		rf, rt := where[from], where[to]
		if rf == rt || layout == 1 {
			if (from+to)%2 == 0 {
				return name[to]
			}
			return roots[rf].Prefix + ":" + name[to]
		}
		return roots[rf].Imports[0].Prefix + ":" + name[to]
	}
	for i := 0; i < n; i++ {
		id := gIdent{Name: name[i]}
		for j := 0; j < n; j++ {
			if edges&(1<<uint(i*n+j)) != 0 {
				id.Bases = append(id.Bases, ref(i, j))
			}
		}
		roots[where[i]].Idents = append(roots[where[i]].Idents, id)
	}
	// one identityref leaf, declared where the last identity is, pointing at identity 0
	roots[where[n-1]].Leaves = []gLeaf{{Name: "ref", Base: ref(n-1, 0), HasBase: true}}
	// and a union with one identityref member per identity (homonyms of the two modules included)
	u := gLeaf{Name: "uref", Base: ref(n-1, 0), HasBase: true, Form: 4 + int(edges%2)*4} // on a leaf | in a used grouping
	for k := 1; k < n; k++ {
		u.More = append(u.More, ref(n-1, k))
	}
	roots[where[n-1]].Leaves = append(roots[where[n-1]].Leaves, u)
	return tcase{Tag: fmt.Sprintf("small n=%d edges=%#x assign=%d layout=%d naming=%d sameOwnPrefix=%d", n, edges, assign, layout, naming, samePrefix),
		Files: filesOf(roots), Runs: 2} // + second Process, history and ToEntry-first runs: five processings per set
}

func enumerateSmall(maxAll, maxDag int, sample func() bool) []tcase {
	var out []tcase
	for n := 1; n <= maxDag; n++ {
		for edges := uint32(0); edges < 1<<uint(n*n); edges++ {
			e := edges
			nn := n
			edge := func(i, j int) bool { return e&(1<<uint(i*nn+j)) != 0 }
			if n > maxAll && !acyclic(n, edge) {
				continue // above maxAll identities: DAGs only
			}
			for assign := 0; assign < 1<<uint(n); assign++ {
				for layout := 0; layout < 2; layout++ {
					for naming := 0; naming < 2; naming++ {
						if layout == 1 && naming == 1 {
							continue // module and its submodule share one vertex namespace
						}
						if n == maxDag && sample != nil && !sample() {
							continue
						}
						out = append(out, smallCase(n, edges, assign, layout, naming, 0))
						if layout == 0 && (naming == 1 || n <= maxAll) {
							// both modules declare the same own prefix (with distinct names only up to maxAll identities)
							out = append(out, smallCase(n, edges, assign, layout, naming, 1))
						}
					}
				}
			}
		}
	}
	return out
}

// ---------------------------------------------------------------------------------------------
// generator 2: random schemas up to 12 identities over modules, submodules, nested includes

var namePool = []string{"alpha", "beta", "Beta", "a", "a-b", "a.b", "a_b", "b2", "b10", "zeta", "id", "idx", "A", "z9", "mid", "top"}
var prefixPool = []string{"p0", "p1", "p2", "p3", "q"}

type rIdent struct {
	root  int
	group int // index of the owning module, -1 when the owner is not loaded
	name  string
}

// moreBases: one or two further union members beside identity t: identities of the same name in
// other modules first (their lists differ), then any.
func moreBases(rng *rand.Rand, ids []rIdent, t int, ref func(k int) string) []string {
	var homonyms, others []int
	for k := range ids {
		switch {
		case k == t:
		case ids[k].name == ids[t].name && ids[k].group != ids[t].group:
			homonyms = append(homonyms, k)
		default:
			others = append(others, k)
		}
	}
	rng.Shuffle(len(homonyms), func(i, j int) { homonyms[i], homonyms[j] = homonyms[j], homonyms[i] })
	rng.Shuffle(len(others), func(i, j int) { others[i], others[j] = others[j], others[i] })
	pick := append(homonyms, others...)
	n := 1 + rng.Intn(2)
	var out []string
	for _, k := range pick {
		if len(out) == n {
			break
		}
		out = append(out, ref(k))
	}
	return out
}

func genRandom(rng *rand.Rand, idx int, hist bool) tcase {
	nMods := 1 + rng.Intn(3)
	nSubs := rng.Intn(4)
	if rng.Intn(4) == 0 {
		nSubs = 0
	}
	var roots []*gRoot
	group := []int{}
	for m := 0; m < nMods; m++ {
		// own prefixes from a pool of two: different modules often declare the same prefix (legal)
		r := &gRoot{Name: fmt.Sprintf("m%d", m), Prefix: fmt.Sprintf("x%d", rng.Intn(2))}
		if rng.Intn(3) == 0 {
			r.Revisions = []string{fmt.Sprintf("2020-01-0%d", 1+rng.Intn(3))}
			if rng.Intn(3) == 0 {
				r.Revisions = append(r.Revisions, "2019-05-05")
			}
		}
		roots = append(roots, r)
		group = append(group, m)
	}
	for s := 0; s < nSubs; s++ {
		owner := rng.Intn(nMods)
		r := &gRoot{Name: fmt.Sprintf("s%d", s), Sub: true, BelongsTo: roots[owner].Name, Prefix: roots[owner].Prefix}
		g := owner
		if rng.Intn(4) == 0 {
			r.Prefix = fmt.Sprintf("y%d", s) // a submodule may call its module by another prefix
		}
		if rng.Intn(25) == 0 {
			r.BelongsTo = "ghost"
			g = -1
		}
		roots = append(roots, r)
		group = append(group, g)
		// who includes it
		switch p := rng.Intn(100); {
		case p < 50:
			roots[owner].Includes = append(roots[owner].Includes, r.Name)
		case p < 80:
			// nested: another submodule (earlier or itself for a self include), else the owner
			if s > 0 {
				k := nMods + rng.Intn(s+1)
				roots[k].Includes = append(roots[k].Includes, r.Name)
				if rng.Intn(5) == 0 { // include cycle
					r.Includes = append(r.Includes, roots[k].Name)
				}
			} else {
				roots[owner].Includes = append(roots[owner].Includes, r.Name)
			}
		case p < 87:
			k := rng.Intn(nMods) // some module, perhaps not the owner
			roots[k].Includes = append(roots[k].Includes, r.Name)
		default: // nobody includes it
		}
	}
	nIds := 1 + rng.Intn(12)
	var ids []rIdent
	used := map[string]bool{} // group:name (and root:name for ownerless groups)
	for k := 0; k < nIds; k++ {
		root := rng.Intn(len(roots))
		var name string
		for try := 0; ; try++ {
			name = namePool[rng.Intn(len(namePool))]
			if len(ids) > 0 && rng.Intn(3) == 0 {
				name = ids[rng.Intn(len(ids))].name // equal names in different modules
			}
			key := fmt.Sprintf("%d:%s", group[root], name)
			if group[root] < 0 {
				key = fmt.Sprintf("r%d:%s", root, name)
			}
			if !used[key] {
				used[key] = true
				break
			}
			if try > 40 {
				name = fmt.Sprintf("u%d", k)
				break
			}
		}
		ids = append(ids, rIdent{root: root, group: group[root], name: name})
	}
	// reference to identity `to` (or to a name that does not exist) written in root `from`
	ref := func(from int, toGroup int, toName string) string {
		fr := roots[from]
		if toGroup == group[from] && toGroup >= 0 {
			if rng.Intn(2) == 0 {
				return toName
			}
			return fr.Prefix + ":" + toName
		}
		if toGroup < 0 {
			return toName // identity of an ownerless submodule: cannot be named from outside
		}
		target := roots[toGroup]
		for _, im := range fr.Imports {
			if im.Name == target.Name && rng.Intn(4) != 0 {
				return im.Prefix + ":" + toName
			}
		}
		// import prefixes are chosen independently of the own prefixes; legal by default: not the
		// importer's own prefix, not a prefix the importer already uses
		legal := func(p string) bool {
			if p == fr.Prefix {
				return false
			}
			for _, o := range fr.Imports {
				if o.Prefix == p {
					return false
				}
			}
			return true
		}
		im := gImport{Name: target.Name, Prefix: fmt.Sprintf("i%d", len(fr.Imports))}
		if rng.Intn(4) == 0 && legal(target.Prefix) {
			im.Prefix = target.Prefix // the customary choice
		} else {
			for _, k := range rng.Perm(len(prefixPool)) {
				if legal(prefixPool[k]) {
					im.Prefix = prefixPool[k]
					break
				}
			}
		}
		switch rng.Intn(40) { // rarely an illegal clash, to see that Go and model agree there too
		case 0:
			im.Prefix = fr.Prefix // clashes with the own prefix: the own module wins
		case 1:
			im.Prefix = prefixPool[rng.Intn(len(prefixPool))] // perhaps used already: the first import wins
		}
		if len(target.Revisions) > 0 && rng.Intn(2) == 0 {
			im.RevDate = target.Revisions[0]
			if rng.Intn(6) == 0 {
				im.RevDate = "2001-01-01" // no such revision: the lookup falls back to the bare name
			}
		}
		fr.Imports = append(fr.Imports, im)
		return im.Prefix + ":" + toName
	}
	cyclic := rng.Intn(6) == 0
	for k := range ids {
		id := gIdent{Name: ids[k].name}
		nb := 0
		switch p := rng.Intn(100); {
		case p < 30:
		case p < 72:
			nb = 1
		case p < 93:
			nb = 2
		default:
			nb = 3
		}
		for b := 0; b < nb; b++ {
			switch p := rng.Intn(100); {
			case p < 4:
				id.Bases = append(id.Bases, ref(ids[k].root, ids[k].group, "nosuch"))
			case p < 6 && nMods > 1:
				id.Bases = append(id.Bases, ref(ids[k].root, (max(ids[k].group, 0)+1)%nMods, "nosuch"))
			case p < 8:
				id.Bases = append(id.Bases, "zz:"+ids[rng.Intn(len(ids))].name)
			default:
				t := k
				if cyclic && rng.Intn(3) == 0 {
					t = rng.Intn(len(ids)) // any identity, itself included
				} else if k > 0 {
					t = rng.Intn(k) // an earlier one: acyclic
				} else {
					continue
				}
				id.Bases = append(id.Bases, ref(ids[k].root, ids[t].group, ids[t].name))
				if rng.Intn(25) == 0 { // the same base written twice
					id.Bases = append(id.Bases, id.Bases[len(id.Bases)-1])
				}
			}
		}
		roots[ids[k].root].Idents = append(roots[ids[k].root].Idents, id)
	}
	if rng.Intn(40) == 0 { // an identity statement written twice in one root
		r := roots[ids[0].root]
		r.Idents = append(r.Idents, gIdent{Name: ids[0].name})
	}
	if rng.Intn(50) == 0 { // an import of something that is not loaded
		r := roots[rng.Intn(len(roots))]
		r.Imports = append(r.Imports, gImport{Name: "absent", Prefix: "ab"})
	}
	if rng.Intn(60) == 0 { // an include of something that is not loaded
		r := roots[rng.Intn(len(roots))]
		r.Includes = append(r.Includes, "nosub")
	}
	nLeaves := rng.Intn(3)
	for l := 0; l < nLeaves; l++ {
		from := rng.Intn(len(roots))
		lf := gLeaf{Name: fmt.Sprintf("l%d", l), HasBase: true, Form: rng.Intn(4)}
		switch p := rng.Intn(100); {
		case p < 3:
			lf.HasBase = false
		case p < 8:
			lf.Base = "nosuch"
		case p < 11:
			lf.Base = "zz:top"
		default:
			t := rng.Intn(len(ids))
			lf.Base = ref(from, ids[t].group, ids[t].name)
			if rng.Intn(2) == 0 {
				// a union of 2-3 identityrefs, homonyms in other modules first
				lf.Form = 4 + rng.Intn(5)
				lf.More = moreBases(rng, ids, t, func(k int) string { return ref(from, ids[k].group, ids[k].name) })
				if rng.Intn(12) == 0 {
					lf.More = append(lf.More, lf.Base) // the same base twice: one member is kept
				}
				if rng.Intn(15) == 0 {
					lf.More = append(lf.More, "nosuch")
				}
			}
		}
		roots[from].Leaves = append(roots[from].Leaves, lf)
	}
	// Borrowed prefixes: a base or identityref statement in a submodule uses a prefix that the
	// submodule itself does not bind - only the module it belongs to, or a sibling submodule,
	// imports something under it (and that module has an identity of the name).  Prefixes resolve
	// through the imports of the declaring (sub)module: undefined, to be reported.  Mirrored: the
	// submodule binds the same prefix to ANOTHER module than its owner does; its own import counts.
	for si := nMods; si < len(roots); si++ {
		S := roots[si]
		if group[si] < 0 || rng.Intn(2) == 0 {
			continue
		}
		bound := map[string]bool{S.Prefix: true}
		for _, im := range S.Imports {
			bound[im.Prefix] = true
		}
		var lend []gImport
		for ri, R := range roots {
			if ri != si && group[ri] == group[si] {
				for _, im := range R.Imports {
					if !bound[im.Prefix] {
						lend = append(lend, im)
					}
				}
			}
		}
		if len(lend) == 0 {
			continue
		}
		im := lend[rng.Intn(len(lend))]
		namesOf := func(g int) []string {
			var out []string
			for _, id := range ids {
				if id.group == g {
					out = append(out, id.name)
				}
			}
			return out
		}
		ti := -1
		for k := 0; k < nMods; k++ {
			if roots[k].Name == im.Name {
				ti = k
			}
		}
		if ti < 0 || len(namesOf(ti)) == 0 {
			continue
		}
		names := namesOf(ti)
		if rng.Intn(3) == 0 {
			// mirrored: the submodule imports another module under that prefix
			for _, a := range rng.Perm(nMods) {
				if a != ti && a != group[si] && len(namesOf(a)) > 0 {
					S.Imports = append(S.Imports, gImport{Name: roots[a].Name, Prefix: im.Prefix})
					names = namesOf(a)
					break
				}
			}
		}
		base := im.Prefix + ":" + names[rng.Intn(len(names))]
		kind := rng.Intn(3)
		if kind != 1 {
			S.Idents = append(S.Idents, gIdent{Name: fmt.Sprintf("lend%d", si), Bases: []string{base}})
		}
		if kind != 0 {
			S.Leaves = append(S.Leaves, gLeaf{Name: fmt.Sprintf("b%d", si), HasBase: true, Base: base, Form: rng.Intn(4)})
		}
	}
	if hist {
		// A history: everything is loaded and processed, then a NEWER REVISION of a module or
		// submodule that declares identities arrives and Process runs again.  Identityrefs in all
		// four forms name an identity of it, from other roots and from itself.
		var cand []int
		for k := range ids {
			if ids[k].group >= 0 {
				cand = append(cand, k)
			}
		}
		if len(cand) > 0 {
			t := cand[rng.Intn(len(cand))]
			ri := ids[t].root
			R := roots[ri]
			if len(R.Revisions) == 0 && rng.Intn(2) == 0 {
				R.Revisions = []string{"2020-01-01"}
			}
			// else R stays without revision: the revision that arrives later takes over its name
			// altogether (an unrevisioned module or submodule ranks below every revision)
			for form := 0; form < 4; form++ {
				from := rng.Intn(len(roots))
				if form == 0 && len(roots) > 1 {
					for from == ri {
						from = rng.Intn(len(roots))
					}
				}
				roots[from].Leaves = append(roots[from].Leaves, gLeaf{Name: fmt.Sprintf("h%d", form), HasBase: true, Form: form,
					Base: ref(from, ids[t].group, ids[t].name)})
			}
			mf := rng.Intn(len(roots))
			roots[mf].Leaves = append(roots[mf].Leaves, gLeaf{Name: "h4", HasBase: true, Form: 4 + rng.Intn(5),
				Base: ref(mf, ids[t].group, ids[t].name),
				More: moreBases(rng, ids, t, func(k int) string { return ref(mf, ids[k].group, ids[k].name) })})
			R2 := *R
			R2.Revisions = append([]string{"2023-03-03"}, R.Revisions...)
			R2.Idents = append([]gIdent(nil), R.Idents...)
			// the newer text may have DROPPED or RENAMED identities (preferably ones that have a base,
			// rarely the referenced one): their keys must vanish from the lists of their bases
			if p := rng.Intn(100); p < 60 && len(R2.Idents) > 0 {
				var withBase, any []int
				for k, id := range R2.Idents {
					if id.Name == ids[t].name && rng.Intn(8) != 0 {
						continue
					}
					any = append(any, k)
					if len(id.Bases) > 0 {
						withBase = append(withBase, k)
					}
				}
				pool := withBase
				if len(pool) == 0 || rng.Intn(5) == 0 {
					pool = any
				}
				if len(pool) > 0 {
					d := pool[rng.Intn(len(pool))]
					if p < 40 {
						R2.Idents = append(append([]gIdent(nil), R2.Idents[:d]...), R2.Idents[d+1:]...)
					} else {
						ren := R2.Idents[d]
						ren.Name = "renamed"
						R2.Idents[d] = ren
					}
				}
			}
			if rng.Intn(3) != 0 {
				R2.Idents = append(R2.Idents, gIdent{Name: "newer", Bases: []string{ids[t].name}})
			}
			if rng.Intn(4) == 0 && len(R2.Idents) > 1 {
				R2.Idents[len(R2.Idents)-1], R2.Idents[0] = R2.Idents[0], R2.Idents[len(R2.Idents)-1]
			}
			rng.Shuffle(len(roots), func(i, j int) { roots[i], roots[j] = roots[j], roots[i] })
			split := len(roots)
			roots = append(roots, &R2)
			return tcase{Tag: fmt.Sprintf("history #%d", idx), Files: filesOfRev(roots), Runs: 3, Split: split}
		}
	}
	if len(roots[0].Revisions) > 0 && rng.Intn(12) == 0 {
		// a second revision of module m0 (older or newer): same keys in the identity dictionary
		dup := *roots[0]
		dup.Revisions = []string{[]string{"2018-08-08", "2022-02-02"}[rng.Intn(2)]}
		dup.Idents = nil
		for k, id := range roots[0].Idents {
			if k%2 == 1 {
				id.Bases = nil
			}
			dup.Idents = append(dup.Idents, id)
		}
		if len(dup.Idents) > 0 {
			dup.Idents = append(dup.Idents, gIdent{Name: "extra", Bases: []string{dup.Idents[0].Name}})
		}
		dup.Leaves = nil
		roots = append(roots, &dup)
	}
	rng.Shuffle(len(roots), func(i, j int) { roots[i], roots[j] = roots[j], roots[i] })
	return tcase{Tag: fmt.Sprintf("random #%d", idx), Files: filesOfRev(roots), Runs: 4}
}

// ---------------------------------------------------------------------------------------------
// generator 3: several derivation cycles, one derived from the other
//
// 2-4 cycles of 1-3 identities each; a later cycle is usually DERIVED from an earlier one: one of
// its members has a further base statement that names a member of the earlier cycle (so the lower
// cycle lies in the closure of every member of the upper one, and is a cycle of its own all the
// same).  Around them: identities derived from a cycle member, roots that a cycle member is based
// on, now and then an undefined base on a cycle member.  Layouts: everything in one module | one
// module per cycle | identities dealt out over 2-3 modules and their submodules.  Module names and
// identity names are dealt out by a shuffle, so every order of the keys module:identity between
// upper and lower cycles turns up.  Each cycle and each undefined base has to be reported by an
// error of its own (Goyang.Spec.Identity.judgeReports).

func genCycles(rng *rand.Rand, idx int) tcase {
	layout := rng.Intn(3)
	nCyc := 2 + rng.Intn(3)
	nMods := 1
	switch layout {
	case 1:
		nMods = nCyc
	case 2:
		nMods = 2 + rng.Intn(2)
	}
	modNames := []string{"ma", "mb", "mc", "md", "m-e", "Mf"}
	rng.Shuffle(len(modNames), func(i, j int) { modNames[i], modNames[j] = modNames[j], modNames[i] })
	var roots []*gRoot
	var group []int
	for m := 0; m < nMods; m++ {
		roots = append(roots, &gRoot{Name: modNames[m], Prefix: fmt.Sprintf("x%d", rng.Intn(2))})
		group = append(group, m)
	}
	if layout == 2 {
		for m := 0; m < nMods; m++ {
			if rng.Intn(2) == 0 {
				sub := &gRoot{Name: "s-" + modNames[m], Sub: true, BelongsTo: modNames[m], Prefix: roots[m].Prefix}
				roots[m].Includes = append(roots[m].Includes, sub.Name)
				roots = append(roots, sub)
				group = append(group, m)
			}
		}
	}
	names := append([]string(nil), namePool...)
	names = append(names, "P1", "P2", "Q1", "Q2", "c1", "c2", "k", "zz")
	rng.Shuffle(len(names), func(i, j int) { names[i], names[j] = names[j], names[i] })
	type cid struct {
		root  int
		name  string
		bases []string
	}
	var ids []cid
	taken := map[string]int{} // names handed out per module group: equal names in different modules are fine
	newID := func(root int) int {
		g := group[root]
		k := taken[fmt.Sprint(g)]
		taken[fmt.Sprint(g)] = k + 1
		// every group walks the shuffled pool from another offset: homonyms across modules are common,
		// within a group the names are distinct (at most 16 identities per group, 24 names)
		ids = append(ids, cid{root: root, name: names[(k+g*3)%len(names)]})
		return len(ids) - 1
	}
	ref := func(from, to int) string {
		fr := roots[ids[from].root]
		if group[ids[from].root] == group[ids[to].root] {
			if rng.Intn(2) == 0 {
				return ids[to].name
			}
			return fr.Prefix + ":" + ids[to].name
		}
		target := roots[group[ids[to].root]]
		for _, im := range fr.Imports {
			if im.Name == target.Name {
				return im.Prefix + ":" + ids[to].name
			}
		}
		im := gImport{Name: target.Name, Prefix: fmt.Sprintf("i%d", len(fr.Imports))}
		fr.Imports = append(fr.Imports, im)
		return im.Prefix + ":" + ids[to].name
	}
	pickRoot := func(c int) int {
		switch layout {
		case 0:
			return 0
		case 1:
			return c
		}
		return rng.Intn(len(roots))
	}
	var cycles [][]int
	for c := 0; c < nCyc; c++ {
		ln := 1 + rng.Intn(3)
		var mem []int
		home := pickRoot(c)
		for k := 0; k < ln; k++ {
			r := home
			if layout == 2 && rng.Intn(3) == 0 {
				r = rng.Intn(len(roots)) // a cycle that runs through several modules
			}
			mem = append(mem, newID(r))
		}
		cycles = append(cycles, mem)
	}
	for c, mem := range cycles {
		for k, id := range mem {
			ids[id].bases = append(ids[id].bases, ref(id, mem[(k+1)%len(mem)]))
		}
		if c > 0 && rng.Intn(8) != 0 {
			// derived from an earlier cycle through a further base statement of one member
			up := cycles[rng.Intn(c)]
			id := mem[rng.Intn(len(mem))]
			b := ref(id, up[rng.Intn(len(up))])
			if rng.Intn(2) == 0 {
				ids[id].bases = append(ids[id].bases, b)
			} else {
				ids[id].bases = append([]string{b}, ids[id].bases...) // written before the base that closes the cycle
			}
			if c > 1 && rng.Intn(4) == 0 { // and from a second one
				up2 := cycles[rng.Intn(c)]
				id2 := mem[rng.Intn(len(mem))]
				ids[id2].bases = append(ids[id2].bases, ref(id2, up2[rng.Intn(len(up2))]))
			}
		}
	}
	nCycIds := len(ids)
	for k, extra := 0, rng.Intn(4); k < extra; k++ {
		t := rng.Intn(nCycIds)
		id := newID(pickRoot(rng.Intn(nCyc)))
		if rng.Intn(3) == 0 {
			ids[t].bases = append(ids[t].bases, ref(t, id)) // a root that a cycle member is based on
		} else {
			ids[id].bases = append(ids[id].bases, ref(id, t)) // derived from a cycle member
		}
	}
	if rng.Intn(5) == 0 {
		t := rng.Intn(nCycIds)
		ids[t].bases = append(ids[t].bases, []string{"nosuch", "zz:" + ids[t].name, roots[ids[t].root].Prefix + ":nosuch"}[rng.Intn(3)])
	}
	// the statements of one root in shuffled order
	for _, k := range rng.Perm(len(ids)) {
		roots[ids[k].root].Idents = append(roots[ids[k].root].Idents, gIdent{Name: ids[k].name, Bases: ids[k].bases})
	}
	if rng.Intn(2) == 0 {
		t := rng.Intn(len(ids))
		from := newID(ids[t].root) // only to write the reference from t's root; not declared
		lf := gLeaf{Name: "l0", HasBase: true, Form: rng.Intn(4), Base: ref(from, t)}
		roots[ids[t].root].Leaves = append(roots[ids[t].root].Leaves, lf)
	}
	rng.Shuffle(len(roots), func(i, j int) { roots[i], roots[j] = roots[j], roots[i] })
	return tcase{Tag: fmt.Sprintf("cycles #%d", idx), Files: filesOf(roots), Runs: 3}
}

// ---------------------------------------------------------------------------------------------
// seed cases (witnesses of the defects that were repaired, and the shapes the property names)

func seedCases() []tcase {
	mk := func(tag string, texts ...string) tcase {
		tc := tcase{Tag: "seed " + tag, Runs: 6}
		for i, t := range texts {
			tc.Files = append(tc.Files, srcFile{Name: fmt.Sprintf("f%d.yang", i), Text: t})
		}
		return tc
	}
	mkH := func(tag string, split int, texts ...string) tcase {
		tc := mk(tag, texts...)
		tc.Split = split
		return tc
	}
	return []tcase{
		mk("union of identityrefs on homonymous identities of two modules with the same own prefix",
			`module optics { namespace "urn:optics"; prefix acme; identity KIND; identity LASER { base KIND; } }`,
			`module power { namespace "urn:power"; prefix acme; identity KIND; identity PSU { base KIND; } }`,
			`module user { namespace "urn:user"; prefix u; import optics { prefix o; } import power { prefix p; }
			   typedef t-o { type identityref { base o:KIND; } } typedef t-p { type identityref { base p:KIND; } } typedef t-pp { type t-p; }
			   typedef both { type union { type identityref { base o:KIND; } type identityref { base p:KIND; } } } typedef both2 { type both; }
			   grouping g { leaf in-grouping { type union { type identityref { base p:KIND; } type identityref { base o:KIND; } type identityref { base p:KIND; } } } }
			   uses g;
			   leaf kind { type union { type identityref { base o:KIND; } type identityref { base p:KIND; } } }
			   leaf-list kinds { type union { type string; type identityref { base o:KIND; } type identityref { base p:KIND; } } }
			   leaf via-typedefs { type union { type t-o; type t-pp; } }
			   leaf via-chain { type both2; } }`),
		mkH("history: unrevisioned module superseded by a revision that dropped and renamed identities", 2,
			`module kinds { namespace "urn:kinds"; prefix k; identity KIND; }`,
			`module vendor { namespace "urn:vendor"; prefix v; import kinds { prefix k; } identity LEGACY { base k:KIND; } identity CURRENT { base k:KIND; } identity OLDNAME { base CURRENT; } leaf l { type identityref { base k:KIND; } } }`,
			`module vendor { namespace "urn:vendor"; prefix v; import kinds { prefix k; } revision 2024-01-01; identity CURRENT { base k:KIND; } identity NEWNAME { base CURRENT; } leaf l { type identityref { base k:KIND; } } }`),
		mkH("history: later revision of an included submodule dropped an identity", 3,
			`module kinds { namespace "urn:kinds"; prefix k; identity KIND; }`,
			`module vendor { namespace "urn:vendor"; prefix v; include vendor-ids; leaf l { type union { type identityref { base CURRENT; } type identityref { base v:CURRENT; } } } }`,
			`submodule vendor-ids { belongs-to vendor { prefix v; } import kinds { prefix k; } revision 2020-01-01; identity LEGACY { base k:KIND; } identity CURRENT { base k:KIND; } identity SUB { base LEGACY; } }`,
			`submodule vendor-ids { belongs-to vendor { prefix v; } import kinds { prefix k; } revision 2024-01-01; identity CURRENT { base k:KIND; } }`),
		mkH("history: newer revision of the module that declares the base (identityref direct, leaf-list, union, typedef)", 2,
			`module base { namespace "urn:base"; prefix b; revision 2020-01-01; identity BASE; identity OLD { base BASE; } }`,
			`module user { namespace "urn:user"; prefix u; import base { prefix b; } identity MINE { base b:BASE; }
			   typedef base-ref { type identityref { base b:BASE; } }
			   leaf direct { type identityref { base b:BASE; } } leaf-list many { type identityref { base b:BASE; } }
			   leaf un { type union { type string; type identityref { base b:BASE; } } } leaf viatypedef { type base-ref; } }`,
			`module base { namespace "urn:base"; prefix b; revision 2021-01-01; revision 2020-01-01; identity BASE; identity OLD { base BASE; } identity NEW { base BASE; } }`),
		mkH("history: newer revision of the submodule that declares the base", 3,
			`module m { namespace "urn:m"; prefix m; include s; identity TOP; leaf direct { type identityref { base BASE; } } leaf un { type union { type string; type identityref { base m:BASE; } } } }`,
			`submodule s { belongs-to m { prefix m; } revision 2020-01-01; identity BASE { base TOP; } identity OLD { base BASE; } leaf insub { type identityref { base BASE; } } }`,
			`module n { namespace "urn:n"; prefix n; import m { prefix m; } identity Z { base m:BASE; } leaf-list far { type identityref { base m:BASE; } } }`,
			`submodule s { belongs-to m { prefix m; } revision 2022-02-02; identity BASE { base TOP; } identity OLD { base BASE; } identity NEW { base OLD; } leaf insub { type identityref { base BASE; } } }`),
		mk("submodule uses a prefix only its owner imports (identity base and identityref base)",
			`module bm { namespace "urn:bm"; prefix bm; identity root; identity known { base root; } }`,
			`module m { namespace "urn:m"; prefix m; import bm { prefix b; } include s; identity in-module { base b:root; } }`,
			`submodule s { belongs-to m { prefix m; } identity in-submodule { base b:root; } identity ok { base m:in-module; } leaf l { type identityref { base b:root; } } leaf-list ll { type identityref { base b:known; } } }`),
		mk("submodule uses a prefix only a sibling submodule imports",
			`module bm { namespace "urn:bm"; prefix bm; identity root; }`,
			`module m { namespace "urn:m"; prefix m; include s1; include s2; identity top; }`,
			`submodule s1 { belongs-to m { prefix m; } import bm { prefix b; } identity fine { base b:root; } }`,
			`submodule s2 { belongs-to m { prefix m; } identity borrowed { base b:root; } typedef t { type identityref { base b:root; } } leaf l { type t; } }`),
		mk("submodule and owner bind one prefix to different modules",
			`module b1 { namespace "urn:b1"; prefix b1; identity root; identity only1; }`,
			`module b2 { namespace "urn:b2"; prefix b2; identity root; identity only2; }`,
			`module m { namespace "urn:m"; prefix m; import b1 { prefix b; } include s; identity x { base b:root; } identity y { base b:only1; } }`,
			`submodule s { belongs-to m { prefix m; } import b2 { prefix b; } identity sx { base b:root; } identity sy { base b:only2; } identity sz { base b:only1; } leaf l { type identityref { base b:root; } } }`),
		mk("D3 self loop", `module m { namespace "urn:m"; prefix m; identity a { base a; } }`),
		mk("D3 two-cycle", `module m { namespace "urn:m"; prefix m; identity a { base b; } identity b { base a; } identity c { base a; } identity top; identity d { base top; } }`),
		mk("D3 cycle across modules",
			`module m { namespace "urn:m"; prefix m; import n { prefix n; } identity a { base n:b; } }`,
			`module n { namespace "urn:n"; prefix n; import m { prefix m; } identity b { base m:a; } }`),
		mk("two cycles, the lower one derived from the upper one through a second base (across modules; upper sorts first)",
			`module up { namespace "urn:up"; prefix u; identity P1 { base P2; } identity P2 { base P1; } }`,
			`module zdown { namespace "urn:zdown"; prefix d; import up { prefix u; } identity Q1 { base Q2; base u:P1; } identity Q2 { base Q1; } }`),
		mk("two cycles, the lower one derived from the upper one (across modules; lower sorts first)",
			`module zup { namespace "urn:zup"; prefix u; identity P1 { base P2; } identity P2 { base P1; } }`,
			`module down { namespace "urn:down"; prefix d; import zup { prefix u; } identity Q1 { base u:P2; base Q2; } identity Q2 { base Q1; } }`),
		mk("self loop derived from a self loop, both name orders, one module",
			`module m { namespace "urn:m"; prefix m; identity a { base a; } identity b { base b; base a; } identity z { base z; } identity y { base z; base m:y; } }`),
		mk("chain of three cycles over module and submodule, a tail and an undefined base",
			`module m { namespace "urn:m"; prefix m; include s; import n { prefix n; } identity c1 { base c2; } identity c2 { base c1; base n:k; } identity tail { base c1; } }`,
			`submodule s { belongs-to m { prefix mm; } identity b1 { base b1; base mm:c2; base nosuch; } }`,
			`module n { namespace "urn:n"; prefix n; identity k { base k2; } identity k2 { base k3; } identity k3 { base k; } }`),
		mk("two disjoint cycles and a cycle derived from both",
			`module m { namespace "urn:m"; prefix m; identity a { base b; } identity b { base a; } identity c { base c; } identity d { base e; base a; } identity e { base d; base c; } }`),
		mk("D25 equal names in three modules",
			`module i1 { namespace "urn:i1"; prefix i1; identity root; identity same { base root; } }`,
			`module i2 { namespace "urn:i2"; prefix i2; import i1 { prefix x; } identity same { base x:root; } }`,
			`module i3 { namespace "urn:i3"; prefix i3; import i1 { prefix x; } identity same { base x:root; } }`),
		mk("nested include",
			`module m { namespace "urn:m"; prefix m; include s1; identity top; identity c { base deep; } leaf l { type identityref { base deep; } } }`,
			`submodule s1 { belongs-to m { prefix m; } include s2; identity mid { base top; } }`,
			`submodule s2 { belongs-to m { prefix mm; } identity deep { base mm:mid; } }`),
		mk("include cycle",
			`module m { namespace "urn:m"; prefix m; include s1; identity top; }`,
			`submodule s1 { belongs-to m { prefix m; } include s2; identity a { base top; } }`,
			`submodule s2 { belongs-to m { prefix m; } include s1; identity b { base a; } }`),
		mk("D9 included submodule of an absent module",
			`module m { namespace "urn:m"; prefix m; include s; identity top; }`,
			`submodule s { belongs-to other { prefix o; } identity x { base top; } }`),
		mk("lone submodule", `submodule s { belongs-to other { prefix o; } identity x; identity y { base x; } leaf l { type identityref { base x; } } }`),
		mk("submodule nobody includes",
			`module m { namespace "urn:m"; prefix m; identity top; }`,
			`submodule s { belongs-to m { prefix m; } identity x { base top; } leaf l { type identityref { base top; } } }`),
		mk("diamond across two modules",
			`module a { namespace "urn:a"; prefix a; identity top; identity left { base top; } }`,
			`module b { namespace "urn:b"; prefix b; import a { prefix pa; } identity right { base pa:top; } identity bottom { base pa:left; base right; } leaf l { type identityref { base pa:top; } } }`),
		mk("dangling local, dangling remote, unknown prefix",
			`module a { namespace "urn:a"; prefix a; import b { prefix b; } identity x { base nosuch; } identity y { base b:nosuch; } identity z { base q:x; } identity w { base b:t; } }`,
			`module b { namespace "urn:b"; prefix b; identity t; }`),
		mk("identityref without base and with dangling base",
			`module a { namespace "urn:a"; prefix a; identity x; leaf l1 { type identityref; } leaf l2 { type identityref { base y; } } leaf l3 { type identityref { base x; } } }`),
		mk("import prefix equal to own prefix, two imports with one prefix",
			`module a { namespace "urn:a"; prefix a; import b { prefix a; } import c { prefix p; } import b { prefix p; } identity x { base a:x2; } identity x2; identity y { base p:t; } }`,
			`module b { namespace "urn:b"; prefix b; identity x2; identity t; }`,
			`module c { namespace "urn:c"; prefix c; identity t; }`),
		mk("revisions and revision-date",
			`module a { namespace "urn:a"; prefix a; import b { prefix b; revision-date 2020-01-01; } import c { prefix c; revision-date 1999-09-09; } identity x { base b:t; base c:t; } }`,
			`module b { namespace "urn:b"; prefix b; revision 2020-01-01; identity t; }`,
			`module c { namespace "urn:c"; prefix c; revision 2021-02-02; identity t; }`),
		mk("identity written twice",
			`module a { namespace "urn:a"; prefix a; identity x; identity y { base x; } identity x { base y; } }`),
		mk("two modules with the same own prefix and equal identity names under one ancestor",
			`module root { namespace "urn:root"; prefix r; identity ROOT; }`,
			`module alpha { namespace "urn:alpha"; prefix x; import root { prefix r; } import beta { prefix b; } identity KIND { base r:ROOT; } identity ALPHA-ONLY { base r:ROOT; } identity A2 { base b:KIND; } }`,
			`module beta { namespace "urn:beta"; prefix x; import root { prefix r; } import alpha { prefix a; } identity KIND { base r:ROOT; } identity BETA-ONLY { base KIND; } identity B2 { base a:KIND; } leaf l { type identityref { base r:ROOT; } } }`),
		mk("two revisions of one module",
			`module m { namespace "urn:m"; prefix m; revision 2019-01-01; identity a; identity x { base a; } }`,
			`module m { namespace "urn:m"; prefix m; revision 2020-01-01; identity a; identity y { base a; } }`,
			`module n { namespace "urn:n"; prefix n; import m { prefix m; } identity z { base m:a; } leaf l { type identityref { base m:a; } } }`),
		mk("three revisions, import by revision-date",
			`module m { namespace "urn:m"; prefix m; revision 2019-01-01; identity a; identity x { base a; } }`,
			`module m { namespace "urn:m"; prefix m; revision 2021-01-01; identity a; identity b { base a; } }`,
			`module m { namespace "urn:m"; prefix m; revision 2020-01-01; identity a; identity y { base a; base x; } }`,
			`module n { namespace "urn:n"; prefix n; import m { prefix m; revision-date 2019-01-01; } identity z { base m:a; base m:x; } }`),
		mk("missing import", `module a { namespace "urn:a"; prefix a; import gone { prefix g; } identity x { base g:t; } }`),
		mk("base named twice, multiple bases",
			`module a { namespace "urn:a"; prefix a; identity t; identity u; identity x { base t; base t; base u; } identity y { base x; base t; } }`),
	}
}

func corpusCases(dir string) []tcase {
	var out []tcase
	fs, _ := filepath.Glob(filepath.Join(dir, "*.json"))
	sort.Strings(fs)
	for _, f := range fs {
		b, err := os.ReadFile(f)
		if err != nil {
			continue
		}
		var tc tcase
		if json.Unmarshal(b, &tc) == nil && len(tc.Files) > 0 {
			tc.Tag = "corpus " + filepath.Base(f)
			if tc.Runs < 2 {
				tc.Runs = 4
			}
			out = append(out, tc)
		}
	}
	return out
}

// ---------------------------------------------------------------------------------------------
// comparison

func wireOf(tc tcase) (w string, err error) {
	defer func() {
		if r := recover(); r != nil {
			err = fmt.Errorf("parser panic: %v", r)
		}
	}()
	names := make([]string, len(tc.Files))
	texts := make([]string, len(tc.Files))
	for i, f := range tc.Files {
		names[i], texts[i] = f.Name, f.Text
	}
	return lib.WireFiles(names, texts)
}

// specRequest builds the spec.ident request for a Go dump of the form "ok items ; errors".
func specRequest(wire, goDump string) (string, bool) {
	if !strings.HasPrefix(goDump, "ok") {
		return "", false
	}
	parts := strings.SplitN(goDump[2:], " ;", 2)
	if len(parts) != 2 {
		return "", false
	}
	// the errors themselves (hex tokens file:line:col:class): the specification says which cycles and
	// which undefined bases have to be named by one
	return fmt.Sprintf("spec.ident %s |%s ;%s", wire, parts[0], parts[1]), true
}

func decodeDump(d string) string {
	fs := strings.Fields(d)
	for i, f := range fs {
		if i == 0 || f == ";" {
			continue
		}
		if b, err := lib.UnHex(f); err == nil {
			fs[i] = string(b)
		}
	}
	return strings.Join(fs, " ")
}

func decodeVerdict(v string) (string, string) {
	fs := strings.Fields(v)
	if len(fs) == 0 {
		return "", "no answer"
	}
	why := ""
	if len(fs) > 1 {
		if b, err := lib.UnHex(fs[1]); err == nil {
			why = string(b)
		}
	}
	switch fs[0] {
	case "violates":
		return "violates", why
	case "holds":
		return "holds", "the Go result satisfies the specification"
	case "outside":
		return "holds", "the specification makes no claim: " + why
	}
	return "", "unexpected spec answer " + v
}

func nontrivial(dump string) bool {
	// at least one identity with a non-empty list, or an identity error
	d := decodeDump(dump)
	for _, f := range strings.Fields(d) {
		if i := strings.Index(f, "="); i >= 0 && !strings.HasPrefix(f, "@") && i+1 < len(f) {
			return true
		}
		if strings.HasSuffix(f, ":cycle") || strings.Contains(f, ":identity-") {
			return true
		}
	}
	return false
}

func main() {
	for _, a := range os.Args[1:] {
		if a == "-child" {
			childMain()
			return
		}
	}
	flag.Bool("child", false, "internal: run as Go-side worker")
	streams := flag.String("streams", "all", "diagnosis: all | random (skip corpus, seeds and the small-graph enumeration) | cycles (only the multi-cycle schemas)")
	f := lib.ParseFlags()
	if f.Replay != "" {
		replay(f)
		return
	}
	res := lib.NewResult("C11", f)

	distinct := lib.NewDistinct()
	var nNontrivial, nCases, nReqs int64
	tags := map[string]int64{}
	outcomes := map[string]int64{}
	examined, concrete := 0, 0
	var nDiskRan, nDiskFound, nDiskExcl int64
	diskExclWhy := map[string]int64{}
	var one *lib.Driver
	defer func() {
		if one != nil {
			one.Close()
		}
	}()
	askOne := func(req string) (string, error) {
		if one == nil {
			d, err := lib.StartDriver(f.Driver)
			if err != nil {
				return "", err
			}
			one = d
		}
		return one.Ask(req)
	}

	// processBatch: Go (children), model and specification (driver), comparison.
	processBatch := func(cases []tcase) {
		goOut := runGo(cases, f.Procs)
		// disk cases: the reference runs, the model and the specification get the texts that ended
		// up loaded
		eff := make([]tcase, len(cases))
		for i, tc := range cases {
			eff[i] = tc
			if !tc.Disk {
				continue
			}
			dumps, loaded, has, ran, found, excl, why := splitMeta(goOut[i])
			if len(dumps) == 0 {
				dumps = []string{"crash empty answer of the child"}
			}
			goOut[i] = dumps
			if has {
				eff[i].Files = pickFiles(tc.Files, loaded)
			}
			nDiskRan += int64(ran)
			nDiskFound += int64(found)
			nDiskExcl += int64(excl)
			for _, w := range why {
				if fs := strings.SplitN(w, " ", 3); len(fs) == 3 {
					k := fs[2]
					if j := strings.Index(k, ": "); j >= 0 {
						k = k[:j]
					}
					diskExclWhy[k]++
				}
			}
		}
		var reqs []string
		type slot struct{ m0, m1, spec int }
		slots := make([]slot, len(cases))
		for i, tc := range cases {
			w, err := wireOf(eff[i])
			if err != nil {
				res.AddDisagreement(lib.Disagreement{Kind: "crash", Input: tc, Go: err.Error(), What: "generic parser rejected a generated text", Replay: tc})
				slots[i] = slot{-1, -1, -1}
				continue
			}
			slots[i].m0 = len(reqs)
			reqs = append(reqs, "ident 0 "+w)
			slots[i].m1 = len(reqs)
			reqs = append(reqs, fmt.Sprintf("ident %d %s", 3+2*(i%7), w))
			slots[i].spec = -1
			if sr, ok := specRequest(w, goOut[i][0]); ok {
				slots[i].spec = len(reqs)
				reqs = append(reqs, sr)
			}
		}
		ans, err := lib.ParBatch(f.Driver, reqs, f.Procs)
		if err != nil {
			lib.Fatal("driver: %v", err)
		}
		nReqs += int64(len(reqs))
		nCases += int64(len(cases))
		for i, tc := range cases {
			if slots[i].m0 < 0 {
				continue
			}
			g := goOut[i]
			model := ans[slots[i].m0]
			modelB := ans[slots[i].m1]
			if strings.HasPrefix(model, "linkfail") {
				model = "linkfail" // which includes fail first is outside this model; only the fact is compared
			}
			if strings.HasPrefix(modelB, "linkfail") {
				modelB = "linkfail"
			}
			tags[strings.Fields(tc.Tag)[0]]++
			outcomes[strings.Fields(g[0])[0]]++
			if distinct.Add(tc.key()) && nontrivial(g[0]) {
				nNontrivial++
			}
			if i%(len(cases)/3+1) == 1 {
				res.AddSample(map[string]any{"tag": tc.Tag, "files": tc.Files, "go": decodeDump(g[0]), "model": decodeDump(model)})
			}
			report := func(d lib.Disagreement) {
				// at most 50 are recorded; beyond that, up to 20 more of those that come with a concrete
				// failing input (specification violated), so that a flood of model/Go differences on
				// which the specification is satisfied does not crowd them out
				if examined >= 50 && !(d.SpecVerdict == "violates" && concrete < 20) {
					res.Count("disagreements_not_examined", 1)
					return
				}
				examined++
				if d.SpecVerdict == "violates" {
					concrete++
				}
				d.Input = tc
				d.Replay = tc
				res.AddDisagreement(d)
			}
			if g[0] == "skipped" {
				res.Count("skipped_after_mass_crash", 1)
				continue
			}
			crashed := false
			for k, d := range g {
				if strings.HasPrefix(d, "crash") {
					report(lib.Disagreement{Kind: "crash", Go: d, Model: decodeDump(model), SpecVerdict: "violates",
						What: fmt.Sprintf("Go crashed on run %d of this source set: %s", k, d)})
					crashed = true
					break
				}
			}
			if crashed {
				continue
			}
			differ := false
			for k := 0; k < len(g); k++ {
				if strings.HasPrefix(g[k], "second-process-differs") {
					parts := strings.SplitN(strings.TrimPrefix(g[k], "second-process-differs "), " ### ", 2)
					report(lib.Disagreement{Kind: "spec", Go: []string{decodeDump(parts[0]), decodeDump(parts[len(parts)-1])}, Model: decodeDump(model), SpecVerdict: "violates",
						What: fmt.Sprintf("a second Process() on the same Modules (run %d) gives a different result than the first", k)})
					differ = true
					break
				}
				if strings.HasPrefix(g[k], "disk-differs ") {
					fs := strings.SplitN(g[k], " ", 4)
					if len(fs) < 4 {
						continue
					}
					var sIdx int
					fmt.Sscanf(fs[1], "%d", &sIdx)
					ld := splitInts(fs[2])
					parts := strings.SplitN(fs[3], " ### ", 2)
					ref, got := parts[0], parts[len(parts)-1]
					why := "it is not an identity table at all (" + strings.Fields(got + " ?")[0] + ")"
					if w, err := wireOf(tcase{Files: pickFiles(tc.Files, ld)}); err == nil {
						if sr, ok := specRequest(w, got); ok {
							if a, err := askOne(sr); err == nil {
								_, why = decodeVerdict(a)
							}
						}
					}
					var handed, onPath []string
					isH := map[int]bool{}
					if sIdx >= 0 && sIdx < len(tc.Splits) {
						for _, j := range tc.Splits[sIdx] {
							isH[j] = true
							if j >= 0 && j < len(tc.Files) {
								handed = append(handed, tc.Files[j].Name)
							}
						}
					}
					for _, j := range ld {
						if !isH[j] && j >= 0 && j < len(tc.Files) {
							onPath = append(onPath, tc.Files[j].Name)
						}
					}
					one := tc
					if sIdx >= 0 && sIdx < len(tc.Splits) {
						one.Splits = [][]int{tc.Splits[sIdx]}
					}
					if examined < 50 {
						examined++
						res.AddDisagreement(lib.Disagreement{Kind: "spec", Input: one, Replay: one, SpecVerdict: "violates",
							Go:    []string{"all handed to Parse: " + decodeDump(ref), "files on disk:        " + decodeDump(got)},
							Model: decodeDump(model),
							What: fmt.Sprintf("files-on-disk run (handed to Parse: %s; read by Process from the search path: %s): spec on its result: %s; the identity lists / identityref bases / errors differ from those of fresh Modules that are handed the same loaded texts (which is what the model and the specification describe): a module that Process loads by itself is not treated as a loaded module",
								strings.Join(handed, " "), strings.Join(onPath, " "), why)})
					} else {
						res.Count("disagreements_not_examined", 1)
					}
					differ = true
					break
				}
				if strings.HasPrefix(g[k], "history-differs") || strings.HasPrefix(g[k], "toentry-first-differs") {
					what := "ToEntry of every (sub)module before the first Process"
					if strings.HasPrefix(g[k], "history-differs") {
						ho, sp := tc.history()
						what = fmt.Sprintf("history on one Modules (load files %v, Process, load files %v, Process)", ho[:sp], ho[sp:])
					}
					parts := strings.SplitN(g[k][strings.Index(g[k], " ")+1:], " ### ", 2)
					report(lib.Disagreement{Kind: "spec", Go: []string{"fresh:   " + decodeDump(parts[0]), "history: " + decodeDump(parts[len(parts)-1])}, Model: decodeDump(model), SpecVerdict: "violates",
						What: what + " ends with identity lists / identityref bases that differ from what fresh Modules with the same texts give (which is what the model and the specification say): an identityref does not point at the identity its base statement names now, or does not see its list"})
					differ = true
					break
				}
			}
			for k := 1; k < len(g) && !differ; k++ {
				if g[k] != g[0] {
					report(lib.Disagreement{Kind: "spec", Go: []string{decodeDump(g[0]), decodeDump(g[k])}, Model: decodeDump(model), SpecVerdict: "violates",
						What: fmt.Sprintf("the result for one source set differs between run 0 and run %d (fresh Modules, load order %v): it is not a function of the schema", k, eff[i].order(k))})
					differ = true
					break
				}
			}
			if differ {
				continue
			}
			verdict, why := "holds", "not evaluated (no identity table)"
			if slots[i].spec >= 0 {
				verdict, why = decodeVerdict(ans[slots[i].spec])
			}
			if model != modelB {
				report(lib.Disagreement{Kind: "correspondence", Go: decodeDump(g[0]), Model: []string{decodeDump(model), decodeDump(modelB)}, SpecVerdict: verdict,
					What: "the model's result depends on the map iteration oracle on this input; spec on the Go result: " + why})
				continue
			}
			if g[0] != model {
				report(lib.Disagreement{Kind: "correspondence", Go: decodeDump(g[0]), Model: decodeDump(model), SpecVerdict: verdict,
					What: "identity tables of Go and model differ; spec on the Go result: " + why})
				continue
			}
			if verdict == "violates" {
				report(lib.Disagreement{Kind: "spec", Go: decodeDump(g[0]), Model: decodeDump(model), SpecVerdict: "violates",
					What: "Go and model agree but the specification rejects the result: " + why})
			}
		}
	}

	// ---- corpus and seed witnesses, then the complete enumeration of small graphs
	first := append(corpusCases("corpus/C11"), seedCases()...)
	nSeed := len(first)
	small := enumerateSmall(3, 4, nil)
	if *streams != "random" && *streams != "cycles" {
		processBatch(append(first, small...))
	}

	// ---- seeded random schemas, in batches (bounded memory)
	nRandom := 24000
	runs := 4
	if f.Thorough() {
		nRandom = 1200000
		runs = 8
	}
	if *streams == "cycles" {
		nRandom = 0
	}
	const batch = 60000
	for lo := 0; lo < nRandom && examined < 50; lo += batch {
		hi := min(lo+batch, nRandom)
		cases := make([]tcase, 0, hi-lo)
		for i := lo; i < hi; i++ {
			tc := genRandom(f.Rand(1000+i), i, false)
			tc.Runs = runs
			cases = append(cases, tc)
		}
		processBatch(cases)
	}

	// ---- several cycles, one derived from the other
	nCycles := 1500
	if f.Thorough() {
		nCycles = 60000
	}
	if examined < 50 {
		cases := make([]tcase, 0, nCycles)
		for i := 0; i < nCycles; i++ {
			cases = append(cases, genCycles(f.Rand(3000000+i), i))
		}
		processBatch(cases)
	}

	// ---- histories: a newer revision of an identity-declaring (sub)module arrives between two Process calls
	nHist := 6000
	if f.Thorough() {
		nHist = 200000
	}
	if *streams == "cycles" {
		nHist = 0
	}
	for lo := 0; lo < nHist && examined < 50; lo += batch {
		hi := min(lo+batch, nHist)
		cases := make([]tcase, 0, hi-lo)
		for i := lo; i < hi; i++ {
			cases = append(cases, genRandom(f.Rand(5000000+i), i, true))
		}
		processBatch(cases)
	}

	// ---- files-on-disk runs: part of every set is found by Process on the search path
	var disk []tcase
	nDiskRandom := 4500
	if f.Thorough() {
		nDiskRandom = 200000
	}
	if *streams == "cycles" {
		nDiskRandom = 0
	}
	if *streams == "all" {
		disk = append(disk, diskSeeds()...)
		for k, tc := range seedCases() {
			if v, ok := diskVariant(tc, f.Rand(7000000+k)); ok {
				disk = append(disk, v)
			}
		}
		smallD := enumerateSmall(2, 3, nil)
		if f.Thorough() {
			k := 0
			smallD = enumerateSmall(3, 4, func() bool { k++; return k%4 == 0 })
		}
		for k, tc := range smallD {
			if v, ok := diskVariant(tc, f.Rand(7100000+k)); ok {
				disk = append(disk, v)
			}
		}
	}
	for i := 0; i < nDiskRandom; i++ {
		rng := f.Rand(9000000 + i)
		if v, ok := diskVariant(genRandom(rng, i, i%5 == 4), rng); ok {
			disk = append(disk, v)
		}
	}
	for lo := 0; lo < len(disk) && examined < 50; lo += batch {
		processBatch(disk[lo:min(lo+batch, len(disk))])
	}

	res.Evaluations = nCases
	res.DistinctNontrivial = nNontrivial
	res.Exhaustive = true
	res.Rule = "source sets = corpus + seed witnesses + COMPLETE enumeration of small graphs (all directed graphs incl. self-loops on <= 3 identities and all DAGs on 4 identities; every assignment of the identities to two roots; roots = two modules importing each other | module + included submodule; distinct names | equal names across the two modules; the two modules with different | the same own prefix; bases written with and without prefix; one identityref leaf) + seeded random schemas (1-3 modules, 0-3 submodules included directly / by another submodule / by a foreign module / by nobody / belonging to an absent module, include cycles, 1-12 identities with 0-3 bases, names from a pool with upper/lower case and punctuation, own prefixes from a pool of two (modules often share one), import prefixes independent and legal by default, rarely clashing, names reused across modules, revisions and revision-dates, cycles, dangling and unknown-prefix bases, duplicate statements, missing imports/includes, bases and identityrefs in submodules under a prefix that only the owner or a sibling submodule imports (also with the submodule binding that prefix to another module), identityref leaves, leaf-lists, unions of 1-4 identityrefs (homonymous identities of modules with one own prefix first; on leaf, leaf-list, behind typedef chains, over typedef'd members, in a used grouping) and typedef'd identityrefs) + seeded multi-cycle schemas (2-4 derivation cycles of 1-3 identities, a later cycle usually derived from an earlier one through a further base statement of one member, tails, roots, now and then an undefined base; one module | one module per cycle | 2-3 modules with submodules; module and identity names dealt out by a shuffle so that every key order between upper and lower cycle occurs) + seeded histories (such a schema, then a newer revision of a module or submodule that declares a referenced identity - also superseding an UNREVISIONED text, and often with an identity dropped or renamed -, with identityrefs of all four forms naming it). Every set: several fresh Modules under permuted load orders, all Go results must be equal, a second Process, a history on one Modules (part of the texts, Process, the rest, Process) and ToEntry-before-Process must end in the same result (identityref items name the identity OBJECT by the revision that declares it and carry the list seen through it); Go result = model result (under two map-order oracles); specification evaluated on the Go result (lists, identityref targets, and the errors: every derivation cycle has to be named by a circular-derivation error at the identity statement of one of its members and every undefined base by an undefined-base error at the text that writes it). + files-on-disk cases (witnesses, the seed sets, all graphs on <= 2 and all DAGs on 3 identities of the small-graph space, seeded random schemas and histories; files named <module>[@<revision>].yang; per set up to five splits between 'handed to Parse' and 'lying in a directory on the search path, found by Process through an import or include': each single module alone (only the importer / only the declaring module), the modules nobody imports (tops of the import chains), all modules without their submodules, everything but one file; a submodule is handed over only with its module, and runs in which something is read after the linking walk - the shape of finding D04-P1 - are counted and not compared): the result of every such run must equal that of fresh Modules which are handed exactly the loaded texts, which in turn is compared with model and specification as for every other set. exhaustive refers to the small-graph space. distinct_nontrivial = distinct source sets whose Go result has an identity with a non-empty list or an identity/cycle error"
	res.Distribution["by_generator"] = tags
	res.Distribution["go_outcomes"] = outcomes
	res.Distribution["seed_and_corpus_cases"] = nSeed
	res.Distribution["small_graph_cases"] = len(small)
	res.Distribution["random_cases"] = nRandom
	res.Distribution["history_cases"] = nHist
	res.Distribution["cycle_cases"] = nCycles
	res.Distribution["go_runs_per_random_case"] = runs
	res.Distribution["driver_requests"] = nReqs
	res.Distribution["disk_cases"] = len(disk)
	res.Distribution["disk_random_sets_tried"] = nDiskRandom
	res.Distribution["disk_runs_compared"] = nDiskRan
	res.Distribution["disk_runs_in_which_process_read_a_file"] = nDiskFound
	res.Distribution["disk_runs_excluded"] = nDiskExcl
	res.Distribution["disk_runs_excluded_why"] = diskExclWhy
	res.Write(f.Out)
}

func replay(f *lib.Flags) {
	raw, err := os.ReadFile(f.Replay)
	if err != nil {
		lib.Fatal("%v", err)
	}
	var p struct {
		Disagreement struct {
			Replay json.RawMessage `json:"replay"`
		} `json:"disagreement"`
	}
	var tc tcase
	if json.Unmarshal(raw, &p) != nil || json.Unmarshal(p.Disagreement.Replay, &tc) != nil || len(tc.Files) == 0 {
		// a bare case file (corpus format) is accepted too
		if json.Unmarshal(raw, &tc) != nil || len(tc.Files) == 0 {
			lib.Fatal("no replayable case in %s", f.Replay)
		}
	}
	if tc.Runs < 2 {
		tc.Runs = 6
	}
	g := runGo([]tcase{tc}, 1)[0]
	orig := tc
	var diskNotes []string
	if tc.Disk {
		dumps, loaded, has, _, _, _, why := splitMeta(g)
		var refs []string
		for _, x := range dumps {
			if strings.HasPrefix(x, "disk-differs ") {
				diskNotes = append(diskNotes, x)
			} else {
				refs = append(refs, x)
			}
		}
		g = refs
		if len(g) == 0 {
			g = []string{"crash empty answer of the child"}
		}
		if has {
			tc.Files = pickFiles(tc.Files, loaded)
		}
		for _, w := range why {
			fmt.Println(w)
		}
	}
	d, err := lib.StartDriver(f.Driver)
	if err != nil {
		lib.Fatal("%v", err)
	}
	defer d.Close()
	w, err := wireOf(tc)
	if err != nil {
		lib.Fatal("%v", err)
	}
	m, _ := d.Ask("ident 0 " + w)
	if strings.HasPrefix(m, "linkfail") {
		m = "linkfail"
	}
	for _, fl := range orig.Files {
		fmt.Printf("--- %s\n%s", fl.Name, fl.Text)
	}
	bad := false
	if orig.Disk {
		fmt.Printf("files-on-disk case, splits (indices of the files handed to Parse; the others lie on the search path): %v\n", orig.Splits)
		fmt.Printf("reference runs: fresh Modules, handed the loaded texts:")
		for _, fl := range tc.Files {
			fmt.Printf(" %s", fl.Name)
		}
		fmt.Println()
		for _, x := range diskNotes {
			fs := strings.SplitN(x, " ", 4)
			if len(fs) < 4 {
				continue
			}
			parts := strings.SplitN(fs[3], " ### ", 2)
			var sIdx int
			fmt.Sscanf(fs[1], "%d", &sIdx)
			if sIdx >= 0 && sIdx < len(orig.Splits) {
				fmt.Printf("split %v, loaded files %s:\n", orig.Splits[sIdx], fs[2])
			}
			fmt.Printf("  all handed to Parse: %s\n  files on disk:        %s\n", decodeDump(parts[0]), decodeDump(parts[len(parts)-1]))
			if w2, err := wireOf(tcase{Files: pickFiles(orig.Files, splitInts(fs[2]))}); err == nil {
				if sr, ok := specRequest(w2, parts[len(parts)-1]); ok {
					sa, _ := d.Ask(sr)
					v, why := decodeVerdict(sa)
					fmt.Printf("  spec on the files-on-disk result: %s (%s)\n", v, why)
				}
			}
			bad = true
		}
	}
	for k, x := range g {
		fmt.Printf("go run %d (load order %v): %s\n", k, tc.order(k), decodeDump(x))
		if x != g[0] || strings.HasPrefix(x, "crash") {
			bad = true
		}
	}
	fmt.Printf("model:    %s\n", decodeDump(m))
	if sr, ok := specRequest(w, g[0]); ok {
		sa, _ := d.Ask(sr)
		v, why := decodeVerdict(sa)
		fmt.Printf("spec:     %s (%s)\n", v, why)
		if v == "violates" {
			bad = true
		}
	}
	if bad || g[0] != m {
		os.Exit(1)
	}
}
