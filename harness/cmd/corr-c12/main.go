// corr-c12: config inheritance and namespace attribution follow the instantiated tree.
//
// Three things are checked on every generated module set, on the tree of every module and on the
// own tree of every submodule (ToEntry(ms.SubModules[x]), not only its copy merged into the owner):
//  1. correspondence: ReadOnly(), Namespace().Name and InstantiatingModule() of every node of every
//     tree, as goyang computes them, equal what the Lean resolver model (drv_c12 = the model of
//     drv_res, dumping the submodule trees too) computes
//     (projection ro, ns, im of the canonical dump; ns/im of library-inserted case nodes are masked:
//     the property does not speak about them, DESIGN D39);
//  2. a Go-side oracle for the read-only rule, written from the property text and not from the
//     code: walking the real tree top-down, the pointer path decides — nearest explicit config
//     statement (as written according to the generator's table, else the entry's Config) says
//     false, or the path went through some RPC.Output pointer (position, not the Kind the library
//     wrote into the node) — and must equal
//     ReadOnly() wherever no `config true` lies below an output (inside rpc/action/notification the
//     property excludes config statements; such sets are generated at a low rate and compared only
//     outside that exclusion);
//  3. a Go-side oracle for namespace attribution from generator knowledge (harness/gen/c12.go knows
//     which module's text placed every node: grouping content => the user, augment body => the
//     augmenting module's owner, submodule body => the owner): Namespace().Name and
//     InstantiatingModule() of every node must be those of the placing module. In a submodule's own
//     tree every node must report the module named by belongs-to (nothing is grafted there).
//
// A mismatch in 2 or 3 is a disagreement of kind "spec" with verdict "violates".
package main

import (
	"encoding/json"
	"fmt"
	"os"
	"sort"
	"strconv"
	"strings"

	"github.com/openconfig/goyang/pkg/yang"
	"verif/harness/gen"
	"verif/harness/lib"
	"verif/harness/rescorr"
)

var keys = []string{"kind", "ro", "ns", "im"}

// impliedCase: a case node whose only child has its name (what FixChoice inserts).
func impliedCase(e *yang.Entry) bool {
	if e.Kind != yang.CaseEntry || len(e.Dir) != 1 {
		return false
	}
	_, ok := e.Dir[e.Name]
	return ok
}

// How the walk reached a node: the oracles go by position in the tree (which pointer led here),
// never by the Kind the library wrote into the node.
const (
	viaRoot = iota
	viaDir
	viaInput
	viaOutput
)

type step struct {
	e   *yang.Entry
	via int
	// cfg is the node's explicit config statement: as written, when the provenance table knows the
	// node (the library may move or drop what it stored), else what the entry holds
	cfg yang.TriState
}

// unwrittenIO: an rpc/action input or output that Find created (reached through RPC.Input/Output,
// but its Node is not an input/output statement).
func unwrittenIO(s step) bool {
	if s.via != viaInput && s.via != viaOutput {
		return false
	}
	switch s.e.Node.(type) {
	case *yang.Input, *yang.Output:
		return false
	}
	return true
}

// answer is what a node says about its namespace.
type answer struct {
	ns    string
	nsNil bool
	im    string
	imErr error
}

func ask(e *yang.Entry) answer {
	var a answer
	if v := e.Namespace(); v != nil {
		a.ns = v.Name
	} else {
		a.nsNil = true
	}
	a.im, a.imErr = e.InstantiatingModule()
	return a
}

func (a answer) String() string {
	if a.imErr != nil {
		return fmt.Sprintf("ns=%q im=error", a.ns)
	}
	return fmt.Sprintf("ns=%q im=%q", a.ns, a.im)
}

// forEachNode visits every node of every module tree and then of every submodule's own tree, in
// the order of the dump (children by name, then input, then output).
func forEachNode(ms *yang.Modules, f func(key string, e *yang.Entry)) {
	var rec func(key string, e *yang.Entry, depth int)
	rec = func(key string, e *yang.Entry, depth int) {
		f(key, e)
		if depth > 64 {
			return
		}
		ks := make([]string, 0, len(e.Dir))
		for k := range e.Dir {
			ks = append(ks, k)
		}
		sort.Strings(ks)
		for _, k := range ks {
			rec(key+"/"+k, e.Dir[k], depth+1)
		}
		if e.RPC != nil {
			if e.RPC.Input != nil {
				rec(key+"/input", e.RPC.Input, depth+1)
			}
			if e.RPC.Output != nil {
				rec(key+"/output", e.RPC.Output, depth+1)
			}
		}
	}
	for _, m := range lib.DistinctModules(ms) {
		rec(m.FullName()+" /"+m.Name, yang.ToEntry(m), 0)
	}
	for _, m := range distinctSubs(ms) {
		rec("sub:"+m.FullName()+" /"+m.Name, yang.ToEntry(m), 0)
	}
}

// nsQueries derives the direct FindModuleByNamespace questions from the declared namespaces,
// exactly as lean/Drv/C12.lean does: every declared namespace and near-twin spellings of it.
func nsQueries(ms *yang.Modules) []string {
	const kelvin = "\u212a"
	asciiMap := func(s string, lo, hi rune, d rune) string {
		return strings.Map(func(r rune) rune {
			if r >= lo && r <= hi {
				return r + d
			}
			return r
		}, s)
	}
	variants := func(ns string) []string {
		trimmed := ns
		if strings.HasSuffix(ns, "/") || strings.HasSuffix(ns, " ") {
			trimmed = ns[:len(ns)-1]
		}
		return []string{ns, asciiMap(ns, 'a', 'z', -32), asciiMap(ns, 'A', 'Z', 32), ns + "/", ns + " ", trimmed,
			strings.ReplaceAll(strings.ReplaceAll(ns, "K", kelvin), "k", kelvin),
			strings.ReplaceAll(ns, kelvin, "K"), strings.ReplaceAll(ns, kelvin, "k"),
			strings.ReplaceAll(ns, "%2F", "%2f"), strings.ReplaceAll(ns, "%2f", "%2F"),
			strings.ReplaceAll(strings.ReplaceAll(ns, "%2F", "/"), "%2f", "/"), strings.ReplaceAll(ns, "/", "%2F")}
	}
	var declared []string
	seen := map[string]bool{}
	for _, m := range lib.DistinctModules(ms) {
		ns := ""
		if m.Namespace != nil {
			ns = m.Namespace.Name
		}
		if !seen[ns] {
			seen[ns] = true
			declared = append(declared, ns)
		}
	}
	sort.Strings(declared)
	var out []string
	seen = map[string]bool{}
	for _, ns := range declared {
		for _, q := range variants(ns) {
			if !seen[q] {
				seen[q] = true
				out = append(out, q)
			}
		}
	}
	return out
}

// direct asks FindModuleByNamespace for every derived question (in the given order) and holds the
// answers against the rule: the module(s) declaring exactly that string - one name => that name,
// none or several names => an error. Returns the `Q` records in question order.
func direct(ms *yang.Modules, reverse bool, label string, add func(string, ...any), cnt map[string]int) []string {
	qs := nsQueries(ms)
	recs := make([]string, len(qs))
	for n := range qs {
		i := n
		if reverse {
			i = len(qs) - 1 - n
		}
		q := qs[i]
		names := map[string]bool{}
		for _, m := range lib.DistinctModules(ms) {
			if m.Namespace != nil && m.Namespace.Name == q {
				names[m.Name] = true
			}
		}
		got, err := ms.FindModuleByNamespace(q)
		cnt["direct_namespace_questions"]++
		if len(names) == 0 {
			cnt["direct_namespace_questions_for_undeclared_spellings"]++
		}
		switch {
		case len(names) == 1 && (err != nil || got == nil || !names[got.Name]):
			add("%sFindModuleByNamespace(%q): got %v, %v; exactly one module name declares it", label, q, modName(got), err)
		case len(names) != 1 && err == nil:
			add("%sFindModuleByNamespace(%q) = %s, but %d module names declare exactly this string: must be an error", label, q, modName(got), len(names))
		}
		if err != nil || got == nil {
			recs[i] = "Q " + lib.HexS(q) + " !"
		} else {
			recs[i] = "Q " + lib.HexS(q) + " " + lib.HexS(got.Name)
		}
	}
	return recs
}

func modName(m *yang.Module) string {
	if m == nil {
		return "<nil>"
	}
	return m.Name
}

func hook(c rescorr.Case, ms *yang.Modules, errs []error, out *rescorr.GoOut) {
	if len(errs) > 0 {
		return
	}
	var expect map[string]gen.C12Expect
	if s := c.Extra["expect"]; s != "" {
		if err := json.Unmarshal([]byte(s), &expect); err != nil {
			out.Findings = append(out.Findings, "bad expectation table: "+err.Error())
			return
		}
	}
	add := func(format string, a ...any) {
		if len(out.Findings) < 10 {
			out.Findings = append(out.Findings, fmt.Sprintf(format, a...))
		}
	}
	cnt := map[string]int{}
	// first value: every node asked in dump order (DumpOutcome has done so once already), then
	// the direct questions
	fwd := map[string]answer{}
	subDump := examine(ms, expect, nil, "", add, cnt, fwd)
	subDump = append(subDump, direct(ms, false, "", add, cnt)...)
	if c.Extra["reverse"] == "1" {
		// a fresh value, every node asked in the opposite order: the answers must not depend on
		// what was asked before
		const label = "asked in reverse order on a fresh Modules value: "
		ms2, err := rescorr.Load(c)
		if err != nil {
			add("%ssecond load failed: %v", label, err)
		} else if errs2 := ms2.Process(); len(errs2) > 0 {
			add("%ssecond Process failed: %v", label, errs2[0])
		} else {
			var keys []string
			var nodes []*yang.Entry
			forEachNode(ms2, func(k string, e *yang.Entry) { keys = append(keys, k); nodes = append(nodes, e) })
			rev := map[string]answer{}
			for i := len(nodes) - 1; i >= 0; i-- {
				rev[keys[i]] = ask(nodes[i])
			}
			cnt2 := map[string]int{}
			got := map[string]answer{}
			examine(ms2, expect, rev, label, add, cnt2, got)
			cnt["nodes_asked_again_in_reverse_order"] += len(nodes)
			var ks []string
			for k := range fwd {
				ks = append(ks, k)
			}
			sort.Strings(ks)
			for _, k := range ks {
				a, b := fwd[k], got[k]
				if a.ns != b.ns || a.im != b.im || (a.imErr == nil) != (b.imErr == nil) {
					add("order of the questions changes the answer at %s: %v in dump order, %v in reverse order on a fresh value", k, a, b)
				}
			}
			direct(ms2, true, label, add, cnt)
		}
	}
	out.Extra = map[string][]string{"subdump": subDump}
	for k, v := range cnt {
		out.Extra[k] = []string{strconv.Itoa(v)}
	}
}

// examine runs the oracles over all trees of ms. answers == nil: the nodes are asked as the walk
// reaches them and the submodule trees are dumped; else the answers recorded beforehand are used.
// What every node answered is stored in got. Returns the dump of the submodule trees.
func examine(ms *yang.Modules, expect map[string]gen.C12Expect, answers map[string]answer, label string,
	add0 func(string, ...any), cnt map[string]int, got map[string]answer) []string {
	add := func(format string, a ...any) { add0(label+format, a...) }
	// are the namespaces of differently named modules distinct? (then InstantiatingModule must not fail)
	nsOwner := map[string]string{}
	distinctNS := true
	for _, m := range ms.Modules {
		if m.Namespace == nil {
			distinctNS = false
			continue
		}
		if o, ok := nsOwner[m.Namespace.Name]; ok && o != m.Name {
			distinctNS = false
		}
		nsOwner[m.Namespace.Name] = m.Name
	}
	visited := map[string]bool{}
	// subOwner is set while a submodule's own tree is walked: the module it belongs to.
	var subOwner *yang.Module
	// written: the config statement of the node at (tree, path)
	written := func(tree, path string, e *yang.Entry) yang.TriState {
		if expect != nil && subOwner == nil {
			if x, ok := expect[tree+" "+path]; ok {
				switch x.Cfg {
				case "true":
					return yang.TSTrue
				case "false":
					return yang.TSFalse
				}
				return yang.TSUnset
			}
		}
		return e.Config
	}
	// walk goes top-down through Dir, RPC.Input and RPC.Output; chain is the pointer path from the
	// root, path its rendering (the node's address in the tree, whatever Parent pointers say).
	var walk func(tree, path string, chain []step)
	walk = func(tree, path string, chain []step) {
		e := chain[len(chain)-1].e
		// --- read-only, declaratively over the path
		nearestFalse, inOutput, excluded, inOps, cfgInOps := false, false, false, false, false
		for i := len(chain) - 1; i >= 0; i-- {
			if chain[i].cfg != yang.TSUnset {
				nearestFalse = chain[i].cfg == yang.TSFalse
				break
			}
		}
		for _, s := range chain {
			x := s.e
			if inOutput && s.cfg == yang.TSTrue {
				excluded = true
			}
			if inOps && s.cfg != yang.TSUnset {
				cfgInOps = true
			}
			if s.via == viaOutput {
				inOutput = true
			}
			if _, isNotif := x.Node.(*yang.Notification); isNotif || x.RPC != nil || s.via == viaInput || s.via == viaOutput {
				inOps = true
			}
		}
		want := nearestFalse || inOutput
		switch {
		case excluded:
			cnt["ro_excluded(config true below output)"]++
		default:
			cnt["ro_checked"]++
			if cfgInOps {
				cnt["ro_checked_with_config_inside_ops"]++
			}
			if got := e.ReadOnly(); got != want {
				add("read-only rule: %s %s: ReadOnly()=%v, the path says %v (nearest explicit config false=%v, in output=%v)",
					tree, path, got, want, nearestFalse, inOutput)
			}
		}
		if want {
			cnt["ro_true"]++
		}
		// --- namespace attribution
		lib := impliedCase(e) || unwrittenIO(chain[len(chain)-1])
		key := tree + " " + path
		visited[key] = true
		var a answer
		if answers != nil {
			a = answers[key]
		} else {
			a = ask(e)
		}
		got[key] = a
		if a.nsNil {
			add("namespace: %s %s: Namespace() returned nil (documented: never nil)", tree, path)
		}
		ns, im, imErr := a.ns, a.im, a.imErr
		switch {
		case subOwner != nil:
			// a submodule's own tree: nothing is grafted there, so every node - written in the
			// submodule, brought in by its uses or by an include of another submodule - belongs to
			// the module named by belongs-to
			if lib {
				cnt["lib_nodes_skipped"]++
				break
			}
			cnt["ns_checked_in_submodule_tree"]++
			if ns != subOwner.Namespace.Name {
				add("namespace: %s (submodule tree): Namespace()=%q, want %q of the owning module", key, ns, subOwner.Namespace.Name)
			}
			if imErr != nil {
				add("instantiating module: %s (submodule tree): error %v, want %q", key, imErr, subOwner.Name)
			} else if im != subOwner.Name {
				add("instantiating module: %s (submodule tree): %q, want the owning module %q", key, im, subOwner.Name)
			}
		case expect != nil:
			x, ok := expect[key]
			switch {
			case !ok:
				add("tree shape: node %s is not in the generator's expectation", key)
			case x.Lib != lib:
				add("tree shape: node %s: library-inserted=%v, expected %v", key, lib, x.Lib)
			case x.Lib:
				cnt["lib_nodes_skipped"]++
			default:
				cnt["ns_checked"]++
				if x.By != x.IM {
					cnt["ns_checked_placed_by_submodule"]++
				}
				if ns != x.NS {
					add("namespace: %s placed by %s: Namespace()=%q, want %q", key, x.By, ns, x.NS)
				}
				if imErr != nil {
					add("instantiating module: %s placed by %s: error %v, want %q", key, x.By, imErr, x.IM)
				} else if im != x.IM {
					add("instantiating module: %s placed by %s: %q, want %q", key, x.By, im, x.IM)
				}
			}
		case !lib && distinctNS:
			// without generator knowledge: the answer must exist and be consistent
			cnt["im_consistency_checked"]++
			if imErr != nil {
				add("instantiating module: %s: error although namespaces are distinct: %v", key, imErr)
			} else if m := ms.Modules[im]; m == nil || m.Namespace == nil || m.Namespace.Name != ns {
				add("instantiating module: %s: %q does not declare namespace %q", key, im, ns)
			}
		}
		if len(chain) > 64 {
			add("tree shape: %s is deeper than 64 levels (a cycle of child pointers?)", key)
			return
		}
		next := func(c *yang.Entry, name string, via int) {
			walk(tree, path+"/"+name, append(chain[:len(chain):len(chain)], step{c, via, written(tree, path+"/"+name, c)}))
		}
		ks := make([]string, 0, len(e.Dir))
		for k := range e.Dir {
			ks = append(ks, k)
		}
		sort.Strings(ks)
		for _, k := range ks {
			next(e.Dir[k], k, viaDir)
		}
		if e.RPC != nil {
			if e.RPC.Input != nil {
				next(e.RPC.Input, "input", viaInput)
			}
			if e.RPC.Output != nil {
				next(e.RPC.Output, "output", viaOutput)
			}
		}
	}
	for _, m := range lib.DistinctModules(ms) {
		walk(m.FullName(), "/"+m.Name, []step{{yang.ToEntry(m), viaRoot, yang.TSUnset}})
	}
	// the submodules' own trees (ToEntry of the submodule, not the copy merged into the owner)
	var subDump []string
	for _, m := range distinctSubs(ms) {
		root := yang.ToEntry(m)
		if answers == nil {
			lib.DumpTree("sub:"+m.FullName(), root, &subDump)
		}
		if m.BelongsTo == nil {
			continue
		}
		if o := ms.Modules[m.BelongsTo.Name]; o != nil && o.Namespace != nil {
			subOwner = o
			walk("sub:"+m.FullName(), "/"+m.Name, []step{{root, viaRoot, yang.TSUnset}})
			subOwner = nil
		}
	}
	if expect != nil {
		var missing []string
		for k := range expect {
			if !visited[k] {
				missing = append(missing, k)
			}
		}
		sort.Strings(missing)
		for _, k := range missing {
			add("tree shape: expected node %s is missing", k)
		}
	}
	return subDump
}

// distinctSubs returns the distinct values of ms.SubModules sorted by full name.
func distinctSubs(ms *yang.Modules) []*yang.Module {
	seen := map[*yang.Module]bool{}
	var out []*yang.Module
	for _, m := range ms.SubModules {
		if !seen[m] {
			seen[m] = true
			out = append(out, m)
		}
	}
	sort.Slice(out, func(i, j int) bool { return out[i].FullName() < out[j].FullName() })
	return out
}

// goDump is the Go side of the comparison: the module trees, then the submodule trees.
func goDump(o rescorr.Outcome) []string {
	return append(append([]string{}, o.Go.Dump...), o.Go.Extra["subdump"]...)
}

type rec struct {
	mod, path string
	fields    map[string]string
}

func parseRec(r string) (rec, bool) {
	f := strings.Fields(r)
	if len(f) < 3 || f[0] != "N" {
		return rec{}, false
	}
	p, _ := lib.UnHex(f[2])
	x := rec{mod: f[1], path: string(p), fields: map[string]string{}}
	for _, kv := range f[3:] {
		if i := strings.IndexByte(kv, '='); i > 0 {
			x.fields[kv[:i]] = kv[i+1:]
		}
	}
	return x, true
}

// project keeps ro, ns, im of every node; ns and im of implied case nodes are masked. It also
// returns statistics of the dump.
func project(dump []string, st map[string]int) []string {
	recs := lib.Project(dump, keys, false)
	ps := make([]rec, len(recs))
	ok := make([]bool, len(recs))
	for i, r := range recs {
		ps[i], ok[i] = parseRec(r)
	}
	out := make([]string, 0, len(recs))
	rootNS := ""
	for i, r := range recs {
		if !ok[i] {
			out = append(out, r)
			continue
		}
		x := ps[i]
		if strings.Count(x.path, "/") == 1 {
			rootNS = x.fields["ns"]
		}
		implied := false
		if x.fields["kind"] == "Case" {
			n := 0
			last := ""
			for j := i + 1; j < len(recs) && ok[j] && ps[j].mod == x.mod && strings.HasPrefix(ps[j].path, x.path+"/"); j++ {
				rest := ps[j].path[len(x.path)+1:]
				if !strings.Contains(rest, "/") {
					n++
					last = rest
				}
			}
			implied = n == 1 && strings.HasSuffix(x.path, "/"+last)
		}
		if st != nil {
			st["nodes"]++
			if mb, _ := lib.UnHex(x.mod); strings.HasPrefix(string(mb), "sub:") {
				st["nodes_in_submodule_trees"]++
			}
			if x.fields["ro"] == "1" {
				st["nodes_read_only"]++
			}
			if x.fields["ns"] != rootNS {
				st["nodes_foreign_namespace"]++
			}
			if x.fields["kind"] == "Output" {
				st["output_nodes"]++
			}
			if implied {
				st["implied_cases_masked"]++
			}
			if x.fields["im"] == "!" {
				st["nodes_without_instantiating_module"]++
			}
		}
		if implied {
			out = append(out, fmt.Sprintf("N %s %s ro=%s ns=* im=*", x.mod, lib.HexS(x.path), x.fields["ro"]))
		} else {
			out = append(out, fmt.Sprintf("N %s %s ro=%s ns=%s im=%s", x.mod, lib.HexS(x.path), x.fields["ro"], x.fields["ns"], x.fields["im"]))
		}
	}
	return out
}

// corpus: hand-written witnesses with hand-written provenance tables ("tree path ns im", "-" = a
// node the library inserts).
func corpus() []rescorr.Case {
	mk := func(table string, texts ...string) rescorr.Case {
		var c rescorr.Case
		for i, t := range texts {
			c.Names = append(c.Names, fmt.Sprintf("c%d.yang", i))
			c.Texts = append(c.Texts, t)
		}
		tab := map[string]gen.C12Expect{}
		for _, line := range strings.Split(table, "\n") {
			f := strings.Fields(line)
			switch len(f) {
			case 3:
				tab[f[0]+" "+f[1]] = gen.C12Expect{Lib: true}
			case 4:
				tab[f[0]+" "+f[1]] = gen.C12Expect{NS: f[2], IM: f[3], By: f[3]}
			case 5: // with the config statement written on the node
				tab[f[0]+" "+f[1]] = gen.C12Expect{NS: f[2], IM: f[3], By: f[3], Cfg: strings.TrimPrefix(f[4], "cfg=")}
			}
		}
		b, _ := json.Marshal(tab)
		c.Extra = map[string]string{"expect": string(b), "reverse": "1"}
		return c
	}
	return []rescorr.Case{
		// D40: two revisions of one module, a third module augmenting it
		mk(`m@2019-01-01 /m urn:m m
			m@2019-01-01 /m/c urn:m m
			m@2019-01-01 /m/c/x urn:m m
			m@2020-01-01 /m urn:m m
			m@2020-01-01 /m/c urn:m m
			m@2020-01-01 /m/c/x urn:m m
			m@2020-01-01 /m/c/y urn:m m
			m@2020-01-01 /m/c/z urn:n n
			n /n urn:n n`,
			`module m { namespace "urn:m"; prefix m; revision 2019-01-01; container c { leaf x { type string; } } }`,
			`module m { namespace "urn:m"; prefix m; revision 2020-01-01; container c { leaf x { type string; } leaf y { type string; } } }`,
			`module n { namespace "urn:n"; prefix n; import m { prefix m; } augment /m:c { leaf z { type string; } } }`),
		// D39: augment adds a shorthand member to a choice
		mk(`a /a urn:a a
			a /a/ch urn:a a
			a /a/ch/k1 urn:a a
			a /a/ch/k1/l urn:a a
			a /a/ch/viaaug -
			a /a/ch/viaaug/viaaug urn:b b
			a /a/ch/viaaug/viaaug/y urn:b b
			b /b urn:b b`,
			`module a { namespace "urn:a"; prefix a; choice ch { case k1 { leaf l { type string; } } } }`,
			`module b { namespace "urn:b"; prefix b; import a { prefix a; } augment /a:ch { container viaaug { leaf y { type string; } } } }`),
		// grouping defined in a, used in b, with an action; config three levels up; rpc output
		mk(`a /a urn:a a
			b /b urn:b b
			b /b/top urn:b b cfg=false
			b /b/top/l1 urn:b b
			b /b/top/l1/l2 urn:b b
			b /b/top/l1/l2/gc urn:b b
			b /b/top/l1/l2/gc/gl urn:b b
			b /b/top/l1/l2/gc/act urn:b b
			b /b/top/l1/l2/gc/act/input urn:b b
			b /b/top/l1/l2/gc/act/input/i urn:b b
			b /b/top/l1/l2/gc/act/output urn:b b
			b /b/top/l1/l2/gc/act/output/o urn:b b
			b /b/top/l1/l2/deep urn:b b
			b /b/top/l1/l2/back urn:b b cfg=true
			b /b/top/l1/l2/back/rw urn:b b
			b /b/r urn:b b
			b /b/r/input urn:b b
			b /b/r/input/i urn:b b
			b /b/r/output urn:b b
			b /b/r/output/oc urn:b b
			b /b/r/output/oc/o urn:b b`,
			`module a { namespace "urn:a"; prefix a; grouping g { container gc { leaf gl { type string; } action act { input { leaf i { type string; } } output { leaf o { type string; } } } } } }`,
			`module b { namespace "urn:b"; prefix b; import a { prefix a; }
			   container top { config false; container l1 { container l2 { uses a:g; leaf deep { type string; } container back { config true; leaf rw { type string; } } } } }
			   rpc r { input { leaf i { type string; } } output { container oc { leaf o { type string; } } } } }`),
		// outside the property (config inside an rpc): `config true` below an output answers
		// read-write (Props/C12 readOnly_spec_without_exclusion_fails); the oracle skips it, the
		// correspondence with the model (readOnly_exact) does not
		mk(`a /a urn:a a
			a /a/r urn:a a
			a /a/r/output urn:a a
			a /a/r/output/c urn:a a cfg=true
			a /a/r/output/c/o urn:a a
			a /a/r/output/p urn:a a`,
			`module a { namespace "urn:a"; prefix a; rpc r { output { container c { config true; leaf o { type string; } } leaf p { type string; } } } }`),
		// a grouping with an action that spells out neither input nor output, used under a
		// config-false container, a read-write container and in another module; a fourth module
		// augments the unwritten input of each instantiation (every instantiation needs its own)
		mk(`g /g urn:g g
			a /a urn:a a
			a /a/state urn:a a cfg=false
			a /a/state/clear urn:a a
			a /a/state/clear/input -
			a /a/state/clear/input/s-arg urn:b b
			a /a/cfg urn:a a
			a /a/cfg/clear urn:a a
			a /a/cfg/clear/input -
			a /a/cfg/clear/input/c-arg urn:b b
			a2 /a2 urn:a2 a2
			a2 /a2/other urn:a2 a2
			a2 /a2/other/clear urn:a2 a2
			a2 /a2/other/clear/output -
			a2 /a2/other/clear/output/o-arg urn:b2 b2
			b /b urn:b b
			b2 /b2 urn:b2 b2`,
			`module g { yang-version 1.1; namespace "urn:g"; prefix g; grouping ops { action clear; } }`,
			`module a { yang-version 1.1; namespace "urn:a"; prefix a; import g { prefix g; } container state { config false; uses g:ops; } container cfg { uses g:ops; } }`,
			`module a2 { yang-version 1.1; namespace "urn:a2"; prefix a2; import g { prefix g; } container other { uses g:ops; } }`,
			`module b { yang-version 1.1; namespace "urn:b"; prefix b; import a { prefix a; }
			   augment "/a:state/a:clear/a:input" { leaf s-arg { type string; } } augment "/a:cfg/a:clear/a:input" { leaf c-arg { type string; } } }`,
			`module b2 { yang-version 1.1; namespace "urn:b2"; prefix b2; import a2 { prefix a2; } augment "/a2:other/a2:clear/a2:output" { leaf o-arg { type string; } } }`),
		// content written in submodules (one including the other): a grouping used there, config
		// false, an rpc output; examined in the owner's tree (table) and in the submodules' own trees
		mk(`owner /owner urn:owner owner
			owner /owner/native urn:owner owner
			owner /owner/native/n urn:owner owner
			owner /owner/sub-c urn:owner owner cfg=false
			owner /owner/sub-c/gl urn:owner owner
			owner /owner/sub-c/s urn:owner owner
			owner /owner/sub-rpc urn:owner owner
			owner /owner/sub-rpc/output urn:owner owner
			owner /owner/sub-rpc/output/r urn:owner owner
			owner /owner/p2c urn:owner owner
			owner /owner/p2c/q urn:owner owner
			owner /owner/p2c/gl urn:owner owner`,
			`module owner { namespace "urn:owner"; prefix o; include part; include part2; container native { leaf n { type string; } } }`,
			`submodule part { belongs-to owner { prefix o; } include part2; grouping g { leaf gl { type string; } }
			   container sub-c { config false; uses g; leaf s { type string; } } rpc sub-rpc { output { leaf r { type string; } } } }`,
			`submodule part2 { belongs-to owner { prefix o; } container p2c { leaf q { type string; } uses g; } }`),
		// two modules whose namespaces differ only in letter case (a third: trailing slash), each
		// placing nodes in its own tree, by augment into a third module and through the other's grouping
		mk(`t /t urn:nt:target t
			t /t/top urn:nt:target t
			t /t/top/own urn:nt:target t
			t /t/top/a-leaf urn:nt:Vendor va
			t /t/top/b-leaf urn:nt:vendor vb
			t /t/top/b-box urn:nt:vendor vb
			t /t/top/b-box/from-g urn:nt:vendor vb
			t /t/top/c-leaf urn:nt:vendor/ vc
			va /va urn:nt:Vendor va
			va /va/a-root urn:nt:Vendor va
			va /va/a-root/x urn:nt:Vendor va
			vb /vb urn:nt:vendor vb
			vb /vb/b-root urn:nt:vendor vb
			vb /vb/b-root/y urn:nt:vendor vb
			vc /vc urn:nt:vendor/ vc`,
			`module t { namespace "urn:nt:target"; prefix t; container top { leaf own { type string; } } }`,
			`module va { namespace "urn:nt:Vendor"; prefix va; import t { prefix t; } grouping g { leaf from-g { type string; } }
			   augment "/t:top" { leaf a-leaf { type string; } } container a-root { leaf x { type string; } } }`,
			`module vb { namespace "urn:nt:vendor"; prefix vb; import t { prefix t; } import va { prefix va; }
			   augment "/t:top" { leaf b-leaf { type string; } container b-box { uses va:g; } } container b-root { leaf y { type string; } } }`,
			`module vc { namespace "urn:nt:vendor/"; prefix vc; import t { prefix t; } augment "/t:top" { leaf c-leaf { type string; } } }`),
		// s1 includes s2, s2 augments another module: whatever the order of the owner's include
		// statements, and also when the owner does not list s2 at all, the grafted nodes are m's
		mk(`a /a urn:a a
			a /a/c urn:a a
			a /a/c/own urn:a a
			a /a/c/grafted urn:m m
			a /a/c/box urn:m m
			a /a/c/box/deep urn:m m
			m /m urn:m m
			m /m/from-s1 urn:m m
			m /m/from-s1/l urn:m m
			m /m/from-s2 urn:m m
			m /m/from-s2/l urn:m m`,
			`module a { namespace "urn:a"; prefix a; container c { leaf own { type string; } } }`,
			`module m { namespace "urn:m"; prefix m; include s2; include s1; }`,
			`submodule s1 { belongs-to m { prefix m; } include s2; container from-s1 { leaf l { type string; } } }`,
			`submodule s2 { belongs-to m { prefix m; } import a { prefix a; } container from-s2 { leaf l { type string; } }
			   augment "/a:c" { leaf grafted { type string; } container box { leaf deep { type string; } } } }`),
		mk(`a /a urn:a a
			a /a/c urn:a a
			a /a/c/own urn:a a
			a /a/c/grafted urn:m m
			a /a/c/box urn:m m
			a /a/c/box/deep urn:m m
			m /m urn:m m
			m /m/from-s1 urn:m m
			m /m/from-s1/l urn:m m
			m /m/from-s2 urn:m m
			m /m/from-s2/l urn:m m`,
			`module a { namespace "urn:a"; prefix a; container c { leaf own { type string; } } }`,
			`module m { namespace "urn:m"; prefix m; include s1; include s2; }`,
			`submodule s1 { belongs-to m { prefix m; } include s2; container from-s1 { leaf l { type string; } } }`,
			`submodule s2 { belongs-to m { prefix m; } import a { prefix a; } container from-s2 { leaf l { type string; } }
			   augment "/a:c" { leaf grafted { type string; } container box { leaf deep { type string; } } } }`),
		mk(`a /a urn:a a
			a /a/c urn:a a
			a /a/c/own urn:a a
			a /a/c/grafted urn:m m
			a /a/c/box urn:m m
			a /a/c/box/deep urn:m m
			m /m urn:m m
			m /m/from-s1 urn:m m
			m /m/from-s1/l urn:m m
			m /m/from-s2 urn:m m
			m /m/from-s2/l urn:m m`,
			`module a { namespace "urn:a"; prefix a; container c { leaf own { type string; } } }`,
			`module m { namespace "urn:m"; prefix m; include s1; }`,
			`submodule s1 { belongs-to m { prefix m; } include s2; container from-s1 { leaf l { type string; } } }`,
			`submodule s2 { belongs-to m { prefix m; } import a { prefix a; } container from-s2 { leaf l { type string; } }
			   augment "/a:c" { leaf grafted { type string; } container box { leaf deep { type string; } } } }`),
		// names coinciding along a path across modules: an explicit case tcp of module a holding a's
		// nodes, module b grafting a container tcp into it (the case and a's nodes stay a's)
		mk(`a /a urn:a a
			a /a/c urn:a a
			a /a/c/transport urn:a a
			a /a/c/transport/tcp urn:a a
			a /a/c/transport/tcp/port urn:a a
			a /a/c/transport/tcp/opts urn:a a cfg=false
			a /a/c/transport/tcp/opts/nodelay urn:a a
			a /a/c/transport/tcp/tcp urn:b b
			a /a/c/transport/tcp/tcp/keepalive urn:b b
			a /a/c/transport/udp urn:a a
			a /a/c/transport/udp/uport urn:a a
			b /b urn:b b`,
			`module a { namespace "urn:a"; prefix a; container c { choice transport {
			   case tcp { leaf port { type string; } container opts { config false; leaf nodelay { type string; } } }
			   case udp { leaf uport { type string; } } } } }`,
			`module b { namespace "urn:b"; prefix b; import a { prefix a; }
			   augment "/a:c/a:transport/a:tcp" { container tcp { leaf keepalive { type string; } } } }`),
		// one name three times (choice x / case x / grafted leaf x), a container x holding a grafted
		// container x holding a leaf x grafted by a third module, a grafted leaf named like the
		// target's parent, grafted nodes named like the augmenting module and like its prefix, and a
		// shorthand member x of a choice with a grafted leaf x inside (implied case x around it)
		mk(`a /a urn:a a
			a /a/x urn:a a
			a /a/x/x urn:a a
			a /a/x/x/own urn:a a
			a /a/x/x/deep urn:a a
			a /a/x/x/deep/x urn:a a
			a /a/x/x/x urn:b b
			a /a/p urn:a a
			a /a/p/x urn:a a
			a /a/p/x/own urn:a a
			a /a/p/x/in urn:a a
			a /a/p/x/in/x urn:a a
			a /a/p/x/x urn:b b cfg=false
			a /a/p/x/x/bl urn:b b
			a /a/p/x/x/x urn:c c
			a /a/p/x/p urn:b b
			a /a/p/x/b urn:b b
			a /a/p/x/pb urn:b b
			a /a/p/x/pb/pb urn:b b
			a /a/s urn:a a
			a /a/s/x -
			a /a/s/x/x urn:a a
			a /a/s/x/x/own urn:a a
			a /a/s/x/x/x urn:c c
			a /a/s/s -
			a /a/s/s/s urn:c c
			a /a/s/s/s/s urn:c c
			b /b urn:b b
			c /c urn:c c`,
			`module a { namespace "urn:a"; prefix a;
			   choice x { case x { leaf own { type string; } container deep { leaf x { type string; } } } }
			   container p { container x { leaf own { type string; } container in { leaf x { type string; } } } }
			   choice s { container x { leaf own { type string; } } } }`,
			`module b { namespace "urn:b"; prefix pb; import a { prefix a; }
			   augment "/a:x/a:x" { leaf x { type string; } }
			   augment "/a:p/a:x" { container x { config false; leaf bl { type string; } } leaf p { type string; } leaf b { type string; } container pb { leaf pb { type string; } } } }`,
			`module c { namespace "urn:c"; prefix c; import a { prefix a; }
			   augment "/a:p/a:x/a:x" { leaf x { type string; } }
			   augment "/a:s/a:x" { leaf x { type string; } }
			   augment "/a:s" { container s { leaf s { type string; } } } }`),
		// augment from a submodule into another module, and into its own module
		mk(`a /a urn:a a
			a /a/c urn:a a
			a /a/c/l urn:a a
			a /a/c/l/k urn:a a
			a /a/c/l/fromsub urn:b b
			a /a/c/l/fromsub/sl urn:b b
			b /b urn:b b
			b /b/own urn:b b
			b /b/own/insub urn:b b
			b /b/subtop urn:b b
			b /b/subtop/q urn:b b`,
			`module a { namespace "urn:a"; prefix a; container c { list l { key k; leaf k { type string; } } } }`,
			`module b { namespace "urn:b"; prefix b; import a { prefix a; } include b-s; container own { } }`,
			`submodule b-s { belongs-to b { prefix b; } import a { prefix a; } grouping sg { leaf sl { type string; } }
			   augment /a:c/a:l { container fromsub { uses sg; } } augment /b:own { leaf insub { type string; } } container subtop { leaf q { type string; } } }`),
	}
}

func sumExtra(tot map[string]int64, o rescorr.Outcome) {
	for k, v := range o.Go.Extra {
		if k != "subdump" && len(v) == 1 {
			n, _ := strconv.Atoi(v[0])
			tot[k] += int64(n)
		}
	}
}

func replay(f *lib.Flags) {
	raw, err := os.ReadFile(f.Replay)
	if err != nil {
		lib.Fatal("%v", err)
	}
	var p struct {
		Disagreement struct {
			Replay rescorr.Case `json:"replay"`
		} `json:"disagreement"`
	}
	if err := json.Unmarshal(raw, &p); err != nil {
		lib.Fatal("%v", err)
	}
	c := p.Disagreement.Replay
	o := rescorr.RunAll([]rescorr.Case{c}, f)[0]
	for i := range c.Names {
		fmt.Printf("--- %s\n%s", c.Names[i], c.Texts[i])
	}
	if o.Crashed {
		fmt.Println("goyang crashed:", o.CrashMsg)
		os.Exit(1)
	}
	g, m := project(goDump(o), nil), project(o.Model, nil)
	fmt.Println("go:")
	for _, r := range g {
		fmt.Println("  ", rescorr.Readable(r))
	}
	fmt.Println("model:")
	for _, r := range m {
		fmt.Println("  ", rescorr.Readable(r))
	}
	for _, x := range o.Go.Findings {
		fmt.Println("oracle (spec verdict: violates):", x)
	}
	d := ""
	if o.Outside == "" && o.Skipped == "" {
		d = rescorr.Diff(g, m)
	}
	if d != "" || len(o.Go.Findings) > 0 {
		fmt.Println("DIFFERENT:", d)
		os.Exit(1)
	}
	fmt.Println("same; the oracle has no finding")
}

func main() {
	f := lib.ParseFlags()
	if lib.IsChild() {
		rescorr.ServeChild(hook)
		return
	}
	if f.Replay != "" {
		replay(f)
		return
	}
	res := lib.NewResult("C12", f)
	nA, nB := 14000, 4000
	if f.Thorough() {
		nA, nB = 300000, 80000
	}
	feat := map[string]int64{}
	var withExpect, total int64
	distinct := lib.NewDistinct()
	stats := map[string]int{}
	extra := map[string]int64{}
	var clean, withErr, outside, skipped, cleanA int64
	// one generated case by global index: [0,nA) provenance generator, [nA,nA+nB) shared generator
	cfg := gen.Default()
	cfg.MaxModules = 4
	cfg.BadRate = 0.08
	mkCase := func(i int) (rescorr.Case, bool) {
		if i < nA {
			twin := i%6 == 4
			s := gen.GenerateC12(f.Rand(i), gen.C12Opts{OpsConfigRate: 0.12, TwoRevisions: i%8 == 7, SharedAction: i%10 == 3, TwinNS: twin, Coincide: i%7 == 5})
			names, texts := s.Set.FilesRev()
			c := rescorr.Case{Names: names, Texts: texts, Extra: map[string]string{}}
			if s.Expect != nil {
				b, _ := json.Marshal(s.Expect)
				c.Extra["expect"] = string(b)
				withExpect++
			}
			// second pass on a fresh value with every question in the opposite order: all sets with
			// near-twin namespaces, every fourth of the others
			if twin || i%4 == 1 || i%21 == 5 {
				c.Extra["reverse"] = "1"
			}
			for k, v := range s.Feat {
				feat[k] += int64(v)
			}
			return c, true
		}
		set := gen.Generate(f.Rand(1000000+i-nA), cfg)
		names, texts := set.Files()
		c := rescorr.Case{Names: names, Texts: texts}
		if i%4 == 1 {
			c.Extra = map[string]string{"reverse": "1"}
		}
		return c, false
	}
	const chunk = 20000
	for lo := -1; lo < nA+nB; {
		var cases []rescorr.Case
		var fromA []bool
		if lo < 0 {
			cases = corpus()
			fromA = make([]bool, len(cases))
			lo = 0
		} else {
			for i := lo; i < lo+chunk && i < nA+nB; i++ {
				c, a := mkCase(i)
				cases = append(cases, c)
				fromA = append(fromA, a)
			}
			lo += chunk
		}
		nd, _ := res.Distribution["disagreements_total"].(int)
		if nd >= 50 {
			res.Notes = append(res.Notes, "stopped examining after 50 disagreements")
			break
		}
		total += int64(len(cases))
		outs := rescorr.RunAll(cases, f)
		for i, o := range outs {
			switch {
			case o.Crashed:
				res.AddDisagreement(lib.Disagreement{Kind: "crash", Input: o.Case, Go: o.CrashMsg, SpecVerdict: "violates",
					What: "goyang crashed or hung: " + firstLine(o.CrashMsg), Replay: o.Case})
				continue
			case o.Skipped != "":
				skipped++
				continue
			}
			if len(o.Go.Findings) > 0 {
				res.AddDisagreement(lib.Disagreement{Kind: "spec", Input: o.Case.Texts, Go: o.Go.Findings, SpecVerdict: "violates",
					What: "property oracle on the Go trees: " + o.Go.Findings[0], Replay: o.Case})
			}
			sumExtra(extra, o)
			if o.Outside != "" {
				outside++
				continue
			}
			st := map[string]int{}
			g := project(goDump(o), st)
			m := project(o.Model, nil)
			if d := rescorr.Diff(g, m); d != "" {
				// the oracle for ro is always evaluated, the one for ns/im needs a provenance table
				verdict := "holds"
				if len(o.Go.Findings) > 0 {
					verdict = "violates"
				} else if o.Case.Extra["expect"] == "" {
					verdict = ""
				}
				res.AddDisagreement(lib.Disagreement{Kind: "correspondence", Input: o.Case.Texts, Go: g, Model: m, SpecVerdict: verdict,
					What: "ReadOnly/Namespace/InstantiatingModule differ from the model: " + d, Replay: o.Case})
			}
			if rescorr.HasErrors(o.Go.Dump) {
				withErr++
				continue
			}
			clean++
			if fromA[i] {
				cleanA++
			}
			for k, v := range st {
				stats[k] += v
			}
			if st["nodes_read_only"] > 0 || st["nodes_foreign_namespace"] > 0 {
				if distinct.Add(strings.Join(o.Case.Texts, "\x00")) && (lo == 0 || i%4001 == 17) {
					res.AddSample(map[string]any{"files": o.Case.Names, "texts": o.Case.Texts, "nodes": st["nodes"],
						"read_only": st["nodes_read_only"], "foreign_namespace": st["nodes_foreign_namespace"]})
				}
			}
		}
	}
	res.Evaluations = total
	res.DistinctNontrivial = distinct.Len()
	res.Rule = "module sets: a hand-written corpus (D39, D40, grouping across modules with action, augment from a submodule), then seeded sets of harness/gen/c12.go (1-4 modules, 0-2 submodules each incl. nested include, globally unique groupings used across modules/submodules and inside each other, config statements at every depth on leaf/leaf-list/container/list/choice/anydata, choice/case with shorthand members, rpc/action/notification with config inside them at a low rate, augments from modules and submodules into own and imported modules incl. chains, shorthand choice members, written and unwritten rpc input/output, paths with and without implied-case steps; every 8th set additionally loads an older revision of one module; every 6th set gives two or three modules near-twin namespaces - letter case, trailing slash or blank, prefix, percent-encoding, K vs KELVIN SIGN - and lets each place nodes in its own tree, through the other's grouping and by augments into a third module; every 7th set plants 2-4 places where names coincide along a path across modules - an explicit case / container / list / shorthand choice member / choice written by one module with its own nodes at several depths below, into which another module grafts a container, leaf, list, leaf-list, choice or case named like the target, like the target's parent, like the top-level ancestor, like the augmenting module or its prefix, sometimes followed by a graft from a third module into the grafted node, and its generic augments draw their body names from the names on the target's path) with the generator's provenance table, then sets of the shared generator gen.Generate (deviations included) without a table; on every set FindModuleByNamespace is also asked directly for every declared namespace and for near-twin spellings nobody declares, and for all near-twin sets and every fourth other set all questions are asked again in reverse order on a freshly loaded and processed value; every set is examined on all module trees and on the own trees of all submodules (incl. submodules that include other submodules); distinct_nontrivial = distinct sets (by text) that process without errors and contain at least one read-only node or one node whose namespace differs from its tree's module"
	res.Distribution["clean_sets"] = clean
	res.Distribution["clean_sets_with_provenance_table"] = cleanA
	res.Distribution["sets_with_errors"] = withErr
	res.Distribution["outside_model"] = outside
	res.Distribution["go_parse_rejected"] = skipped
	res.Distribution["generated_with_provenance_table"] = withExpect
	for k, v := range stats {
		res.Distribution["dump:"+k] = v
	}
	for k, v := range extra {
		res.Distribution["oracle:"+k] = v
	}
	for k, v := range feat {
		res.Distribution["gen:"+k] = v
	}
	res.Write(f.Out)
}

func firstLine(s string) string {
	if i := strings.IndexByte(s, '\n'); i > 0 {
		return s[:i]
	}
	return s
}
