// corr-c13, part (b) continued: HISTORIES on one Modules value.
//
// The file chooser is specified as a function of the directory layout and the search path AS THEY
// ARE when the module is asked for ("a module that is not yet loaded is fetched from the first
// search-path directory holding a candidate").  A history performs lookups (Read, FindModule with and
// without revision-date, GetModule, Process with an unsatisfied import) on ONE Modules value and, between
// them, changes the layout (candidate files written or removed, directories created) and the search
// path (AddPath, also of a directory given before; ms.Path assigned or appended directly).  Every
// lookup of a module that is not loaded at that moment is compared with
//   - the model's findFile on (layout now, ms.Path now, name)          (driver op find),
//   - Goyang.Spec.File.choose on the same triple                       (driver op spec.find),
//   - the same lookup on a fresh Modules value with the same Path      (Go-side oracle),
//
// so whatever an earlier lookup - failed or successful, of this or of another name - left behind
// in the Modules value must not change the answer.
package main

import (
	"encoding/json"
	"fmt"
	"math/rand"
	"os"
	"path/filepath"
	"sort"
	"strings"
	"time"

	"github.com/openconfig/goyang/pkg/yang"
	"verif/harness/lib"
)

// hstep is one step of a history.
//
//	addpath    ms.AddPath(Args...)
//	setpath    ms.Path = Args                    (the exported field, assigned directly)
//	appendpath ms.Path = append(ms.Path, Args...)
//	mkdir      create the directory Args[0] (relative to the current directory)
//	write      create the regular file Args[0] (a module whose description is its own path)
//	remove     remove the regular file Args[0]
//	read       ms.Read(Args[0])   (a module name: a lookup; a name with `/`: the file is read, its directory goes on the path)
//	find       ms.FindModule(&Import{Name: Args[0], RevisionDate: Args[1] if given})
//	get        ms.GetModule(Args[0])
//	process    ms.Parse of a module importing Args[0] (revision-date Args[1] if given) unless done before, then ms.Process()
type hstep struct {
	Op   string   `json:"op"`
	Args []string `json:"args,omitempty"`
}

type histCase struct {
	Root  *node   `json:"root"` // the current directory at the start
	Steps []hstep `json:"steps"`
}

func isLookup(op string) bool { return op == "read" || op == "find" || op == "get" || op == "process" }

func cloneTree(n *node) *node {
	c := &node{Name: n.Name, File: n.File}
	for _, k := range n.Kids {
		c.Kids = append(c.Kids, cloneTree(k))
	}
	return c
}

// treeDir returns the directory node at rel ("" or "." = n itself), nil when there is none.
func treeDir(n *node, rel string) *node {
	if rel == "" || rel == "." {
		return n
	}
	for _, c := range strings.Split(rel, "/") {
		var next *node
		for _, k := range n.Kids {
			if k.Name == c && !k.File {
				next = k
			}
		}
		if next == nil {
			return nil
		}
		n = next
	}
	return n
}

func splitRel(rel string) (string, string) {
	if i := strings.LastIndex(rel, "/"); i >= 0 {
		return rel[:i], rel[i+1:]
	}
	return "", rel
}

// treeAdd adds a file or directory entry at rel; false when the parent is missing or the name is taken.
func treeAdd(root *node, rel string, file bool) bool {
	dir, base := splitRel(rel)
	d := treeDir(root, dir)
	if d == nil || base == "" {
		return false
	}
	for _, k := range d.Kids {
		if k.Name == base {
			return false
		}
	}
	d.Kids = append(d.Kids, &node{Name: base, File: file})
	return true
}

// treeRemove removes the regular file at rel.
func treeRemove(root *node, rel string) bool {
	dir, base := splitRel(rel)
	d := treeDir(root, dir)
	if d == nil {
		return false
	}
	for i, k := range d.Kids {
		if k.Name == base && k.File {
			d.Kids = append(d.Kids[:i:i], d.Kids[i+1:]...)
			return true
		}
	}
	return false
}

func allFiles(n *node, rel string, out *[]string) {
	for _, k := range n.Kids {
		r := k.Name
		if rel != "" {
			r = rel + "/" + k.Name
		}
		if k.File {
			*out = append(*out, r)
		} else {
			allFiles(k, r, out)
		}
	}
}

func moduleText(fileName, rel string) string {
	return fmt.Sprintf("module %s { namespace \"urn:x\"; prefix x; description %q; }\n", identOf(fileName), rel)
}

// hlook is what one lookup of a not yet loaded module gave.
type hlook struct {
	Step  int      // index of the step that caused it
	Op    string   // read | find | get | process
	Name  string   // the module asked for
	Rev   string   // revision-date of the import ("" = none)
	Tried []string // the names findFile is given, in order (name@rev then name, or name)
	Path  []string // ms.Path before the step
	Root  *node    // the layout at that moment
	Line  string   // "file <hex file>" | "none" | "err <msg>"
	Fresh string   // the same on a fresh Modules value with the same Path
	Bound string   // find only: what FindModule returned, when that is not the module fetched
	After int      // number of layout/path changes since the previous lookup of the history (-1: first lookup)
	Fails int      // number of earlier lookups of the same name in this history that found nothing
	// the search path as the calls registered it (spell.go), when it has to be looked at: it is not
	// ms.Path, or it has entries that are not in clean relative form (nil otherwise)
	Calls      []string
	CallsNorm  []string // Calls in clean relative form (nil: no such form)
	FreshCalls string   // the lookup on a fresh Modules value whose Path is assigned Calls ("" when Calls is ms.Path)
	Cwd        string   // the current directory (to read absolute names)
}

type histObs struct {
	Looks   []hlook
	Skipped int // lookups of a module that was loaded already (nothing is fetched)
	Invalid string
	Crash   string
}

func newSince(ms *yang.Modules, known map[*yang.Module]bool) []*yang.Module {
	var out []*yang.Module
	for _, mm := range []map[string]*yang.Module{ms.Modules, ms.SubModules} {
		for _, m := range mm {
			if !known[m] {
				known[m] = true
				out = append(out, m)
			}
		}
	}
	return out
}

func knownOf(ms *yang.Modules) map[*yang.Module]bool {
	known := map[*yang.Module]bool{}
	for _, mm := range []map[string]*yang.Module{ms.Modules, ms.SubModules} {
		for _, m := range mm {
			known[m] = true
		}
	}
	return known
}

func triedNames(name, rev string) []string {
	if rev != "" {
		return []string{name + "@" + rev, name}
	}
	return []string{name}
}

func importerName(name, rev string) string {
	n := "imp-" + identOf(name)
	if rev != "" {
		n += "-r" + strings.ReplaceAll(rev, "-", "")
	}
	return n
}

// freshLookup: which file a new Modules value with the given Path reads for the names tried in order.
func freshLookup(path, tried []string) (line string) {
	defer func() {
		if r := recover(); r != nil {
			line = "err panic: " + fmt.Sprint(r)
		}
	}()
	ms := yang.NewModules()
	ms.Path = append([]string{}, path...)
	for _, n := range tried {
		err := ms.Read(n)
		if nm := newSince(ms, map[*yang.Module]bool{}); len(nm) > 0 {
			return "file " + lib.HexS(srcFile(nm[0]))
		}
		if err != nil && !strings.HasPrefix(err.Error(), "no such file") {
			return "err " + err.Error()
		}
	}
	return "none"
}

// runHistory creates the tree, changes into it and performs the steps on one Modules value.
func runHistory(work string, c histCase) (obs histObs) {
	dir, err := os.MkdirTemp(work, "hist")
	if err != nil {
		lib.Fatal("%v", err)
	}
	defer os.RemoveAll(dir)
	if err := materialise(dir, "", c.Root); err != nil {
		lib.Fatal("creating the directory tree: %v", err)
	}
	if err := os.Chdir(dir); err != nil {
		lib.Fatal("%v", err)
	}
	defer os.Chdir(work)
	defer func() {
		if r := recover(); r != nil {
			obs.Crash = fmt.Sprint(r)
		}
	}()
	tree := cloneTree(c.Root)
	ms := yang.NewModules()
	cp := newCallPath()
	importers := map[string][2]string{} // importer module name -> (imported name, revision-date)
	changes, first := 0, true
	fails := map[string]int{}
	for si, st := range c.Steps {
		st.Args = substCwd(dir, st.Args)
		arg := func(i int) string {
			if i < len(st.Args) {
				return st.Args[i]
			}
			return ""
		}
		switch st.Op {
		case "addpath":
			ms.AddPath(st.Args...)
			cp.add(st.Args...)
			changes++
		case "setpath":
			ms.Path = append([]string{}, st.Args...)
			cp.set(st.Args...)
			changes++
		case "appendpath":
			ms.Path = append(ms.Path, st.Args...)
			cp.app(st.Args...)
			changes++
		case "mkdir":
			if !treeAdd(tree, arg(0), false) {
				obs.Invalid = fmt.Sprintf("step %d: cannot create directory %q", si, arg(0))
				return obs
			}
			if err := os.Mkdir(filepath.FromSlash(arg(0)), 0o755); err != nil {
				lib.Fatal("history mkdir: %v", err)
			}
			changes++
		case "write":
			if !treeAdd(tree, arg(0), true) {
				obs.Invalid = fmt.Sprintf("step %d: cannot create file %q", si, arg(0))
				return obs
			}
			_, base := splitRel(arg(0))
			if err := os.WriteFile(filepath.FromSlash(arg(0)), []byte(moduleText(base, arg(0))), 0o644); err != nil {
				lib.Fatal("history write: %v", err)
			}
			changes++
		case "remove":
			if !treeRemove(tree, arg(0)) {
				obs.Invalid = fmt.Sprintf("step %d: no file %q to remove", si, arg(0))
				return obs
			}
			if err := os.Remove(filepath.FromSlash(arg(0))); err != nil {
				lib.Fatal("history remove: %v", err)
			}
			changes++
		case "read", "find", "get", "process":
			name, rev := arg(0), arg(1)
			if st.Op == "read" && strings.Contains(name, "/") {
				// a file read by explicit path: not a lookup of a module by name (part (b) proper compares
				// those Reads); here it is a step that registers the file's directory
				known := knownOf(ms)
				err := ms.Read(name)
				switch nm := newSince(ms, known); {
				case len(nm) > 0:
					cp.readFrom(name, srcFile(nm[0]))
				case err != nil && !strings.HasPrefix(err.Error(), "no such file"):
					cp.resync(ms.Path)
				}
				changes++
				continue
			}
			if st.Op == "read" || st.Op == "get" {
				rev = ""
			}
			before := append([]string{}, ms.Path...)
			calls := cp.snapshot()
			callsNorm, normOK := normPath(dir, calls)
			callsDiffer := !sameStrings(calls, before)
			snap := cloneTree(tree)
			known := knownOf(ms)
			loaded := func(n, r string) bool {
				return (r != "" && ms.Modules[n+"@"+r] != nil) || ms.Modules[identOf(n)] != nil
			}
			// the lookups this step will cause, in order: (name, rev)
			type want struct{ name, rev string }
			var wants []want
			wanted := map[string]bool{}
			addWant := func(n, r string) {
				// one lookup per module name: a second import of the same module finds it loaded when the
				// first one fetched it, and fails like the first one otherwise (the names used here have no
				// candidate `name@rev@date.yang`)
				if !loaded(n, r) && !wanted[identOf(n)] {
					wanted[identOf(n)] = true
					wants = append(wants, want{n, r})
				}
			}
			selfLoaded := loaded(name, rev)
			if selfLoaded {
				obs.Skipped++
			}
			if st.Op == "process" {
				in := importerName(name, rev)
				if _, ok := importers[in]; !ok {
					rd := ""
					if rev != "" {
						rd = fmt.Sprintf(" revision-date %q;", rev)
					}
					txt := fmt.Sprintf("module %s { namespace \"urn:%s\"; prefix i; import %s { prefix d;%s } }", in, in, name, rd)
					if err := ms.Parse(txt, in+".yang"); err != nil {
						obs.Invalid = fmt.Sprintf("step %d: importer does not load: %v", si, err)
						return obs
					}
					importers[in] = [2]string{name, rev}
					known = knownOf(ms)
				}
			} else {
				addWant(name, rev)
			}
			if st.Op == "process" || st.Op == "get" {
				// Process links every import of every loaded module, in the order of the modules' full names:
				// every importer whose module is still missing asks for it (the order does not matter for
				// the files chosen: a lookup changes ms.Path only by appending ".", which is searched first
				// anyway)
				var ins []string
				for in := range importers {
					ins = append(ins, in)
				}
				sort.Strings(ins)
				for _, in := range ins {
					addWant(importers[in][0], importers[in][1])
				}
			}
			var bound *yang.Module
			var readErr error
			switch st.Op {
			case "read":
				readErr = ms.Read(name)
			case "find":
				var rd *yang.Value
				if rev != "" {
					rd = &yang.Value{Name: rev}
				}
				bound = ms.FindModule(&yang.Import{Name: name, RevisionDate: rd})
			case "get":
				ms.GetModule(name)
			case "process":
				ms.Process()
			}
			fetched := map[string]*yang.Module{}
			for _, m := range newSince(ms, known) {
				fetched[m.Name] = m
				if st.Op == "read" {
					cp.readFrom(name, srcFile(m))
				} else {
					cp.readFrom("", srcFile(m))
				}
			}
			if st.Op == "read" && readErr != nil && !strings.HasPrefix(readErr.Error(), "no such file") {
				cp.resync(ms.Path)
			}
			if st.Op == "get" && fetched[identOf(name)] == nil && !selfLoaded {
				// GetModule gives up before Process when the module is not found
				wants = wants[:1]
			}
			for wi, w := range wants {
				lk := hlook{Step: si, Op: st.Op, Name: w.name, Rev: w.rev, Tried: triedNames(w.name, w.rev), Path: before, Root: snap,
					After: changes, Fails: fails[w.name]}
				if first {
					lk.After = -1
				}
				switch m := fetched[identOf(w.name)]; {
				case m != nil:
					lk.Line = "file " + lib.HexS(srcFile(m))
					if st.Op == "find" && wi == 0 && bound != m {
						lk.Bound = showMod(bound)
					}
				case st.Op == "read" && wi == 0 && readErr != nil && !strings.HasPrefix(readErr.Error(), "no such file"):
					lk.Line = "err " + readErr.Error()
				default:
					lk.Line = "none"
					fails[w.name]++
				}
				lk.Fresh = freshLookup(before, lk.Tried)
				if callsDiffer || (normOK && !sameStrings(callsNorm, calls)) {
					lk.Calls, lk.Cwd = calls, dir
					if normOK {
						lk.CallsNorm = callsNorm
					}
					if callsDiffer {
						lk.FreshCalls = freshLookup(calls, lk.Tried)
					}
				}
				obs.Looks = append(obs.Looks, lk)
			}
			first = false
			changes = 0
		default:
			obs.Invalid = fmt.Sprintf("step %d: unknown op %q", si, st.Op)
			return obs
		}
	}
	return obs
}

// ---------------------------------------------------------------- generators

func st(op string, args ...string) hstep { return hstep{Op: op, Args: args} }

// lookup kinds: op + whether an import revision-date is given
type lkind struct {
	op  string
	rev string
}

var lkinds = []lkind{{"read", ""}, {"find", ""}, {"find", "2020-01-01"}, {"get", ""}, {"process", ""}, {"process", "2020-01-01"}}

func (k lkind) step(name string) hstep {
	if k.rev != "" {
		return st(k.op, name, k.rev)
	}
	return st(k.op, name)
}

func dirNode(name string, kids ...*node) *node { return &node{Name: name, Kids: kids} }

// enumHistories: complete small families.
func enumHistories(thorough bool) []histCase {
	var cases []histCase
	// 1. retry after a failed lookup: setup x first lookup x change x second lookup
	type setup struct {
		root  func() *node
		steps []hstep
	}
	setups := []setup{
		{func() *node { return &node{Kids: []*node{dirNode("d1"), dirNode("d2")}} }, []hstep{st("addpath", "d1"), st("addpath", "d2")}},
		{func() *node { return &node{Kids: []*node{dirNode("d1", dirNode("sub")), dirNode("d2")}} }, []hstep{st("addpath", "d1/...", "d2")}},
		{func() *node { return &node{Kids: []*node{dirNode("d1"), dirNode("d2")}} }, []hstep{st("setpath", "d1", "d2")}},
		{func() *node {
			return &node{Kids: []*node{dirNode("d1", files("bar.yang", "foo@2020-1-01.yang")...), dirNode("d2", files("foobar.yang", "foo@2020-01-01.yan")...)}}
		}, []hstep{st("addpath", "d1:d2")}},
	}
	changes := [][]hstep{
		{st("write", "d1/foo.yang")},
		{st("write", "d1/foo@2019-03-03.yang"), st("write", "d1/foo@2021-03-03.yang")},
		{st("write", "d2/foo@2020-01-01.yang")},
		{st("write", "foo@2020-01-01.yang")},
		{st("mkdir", "d1/sub2"), st("write", "d1/sub2/foo.yang"), st("write", "d2/foo@2019-01-01.yang")},
		{st("mkdir", "d3"), st("write", "d3/foo.yang"), st("appendpath", "d3")},
		{st("mkdir", "d3"), st("write", "d3/foo@2020-01-01.yang"), st("setpath", "d3")},
		{st("write", "d1/foo.yang"), st("addpath", "d1")},
		{st("mkdir", "d3"), st("write", "d3/foo.yang"), st("addpath", "d3")},
		{st("write", "d2/foo@2020-01-01.yang"), st("write", "d1/foo@2018-01-01.yang")},
		{st("write", "d2/foo@2020-01-01.yang"), st("write", "d2/foo.yang"), st("remove", "d2/foo.yang")},
	}
	for si, su := range setups {
		for _, k1 := range lkinds {
			for _, ch := range changes {
				for _, k2 := range lkinds {
					if !thorough && si > 0 && k1 != k2 {
						continue
					}
					var steps []hstep
					steps = append(steps, su.steps...)
					steps = append(steps, k1.step("foo"))
					steps = append(steps, ch...)
					steps = append(steps, k2.step("foo"))
					cases = append(cases, histCase{Root: su.root(), Steps: steps})
				}
			}
		}
	}
	// 2. a lookup of another name first (failing: bar; successful: foobar), then the candidates for foo
	//    change (each present one removed, each absent one added, or nothing), then foo is asked for:
	//    nothing learnt about the directories during the first lookup may be used for the second
	cand := []string{"foo.yang", "foo@2020-01-01.yang", "foo@2019-01-01.yang"}
	if !thorough {
		cand = cand[:2]
	}
	sub := func(mask int, extra ...string) []*node {
		var fs []string
		for i, p := range cand {
			if mask&(1<<i) != 0 {
				fs = append(fs, p)
			}
		}
		return files(append(fs, extra...)...)
	}
	for a := 0; a < 1<<len(cand); a++ {
		for b := 0; b < 1<<len(cand); b++ {
			for _, firstName := range []string{"bar", "foobar"} {
				var chs [][]hstep
				chs = append(chs, nil)
				for di, mask := range []int{a, b} {
					d := []string{"d1", "d2"}[di]
					for i, p := range cand {
						if mask&(1<<i) != 0 {
							chs = append(chs, []hstep{st("remove", d+"/"+p)})
						} else {
							chs = append(chs, []hstep{st("write", d+"/"+p)})
						}
					}
				}
				for ci, ch := range chs {
					k1, k2 := lkinds[(a+b+ci)%2], lkinds[(a+ci)%len(lkinds)]
					if k2.rev != "" {
						k2 = lkinds[4]
					}
					var steps []hstep
					steps = append(steps, st("addpath", "d1", "d2"), k1.step(firstName))
					steps = append(steps, ch...)
					steps = append(steps, k2.step("foo"))
					cases = append(cases, histCase{Root: &node{Kids: []*node{dirNode("d1", sub(a)...), dirNode("d2", sub(b, "foobar.yang")...)}}, Steps: steps})
				}
			}
		}
	}
	return cases
}

var histNames = []string{"foo", "foo", "foo", "bar", "bar", "foobar", "fo"}

var histDates = []string{"2020-01-01", "2019-12-31", "2021-02-03", "2020-10-01", "2018-03-03"}

// randHistory: a random tree and 2-4 rounds of (0-3 changes, one lookup).
func randHistory(rng *rand.Rand) histCase {
	c := histCase{Root: randTree(rng, 1+rng.Intn(2))}
	tree := cloneTree(c.Root)
	dirsNow := func() []string {
		var ds []string
		allDirs(tree, "", &ds)
		return ds
	}
	pickDir := func() string {
		ds := dirsNow()
		if len(ds) == 0 || rng.Intn(5) == 0 {
			return ""
		}
		return ds[rng.Intn(len(ds))]
	}
	join := func(d, f string) string {
		if d == "" {
			return f
		}
		return d + "/" + f
	}
	pathArg := func() string {
		ds := dirsNow()
		switch r := rng.Intn(10); {
		case r == 0:
			return "nx"
		case r == 1:
			return "..."
		case r == 2:
			return "."
		case len(ds) > 0:
			p := ds[rng.Intn(len(ds))]
			if rng.Intn(4) == 0 {
				p += "/..."
			}
			return p
		}
		return "a"
	}
	var failed []string
	newDirs := 0
	add := func(s hstep) { c.Steps = append(c.Steps, s) }
	for i := rng.Intn(3); i > 0; i-- {
		add(st("addpath", pathArg()))
	}
	rounds := 2 + rng.Intn(3)
	for r := 0; r < rounds; r++ {
		nch := rng.Intn(4)
		if r == 0 {
			nch = rng.Intn(2)
		}
		for ; nch > 0; nch-- {
			switch k := rng.Intn(12); {
			case k < 5: // a candidate (or a near miss) appears
				name := histNames[rng.Intn(len(histNames))]
				if len(failed) > 0 && rng.Intn(3) != 0 {
					name = failed[rng.Intn(len(failed))]
				}
				fn := name + ".yang"
				switch rng.Intn(5) {
				case 0, 1:
					fn = name + "@" + histDates[rng.Intn(len(histDates))] + ".yang"
				case 2:
					fn = filePool[rng.Intn(len(filePool))]
				}
				p := join(pickDir(), fn)
				if treeAdd(tree, p, true) {
					add(st("write", p))
				}
			case k < 7: // a file disappears
				var fs []string
				allFiles(tree, "", &fs)
				if len(fs) > 0 {
					p := fs[rng.Intn(len(fs))]
					treeRemove(tree, p)
					add(st("remove", p))
				}
			case k == 7: // a new directory holding a candidate, put on the path one way or another
				newDirs++
				d := join(pickDir(), fmt.Sprintf("n%d", newDirs))
				name := histNames[rng.Intn(len(histNames))]
				if len(failed) > 0 {
					name = failed[rng.Intn(len(failed))]
				}
				if treeAdd(tree, d, false) {
					add(st("mkdir", d))
					treeAdd(tree, d+"/"+name+".yang", true)
					add(st("write", d+"/"+name+".yang"))
					add(st([]string{"addpath", "appendpath", "appendpath"}[rng.Intn(3)], d))
				}
			case k == 8:
				add(st("addpath", pathArg()))
			case k == 9:
				add(st("appendpath", pathArg()))
			case k == 10:
				var ps []string
				for n := rng.Intn(3); n > 0; n-- {
					ps = append(ps, pathArg())
				}
				add(st("setpath", ps...))
			default: // AddPath of something given before
				for _, s := range c.Steps {
					if s.Op == "addpath" && len(s.Args) > 0 {
						add(st("addpath", s.Args[0]))
						break
					}
				}
			}
		}
		name := histNames[rng.Intn(len(histNames))]
		if len(failed) > 0 && rng.Intn(2) == 0 {
			name = failed[rng.Intn(len(failed))]
		}
		if rng.Intn(12) == 0 {
			// (Read only: as the name of a module it is not one the files of the layouts hold)
			add(st("read", "foo@2020-01-01"))
		} else {
			add(lkinds[rng.Intn(len(lkinds))].step(name))
			failed = append(failed, name) // whether it failed is not known here: bias only
		}
	}
	return c
}

// ---------------------------------------------------------------- comparison

func describeHistory(c histCase, upto int) string {
	var parts []string
	for i, s := range c.Steps {
		if i > upto {
			break
		}
		parts = append(parts, s.Op+"("+strings.Join(s.Args, ",")+")")
	}
	return strings.Join(parts, "; ")
}

func unhexLine(l string) string {
	fs := strings.Fields(l)
	if len(fs) >= 2 && fs[0] == "file" {
		b, _ := lib.UnHex(fs[1])
		return "file " + string(b)
	}
	if len(fs) == 2 && fs[0] == "some" {
		b, _ := lib.UnHex(fs[1])
		return "file " + string(b)
	}
	return l
}

// chosen reduces an answer of the model (`file <name> <path after>` | none | outside) or of the
// specification (`some <name>` | none | na | outside) to `file <name>` | none | "" (no claim).
func chosen(ans string) string {
	fs := strings.Fields(ans)
	switch {
	case ans == "none":
		return "none"
	case len(fs) >= 2 && (fs[0] == "file" || fs[0] == "some"):
		return "file " + fs[1]
	}
	return ""
}

// firstChosen combines the answers for the names tried in order: the first that names a file; no
// claim as soon as one of them is outside the model.
func firstChosen(answers []string) string {
	for _, a := range answers {
		switch c := chosen(a); c {
		case "":
			return ""
		case "none":
		default:
			return c
		}
	}
	return "none"
}

type histVerdict struct {
	Model, Spec string // `file <hex>` | none | "" (no claim)
	SpecCalls   string // the specification on the path as the calls registered it (clean relative form)
}

// normLine: a Go answer `file <hex name>` with the name in clean relative form.
func normLine(cwd, l string) string {
	fs := strings.Fields(l)
	if len(fs) >= 2 && fs[0] == "file" {
		b, _ := lib.UnHex(fs[1])
		return "file " + lib.HexS(normFile(cwd, string(b)))
	}
	return l
}

// judge: does this lookup disagree with anything?  Returns the disagreement, or nil.
func judgeLook(c histCase, lk hlook, v histVerdict) *lib.Disagreement {
	if strings.HasPrefix(lk.Line, "err ") {
		return nil
	}
	specBad := v.Spec != "" && v.Spec != lk.Line
	modelBad := v.Model != "" && v.Model != lk.Line
	freshBad := !strings.HasPrefix(lk.Fresh, "err ") && lk.Fresh != lk.Line
	boundBad := lk.Bound != ""
	// the path as the calls registered it
	goNorm := normLine(lk.Cwd, lk.Line)
	callsSpecBad := lk.Calls != nil && v.SpecCalls != "" && v.SpecCalls != goNorm
	callsFreshBad := lk.FreshCalls != "" && !strings.HasPrefix(lk.FreshCalls, "err ") && normLine(lk.Cwd, lk.FreshCalls) != goNorm
	if callsSpecBad || callsFreshBad {
		d := &lib.Disagreement{Kind: "spec", SpecVerdict: "violates", Input: c, Go: unhexLine(goNorm), Replay: map[string]any{"history": c}}
		d.Model = map[string]any{"model_on_ms_path": unhexLine(v.Model), "specification_on_ms_path": unhexLine(v.Spec), "ms_path": lk.Path,
			"path_registered_by_the_calls": lk.Calls, "specification_on_registered_path": unhexLine(v.SpecCalls), "fresh_modules_registered_path": unhexLine(normLine(lk.Cwd, lk.FreshCalls))}
		d.What = fmt.Sprintf("C13 (b) `a module that is not yet loaded is fetched from the first search-path directory holding a candidate` fails: "+
			"after %s the lookup of %s (step %d) answers [%s]; %s", describeHistory(c, lk.Step), lk.Name, lk.Step, unhexLine(goNorm),
			callsClause(lk, unhexLine(v.SpecCalls), unhexLine(normLine(lk.Cwd, lk.FreshCalls))))
		return d
	}
	if !specBad && !modelBad && !freshBad && !boundBad {
		return nil
	}
	how := fmt.Sprintf("%s(%s)", lk.Op, strings.Join(append([]string{lk.Name}, nonEmpty(lk.Rev)...), ","))
	d := &lib.Disagreement{Input: c, Go: unhexLine(lk.Line), Replay: map[string]any{"history": c}}
	d.Model = map[string]string{"model": unhexLine(v.Model), "specification": unhexLine(v.Spec), "fresh_modules_same_path": unhexLine(lk.Fresh)}
	switch {
	case specBad || freshBad:
		d.Kind = "spec"
		d.SpecVerdict = "violates"
		want := v.Spec
		if !specBad {
			want = lk.Fresh
		}
		d.What = fmt.Sprintf("C13 (b) `a module that is not yet loaded is fetched from the first search-path directory holding a candidate` fails on a Modules with a history: "+
			"after %s the lookup (step %d) answers [%s]; specification for the layout as it is now: [%s]; a fresh Modules with the same Path %q: [%s]; model: [%s]",
			describeHistory(c, lk.Step), lk.Step, unhexLine(lk.Line), unhexLine(want), lk.Path, unhexLine(lk.Fresh), unhexLine(v.Model))
	case boundBad:
		d.Kind = "spec"
		d.SpecVerdict = "violates"
		d.What = fmt.Sprintf("C13 (b): FindModule fetched %s but returned %s; history: %s", unhexLine(lk.Line), lk.Bound, describeHistory(c, lk.Step))
	default:
		d.Kind = "correspondence"
		if v.Spec != "" {
			d.SpecVerdict = "holds"
		}
		d.What = fmt.Sprintf("history step %d %s with Path %q: Go answers [%s], the model [%s] (specification [%s]); history: %s",
			lk.Step, how, lk.Path, unhexLine(lk.Line), unhexLine(v.Model), unhexLine(v.Spec), describeHistory(c, lk.Step))
	}
	return d
}

func nonEmpty(s string) []string {
	if s == "" {
		return nil
	}
	return []string{s}
}

// askLook asks the driver about one lookup (replay; the bulk run batches the same requests).
func askLook(d *lib.Driver, lk hlook) histVerdict {
	var ma, sa []string
	for _, n := range lk.Tried {
		m, _ := d.Ask(findRequest("find", lk.Root, lk.Path, n))
		s, _ := d.Ask(findRequest("spec.find", lk.Root, lk.Path, n))
		ma, sa = append(ma, m), append(sa, s)
	}
	v := histVerdict{Model: firstChosen(ma), Spec: firstChosen(sa)}
	if lk.CallsNorm != nil {
		var ca []string
		for _, n := range lk.Tried {
			s, _ := d.Ask(findRequest("spec.find", lk.Root, lk.CallsNorm, n))
			ca = append(ca, s)
		}
		v.SpecCalls = firstChosen(ca)
	}
	return v
}

func partH(f *lib.Flags, res *lib.Result, distinct *lib.Distinct, work string) int64 {
	t0 := time.Now()
	cases := enumHistories(f.Thorough())
	nEnum := len(cases)
	// corpus: the two histories of the demonstration of seeded change C13-j22 (a candidate supplied after a
	// failed Process; the directory appended to ms.Path after a failed Process)
	cases = append(cases,
		histCase{Root: &node{Kids: []*node{dirNode("d1"), dirNode("d2")}}, Steps: []hstep{st("addpath", "d1"), st("process", "foo"),
			st("write", "d1/foo@2019-03-03.yang"), st("write", "d1/foo@2021-03-03.yang"), st("process", "foo")}},
		histCase{Root: &node{Kids: []*node{dirNode("d1"), dirNode("d2", files("bar.yang")...)}}, Steps: []hstep{st("setpath", "d1"), st("process", "bar"),
			st("appendpath", "d2"), st("process", "bar")}},
	)
	nRand := 1200
	if f.Thorough() {
		nRand = 40000
	}
	rng, rngName := f.Rand(3), f.Rand(6)
	for i := 0; i < nRand; i++ {
		// (a third of them under a renaming foo -> N, fo -> T of a name family, names.go)
		cases = append(cases, maybeRenameHist(rngName, randHistory(rng)))
	}
	// one directory in several spellings, entries added by findFile itself (spell.go)
	sp := enumSpellHistories(f.Thorough())
	nSpell := len(sp)
	cases = append(cases, sp...)
	nSpellRand := 500
	if f.Thorough() {
		nSpellRand = 15000
	}
	rng4 := f.Rand(4)
	for i := 0; i < nSpellRand; i++ {
		cases = append(cases, randSpellHistory(rng4))
	}
	type ref struct{ ci, li, n int } // case, lookup, number of names tried
	var refs []ref
	var reqs []string
	obs := make([]histObs, len(cases))
	var nontrivial, skipped, invalid, after, afterFail, spelled, callsNotPath int64
	for i, c := range cases {
		obs[i] = runHistory(work, c)
		skipped += int64(obs[i].Skipped)
		if obs[i].Crash != "" {
			res.AddDisagreement(lib.Disagreement{Kind: "crash", Input: c, Go: obs[i].Crash, SpecVerdict: "violates",
				What: "panic during a history of AddPath / Read / FindModule / GetModule / Process on one Modules value", Replay: map[string]any{"history": c}})
			continue
		}
		if obs[i].Invalid != "" {
			invalid++
			continue
		}
		for li, lk := range obs[i].Looks {
			refs = append(refs, ref{i, li, len(lk.Tried)})
			for _, n := range lk.Tried {
				reqs = append(reqs, findRequest("find", lk.Root, lk.Path, n), findRequest("spec.find", lk.Root, lk.Path, n))
				if lk.CallsNorm != nil {
					reqs = append(reqs, findRequest("spec.find", lk.Root, lk.CallsNorm, n))
				}
			}
			if lk.Calls != nil {
				spelled++
				if lk.FreshCalls != "" {
					callsNotPath++
				}
			}
			if lk.After > 0 {
				after++
				if lk.Fails > 0 {
					afterFail++
				}
			}
			cj, _ := json.Marshal(c.Steps[:lk.Step+1])
			if distinct.Add("hist "+findRequest("", c.Root, nil, lk.Name)+string(cj)) && lk.After > 0 {
				nontrivial++
			}
		}
	}
	if os.Getenv("C13_TIMING") != "" {
		fmt.Fprintf(os.Stderr, "histories: Go side done after %v, %d driver requests\n", time.Since(t0), len(reqs))
	}
	ans, err := lib.ParBatch(f.Driver, reqs, f.Procs)
	if err != nil {
		lib.Fatal("driver: %v", err)
	}
	if os.Getenv("C13_TIMING") != "" {
		fmt.Fprintf(os.Stderr, "histories: driver done after %v\n", time.Since(t0))
	}
	var found, noClaim int64
	k := 0
	for ri, r := range refs {
		c, lk := cases[r.ci], obs[r.ci].Looks[r.li]
		var ma, sa, ca []string
		for j := 0; j < r.n; j++ {
			ma, sa = append(ma, ans[k]), append(sa, ans[k+1])
			k += 2
			if lk.CallsNorm != nil {
				ca = append(ca, ans[k])
				k++
			}
		}
		v := histVerdict{Model: firstChosen(ma), Spec: firstChosen(sa)}
		if lk.CallsNorm != nil {
			v.SpecCalls = firstChosen(ca)
		}
		if v.Model == "" {
			noClaim++
		}
		if strings.HasPrefix(lk.Line, "file ") {
			found++
		}
		if d := judgeLook(c, lk, v); d != nil {
			if len(res.Disagreements) >= 50 && d.SpecVerdict != "violates" {
				res.Count("disagreements_not_examined", 1)
				continue
			}
			res.AddDisagreement(*d) // (when full, one with a concrete failing input displaces one without)
			continue
		}
		if ri%(len(refs)/3+1) == 5 {
			res.AddSample(map[string]any{"history": c.Steps[:lk.Step+1], "root": c.Root, "lookup": lk.Name, "go": unhexLine(lk.Line), "fresh": unhexLine(lk.Fresh), "model": unhexLine(v.Model), "spec": unhexLine(v.Spec)})
		}
	}
	res.Distribution["history_enumerated"] = nEnum
	res.Distribution["history_random"] = nRand
	res.Distribution["history_invalid_skipped"] = invalid
	res.Distribution["history_lookups_compared"] = len(refs)
	res.Distribution["history_lookups_of_loaded_modules_not_compared"] = skipped
	res.Distribution["history_lookups_that_found_a_file"] = found
	res.Distribution["history_lookups_outside_model"] = noClaim
	res.Distribution["history_spelling_enumerated"] = nSpell
	res.Distribution["history_spelling_random"] = nSpellRand
	res.Distribution["history_lookups_judged_on_the_path_registered_by_the_calls_in_clean_form"] = spelled
	res.Distribution["history_lookups_where_ms_path_is_not_the_registered_path"] = callsNotPath
	res.Distribution["history_lookups_after_a_change"] = after
	res.Distribution["history_lookups_after_a_change_and_an_earlier_failure_of_the_same_name"] = afterFail
	res.Evaluations += int64(len(refs))
	return nontrivial
}

func replayHistory(d *lib.Driver, work string, c histCase) int {
	rc := 0
	o := runHistory(work, c)
	if o.Crash != "" {
		fmt.Println("crash:", o.Crash)
		return 1
	}
	if o.Invalid != "" {
		fmt.Println("invalid history:", o.Invalid)
		return 1
	}
	fmt.Printf("history: %s\n", describeHistory(c, len(c.Steps)))
	for _, lk := range o.Looks {
		v := askLook(d, lk)
		fmt.Printf("step %d %s(%s %s) with Path %q\ngo:      %s\nfresh:   %s\nmodel:   %s\nspec:    %s\n", lk.Step, lk.Op, lk.Name, lk.Rev, lk.Path,
			unhexLine(lk.Line), unhexLine(lk.Fresh), unhexLine(v.Model), unhexLine(v.Spec))
		if lk.Calls != nil {
			fmt.Printf("path registered by the calls: %q (clean relative form %q)\nspec on it:  %s\nfresh on it: %s\n", lk.Calls, lk.CallsNorm, unhexLine(v.SpecCalls), unhexLine(lk.FreshCalls))
		}
		if dd := judgeLook(c, lk, v); dd != nil {
			fmt.Printf("verdict: %s %s\n", dd.Kind, dd.SpecVerdict)
			rc = 1
		} else {
			fmt.Println("verdict: agrees")
		}
	}
	return rc
}
