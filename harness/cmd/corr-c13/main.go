// corr-c13: correspondence for property C13, parts (a) module registry / revision binding and
// (b) the file chooser, between the real goyang code (in-process) and the Lean models
// Goyang.Model.Ctx (Registry.add, findModule) and Goyang.Model.File (findFile, findInDir,
// PathsWithModules) behind the driver drv_registry.
//
// (a) every sequence of at most N module/submodule headers over a small universe is loaded as real
// YANG text through yang.NewModules().Parse; ms.Modules / ms.SubModules (key -> source file,
// full name), the per-load outcome and FindModule on imports/includes with and without
// revision-date are compared with the model; the same imports/includes are then resolved by
// Process() in client modules and must give the same modules.  The specification
// (Goyang.Spec.Registry, op spec.registry) is evaluated on the Go output, and all permutations
// of one multiset of headers must give the same bindings (Go-side oracle).
//
// (b) real directory trees are created below /verif/.work/c13/, the process changes into them,
// ms.AddPath / yang.PathsWithModules / ms.Read are called and the file that was opened is
// observed (every file contains a module whose description is the file's own path) and compared
// with the model and with Goyang.Spec.File (op spec.find).
package main

import (
	"encoding/json"
	"fmt"
	"math/rand"
	"os"
	"path/filepath"
	"runtime/debug"
	"runtime/pprof"
	"sort"
	"strconv"
	"strings"
	"time"

	"github.com/openconfig/goyang/pkg/yang"
	"verif/harness/lib"
)

// ---------------------------------------------------------------- part (a): registry

type header struct {
	Sub  bool     `json:"sub"`
	Name string   `json:"name"`
	Revs []string `json:"revs"`
	// Cont: a further statement of the same source text as the load before it (one Parse call per
	// text, which is all or nothing)
	Cont bool `json:"cont,omitempty"`
}

// texts groups the loads of a case into source texts (indices into c.Loads).
func (c regCase) texts() [][]int {
	var ts [][]int
	for i, h := range c.Loads {
		if h.Cont && len(ts) > 0 {
			ts[len(ts)-1] = append(ts[len(ts)-1], i)
		} else {
			ts = append(ts, []int{i})
		}
	}
	return ts
}

func (h header) text(tag string) string {
	var sb strings.Builder
	// names are written as quoted strings (they are not always identifiers; none holds a quote or backslash)
	if h.Sub {
		fmt.Fprintf(&sb, "submodule \"%s\" { belongs-to owner { prefix o; } ", h.Name)
	} else {
		fmt.Fprintf(&sb, "module \"%s\" { namespace \"urn:%s\"; prefix p; ", h.Name, h.Name)
	}
	for _, r := range h.Revs {
		fmt.Fprintf(&sb, "revision %q; ", r)
	}
	if !h.Sub {
		// what the statements of the multi-statement clients are observed through (multi.go)
		sb.WriteString(bodyOf(tag))
	}
	sb.WriteString("}")
	return sb.String()
}

// current mirrors Module.Current for the Go-side permutation oracle (greatest string).
func (h header) current() string {
	c := ""
	for _, r := range h.Revs {
		if r > c {
			c = r
		}
	}
	return c
}

func (h header) id() string {
	k := "m"
	if h.Sub {
		k = "s"
	}
	return k + ":" + h.Name + "@" + h.current()
}

type query struct {
	Inc  bool   `json:"inc"`
	Name string `json:"name"`
	Rev  string `json:"rev"` // "" = no revision-date
}

type regCase struct {
	Loads   []header `json:"loads"`
	Queries []query  `json:"queries"`
}

func fileOf(i int) string { return fmt.Sprintf("f%d.yang", i) }

func (c regCase) request(op string) string {
	var sb strings.Builder
	sb.WriteString(op)
	ti := -1
	for i, h := range c.Loads {
		k := "m "
		if h.Sub {
			k = "s "
		}
		if h.Cont && i > 0 {
			k = "+" + k
		} else {
			ti++
		}
		sb.WriteString(" " + k)
		sb.WriteString(lib.HexS(h.Name))
		sb.WriteByte(' ')
		sb.WriteString(lib.HexS(fileOf(ti)))
		fmt.Fprintf(&sb, " %d", len(h.Revs))
		for _, r := range h.Revs {
			sb.WriteByte(' ')
			sb.WriteString(lib.HexS(r))
		}
	}
	for _, q := range c.Queries {
		k := " imp "
		if q.Inc {
			k = " inc "
		}
		sb.WriteString(k)
		sb.WriteString(lib.HexS(q.Name))
		if q.Rev == "" {
			sb.WriteString(" ~")
		} else {
			sb.WriteString(" " + lib.HexS(q.Rev))
		}
	}
	return sb.String()
}

func commaJoin(xs []string) string {
	if len(xs) == 0 {
		return "-"
	}
	return strings.Join(xs, ",")
}

func srcFile(m *yang.Module) string {
	loc := m.Statement().Location()
	if i := strings.Index(loc, ":"); i >= 0 {
		return loc[:i]
	}
	return loc
}

// srcAt: the file and the position of the module's statement in its text (every statement of a
// generated text stands on a line of its own), as the model renders it: file#index.
func srcAt(m *yang.Module) string {
	f := strings.Split(m.Statement().Location(), ":")
	if len(f) < 3 {
		return f[0] + "#?"
	}
	line, _ := strconv.Atoi(f[len(f)-2])
	return strings.Join(f[:len(f)-2], ":") + "#" + strconv.Itoa(line-1)
}

func showMod(m *yang.Module) string {
	if m == nil {
		return "nil"
	}
	return lib.HexS(srcAt(m)) + ":" + lib.HexS(m.FullName())
}

func showBindings(m map[string]*yang.Module) string {
	var xs []string
	for k, v := range m {
		xs = append(xs, lib.HexS(k)+":"+showMod(v))
	}
	sort.Strings(xs)
	return commaJoin(xs)
}

type regObs struct {
	Line    string     // canonical answer line
	Process []string   // per query: what Process() bound in a client module ("" = not resolved)
	Multi   []multiObs // clients that carry several import / include statements (multi.go)
	Crash   string
}

// runRegistry loads the headers, looks at the maps, resolves the queries with FindModule, then
// loads one client module per query and lets Process() resolve them.
func runRegistry(c regCase) (obs regObs) {
	defer func() {
		if r := recover(); r != nil {
			obs.Crash = fmt.Sprint(r)
		}
	}()
	ms := yang.NewModules()
	var loads []string
	for ti, t := range c.texts() {
		var lines []string
		for si, i := range t {
			lines = append(lines, c.Loads[i].text(tagOf(ti, si)))
		}
		err := ms.Parse(strings.Join(lines, "\n"), fileOf(ti))
		switch {
		case err == nil:
			loads = append(loads, "ok")
		default:
			_, _, _, cls := lib.ErrClass(err.Error())
			if cls == "duplicate-module" {
				loads = append(loads, "dup")
			} else if cls == "bad-module-name" {
				loads = append(loads, "badname")
			} else {
				loads = append(loads, "err:"+cls)
			}
		}
	}
	mods, subs := showBindings(ms.Modules), showBindings(ms.SubModules)
	var qs []string
	for _, q := range c.Queries {
		var n yang.Node
		var rd *yang.Value
		if q.Rev != "" {
			rd = &yang.Value{Name: q.Rev}
		}
		if q.Inc {
			n = &yang.Include{Name: q.Name, RevisionDate: rd}
		} else {
			n = &yang.Import{Name: q.Name, RevisionDate: rd}
		}
		qs = append(qs, showMod(ms.FindModule(n)))
	}
	obs.Line = fmt.Sprintf("loads=%s modules=%s subs=%s q=%s", commaJoin(loads), mods, subs, commaJoin(qs))

	// the same queries through Process(): one client module per query, so that a failing one
	// does not stop the others
	mcs := multiClientsFor(c, qs)
	func() {
		defer func() {
			if r := recover(); r != nil {
				// a crash elsewhere in Process is another property's business (C01); what
				// include() bound before it is still there
				_ = r
			}
		}()
		obs.Multi = loadMultiClients(ms, c, mcs)
		for i, q := range c.Queries {
			var body string
			rd := ""
			if q.Rev != "" {
				rd = fmt.Sprintf(" revision-date %q;", q.Rev)
			}
			if q.Inc {
				body = fmt.Sprintf("include \"%s\" {%s }", q.Name, rd)
			} else {
				body = fmt.Sprintf("import \"%s\" { prefix q;%s }", q.Name, rd)
			}
			txt := fmt.Sprintf("module client%d { namespace \"urn:c%d\"; prefix c%d; %s }", i, i, i, body)
			if err := ms.Parse(txt, fmt.Sprintf("client%d.yang", i)); err != nil {
				panic("client module does not load: " + err.Error())
			}
		}
		ms.Process()
	}()
	for i, q := range c.Queries {
		cm := ms.Modules[fmt.Sprintf("client%d", i)]
		var got *yang.Module
		if cm != nil {
			if q.Inc && len(cm.Include) == 1 {
				got = cm.Include[0].Module
			} else if !q.Inc && len(cm.Import) == 1 {
				got = cm.Import[0].Module
			}
		}
		obs.Process = append(obs.Process, showMod(got))
	}
	observeMultiClients(ms, obs.Multi)
	return obs
}

var (
	r19 = "2019-01-01"
	r20 = "2020-01-01"
)

func universe(thorough bool) []header {
	u := []header{
		{false, "m", nil, false},
		{false, "m", []string{r19}, false},
		{false, "m", []string{r20}, false},
		{false, "m", []string{r19, r20}, false}, // Current = 2020: same header as the one before
		{false, "n", nil, false},
		{false, "n", []string{r20}, false},
		{true, "s", nil, false},
		{true, "s", []string{r19}, false},
		{true, "s", []string{r20, r19}, false},
		{true, "m", nil, false}, // a submodule that shares its name with a module: separate table
		// D61: names with '@' (refused by add): as a bare name it is the full name of m@2020-01-01
		{false, "m@2020-01-01", nil, false},
		{false, "m@x", []string{r20}, false},
	}
	if thorough {
		u = append(u, header{false, "m", []string{"2019-12-31"}, false}, header{true, "m", []string{r20}, false})
	}
	return u
}

func stdQueries() []query {
	return []query{
		{false, "m", ""}, {false, "m", r19}, {false, "m", r20}, {false, "m", "2018-01-01"},
		{false, "n", ""}, {false, "n", r20}, {false, "s", ""},
		{true, "s", ""}, {true, "s", r19}, {true, "s", r20}, {true, "m", ""}, {true, "n", ""},
		{false, "m@2020-01-01", ""}, {false, "m@x", r20},
	}
}

// wildEq compares a Go answer line with the specification's line; `*` in the q list of the
// specification matches anything.
func wildEq(goLine, spec string) bool {
	gi, si := strings.LastIndex(goLine, " q="), strings.LastIndex(spec, " q=")
	if gi < 0 || si < 0 || goLine[:gi] != spec[:si] {
		return false
	}
	g, s := strings.Split(goLine[gi+3:], ","), strings.Split(spec[si+3:], ",")
	if len(g) != len(s) {
		return false
	}
	for i := range g {
		if s[i] != "*" && s[i] != g[i] {
			return false
		}
	}
	return true
}

// projection of a Go answer line that must not depend on the load order: bindings without the
// source file, answers to the queries without the source file, and the multiset of rejected
// headers.
func orderFree(c regCase, line string) string {
	var rej []string
	f := strings.Fields(line)
	if len(f) != 4 {
		return line
	}
	ts := c.texts()
	for i, o := range strings.Split(strings.TrimPrefix(f[0], "loads="), ",") {
		if o != "ok" && i < len(ts) {
			rej = append(rej, o+" "+textID(c, ts[i]))
		}
	}
	sort.Strings(rej)
	strip := func(s string, nf int) string {
		if s == "-" {
			return s
		}
		var out []string
		for _, e := range strings.Split(s, ",") {
			p := strings.Split(e, ":")
			if len(p) == nf { // drop the file field (the one before the last)
				p = append(p[:nf-2], p[nf-1])
			}
			out = append(out, strings.Join(p, ":"))
		}
		return strings.Join(out, ",")
	}
	return "rejected=" + strings.Join(rej, ";") + " " + strip(strings.TrimPrefix(f[1], "modules="), 3) + " " +
		strip(strings.TrimPrefix(f[2], "subs="), 3) + " " + strip(strings.TrimPrefix(f[3], "q="), 2)
}

// orderOracleApplies: every text holds one statement, or no header occurs in two texts.
func orderOracleApplies(c regCase) bool {
	ts := c.texts()
	if len(ts) == len(c.Loads) {
		return true
	}
	where := map[string]int{}
	for ti, t := range ts {
		for _, i := range t {
			id := c.Loads[i].id()
			if w, ok := where[id]; ok && w != ti {
				return false
			}
			where[id] = ti
		}
	}
	return true
}

// textID names a text by the headers of its statements, in order.
func textID(c regCase, t []int) string {
	var ids []string
	for _, i := range t {
		ids = append(ids, c.Loads[i].id())
	}
	return strings.Join(ids, "+")
}

// multisetKey: the multiset of texts (the order of the texts is what may vary, not their content).
func multisetKey(c regCase) string {
	var ids []string
	for _, t := range c.texts() {
		ids = append(ids, textID(c, t))
	}
	sort.Strings(ids)
	return strings.Join(ids, "|")
}

func nontrivialReg(c regCase) bool {
	seen := map[string]int{}
	for _, h := range c.Loads {
		k := "m"
		if h.Sub {
			k = "s"
		}
		seen[k+h.Name]++
	}
	for _, n := range seen {
		if n >= 2 {
			return true
		}
	}
	return false
}

func partA(f *lib.Flags, res *lib.Result, d *lib.Driver, distinct *lib.Distinct) int64 {
	u := universe(f.Thorough())
	maxLen := 4
	if f.Thorough() {
		maxLen = 5
	}
	var cases []regCase
	var rec func(cur []header)
	rec = func(cur []header) {
		cases = append(cases, regCase{Loads: append([]header{}, cur...), Queries: stdQueries()})
		if len(cur) == maxLen {
			return
		}
		for _, h := range u {
			rec(append(cur, h))
		}
	}
	rec(nil)
	// corpus: the witness of D61 in both load orders (not dates, and dates), with a second module without
	// revision whose name is the other's full name
	for _, w := range [][]header{
		{{false, "m@2020", nil, false}, {false, "m", []string{"2020"}, false}},
		{{false, "m", []string{"2020"}, false}, {false, "m@2020", nil, false}},
		{{false, "m@2020-01-01", nil, false}, {false, "m", []string{r20}, false}, {false, "m@2020-01-01", nil, false}},
		{{false, "m", []string{r20}, false}, {false, "m@2020-01-01", nil, false}, {true, "m@2020-01-01", nil, false}},
		{{false, "m", []string{"2020@x"}, false}, {false, "m@2020", []string{"x"}, false}},
		{{false, "m@2020", []string{"x"}, false}, {false, "m", []string{"2020@x"}, false}},
	} {
		cases = append(cases, regCase{Loads: w, Queries: append(stdQueries(), query{false, "m@2020", ""}, query{false, "m", "2020"},
			query{false, "m", "2020@x"}, query{false, "m@2020", "x"})})
	}
	// texts with several statements (Modules.Parse adds them one after the other, all or nothing): every
	// pair of headers as one text, alone, after every single load, and followed by a load that may clash;
	// every triple as one text
	cont := func(h header) header { h.Cont = true; return h }
	followers := [][]header{nil, {u[2]}, {u[0]}}
	for _, a := range u {
		for _, b := range u {
			for pi := -1; pi < len(u); pi++ {
				for _, fo := range followers {
					var ls []header
					if pi >= 0 {
						ls = append(ls, u[pi])
					}
					ls = append(ls, a, cont(b))
					ls = append(ls, fo...)
					cases = append(cases, regCase{Loads: ls, Queries: stdQueries()})
				}
			}
			for _, c3 := range u {
				cases = append(cases, regCase{Loads: []header{a, cont(b), cont(c3)}, Queries: stdQueries()})
			}
		}
	}
	// shortest sequences first: the first disagreements recorded are then the smallest witnesses
	sort.SliceStable(cases, func(i, j int) bool { return len(cases[i].Loads) < len(cases[j].Loads) })
	nEnum := len(cases)
	// seeded random: longer sequences over a larger universe (more revisions per module, revision
	// arguments that are not dates, names that are prefixes of one another)
	rng := f.Rand(1)
	names := []string{"m", "mm", "m-x", "n", "m", "n", "m@2020-01-01", "m@", "@", "m@2019-01-01@x", "m.x", "9m", "m x", "m:n"}
	revPool := []string{r19, r20, "2019-12-31", "2020-01-02", "1999-09-09", "2020-1-01", "20200101", "zzzz"}
	nRand := 3000
	if f.Thorough() {
		nRand = 60000
	}
	for i := 0; i < nRand; i++ {
		n := 3 + rng.Intn(6)
		var c regCase
		wellFormed := rng.Intn(4) != 0
		for j := 0; j < n; j++ {
			h := header{Sub: rng.Intn(4) == 0, Name: names[rng.Intn(len(names))], Cont: j > 0 && rng.Intn(3) == 0}
			for k := rng.Intn(4); k > 0; k-- {
				pool := revPool
				if wellFormed {
					pool = revPool[:5]
				}
				h.Revs = append(h.Revs, pool[rng.Intn(len(pool))])
			}
			c.Loads = append(c.Loads, h)
		}
		for _, nm := range names[2:] {
			c.Queries = append(c.Queries, query{false, nm, ""}, query{true, nm, ""},
				query{rng.Intn(2) == 0, nm, revPool[rng.Intn(len(revPool))]})
		}
		cases = append(cases, c)
	}

	reqs := make([]string, len(cases))
	obs := make([]regObs, len(cases))
	var nontrivial int64
	for i, c := range cases {
		reqs[i] = c.request("registry")
		obs[i] = runRegistry(c)
		if distinct.Add(reqs[i]) && nontrivialReg(c) {
			nontrivial++
		}
	}
	ans, err := lib.ParBatch(f.Driver, reqs, f.Procs)
	if err != nil {
		lib.Fatal("driver: %v", err)
	}
	groups := map[string]int{} // multiset -> index of the first case seen
	for i, c := range cases {
		o := obs[i]
		if o.Crash != "" {
			res.AddDisagreement(lib.Disagreement{Kind: "crash", Input: c, Go: o.Crash, Model: ans[i], SpecVerdict: "violates",
				What: "panic while loading module headers", Replay: map[string]any{"registry": c}})
			continue
		}
		if o.Line != ans[i] {
			if len(res.Disagreements) >= 50 {
				res.Count("disagreements_not_examined", 1)
				continue
			}
			v, spec := specRegistry(d, c, o.Line)
			res.AddDisagreement(lib.Disagreement{Kind: "correspondence", Input: c, Go: o.Line, Model: ans[i], SpecVerdict: v,
				What: "registry differs from the model; specification: " + spec, Replay: map[string]any{"registry": c}})
			continue
		}
		// Process() must bind what FindModule answered
		qs := strings.Split(o.Line[strings.LastIndex(o.Line, " q=")+3:], ",")
		for j := range c.Queries {
			if j < len(qs) && j < len(o.Process) && qs[j] != o.Process[j] {
				res.AddDisagreement(lib.Disagreement{Kind: "correspondence", Input: c, Go: o.Process, Model: qs, SpecVerdict: "violates",
					What:   fmt.Sprintf("Process() bound query %d (%+v) to %s, FindModule and the model say %s", j, c.Queries[j], o.Process[j], qs[j]),
					Replay: map[string]any{"registry": c}})
				break
			}
		}
		// Go-side oracle: every permutation of one multiset of texts gives the same bindings.  With texts of
		// several statements this is claimed only when no header occurs in two different texts: a text
		// is given up as a whole, so of two texts that share one header but differ otherwise the one
		// loaded second is lost with everything in it, whichever that is.
		if orderOracleApplies(c) {
			k := multisetKey(c) + "#" + fmt.Sprint(c.Queries)
			if j, ok := groups[k]; ok {
				a, b := orderFree(cases[j], obs[j].Line), orderFree(c, o.Line)
				if a != b {
					res.AddDisagreement(lib.Disagreement{Kind: "spec", Input: []regCase{cases[j], c}, Go: []string{a, b}, SpecVerdict: "violates",
						What: "two load orders of the same headers give different bindings or outcomes", Replay: map[string]any{"registry": c}})
				}
			} else {
				groups[k] = i
			}
		}
		if i%(len(cases)/3+1) == 7 {
			res.AddSample(map[string]any{"loads": c.Loads, "go": o.Line, "model": ans[i]})
		}
	}
	// the specification on the Go output of every enumerated case (and the well-formed random ones)
	specReqs := make([]string, len(cases))
	for i, c := range cases {
		specReqs[i] = c.request("spec.registry")
	}
	specAns, err := lib.ParBatch(f.Driver, specReqs, f.Procs)
	if err != nil {
		lib.Fatal("driver: %v", err)
	}
	var specEvaluated int64
	// the clients that carry several import / include statements: every statement against the answer
	// for its (name, revision-date) - FindModule's, which is the model's here, and the specification's
	var multiClients, multiStatements, multiReported int64
	for i, c := range cases {
		o := obs[i]
		if o.Crash != "" || o.Line != ans[i] {
			continue // reported above
		}
		for _, mo := range o.Multi {
			multiClients++
			multiStatements += int64(len(mo.Client.Order))
		}
		qs := strings.Split(o.Line[strings.LastIndex(o.Line, " q=")+3:], ",")
		var specQs []string
		if k := strings.LastIndex(specAns[i], " q="); k >= 0 && !strings.Contains(specAns[i], "undef") && wildEq(o.Line, specAns[i]) {
			specQs = strings.Split(specAns[i][k+3:], ",")
		}
		if d := judgeMulti(c, o, qs, specQs); d != nil {
			if multiReported++; multiReported > 25 {
				res.Count("disagreements_not_examined", 1)
				continue
			}
			res.AddDisagreement(*d)
		}
	}
	res.Distribution["registry_multi_statement_clients"] = multiClients
	res.Distribution["registry_multi_statement_client_statements"] = multiStatements
	for i, c := range cases {
		if obs[i].Crash != "" || specAns[i] == "undef" || strings.Contains(specAns[i], "undef") {
			continue
		}
		specEvaluated++
		if !wildEq(obs[i].Line, specAns[i]) {
			if len(res.Disagreements) >= 50 {
				res.Count("disagreements_not_examined", 1)
				continue
			}
			res.AddDisagreement(lib.Disagreement{Kind: "spec", Input: c, Go: obs[i].Line, Model: specAns[i], SpecVerdict: "violates",
				What: "the registry does not bind names as the specification says", Replay: map[string]any{"registry": c}})
		}
	}
	res.Distribution["registry_enumerated_sequences"] = nEnum
	res.Distribution["registry_random_sequences"] = nRand
	res.Distribution["registry_multisets"] = len(groups)
	res.Distribution["registry_spec_evaluated"] = specEvaluated
	res.Distribution["registry_max_enumerated_length"] = maxLen
	res.Evaluations += int64(len(cases))
	return nontrivial
}

func specRegistry(d *lib.Driver, c regCase, goLine string) (string, string) {
	spec, err := d.Ask(c.request("spec.registry"))
	if err != nil {
		return "", "driver: " + err.Error()
	}
	if strings.Contains(spec, "undef") {
		return "", "not defined for revisions that are not dates"
	}
	if wildEq(goLine, spec) {
		return "holds", spec
	}
	return "violates", spec
}

// ---------------------------------------------------------------- part (b): file chooser

// node is a directory tree; Dir == nil means a regular file.
type node struct {
	Name string  `json:"name"`
	File bool    `json:"file"`
	Kids []*node `json:"kids,omitempty"`
}

type fileCase struct {
	Root  *node    `json:"root"`  // the current directory
	Add   []string `json:"add"`   // arguments of ms.AddPath, in order
	Walk  string   `json:"walk"`  // when not empty: AddPath(PathsWithModules(Walk)...) after Add
	Names []string `json:"names"` // ms.Read(name) for each, on one Modules value, in order
}

func wireTree(sb *strings.Builder, n *node) {
	if n.File {
		sb.WriteString("f ")
		return
	}
	sb.WriteString("[ ")
	for _, k := range n.Kids {
		sb.WriteString(lib.HexS(k.Name))
		sb.WriteByte(' ')
		wireTree(sb, k)
	}
	sb.WriteString("] ")
}

func findRequest(op string, root *node, path []string, name string) string {
	var sb strings.Builder
	sb.WriteString(op + " ")
	wireTree(&sb, root)
	sb.WriteString("|")
	for _, p := range path {
		sb.WriteString(" " + lib.HexS(p))
	}
	sb.WriteString(" | " + lib.HexS(name))
	return sb.String()
}

func identOf(fn string) string {
	base := fn
	if i := strings.IndexAny(base, "@."); i >= 0 {
		base = base[:i]
	}
	ok := base != ""
	for i, r := range base {
		if !(r == '_' || r >= 'a' && r <= 'z' || r >= 'A' && r <= 'Z' || (i > 0 && (r >= '0' && r <= '9' || r == '-'))) {
			ok = false
		}
	}
	if !ok {
		return "x"
	}
	return base
}

func materialise(dir, rel string, n *node) error {
	for _, k := range n.Kids {
		p := filepath.Join(dir, k.Name)
		r := k.Name
		if rel != "" {
			r = rel + "/" + k.Name
		}
		if k.File {
			txt := fmt.Sprintf("module %s { namespace \"urn:x\"; prefix x; description %q; }\n", identOf(k.Name), r)
			if err := os.WriteFile(p, []byte(txt), 0o644); err != nil {
				return err
			}
		} else {
			if err := os.Mkdir(p, 0o755); err != nil {
				return err
			}
			if err := materialise(p, r, k); err != nil {
				return err
			}
		}
	}
	return nil
}

type readObs struct {
	Path  []string // ms.Path before the Read
	Calls []string // the search path as the calls so far registered it (spell.go): what model and specification are asked about
	Line  string   // "file <name> <path after>" | "none" | "err <msg>"
}

type fileObs struct {
	Walk   string // "paths a,b" when Walk was requested
	Reads  []readObs
	Opened []string // per Read: the description of the module that was loaded ("" when none)
	Crash  string
}

// runFile creates the tree, changes into it and performs the calls.
func runFile(work string, c fileCase) (obs fileObs) {
	dir, err := os.MkdirTemp(work, "case")
	if err != nil {
		lib.Fatal("%v", err)
	}
	defer os.RemoveAll(dir)
	if err := materialise(dir, "", c.Root); err != nil {
		lib.Fatal("creating the directory tree: %v", err)
	}
	if err := os.Chdir(dir); err != nil {
		lib.Fatal("%v", err)
	}
	defer os.Chdir(work)
	defer func() {
		if r := recover(); r != nil {
			obs.Crash = fmt.Sprint(r)
		}
	}()
	ms := yang.NewModules()
	cp := newCallPath()
	for _, a := range c.Add {
		ms.AddPath(a)
		cp.add(a)
	}
	if c.Walk != "" {
		ps, _ := yang.PathsWithModules(c.Walk)
		var hx []string
		for _, p := range ps {
			hx = append(hx, lib.HexS(p))
		}
		obs.Walk = "paths " + commaJoin(hx)
		ms.AddPath(ps...)
		cp.add(ps...)
	}
	for _, name := range c.Names {
		before := append([]string{}, ms.Path...)
		known := map[*yang.Module]bool{}
		for _, m := range ms.Modules {
			known[m] = true
		}
		for _, m := range ms.SubModules {
			known[m] = true
		}
		err := ms.Read(name)
		ro := readObs{Path: before, Calls: cp.snapshot()}
		opened := ""
		var nm *yang.Module
		for _, mm := range []map[string]*yang.Module{ms.Modules, ms.SubModules} {
			for _, m := range mm {
				if !known[m] {
					nm = m
				}
			}
		}
		switch {
		case nm != nil:
			var hx []string
			for _, p := range ms.Path {
				hx = append(hx, lib.HexS(p))
			}
			ro.Line = "file " + lib.HexS(srcFile(nm)) + " " + commaJoin(hx)
			cp.readFrom(name, srcFile(nm))
			if nm.Description != nil {
				opened = nm.Description.Name
			}
		case err != nil && strings.HasPrefix(err.Error(), "no such file"):
			ro.Line = "none"
		case err != nil:
			// e.g. the file found holds a module that is already loaded: the file name is in the message
			ro.Line = "err " + err.Error()
			cp.resync(ms.Path)
		default:
			ro.Line = "err loaded nothing new"
		}
		obs.Reads = append(obs.Reads, ro)
		obs.Opened = append(obs.Opened, opened)
	}
	return obs
}

// candidate and near-miss file names for module foo
var filePool = []string{
	"foo.yang", "foo@2020-01-01.yang", "foo@2019-12-31.yang", "foo@2021-02-03.yang", "foo@2020-10-01.yang", "foo@2020-09-30.yang",
	"foo@2020-1-01.yang", "foobar.yang", "foo@2020-01-01.yang.bak", "foo@2020-01-01.yan", "fo.yang", "foo@2020-01-011.yang",
	"foo@20200101.yang", "foo@2020-01-01", "Foo.yang", "xfoo.yang", "foo@2022-01-01@2020-01-01.yang", "foo@2020_01_01.yang",
	"foo@٢٠٢٠-01-01.yang", "foo@9999-99-99.yang", "foo@2020-01-01.yangx", "foo.yang~", "foo-2020-01-01.yang", "foo@.yang",
	"bar.yang", "bar@2020-01-01.yang", "foo.txt", "foo", ".yang", "@2020-01-01.yang",
}

var dirPool = []string{"a", "b", "z", "sub", "foo.yang", "foo@2030-01-01.yang", "foo", "fop", "...", "d.yang"}

func randTree(rng *rand.Rand, depth int) *node {
	n := &node{}
	used := map[string]bool{}
	nf := rng.Intn(5)
	for i := 0; i < nf; i++ {
		var nm string
		if rng.Intn(3) == 0 {
			nm = filePool[rng.Intn(6)] // a real candidate
		} else {
			nm = filePool[rng.Intn(len(filePool))]
		}
		if !used[nm] {
			used[nm] = true
			n.Kids = append(n.Kids, &node{Name: nm, File: true})
		}
	}
	if depth > 0 {
		nd := rng.Intn(4)
		for i := 0; i < nd; i++ {
			nm := dirPool[rng.Intn(len(dirPool))]
			if rng.Intn(2) == 0 {
				nm = dirPool[rng.Intn(4)]
			}
			if !used[nm] {
				used[nm] = true
				k := randTree(rng, depth-1)
				k.Name = nm
				n.Kids = append(n.Kids, k)
			}
		}
	}
	rng.Shuffle(len(n.Kids), func(i, j int) { n.Kids[i], n.Kids[j] = n.Kids[j], n.Kids[i] })
	return n
}

func allDirs(n *node, rel string, out *[]string) {
	for _, k := range n.Kids {
		if !k.File {
			r := k.Name
			if rel != "" {
				r = rel + "/" + k.Name
			}
			*out = append(*out, r)
			allDirs(k, r, out)
		}
	}
}

func randFileCase(rng *rand.Rand) fileCase {
	c := fileCase{Root: randTree(rng, 1+rng.Intn(3))}
	var dirs []string
	allDirs(c.Root, "", &dirs)
	np := rng.Intn(4)
	for i := 0; i < np; i++ {
		var p string
		switch r := rng.Intn(12); {
		case r == 0:
			p = "."
		case r == 1:
			p = "..."
		case r == 2:
			p = "nx"
		case r == 3:
			p = "nx/..."
		case r == 4 && len(c.Root.Kids) > 0:
			p = c.Root.Kids[rng.Intn(len(c.Root.Kids))].Name // maybe a regular file
		case len(dirs) > 0:
			p = dirs[rng.Intn(len(dirs))]
			if rng.Intn(3) == 0 {
				p += "/..."
			}
		default:
			p = "a"
		}
		if rng.Intn(10) == 0 && len(dirs) > 0 {
			p += ":" + dirs[rng.Intn(len(dirs))] // AddPath splits at colons
		}
		if rng.Intn(25) == 0 {
			// not a clean relative path: the model answers `outside` when the search reaches it
			p = []string{"./" + p, p + "/", "a//b", "../" + filepath.Base(p)}[rng.Intn(4)]
		}
		c.Add = append(c.Add, p)
	}
	if rng.Intn(5) == 0 {
		c.Walk = "."
		if rng.Intn(2) == 0 && len(dirs) > 0 {
			c.Walk = dirs[rng.Intn(len(dirs))]
		}
	}
	names := []string{"foo", "foo", "foo", "foo", "foo.yang", "bar", "foo@2020-01-01", "foo@2022-01-01", "nx", "a/foo.yang", "a/foo", "fo", "foobar", ""}
	c.Names = []string{names[rng.Intn(len(names))]}
	if rng.Intn(4) == 0 {
		// a second Read on the same Modules value sees the Path the first one left behind
		c.Names = append(c.Names, []string{"bar", "foo", "fo"}[rng.Intn(3)])
	}
	return c
}

func files(names ...string) []*node {
	var out []*node
	for _, n := range names {
		out = append(out, &node{Name: n, File: true})
	}
	return out
}

// enumFileCases: complete enumerations of small layout spaces.
func enumFileCases(thorough bool) []fileCase {
	var cases []fileCase
	// 1. one directory holding any subset of a pool of candidates and near misses; the directory is
	//    the current directory, or the only path entry, or reached through `...`
	pool := []string{"foo.yang", "foo@2020-01-01.yang", "foo@2019-12-31.yang", "foo@2020-1-01.yang", "foobar.yang",
		"foo@2020-01-01.yang.bak", "foo@2021-01-01.yan", "foo@9999-99-99.yangx", "bar@2022-01-01.yang"}
	if thorough {
		pool = append(pool, "foo@2020-10-01.yang", "foo@2020-09-30.yang", "foo@2022-01-01@2020-01-01.yang")
	}
	for mask := 0; mask < 1<<len(pool); mask++ {
		var fs []string
		for i, p := range pool {
			if mask&(1<<i) != 0 {
				fs = append(fs, p)
			}
		}
		where := mask % 3
		if thorough {
			where = -1
		}
		if where == 0 || where < 0 {
			cases = append(cases, fileCase{Root: &node{Kids: files(fs...)}, Names: []string{"foo"}})
		}
		if where == 1 || where < 0 {
			cases = append(cases, fileCase{Root: &node{Kids: []*node{{Name: "d", Kids: files(fs...)}}}, Add: []string{"d"}, Names: []string{"foo"}})
		}
		if where == 2 || where < 0 {
			cases = append(cases, fileCase{Root: &node{Kids: []*node{{Name: "d", Kids: []*node{{Name: "e", Kids: files(fs...)}}}}}, Add: []string{"d/..."}, Names: []string{"foo"}})
		}
	}
	// 2. order of search: any subset of {exact, older, newer} in each of the current directory, d1, d2,
	//    both path orders
	cand := []string{"foo.yang", "foo@2019-01-01.yang", "foo@2020-01-01.yang"}
	sub := func(mask int) []*node {
		var fs []string
		for i, p := range cand {
			if mask&(1<<i) != 0 {
				fs = append(fs, p)
			}
		}
		return files(fs...)
	}
	for a := 0; a < 8; a++ {
		for b := 0; b < 8; b++ {
			for c := 0; c < 8; c++ {
				root := &node{Kids: append(sub(a), &node{Name: "d1", Kids: sub(b)}, &node{Name: "d2", Kids: sub(c)})}
				cases = append(cases, fileCase{Root: root, Add: []string{"d1", "d2"}, Names: []string{"foo"}},
					fileCase{Root: root, Add: []string{"d2", "d1"}, Names: []string{"foo"}})
			}
		}
	}
	// 3. recursive entries: a directory r with subdirectories a (sorts before foo.yang) and z (after),
	//    and a/k below a; any of {exact, dated} in each of the four
	two := []string{"foo.yang", "foo@2020-01-01.yang"}
	sub2 := func(mask int) []*node {
		var fs []string
		for i, p := range two {
			if mask&(1<<i) != 0 {
				fs = append(fs, p)
			}
		}
		return files(fs...)
	}
	for r := 0; r < 4; r++ {
		for a := 0; a < 4; a++ {
			for k := 0; k < 4; k++ {
				for z := 0; z < 4; z++ {
					ak := &node{Name: "k", Kids: sub2(k)}
					an := &node{Name: "a", Kids: append(sub2(a), ak)}
					zn := &node{Name: "z", Kids: sub2(z)}
					rn := &node{Name: "r", Kids: append(sub2(r), an, zn)}
					root := &node{Kids: []*node{rn}}
					cases = append(cases, fileCase{Root: root, Add: []string{"r/..."}, Names: []string{"foo"}})
					if thorough || (r+a+k+z)%4 == 0 {
						cases = append(cases, fileCase{Root: root, Walk: ".", Names: []string{"foo"}},
							fileCase{Root: rn, Add: []string{"..."}, Names: []string{"foo"}})
					}
				}
			}
		}
	}
	return cases
}

func partB(f *lib.Flags, res *lib.Result, d *lib.Driver, distinct *lib.Distinct, work string) int64 {
	cases := enumFileCases(f.Thorough())
	// module names other than foo: names ending in the characters of `.yang`, names that are trimmed forms
	// of one another, dots and dashes (names.go)
	nameCases := enumNameCases(f.Thorough())
	cases = append(cases, nameCases...)
	nEnum := len(cases)
	// corpus: the layouts of pkg/yang/testdata/find-file-test and of the task description
	cases = append(cases,
		fileCase{Root: &node{Kids: append(files("blue.yang", "blue@2000-10-10.yang", "non-standard.name", "red@2010-10-10.yang", "red@2222-2-22.yang"),
			&node{Name: "dir", Kids: append(files("red@2020-02-02.yang", "red@2020-02-20.yang"), &node{Name: "dirdir", Kids: files("red@2022-02-22.yang")})})},
			Names: []string{"red", "blue"}},
		fileCase{Root: &node{Kids: []*node{{Name: "t", Kids: append(files("red@2010-10-10.yang"),
			&node{Name: "dir", Kids: append(files("red@2020-02-20.yang"), &node{Name: "dirdir", Kids: files("red@2022-02-22.yang")})})}}},
			Add: []string{"t/..."}, Names: []string{"red"}},
		fileCase{Root: &node{Kids: []*node{{Name: "foo.yang", Kids: files("foo.yang")}, {Name: "p", Kids: files("foo@2020-01-01.yang")}}},
			Add: []string{"p"}, Names: []string{"foo"}},
	)
	// one directory registered plain and recursively, both orders, by separate calls and as a colon list; the
	// current directory likewise (seeded change C13-l21: entries keyed by the directory they stand for)
	for _, add := range [][]string{{"d", "d/..."}, {"d/...", "d"}, {"d:d/..."}, {"d", "e", "d/..."}, {"d:e:d/..."}} {
		cases = append(cases,
			fileCase{Root: &node{Kids: []*node{dirNode("d", append(files("bar.yang"), dirNode("lib", files("foo@2020-01-01.yang", "foo@2019-01-01.yang")...))...), dirNode("e")}}, Add: add, Names: []string{"foo"}},
			fileCase{Root: &node{Kids: []*node{dirNode("d", dirNode("lib", files("foo.yang")...)), dirNode("e", files("foo@2021-01-01.yang")...)}}, Add: add, Names: []string{"foo", "bar"}})
	}
	for _, add := range [][]string{{".", "..."}, {"...", "."}, {".:..."}} {
		cases = append(cases, fileCase{Root: &node{Kids: append(files("bar.yang"), dirNode("lib", files("foo@2020-01-01.yang")...))}, Add: add, Names: []string{"foo"}},
			fileCase{Root: &node{Kids: append(files("bar.yang"), dirNode("lib", files("foo@2020-01-01.yang")...))}, Add: add, Names: []string{"bar", "foo"}})
	}
	nRand := 2500
	if f.Thorough() {
		nRand = 60000
	}
	rng, rngName := f.Rand(2), f.Rand(5)
	for i := 0; i < nRand; i++ {
		// (half of them under a renaming foo -> N, fo -> T of a name family)
		cases = append(cases, maybeRenameFile(rngName, randFileCase(rng)))
	}
	type probe struct {
		ci, ri int
		req    string
		goLine string
		name   string
		path   []string
	}
	var probes []probe
	var walkReqs []string
	var walkIdx []int
	obs := make([]fileObs, len(cases))
	var nontrivial int64
	for i, c := range cases {
		obs[i] = runFile(work, c)
		if obs[i].Crash != "" {
			res.AddDisagreement(lib.Disagreement{Kind: "crash", Input: c, Go: obs[i].Crash, SpecVerdict: "violates",
				What: "panic in AddPath / PathsWithModules / Read", Replay: map[string]any{"file": c}})
			continue
		}
		if c.Walk != "" {
			var sb strings.Builder
			sb.WriteString("paths ")
			wireTree(&sb, c.Root)
			sb.WriteString("| " + lib.HexS(c.Walk))
			walkReqs = append(walkReqs, sb.String())
			walkIdx = append(walkIdx, i)
		}
		for ri, ro := range obs[i].Reads {
			// a second Read may find a module that is already loaded; the model of findFile is about
			// the file, so such a Read is compared through the name in the error message only when
			// it is a plain result
			req := findRequest("find", c.Root, ro.Calls, c.Names[ri])
			probes = append(probes, probe{i, ri, req, ro.Line, c.Names[ri], ro.Calls})
			if distinct.Add(req) && nontrivialFile(c.Root, c.Names[ri]) {
				nontrivial++
			}
		}
	}
	reqs := make([]string, len(probes))
	for i, p := range probes {
		reqs[i] = p.req
	}
	ans, err := lib.ParBatch(f.Driver, reqs, f.Procs)
	if err != nil {
		lib.Fatal("driver: %v", err)
	}
	var outside, specEvaluated, found int64
	for i, p := range probes {
		c := cases[p.ci]
		if ans[i] == "outside" {
			outside++
			continue
		}
		if strings.HasPrefix(p.goLine, "err ") {
			// the chosen file was read but its module could not be added (already loaded by the Read
			// before): nothing to compare beyond the fact that a file was chosen
			if ans[i] == "none" {
				res.AddDisagreement(lib.Disagreement{Kind: "correspondence", Input: c, Go: p.goLine, Model: ans[i], SpecVerdict: "",
					What: "Read failed after choosing a file, the model finds no file", Replay: map[string]any{"file": c}})
			}
			continue
		}
		opened := obs[p.ci].Opened[p.ri]
		if strings.HasPrefix(p.goLine, "file ") {
			found++
			// the file that was opened must be the file whose name was returned
			fs := strings.Fields(p.goLine)
			nameB, _ := lib.UnHex(fs[1])
			if filepath.Clean(string(nameB)) != opened {
				res.AddDisagreement(lib.Disagreement{Kind: "spec", Input: c, Go: p.goLine, Model: opened, SpecVerdict: "violates",
					What: fmt.Sprintf("Read reports %q but the module that was loaded comes from %q", nameB, opened), Replay: map[string]any{"file": c}})
				continue
			}
		}
		if p.goLine != ans[i] {
			if len(res.Disagreements) >= 50 && chosen(p.goLine) == chosen(ans[i]) {
				// the same file, another Path afterwards: no failing input to be had
				res.Count("disagreements_not_examined", 1)
				continue
			}
			v, spec := specFind(d, c.Root, p.path, p.name, p.goLine)
			dis := lib.Disagreement{Kind: "correspondence", Input: c, Go: p.goLine, Model: ans[i], SpecVerdict: v,
				What: fmt.Sprintf("Read(%q) differs from the model; specification: %s", p.name, spec), Replay: map[string]any{"file": c}}
			if v == "violates" {
				ro := obs[p.ci].Reads[p.ri]
				dis.Kind = "spec"
				clause := "a module that is not yet loaded is fetched from the first search-path directory holding a candidate"
				if g := unhexLine(chosen(p.goLine)); strings.HasPrefix(g, "file ") && !strings.Contains(p.name, "/") && !strings.HasSuffix(p.name, ".yang") &&
					!candidateOf(p.name, filepath.Base(strings.TrimPrefix(g, "file "))) {
					clause = "choosing name.yang, else the name@YYYY-MM-DD.yang with the latest date, never a file belonging to a differently named module"
				}
				dis.What = fmt.Sprintf("C13 (b) `"+clause+"` fails: after AddPath%q%s Read(%q) answers [%s]; "+
					"the search path as the calls registered it (AddPath arguments in order, only exact duplicates dropped, plus the directory of every file read from `.` or by explicit path) is %q and the specification chooses [%s] on it (model: [%s]); ms.Path is %q",
					c.Add, map[bool]string{true: " + PathsWithModules(" + c.Walk + ")", false: ""}[c.Walk != ""], p.name, unhexLine(chosen(p.goLine)), ro.Calls, unhexLine(spec), unhexLine(chosen(ans[i])), ro.Path)
			}
			res.AddDisagreement(dis) // (when full, one with a concrete failing input displaces one without)
			continue
		}
		if i%(len(probes)/3+1) == 11 {
			res.AddSample(map[string]any{"case": c, "read": p.name, "go": p.goLine, "opened": opened, "model": ans[i]})
		}
	}
	// the specification on every Go result
	specReqs := make([]string, len(probes))
	for i, p := range probes {
		specReqs[i] = findRequest("spec.find", cases[p.ci].Root, p.path, p.name)
	}
	specAns, err := lib.ParBatch(f.Driver, specReqs, f.Procs)
	if err != nil {
		lib.Fatal("driver: %v", err)
	}
	for i, p := range probes {
		if specAns[i] == "na" || specAns[i] == "outside" || strings.HasPrefix(p.goLine, "err ") || obs[p.ci].Crash != "" {
			continue
		}
		specEvaluated++
		if !specAgrees(p.goLine, specAns[i]) {
			if p.goLine != ans[i] && ans[i] != "outside" {
				continue // reported above, with the verdict
			}
			res.AddDisagreement(lib.Disagreement{Kind: "spec", Input: cases[p.ci], Go: p.goLine, Model: specAns[i], SpecVerdict: "violates",
				What: fmt.Sprintf("Read(%q) did not choose the file the specification names", p.name), Replay: map[string]any{"file": cases[p.ci]}})
		}
	}
	if len(walkReqs) > 0 {
		wans, err := lib.ParBatch(f.Driver, walkReqs, f.Procs)
		if err != nil {
			lib.Fatal("driver: %v", err)
		}
		for k, i := range walkIdx {
			if wans[k] != "outside" && wans[k] != obs[i].Walk {
				res.AddDisagreement(lib.Disagreement{Kind: "correspondence", Input: cases[i], Go: obs[i].Walk, Model: wans[k], SpecVerdict: "",
					What: "PathsWithModules differs from the model", Replay: map[string]any{"file": cases[i]}})
			}
		}
	}
	res.Distribution["file_enumerated_layouts"] = nEnum
	res.Distribution["file_enumerated_layouts_other_module_names"] = len(nameCases)
	res.Distribution["file_random_layouts"] = nRand
	res.Distribution["file_reads"] = len(probes)
	res.Distribution["file_reads_that_found_a_file"] = found
	res.Distribution["file_reads_outside_model"] = outside
	res.Distribution["file_spec_evaluated"] = specEvaluated
	res.Distribution["file_paths_with_modules_calls"] = len(walkReqs)
	res.Evaluations += int64(len(probes) + len(walkReqs))
	return nontrivial
}

// specAgrees: the Go result line against the specification's `some <name>` / `none`.
func specAgrees(goLine, spec string) bool {
	switch {
	case spec == "none":
		return goLine == "none"
	case strings.HasPrefix(spec, "some "):
		fs := strings.Fields(goLine)
		return len(fs) >= 2 && fs[0] == "file" && fs[1] == strings.TrimPrefix(spec, "some ")
	}
	return false
}

func specFind(d *lib.Driver, root *node, path []string, name, goLine string) (string, string) {
	spec, err := d.Ask(findRequest("spec.find", root, path, name))
	if err != nil {
		return "", "driver: " + err.Error()
	}
	if spec == "na" || spec == "outside" {
		return "", "not a module name / outside the model"
	}
	if specAgrees(goLine, spec) {
		return "holds", spec
	}
	return "violates", spec
}

// nontrivialFile: the layout has at least two candidate files for the module asked for, or a candidate
// and a near miss (a file that is not a candidate and shares the first two characters of the name).
func nontrivialFile(n *node, asked string) bool {
	name := asked
	if i := strings.LastIndex(name, "/"); i >= 0 {
		name = name[i+1:]
	}
	name = strings.TrimSuffix(name, ".yang")
	if i := strings.Index(name, "@"); i >= 0 {
		name = name[:i]
	}
	pre := name
	if len(pre) > 2 {
		pre = pre[:2]
	}
	cands, near := 0, 0
	var walk func(n *node)
	walk = func(n *node) {
		for _, k := range n.Kids {
			if !k.File {
				walk(k)
				continue
			}
			switch {
			case candidateOf(name, k.Name):
				cands++
			case strings.HasPrefix(k.Name, pre):
				near++
			}
		}
	}
	walk(n)
	return cands >= 2 || (cands >= 1 && near >= 1)
}

// ---------------------------------------------------------------- main

func main() {
	f := lib.ParseFlags()
	if f.Out != "" {
		if abs, err := filepath.Abs(f.Out); err == nil {
			f.Out = abs
		}
	}
	if f.Driver != "" {
		if abs, err := filepath.Abs(f.Driver); err == nil {
			f.Driver = abs
		}
	}
	if f.Replay != "" {
		if abs, err := filepath.Abs(f.Replay); err == nil {
			f.Replay = abs
		}
	}
	base := lib.Root() + "/.work/c13"
	if err := os.MkdirAll(base, 0o755); err != nil {
		lib.Fatal("%v", err)
	}
	work, err := os.MkdirTemp(base, "run")
	if err != nil {
		lib.Fatal("%v", err)
	}
	defer os.RemoveAll(work)
	// an empty current directory: FindModule on a module that is not loaded looks for files
	if err := os.Chdir(work); err != nil {
		lib.Fatal("%v", err)
	}
	d, err := lib.StartDriver(f.Driver)
	if err != nil {
		lib.Fatal("driver: %v", err)
	}
	if f.Replay != "" {
		rc := replay(f, d, work)
		d.Close()
		os.RemoveAll(work)
		os.Exit(rc)
	}
	res := lib.NewResult("C13", f)
	distinct := lib.NewDistinct()
	var na, nb int64
	if pf := os.Getenv("C13_CPUPROFILE"); pf != "" { // (development aid)
		if w, err := os.Create(pf); err == nil {
			pprof.StartCPUProfile(w)
			defer pprof.StopCPUProfile()
		}
	}
	if os.Getenv("GOGC") == "" {
		// every case builds a Modules value of its own and drops it: little live data, much garbage
		debug.SetGCPercent(400)
	}
	t0 := time.Now()
	timing := func(what string) {
		if os.Getenv("C13_TIMING") != "" {
			fmt.Fprintf(os.Stderr, "%s done after %v\n", what, time.Since(t0))
		}
	}
	if os.Getenv("C13_ONLY") != "histories" { // (development aid: the histories alone)
		na = partA(f, res, d, distinct)
		timing("part (a)")
		nb = partB(f, res, d, distinct, work)
		timing("part (b)")
	}
	nh := partH(f, res, distinct, work)
	timing("histories")
	d.Close()
	res.DistinctNontrivial = na + nb + nh
	res.Exhaustive = false
	res.Rule = "part (a): every sequence (with repetition) of at most N headers over the universe {m, m@2019-01-01, m@2020-01-01, " +
		"m with both, n, n@2020-01-01, submodules s, s@2019-01-01, s with both, submodule m, and two names with '@': m@2020-01-01 without revision, m@x with revision (+2 more in the thorough tier)}, N = registry_max_enumerated_length, " +
		"each loaded as a YANG text of its own, plus texts holding two statements (every pair of headers: alone, after every single load, followed by a load that may clash) or three (every triple), 14 import/include queries each (FindModule and Process()), plus the witnesses of D61 in both orders, plus seeded random sequences of 3-8 headers over names {m, mm, m-x, n, and non-identifiers m@2020-01-01, m@, @, m@2019-01-01@x, m.x, 9m, 'm x', m:n} " +
		"with 0-3 revisions each, a quarter of them with revision arguments that are not dates; all load orders of one multiset are compared with one another; " +
		"imports and includes are judged per STATEMENT: besides one client module per query, the import queries FindModule could answer are put together into client modules that carry all of them as statements (several statements of one module name, with different revision-dates and without, under prefixes q0, q1, ...; forward, reverse and rotated statement order - all three for cases of at most 3 loads, one picked by a hash of the loads otherwise), likewise the include queries; " +
		"after Process() every statement's Import.Module / Include.Module, what `uses q<j>:g` expands to and what `type q<j>:t` resolves to (every loaded module defines a grouping and a typedef that spell its own source position) must denote the module FindModule, the model and the specification name for that statement. " +
		"part (b): real directory trees: every subset of a pool of candidate and near-miss names in one directory (current directory / path entry / below a `...` entry), " +
		"every subset of {foo.yang, older, newer} in each of current directory, d1, d2 in both path orders, every subset of {exact, dated} in each of r, r/a, r/a/k, r/z under `r/...`, " +
		"the layouts of pkg/yang/testdata/find-file-test; the same for module names other than foo (10 families (N, T): N ends in each of the characters of `.yang` or has a tail made of them - d2-vlan, x-config, policy, meta, `rel.`, yang, conga, ietf.any - or has dots and dashes, T is what trimming those characters off N leaves (d2-vl, x-confi, ..., the empty name) or a proper prefix: " +
		"every subset of {N.yang, two dated N, a near miss, T.yang, a dated T later than every dated N, a dated file of the longer name Nx} in one directory, reading N and T; every subset of dated-only candidates {N@2019, N@2020, T@2021} in d1 and of {N.yang, N@2018, T@2022} in d2, both path orders); " +
		"plus seeded random trees (depth <= 3, names from a pool of 30 file and 10 directory names, shuffled listing order; half of them renamed foo -> N, fo -> T, foobar -> Nbar for a random family; a third of the random histories likewise, identifier families only) with " +
		"random AddPath arguments (existing and missing directories, regular files, `...` suffixes, colon lists), optional PathsWithModules and 1-2 Reads. " +
		"part (b), histories on one Modules value (lookup = Read / FindModule with or without revision-date / GetModule / Process with an unsatisfied import; every lookup of a module that is not loaded is compared with the model and the specification " +
		"on the layout and ms.Path as they are at that moment, and with the same lookup on a fresh Modules value with the same Path): {4 path setups: AddPath d1 d2 / AddPath d1/... d2 / ms.Path assigned / colon list with near misses} x first lookup of foo (6 kinds, fails) x " +
		"{11 changes: foo.yang or dated candidates written into d1, d2, the current directory, a new subdirectory below a `...` entry; a new directory appended or assigned to ms.Path directly, or given to AddPath; AddPath of d1 again; an older candidate in the earlier directory; written and removed again} x second lookup (6 kinds; quick tier: all pairs of kinds for the first setup, equal kinds for the others); " +
		"{any subset of foo candidates in each of d1, d2} x first lookup of another name (bar: fails, foobar: succeeds) x {nothing, each present candidate removed, each absent one written} x lookup of foo; the two histories of the demonstration of seeded change C13-j22; " +
		"seeded random histories: random tree, 0-2 AddPath, 2-4 rounds of 0-3 changes (candidate or near miss written - preferably for a name asked for before -, file removed, new directory with a candidate put on the path by AddPath or by appending to ms.Path, AddPath of new or repeated arguments, ms.Path appended/assigned) and one lookup of foo, bar, foobar, fo (or Read of foo@2020-01-01); " +
		"the search path as the calls registered it (AddPath arguments in order, each colon element appended unless the same string was appended before, plus `.` / the directory of every file read from the current directory / by explicit path - computed from the calls, not read back from ms.Path) is what model and specification are asked about in part (b) proper, " +
		"and in the histories every lookup whose registered path is not ms.Path, or has entries that are not clean relative paths, is judged by the specification on the registered entries in clean relative form (an entry stands for the directory it denotes) and by a fresh Modules value whose Path is assigned the registered entries; " +
		"spelling histories: one directory d registered twice in every ordered pair of 12 spellings (d, d/, d/., ./d, d//, absolute, e/../d, d/..., ./d/..., d//..., absolute/..., d/./...) by two calls, one call with two arguments or a colon list, another directory between them or not, candidates in d/lib alone, in d and d/lib, in e and d/lib, then one lookup; " +
		"a file of d read by explicit path (4 spellings) before or after a recursive entry for d (5 spellings), then a lookup whose only candidate is below d; a Read / FindModule / Process that finds its file in the current directory (or AddPath of `.`) before or after `...` in 4 spellings; " +
		"seeded random spelling histories (2-5 registrations of random spellings of directories of a random tree, preferably one registered before, by AddPath with one or two arguments or a colon list or by a Read by explicit path, then 1-2 lookups). " +
		"distinct_nontrivial = distinct driver requests whose loads contain two headers of one kind and name (a), or whose tree holds two candidates for the module asked for or a candidate and a near miss - a file sharing the name's first two characters - (b), or distinct history prefixes ending in a lookup that follows an earlier lookup and at least one change of layout or path (histories)"
	res.Write(f.Out)
}

func replay(f *lib.Flags, d *lib.Driver, work string) int {
	raw, err := os.ReadFile(f.Replay)
	if err != nil {
		lib.Fatal("%v", err)
	}
	var p struct {
		Disagreement struct {
			Replay struct {
				Registry *regCase  `json:"registry"`
				File     *fileCase `json:"file"`
				History  *histCase `json:"history"`
			} `json:"replay"`
		} `json:"disagreement"`
	}
	if err := json.Unmarshal(raw, &p); err != nil {
		lib.Fatal("%v", err)
	}
	rc := 0
	switch r := p.Disagreement.Replay; {
	case r.Registry != nil:
		c := *r.Registry
		o := runRegistry(c)
		m, _ := d.Ask(c.request("registry"))
		v, spec := specRegistry(d, c, o.Line)
		fmt.Printf("loads: %+v\ngo:      %s\nprocess: %v\nmodel:   %s\nspec:    %s\nverdict: %s\n", c.Loads, o.Line, o.Process, m, spec, v)
		if o.Crash != "" {
			fmt.Println("crash:", o.Crash)
			rc = 1
		}
		if o.Line != m || v == "violates" {
			rc = 1
		}
		qs := strings.Split(o.Line[strings.LastIndex(o.Line, " q=")+3:], ",")
		for j := range c.Queries {
			if j < len(qs) && j < len(o.Process) && qs[j] != o.Process[j] {
				fmt.Printf("Process() bound query %d to %s, FindModule says %s\n", j, o.Process[j], qs[j])
				rc = 1
			}
		}
		var specQs []string
		if k := strings.LastIndex(spec, " q="); k >= 0 && !strings.Contains(spec, "undef") && wildEq(o.Line, spec) {
			specQs = strings.Split(spec[k+3:], ",")
		}
		for _, mo := range o.Multi {
			fmt.Printf("client with the statements %v (include: %v): linked %v uses %v type %v %s\n", mo.Client.Order, mo.Client.Inc, mo.Bound, mo.Uses, mo.Type, mo.Err)
		}
		if d := judgeMulti(c, o, qs, specQs); d != nil {
			fmt.Printf("%s\nverdict: %s\n", d.What, d.SpecVerdict)
			rc = 1
		}
		// the other load orders of the same headers
		if ts := c.texts(); len(ts) <= 6 && orderOracleApplies(c) {
			base := orderFree(c, o.Line)
			perm(len(ts), func(ix []int) {
				pc := regCase{Queries: c.Queries}
				for _, ti := range ix {
					for _, i := range ts[ti] {
						pc.Loads = append(pc.Loads, c.Loads[i])
					}
				}
				if of := orderFree(pc, runRegistry(pc).Line); of != base {
					fmt.Printf("load order %v gives %s\n  instead of %s\n", ix, of, base)
					rc = 1
				}
			})
		}
	case r.File != nil:
		c := *r.File
		o := runFile(work, c)
		if o.Crash != "" {
			fmt.Println("crash:", o.Crash)
			rc = 1
		}
		for ri, ro := range o.Reads {
			m, _ := d.Ask(findRequest("find", c.Root, ro.Calls, c.Names[ri]))
			v, spec := specFind(d, c.Root, ro.Calls, c.Names[ri], ro.Line)
			if !sameStrings(ro.Calls, ro.Path) {
				fmt.Printf("the calls registered the search path %q, ms.Path is %q\n", ro.Calls, ro.Path)
			}
			fmt.Printf("Read(%q) with Path %q\ngo:      %s (opened %q)\nmodel:   %s\nspec:    %s\nverdict: %s\n", c.Names[ri], ro.Path, ro.Line, o.Opened[ri], m, spec, v)
			if (m != "outside" && !strings.HasPrefix(ro.Line, "err ") && ro.Line != m) || v == "violates" {
				rc = 1
			}
		}
		if c.Walk != "" {
			var sb strings.Builder
			sb.WriteString("paths ")
			wireTree(&sb, c.Root)
			sb.WriteString("| " + lib.HexS(c.Walk))
			m, _ := d.Ask(sb.String())
			fmt.Printf("PathsWithModules(%q)\ngo:    %s\nmodel: %s\n", c.Walk, o.Walk, m)
			if m != "outside" && m != o.Walk {
				rc = 1
			}
		}
	case r.History != nil:
		rc = replayHistory(d, work, *r.History)
	default:
		lib.Fatal("nothing to replay in %s", f.Replay)
	}
	return rc
}

func perm(n int, fn func([]int)) {
	ix := make([]int, n)
	for i := range ix {
		ix[i] = i
	}
	var rec func(k int)
	rec = func(k int) {
		if k == n {
			fn(append([]int{}, ix...))
			return
		}
		for i := k; i < n; i++ {
			ix[k], ix[i] = ix[i], ix[k]
			rec(k + 1)
			ix[k], ix[i] = ix[i], ix[k]
		}
	}
	rec(0)
}
