// corr-c13, part (a) continued: imports and includes are judged PER STATEMENT.
//
// "An import or include with a revision-date denotes exactly that revision when it is loaded; an
// import without revision-date denotes the latest": a module may carry several import statements
// of one module name (YANG 1.1, RFC 7950 7.1.5: "multiple revisions of the same module can be
// imported, provided that different prefixes are used"), and each statement is a claim of its own.
// The clients of runRegistry that hold one import each cannot tell a linker that answers by module
// NAME (seeded change C13-m21: a per-module map name -> *Module in Modules.include, so the second
// statement of a name reuses the first one's answer) from one that answers by statement.
//
// For every case the import queries FindModule could answer are therefore also put into client
// modules that carry ALL of them as statements (prefix q<j> for statement j), in several statement
// orders, and likewise the include queries; after Process() each statement is observed three ways:
//   - Import.Module / Include.Module,
//   - what `uses q<j>:g` expands to (every loaded module defines grouping g with one leaf whose
//     name spells the module's own source position: x-f<text>s<statement>),
//   - what `type q<j>:t` resolves to (every loaded module defines typedef t whose units spell the
//     same position).
//
// All three must denote the module that FindModule, the model (op registry) and - where it speaks -
// the specification (op spec.registry) name for that statement's (name, revision-date).
package main

import (
	"fmt"
	"hash/fnv"
	"sort"
	"strings"

	"github.com/openconfig/goyang/pkg/yang"
	"verif/harness/lib"
)

// tagOf: the position tag of the module statement si of text ti.
func tagOf(ti, si int) string { return fmt.Sprintf("f%ds%d", ti, si) }

// body: what every loaded module (not submodule) defines besides its header, on the header's line.
func bodyOf(tag string) string {
	return fmt.Sprintf("grouping g { leaf x-%s { type string; } } typedef t { type string; units %s; } ", tag, tag)
}

// tagOfShown: the tag of a module as showMod renders it (hex(file#index):hex(full name)); "" for nil.
func tagOfShown(s string) string {
	i := strings.Index(s, ":")
	if i < 0 {
		return ""
	}
	b, err := lib.UnHex(s[:i])
	if err != nil {
		return ""
	}
	var ti, si int
	if _, err := fmt.Sscanf(string(b), "f%d.yang#%d", &ti, &si); err != nil {
		return ""
	}
	return tagOf(ti, si)
}

// plainShown: a shown module in readable form.
func plainShown(s string) string {
	i := strings.Index(s, ":")
	if i < 0 {
		return s
	}
	a, _ := lib.UnHex(s[:i])
	b, _ := lib.UnHex(s[i+1:])
	return fmt.Sprintf("%s (statement %s)", b, a)
}

type multiClient struct {
	Inc   bool  `json:"inc"`
	Order []int `json:"order"` // indices into the queries of the case, in statement order
}

type multiObs struct {
	Client multiClient
	Name   string
	Bound  []string // per statement: the module the statement is linked to after Process()
	Uses   []string // per import statement: the children of container c<j> { uses q<j>:g; }
	Type   []string // per import statement: the units of leaf l<j> { type q<j>:t; }
	Err    string
}

// multiClientsFor: the statement lists, from the queries FindModule answered (qs: shown modules).
// Deterministic in (case, answers), so that a replay builds the same clients.
func multiClientsFor(c regCase, qs []string) []multiClient {
	var imp, inc []int
	for j, q := range c.Queries {
		if j >= len(qs) || qs[j] == "nil" {
			continue // Process() stops at a statement it cannot resolve: the single clients cover those
		}
		if q.Inc {
			inc = append(inc, j)
		} else {
			imp = append(imp, j)
		}
	}
	// small cases get every order; the others one import order and one include order, picked by a hash
	// of the loads (the enumeration varies the loads systematically, so every order meets every
	// shape of registry many times)
	small := len(c.Loads) <= 3 && len(c.texts()) == len(c.Loads)
	h := fnv.New32a()
	fmt.Fprint(h, c.Loads)
	pick := int(h.Sum32() % 6)
	var out []multiClient
	orders := func(ix []int, isInc bool) {
		n := len(ix)
		if n < 2 {
			return
		}
		rev := make([]int, n)
		for i, x := range ix {
			rev[n-1-i] = x
		}
		// a rotation that depends on the case: every statement comes first somewhere
		r := 1 + (len(c.Loads)+pick)%(n-1)
		rot := append(append([]int{}, ix[r:]...), ix[:r]...)
		all := [][]int{append([]int{}, ix...), rev, rot}
		if isInc || n < 3 {
			all = all[:2]
		}
		for v, o := range all {
			if small || (isInc && v == pick%2) || (!isInc && v == pick%len(all)) {
				out = append(out, multiClient{Inc: isInc, Order: o})
			}
		}
	}
	orders(imp, false)
	orders(inc, true)
	return out
}

func (mc multiClient) text(name string, c regCase) string {
	var sb strings.Builder
	fmt.Fprintf(&sb, "module %s { yang-version 1.1; namespace \"urn:%s\"; prefix self;\n", name, name)
	for j, qi := range mc.Order {
		q := c.Queries[qi]
		rd := ""
		if q.Rev != "" {
			rd = fmt.Sprintf(" revision-date %q;", q.Rev)
		}
		if mc.Inc {
			fmt.Fprintf(&sb, "  include \"%s\" {%s }\n", q.Name, rd)
		} else {
			fmt.Fprintf(&sb, "  import \"%s\" { prefix q%d;%s }\n", q.Name, j, rd)
		}
	}
	if !mc.Inc {
		for j := range mc.Order {
			fmt.Fprintf(&sb, "  container c%d { uses q%d:g; } leaf l%d { type q%d:t; }\n", j, j, j, j)
		}
	}
	sb.WriteString("}\n")
	return sb.String()
}

func multiName(k int) string { return fmt.Sprintf("mclient%d", k) }

// loadMultiClients parses the clients into ms (before Process()).
func loadMultiClients(ms *yang.Modules, c regCase, mcs []multiClient) []multiObs {
	obs := make([]multiObs, len(mcs))
	for k, mc := range mcs {
		obs[k] = multiObs{Client: mc, Name: multiName(k)}
		if err := ms.Parse(mc.text(obs[k].Name, c), obs[k].Name+".yang"); err != nil {
			obs[k].Err = "client module does not load: " + err.Error()
		}
	}
	return obs
}

// observeMultiClients looks at the statements after Process().
func observeMultiClients(ms *yang.Modules, obs []multiObs) {
	for k := range obs {
		o := &obs[k]
		if o.Err != "" {
			continue
		}
		cm := ms.Modules[o.Name]
		if cm == nil {
			o.Err = "client module is not in ms.Modules"
			continue
		}
		n := len(o.Client.Order)
		if o.Client.Inc {
			if len(cm.Include) != n {
				o.Err = fmt.Sprintf("%d include statements, %d written", len(cm.Include), n)
				continue
			}
			for _, i := range cm.Include {
				o.Bound = append(o.Bound, showMod(i.Module))
			}
			continue
		}
		if len(cm.Import) != n {
			o.Err = fmt.Sprintf("%d import statements, %d written", len(cm.Import), n)
			continue
		}
		for _, i := range cm.Import {
			o.Bound = append(o.Bound, showMod(i.Module))
		}
		func() {
			defer func() {
				if r := recover(); r != nil {
					o.Err = fmt.Sprint("ToEntry of the client: ", r)
				}
			}()
			e := yang.ToEntry(cm)
			for j := 0; j < n; j++ {
				uses, typ := "<no container>", "<no leaf>"
				if ce := e.Dir[fmt.Sprintf("c%d", j)]; ce != nil {
					var ks []string
					for k := range ce.Dir {
						ks = append(ks, k)
					}
					sort.Strings(ks)
					uses = commaJoin(ks)
				}
				if le := e.Dir[fmt.Sprintf("l%d", j)]; le != nil {
					typ = "<unresolved>"
					if le.Type != nil {
						typ = le.Type.Units
					}
				}
				o.Uses = append(o.Uses, uses)
				o.Type = append(o.Type, typ)
			}
		}()
	}
}

func (q query) String() string {
	k := "import"
	if q.Inc {
		k = "include"
	}
	if q.Rev == "" {
		return fmt.Sprintf("%s %s (no revision-date)", k, q.Name)
	}
	return fmt.Sprintf("%s %s revision-date %s", k, q.Name, q.Rev)
}

func showLoads(c regCase) string {
	var xs []string
	ti := -1
	for i, h := range c.Loads {
		if !(h.Cont && i > 0) {
			ti++
		}
		k := "module"
		if h.Sub {
			k = "submodule"
		}
		xs = append(xs, fmt.Sprintf("%s %s revisions %v in %s", k, h.Name, h.Revs, fileOf(ti)))
	}
	return strings.Join(xs, "; ")
}

// judgeMulti: every statement of every multi-statement client against the answer for its query
// (qs: what FindModule answered before the clients were loaded, equal to the model's answer;
// specQs: the specification's answers, `*` where it is silent, nil when it is not defined for the
// case).  One disagreement per case: the first statement the specification speaks about, else the first.
func judgeMulti(c regCase, o regObs, qs, specQs []string) *lib.Disagreement {
	type bad struct {
		k, j  int
		parts []string
		spec  bool
	}
	var first *bad
	for k, mo := range o.Multi {
		if mo.Err != "" {
			return &lib.Disagreement{Kind: "correspondence", Input: c, Go: mo.Err, SpecVerdict: "",
				What: fmt.Sprintf("a client module with the statements %v could not be observed: %s", mo.Client.Order, mo.Err), Replay: map[string]any{"registry": c}}
		}
		for j, qi := range mo.Client.Order {
			if qi >= len(qs) || j >= len(mo.Bound) {
				continue
			}
			want := qs[qi]
			var parts []string
			if mo.Bound[j] != want {
				what := "Import.Module"
				if mo.Client.Inc {
					what = "Include.Module"
				}
				parts = append(parts, fmt.Sprintf("%s after Process() is %s", what, plainShown(mo.Bound[j])))
			}
			if !mo.Client.Inc && j < len(mo.Uses) {
				if w := "x-" + tagOfShown(want); mo.Uses[j] != w {
					parts = append(parts, fmt.Sprintf("`uses q%d:g` expands to {%s} (the grouping of that revision holds %s)", j, mo.Uses[j], w))
				}
				if w := tagOfShown(want); mo.Type[j] != w {
					parts = append(parts, fmt.Sprintf("`type q%d:t` resolves to the typedef with units %s (that revision's says %s)", j, mo.Type[j], w))
				}
			}
			if len(parts) == 0 {
				continue
			}
			b := &bad{k, j, parts, specQs != nil && qi < len(specQs) && specQs[qi] != "*" && specQs[qi] == want}
			if first == nil || (b.spec && !first.spec) {
				first = b
			}
		}
	}
	if first == nil {
		return nil
	}
	mo := o.Multi[first.k]
	q := c.Queries[mo.Client.Order[first.j]]
	want := qs[mo.Client.Order[first.j]]
	var stmts []string
	for j, qi := range mo.Client.Order {
		s := c.Queries[qi].String()
		if !mo.Client.Inc {
			s += fmt.Sprintf(" as q%d", j)
		}
		stmts = append(stmts, s)
	}
	clause := "an import or include with a revision-date denotes exactly that revision when it is loaded"
	if q.Rev == "" {
		clause = "the bare name (and an import without revision-date) denotes the one with the latest revision"
	}
	d := &lib.Disagreement{Kind: "correspondence", Input: map[string]any{"loads": c.Loads, "client": mo.Client.text(mo.Name, c)},
		Go:    map[string]any{"linked": mo.Bound, "uses": mo.Uses, "type": mo.Type},
		Model: want, Replay: map[string]any{"registry": c}}
	pfx := ""
	if !mo.Client.Inc {
		pfx = fmt.Sprintf(" (prefix q%d)", first.j)
	}
	if first.spec {
		d.Kind, d.SpecVerdict = "spec", "violates"
		d.What = fmt.Sprintf("C13 (a) `%s` fails: statement `%s`%s: %s; FindModule, the model and the specification say %s. The client module carries the statements [%s]. Loaded: %s",
			clause, q, pfx, strings.Join(first.parts, ", "), plainShown(want), strings.Join(stmts, "; "), showLoads(c))
	} else {
		d.What = fmt.Sprintf("statement `%s`%s of a client module: %s; FindModule and the model say %s (the specification is silent: the revision asked for is not loaded, or the revisions are not dates). The client module carries the statements [%s]. Loaded: %s",
			q, pfx, strings.Join(first.parts, ", "), plainShown(want), strings.Join(stmts, "; "), showLoads(c))
	}
	return d
}
