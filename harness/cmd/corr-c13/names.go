// corr-c13, part (b) continued: the file chooser over MODULE NAMES OTHER THAN foo.
//
// "... choosing name.yang, else the name@YYYY-MM-DD.yang with the latest date, never a file
// belonging to a differently named module": the sentence is about every module name, and the one
// place where the name is taken apart (findInDir strips the `.yang` it was given and matches
// `<stem>@date.yang`) can go wrong for some names only.  Seeded change C13-m22 stripped with a
// character SET (strings.TrimRight(name, ".yang")): names ending in a, g, n, y or `.` lose more than
// the extension (d2-vlan -> d2-vl, x-config -> x-confi, yang -> ""), their dated files are no longer
// candidates and the dated files of the shorter name are taken for theirs; with the pool of names
// {foo, bar, fo, foobar} nothing of it shows.
//
// The families below pair a module name N with the stem T a sloppy trimming of N gives (or, for the
// controls, a proper prefix of N): names ending in each of the characters of `.yang`, names whose
// tail consists of such characters only, names with dots and dashes.  Every layout generator of part
// (b) is reused under a renaming foo -> N, fo -> T, foobar -> N+bar, and two enumerations are added:
// candidates of N and of T side by side in one directory, and directories that hold DATED candidates
// only before / after a directory with N.yang on the search path.  Model and specification take the
// name as an argument, nothing changes there.
package main

import (
	"math/rand"
	"strings"
)

type nameFamily struct{ N, T string }

var nameFamilies = []nameFamily{
	{"d2-vlan", "d2-vl"},    // ...an
	{"x-config", "x-confi"}, // ...g
	{"policy", "polic"},     // ...y
	{"meta", "met"},         // ...a
	{"rel.", "rel"},         // ends in a dot
	{"yang", ""},            // nothing but characters of the extension
	{"conga", "co"},         // a tail of several such characters
	{"ietf.any", "ietf"},    // a dot inside, the whole last part made of such characters
	{"a.b-c", "a.b"},        // dots and dashes, tail not in the set (control: T is a plain prefix)
	{"red", "re"},           // control
}

// identFamilies: the families whose names are YANG identifiers that identOf keeps whole (no dot, T
// not empty): the histories load the files' modules by name.
func identFamilies() []nameFamily {
	var out []nameFamily
	for _, nf := range nameFamilies {
		if nf.T != "" && !strings.Contains(nf.N, ".") {
			out = append(out, nf)
		}
	}
	return out
}

// rename: foo -> N, fo -> T (where not part of foo), everything else as it is.
func (nf nameFamily) rename(s string) string {
	if !strings.Contains(s, "fo") {
		return s
	}
	s = strings.ReplaceAll(s, "foo", "\x00")
	s = strings.ReplaceAll(s, "fo", nf.T)
	return strings.ReplaceAll(s, "\x00", nf.N)
}

func (nf nameFamily) renameTree(n *node) *node {
	c := &node{Name: nf.rename(n.Name), File: n.File}
	used := map[string]bool{}
	for _, k := range n.Kids {
		rk := nf.renameTree(k)
		if rk.Name == "" || used[rk.Name] {
			continue // (T empty: `fo` alone has no counterpart; two names may fall together)
		}
		used[rk.Name] = true
		c.Kids = append(c.Kids, rk)
	}
	return c
}

func (nf nameFamily) renameAll(xs []string) []string {
	out := make([]string, len(xs))
	for i, x := range xs {
		out[i] = nf.rename(x)
	}
	return out
}

func (nf nameFamily) renameFileCase(c fileCase) fileCase {
	return fileCase{Root: nf.renameTree(c.Root), Add: nf.renameAll(c.Add), Walk: nf.rename(c.Walk), Names: nf.renameAll(c.Names)}
}

func (nf nameFamily) renameHistCase(c histCase) histCase {
	out := histCase{Root: nf.renameTree(c.Root)}
	for _, s := range c.Steps {
		out.Steps = append(out.Steps, hstep{Op: s.Op, Args: nf.renameAll(s.Args)})
	}
	return out
}

// maybeRename: about half of the random layouts keep foo.
func maybeRenameFile(rng *rand.Rand, c fileCase) fileCase {
	if rng.Intn(2) == 0 {
		return c
	}
	return nameFamilies[rng.Intn(len(nameFamilies))].renameFileCase(c)
}

func maybeRenameHist(rng *rand.Rand, c histCase) histCase {
	fs := identFamilies()
	if rng.Intn(3) != 0 {
		return c
	}
	return fs[rng.Intn(len(fs))].renameHistCase(c)
}

// candidateOf: fn is name.yang or name@dddd-dd-dd.yang (Go-side, for the count of non-trivial layouts only).
func candidateOf(name, fn string) bool {
	if fn == name+".yang" {
		return true
	}
	if !strings.HasPrefix(fn, name+"@") || !strings.HasSuffix(fn, ".yang") || len(fn) != len(name)+16 {
		return false
	}
	d := fn[len(name)+1 : len(name)+11]
	for i := 0; i < len(d); i++ {
		if i == 4 || i == 7 {
			if d[i] != '-' {
				return false
			}
		} else if d[i] < '0' || d[i] > '9' {
			return false
		}
	}
	return true
}

// enumNameCases: per name family
//  1. one directory holding any subset of {N.yang, two dated N, a near miss of N, T.yang, a dated T later
//     than every dated N, a dated file of the longer name Nx}; the directory is the current directory,
//     the only path entry, or below a `...` entry; N is read, and for some subsets T;
//  2. d1 holding any subset of dated candidates {N@2019, N@2020, T@2021} and d2 any subset of
//     {N.yang, N@2018, T@2022}, on the path in both orders: a directory with dated candidates only
//     must win over a later directory with N.yang.
func enumNameCases(thorough bool) []fileCase {
	var cases []fileCase
	for fi, nf := range nameFamilies {
		n, t := nf.N, nf.T
		pool := []string{n + ".yang", n + "@2020-01-01.yang", n + "@2019-12-31.yang", t + "@2021-06-01.yang", t + ".yang", n + "x@2022-01-01.yang", n + "@2020-1-01.yang"}
		for mask := 0; mask < 1<<len(pool); mask++ {
			var fs []string
			for i, p := range pool {
				if mask&(1<<i) != 0 {
					fs = append(fs, p)
				}
			}
			where := (mask + fi) % 3
			if thorough {
				where = -1
			}
			var reads [][]string
			reads = append(reads, []string{n})
			if t != "" && (thorough || mask%4 == 1) {
				reads = append(reads, []string{t})
			}
			for _, rd := range reads {
				if where == 0 || where < 0 {
					cases = append(cases, fileCase{Root: &node{Kids: files(fs...)}, Names: rd})
				}
				if where == 1 || where < 0 {
					cases = append(cases, fileCase{Root: &node{Kids: []*node{{Name: "d", Kids: files(fs...)}}}, Add: []string{"d"}, Names: rd})
				}
				if where == 2 || where < 0 {
					cases = append(cases, fileCase{Root: &node{Kids: []*node{{Name: "d", Kids: []*node{{Name: "e", Kids: files(fs...)}}}}}, Add: []string{"d/..."}, Names: rd})
				}
			}
		}
		c1 := []string{n + "@2019-01-01.yang", n + "@2020-01-01.yang", t + "@2021-01-01.yang"}
		c2 := []string{n + ".yang", n + "@2018-01-01.yang", t + "@2022-01-01.yang"}
		sub := func(pool []string, mask int) []*node {
			var fs []string
			for i, p := range pool {
				if mask&(1<<i) != 0 {
					fs = append(fs, p)
				}
			}
			return files(fs...)
		}
		for a := 0; a < 8; a++ {
			for b := 0; b < 8; b++ {
				root := &node{Kids: []*node{{Name: "d1", Kids: sub(c1, a)}, {Name: "d2", Kids: sub(c2, b)}}}
				if thorough || (a+b+fi)%2 == 0 {
					cases = append(cases, fileCase{Root: root, Add: []string{"d1", "d2"}, Names: []string{n}})
				}
				if thorough || (a+b+fi)%2 == 1 {
					cases = append(cases, fileCase{Root: root, Add: []string{"d2", "d1"}, Names: []string{n}})
				}
			}
		}
	}
	return cases
}
