// corr-c13, part (b) continued: the search path AS THE CALLER REGISTERED IT.
//
// "A module that is not yet loaded is fetched from the first search-path directory holding a
// candidate": the search path of that sentence is what the caller handed over - the arguments of
// AddPath in order, each colon-separated element appended unless the very same string is in Path
// already (the documented contract of AddPath: "adds the directories specified in p ... to Path, if
// they are not already in Path"), plus the directory of every file findFile read from the current
// directory or by an explicit path (the documented contract of findFile: "The directory that the .yang
// file is found in is added to Path if not already in Path").  Reading the path back from ms.Path
// takes the implementation's word for it: an AddPath that silently drops or rewrites an entry
// (`dir/...` after `dir`, say) then goes unnoticed, model, specification and a fresh Modules value
// all being asked about the shortened path.  callPath recomputes the expectation from the calls;
// every lookup is judged against it with two oracles that do not go through AddPath:
//   - Goyang.Spec.File.choose on (layout, the registered entries in clean relative form)   (spec.find),
//   - a fresh Modules value whose Path field is assigned the registered entries            (Go side).
//
// The first also gives the spellings the model declines (`dir/`, `dir/.`, `./dir`, `dir//`,
// absolute paths below the current directory, `e/../dir`) an oracle: an entry stands for the
// directory it denotes, whatever the spelling (normEntry).
package main

import (
	"fmt"
	"math/rand"
	"path/filepath"
	"strings"
)

// cwdToken in a step argument stands for the absolute name of the history's current directory
// (known only when the temporary directory exists).
const cwdToken = "$CWD"

func substCwd(cwd string, args []string) []string {
	out := make([]string, len(args))
	for i, a := range args {
		out[i] = strings.ReplaceAll(a, cwdToken, cwd)
	}
	return out
}

// callPath is the search path computed from the calls.
type callPath struct {
	path []string
	// given: every string that went through AddPath.  While Path is changed through AddPath only
	// this is the set of the entries of path, and add is the documented contract to the letter.  After
	// a direct assignment to ms.Path the two differ: AddPath does not append a string it appended
	// once, even when the caller has taken it out of Path since (the lenient reading; the
	// histories that assign ms.Path are judged by it).
	given map[string]bool
}

func newCallPath() *callPath { return &callPath{given: map[string]bool{}} }

// add: ms.AddPath(args...)
func (cp *callPath) add(args ...string) {
	for _, a := range args {
		for _, p := range strings.Split(a, ":") {
			if !cp.given[p] {
				cp.given[p] = true
				cp.path = append(cp.path, p)
			}
		}
	}
}

// set: ms.Path = args; app: ms.Path = append(ms.Path, args...)
func (cp *callPath) set(args ...string) { cp.path = append([]string{}, args...) }
func (cp *callPath) app(args ...string) { cp.path = append(cp.path, args...) }

// readFrom: findFile(arg) read `file`: when arg is an explicit path its directory goes on the
// path, when the file stands in the current directory `.` does; a file found through an entry of
// the path adds nothing.
func (cp *callPath) readFrom(arg, file string) {
	switch {
	case strings.Contains(arg, "/"):
		cp.add(filepath.Dir(arg))
	case !strings.Contains(file, "/"):
		cp.add(".")
	}
}

// resync: the calls do not tell what happened (a file was chosen but its module was refused):
// take ms.Path as it is.
func (cp *callPath) resync(path []string) {
	cp.path = append([]string{}, path...)
	for _, p := range path {
		cp.given[p] = true
	}
}

func (cp *callPath) snapshot() []string { return append([]string{}, cp.path...) }

func sameStrings(a, b []string) bool {
	if len(a) != len(b) {
		return false
	}
	for i := range a {
		if a[i] != b[i] {
			return false
		}
	}
	return true
}

// normEntry: the clean relative form of one search path entry (`d` or `d/...`), the current
// directory being cwd; false when the entry does not denote a directory at or below the current
// directory by its spelling alone (empty, leading `..`, absolute elsewhere).  `e/../d` is taken
// for `d`: right when e exists (the generators see to that).
func normEntry(cwd, p string) (string, bool) {
	rec := filepath.Base(p) == "..."
	d := p
	if rec {
		d = filepath.Dir(p)
	}
	if d == "" {
		return "", false
	}
	d = filepath.Clean(d)
	if filepath.IsAbs(d) {
		r, err := filepath.Rel(cwd, d)
		if err != nil {
			return "", false
		}
		d = r
	}
	if d == ".." || strings.HasPrefix(d, "../") {
		return "", false
	}
	switch {
	case !rec && filepath.Base(d) == "...":
		// a PLAIN entry for a directory that is literally named `...` (`sub/.../.`, `sub/...//.`: the
		// last element of the entry as written is `.`, so findFile scans that one directory and nothing
		// below it, and nothing of `sub` itself).  The clean relative spelling of that directory ends in
		// `...` and would be read - by Go, the model and the specification alike - as `sub, recursively`:
		// the entry has no clean relative form (false alarm of the thorough tier, seed 1; such lookups are
		// still judged on ms.Path and by the fresh Modules value whose Path is assigned the entries as written).
		return "", false
	case !rec:
		return d, true
	case d == ".":
		return "...", true
	}
	return d + "/...", true
}

func normPath(cwd string, path []string) ([]string, bool) {
	out := make([]string, 0, len(path))
	for _, p := range path {
		n, ok := normEntry(cwd, p)
		if !ok {
			return nil, false
		}
		out = append(out, n)
	}
	return out, true
}

// normFile: a file name as Go spells it, in clean relative form.
func normFile(cwd, f string) string {
	f = filepath.Clean(f)
	if filepath.IsAbs(f) {
		if r, err := filepath.Rel(cwd, f); err == nil {
			return r
		}
	}
	return f
}

// ---------------------------------------------------------------- generators

// spellings of the directory d (e exists beside it), plain and recursive
func plainSpellings(d string) []string {
	return []string{d, d + "/", d + "/.", "./" + d, d + "//", cwdToken + "/" + d, "e/../" + d}
}

func recSpellings(d string) []string {
	return []string{d + "/...", "./" + d + "/...", d + "//...", cwdToken + "/" + d + "/...", d + "/./..."}
}

// enumSpellHistories: one directory registered twice, in every pair of spellings and both orders
// (plain then recursive, recursive then plain, plain twice, recursive twice), by two calls, by one
// call with two arguments or by one colon list, another directory e registered between them or
// not; candidates for foo in d/lib alone, in d and d/lib, in e and d/lib; then entries that findFile
// adds itself (a Read by explicit path, a Read from the current directory) before or after the
// recursive entry for the same directory.
func enumSpellHistories(thorough bool) []histCase {
	var cases []histCase
	layouts := []func() *node{
		func() *node {
			return &node{Kids: []*node{dirNode("d", append(files("bar.yang"), dirNode("lib", files("foo@2020-01-01.yang", "foo@2019-01-01.yang")...))...), dirNode("e")}}
		},
		func() *node {
			return &node{Kids: []*node{dirNode("d", append(files("foo@2018-01-01.yang"), dirNode("lib", files("foo.yang")...))...), dirNode("e")}}
		},
		func() *node {
			return &node{Kids: []*node{dirNode("d", dirNode("lib", files("foo.yang")...)), dirNode("e", files("foo@2021-01-01.yang")...)}}
		},
	}
	var all []string
	all = append(all, plainSpellings("d")...)
	all = append(all, recSpellings("d")...)
	n := 0
	for i, s1 := range all {
		for j, s2 := range all {
			for li, lay := range layouts {
				for between := 0; between < 2; between++ {
					n++
					if !thorough && between == 1 && li != 2 {
						continue // e between the two matters when e holds a candidate
					}
					if !thorough && between == 0 && li == 2 && (i+j)%2 == 1 {
						continue
					}
					var steps []hstep
					switch how := (i + j + li) % 3; {
					case between == 1:
						steps = append(steps, st("addpath", s1), st("addpath", "e"), st("addpath", s2))
					case how == 0:
						steps = append(steps, st("addpath", s1), st("addpath", s2))
					case how == 1:
						steps = append(steps, st("addpath", s1, s2))
					default:
						if strings.Contains(s1+s2, ":") {
							steps = append(steps, st("addpath", s1, s2))
						} else {
							steps = append(steps, st("addpath", s1+":"+s2))
						}
					}
					k := lkinds[n%len(lkinds)]
					steps = append(steps, k.step("foo"))
					cases = append(cases, histCase{Root: lay(), Steps: steps})
				}
			}
		}
	}
	// entries findFile adds itself
	reads := []string{"d/bar.yang", "./d/bar.yang", "d//bar.yang", cwdToken + "/d/bar.yang"}
	for _, rd := range reads {
		for _, rs := range recSpellings("d") {
			for ki, k := range lkinds {
				if !thorough && k.rev != "" {
					continue
				}
				cases = append(cases,
					histCase{Root: layouts[0](), Steps: []hstep{st("read", rd), st("addpath", rs), k.step("foo")}},
					histCase{Root: layouts[0](), Steps: []hstep{st("addpath", rs), st("read", rd), k.step("foo")}})
				if ki%2 == 0 {
					cases = append(cases, histCase{Root: layouts[2](), Steps: []hstep{st("read", rd), st("addpath", "e", rs), k.step("foo")}})
				}
			}
		}
	}
	// the current directory: a Read that finds its file there puts `.` on the path; `...` is the
	// recursive entry for the same directory
	cur := func() *node {
		return &node{Kids: append(files("bar.yang"), dirNode("lib", files("foo@2020-01-01.yang")...), dirNode("e"))}
	}
	for _, first := range []hstep{st("read", "bar"), st("read", "bar.yang"), st("read", "./bar.yang"), st("find", "bar"), st("process", "bar"), st("addpath", "."), st("addpath", "./")} {
		for _, rs := range []string{"...", "./...", cwdToken + "/...", "e/../..."} {
			for ki, k := range lkinds {
				if !thorough && ki%2 == 1 {
					continue
				}
				cases = append(cases,
					histCase{Root: cur(), Steps: []hstep{first, st("addpath", rs), k.step("foo")}},
					histCase{Root: cur(), Steps: []hstep{st("addpath", rs), first, k.step("foo")}})
			}
		}
	}
	return cases
}

// randSpellHistory: a random tree; 2-5 path registrations, each a random spelling (plain or
// recursive) of a directory of the tree - preferably one registered before -, by AddPath (single,
// several arguments, colon list) or by a Read of a file by explicit path; then 1-2 lookups.
func randSpellHistory(rng *rand.Rand) histCase {
	c := histCase{Root: randTree(rng, 1+rng.Intn(2))}
	// e beside everything, so that e/../x is x
	hasE := false
	for _, k := range c.Root.Kids {
		if k.Name == "e" {
			hasE = true
		}
	}
	if !hasE {
		c.Root.Kids = append(c.Root.Kids, dirNode("e"))
	}
	var dirs []string
	allDirs(c.Root, "", &dirs)
	dirs = append(dirs, ".")
	var fs []string
	allFiles(c.Root, "", &fs)
	var used []string
	spell := func(d string) string {
		var ss []string
		if d == "." {
			ss = []string{".", "./", "./.", cwdToken, "...", "./...", cwdToken + "/...", "...", "..."}
		} else {
			ss = append(plainSpellings(d), recSpellings(d)...)
			ss = append(ss, d, d+"/...", d+"/...")
			if strings.Contains(d, ":") {
				ss = []string{d, d + "/..."}
			}
		}
		return ss[rng.Intn(len(ss))]
	}
	pick := func() string {
		if len(used) > 0 && rng.Intn(3) != 0 {
			return used[rng.Intn(len(used))]
		}
		d := dirs[rng.Intn(len(dirs))]
		used = append(used, d)
		return d
	}
	add := func(s hstep) { c.Steps = append(c.Steps, s) }
	for n := 2 + rng.Intn(4); n > 0; n-- {
		switch r := rng.Intn(8); {
		case r == 0 && len(fs) > 0:
			// a file read by explicit path: its directory is registered by findFile
			f := fs[rng.Intn(len(fs))]
			if strings.HasSuffix(f, ".yang") {
				d, _ := splitRel(f)
				if d == "" {
					d = "."
				}
				used = append(used, d)
				if !strings.Contains(f, "/") || rng.Intn(3) == 0 {
					f = "./" + f
				}
				add(st("read", f))
				continue
			}
			add(st("addpath", spell(pick())))
		case r == 1:
			add(st("addpath", spell(pick()), spell(pick())))
		case r == 2:
			a, b := spell(pick()), spell(pick())
			add(st("addpath", a+":"+b))
		default:
			add(st("addpath", spell(pick())))
		}
	}
	for n := 1 + rng.Intn(2); n > 0; n-- {
		add(lkinds[rng.Intn(len(lkinds))].step(histNames[rng.Intn(len(histNames))]))
	}
	return c
}

// callsClause: the sentence of a violation report.
func callsClause(lk hlook, want, fresh string) string {
	return fmt.Sprintf("the search path as the calls registered it (AddPath arguments in order, only exact duplicates dropped, plus the directory of every file read from `.` or by explicit path) is %q; "+
		"on it the specification chooses [%s], a fresh Modules whose Path is assigned these entries reads [%s]; ms.Path is %q",
		lk.Calls, want, fresh, lk.Path)
}
