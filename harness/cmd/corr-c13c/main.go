// corr-c13c: an included submodule contributes its data nodes and groupings to the including
// module exactly as if they were written there (C13, third sentence). Metamorphic: a generated
// module is processed unsplit and split into submodules (random partition, nested includes);
// the position-free dumps of the owner module must be equal on the Go side (spec oracle) and
// the split run must agree with the Lean resolver model.
package main

import (
	"regexp"
	"strings"

	"verif/harness/gen"
	"verif/harness/lib"
	"verif/harness/rescorr"
)

var keys = []string{"kind", "dir", "rpc", "cfg", "mand", "def", "units", "key", "la", "type", "ro", "ns", "im"}

var posRe = regexp.MustCompile(`^E [^ ]*:(\d+):(\d+):`)

// stripPos keeps only the class of error records (positions move when a body is split).
func stripPos(d []string) []string {
	out := make([]string, 0, len(d))
	seen := map[string]bool{}
	for _, r := range d {
		if strings.HasPrefix(r, "E ") {
			i := strings.LastIndexByte(r, ':')
			r = "E " + r[i+1:]
			if r == "E duplicate-key" || r == "E duplicate-node" {
				// a name clash is reported by add or by merge depending on which file holds the nodes
				r = "E duplicate"
			}
			if seen[r] {
				continue
			}
			seen[r] = true
		}
		out = append(out, r)
	}
	return out
}

func main() {
	f := lib.ParseFlags()
	if lib.IsChild() {
		rescorr.ServeChild(nil)
		return
	}
	if f.Replay != "" {
		rescorr.Replay(f, nil, keys)
		return
	}
	res := lib.NewResult("C13", f)
	n := 1500
	if f.Thorough() {
		n = 60000
	}
	cfg := gen.Default()
	cfg.Submodules = false
	var cases []rescorr.Case
	for i := 0; i < n; i++ {
		r := f.Rand(i)
		set := gen.Generate(r, cfg)
		m := set.Mods[r.Intn(len(set.Mods))]
		names, texts := set.Files()
		cases = append(cases, rescorr.Case{Names: names, Texts: texts, Extra: map[string]string{"variant": "unsplit"}})
		sp := gen.Split(r, set, m)
		names2, texts2 := sp.Files()
		cases = append(cases, rescorr.Case{Names: names2, Texts: texts2, Extra: map[string]string{"variant": "split", "module": m.Name}})
	}
	outs := rescorr.RunAll(cases, f)
	distinct := lib.NewDistinct()
	var compared, withErr, outside int64
	for i := 0; i+1 < len(outs); i += 2 {
		u, s := outs[i], outs[i+1]
		bad := false
		for _, o := range []rescorr.Outcome{u, s} {
			if o.Crashed {
				res.AddDisagreement(lib.Disagreement{Kind: "crash", Input: o.Case, Go: o.CrashMsg, SpecVerdict: "violates",
					What: "goyang crashed or hung", Replay: o.Case})
				bad = true
			}
		}
		if bad || u.Skipped != "" || s.Skipped != "" {
			continue
		}
		// model vs Go on the split run
		if s.Outside != "" {
			outside++
		} else {
			g := lib.Project(s.Go.Dump, keys, true)
			m := lib.Project(s.Model, keys, true)
			if d := rescorr.Diff(g, m); d != "" {
				res.AddDisagreement(lib.Disagreement{Kind: "correspondence", Input: s.Case, Go: g, Model: m,
					What: "resolver differs from the model on a module split into submodules: " + d, Replay: s.Case})
			}
		}
		// Go unsplit vs Go split, position-free
		gu := stripPos(lib.Project(u.Go.Dump, keys, true))
		gs := stripPos(lib.Project(s.Go.Dump, keys, true))
		compared++
		if rescorr.HasErrors(u.Go.Dump) {
			withErr++
		}
		if d := rescorr.Diff(gu, gs); d != "" {
			res.AddDisagreement(lib.Disagreement{Kind: "spec", Input: map[string]any{"unsplit": u.Case, "split": s.Case}, Go: gs, Model: gu,
				SpecVerdict: "violates", What: "the module split into submodules differs from the unsplit module: " + d, Replay: s.Case})
		}
		if !rescorr.HasErrors(u.Go.Dump) && distinct.Add(strings.Join(s.Case.Texts, "\x00")) && i%(len(outs)/6+1) < 2 {
			res.AddSample(map[string]any{"split_files": s.Case.Names, "module": s.Case.Extra["module"], "records": len(s.Go.Dump)})
		}
	}
	res.Evaluations = int64(len(cases))
	res.DistinctNontrivial = distinct.Len()
	res.Rule = "generated module sets; one module of each set is additionally split into 1-3 submodules (random partition of its top-level statements, groupings in the innermost submodule, nested includes); distinct_nontrivial = distinct error-free split sets"
	res.Distribution["pairs_compared"] = compared
	res.Distribution["pairs_with_errors"] = withErr
	res.Distribution["outside_model"] = outside
	res.Write(f.Out)
}
