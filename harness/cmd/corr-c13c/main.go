// corr-c13c: an included submodule contributes its data nodes and groupings to the including
// module exactly as if they were written there (C13, third sentence). Metamorphic: a generated
// module is processed unsplit and split into submodules (random partition, nested includes);
// the position-free dumps of the owner module must be equal on the Go side (spec oracle) and
// the split run must agree with the Lean resolver model.
package main

import (
	"fmt"
	"os"
	"regexp"
	"strings"

	"verif/harness/gen"
	"verif/harness/lib"
	"verif/harness/rescorr"
)

var keys = []string{"kind", "dir", "rpc", "cfg", "mand", "def", "units", "key", "la", "type", "ro", "ns", "im"}

var posRe = regexp.MustCompile(`^E [^ ]*:(\d+):(\d+):`)

// stripPos keeps only the class of error records (positions move when a body is split).
func stripPos(d []string) []string {
	out := make([]string, 0, len(d))
	seen := map[string]bool{}
	for _, r := range d {
		if strings.HasPrefix(r, "E ") {
			i := strings.LastIndexByte(r, ':')
			r = "E " + r[i+1:]
			if r == "E duplicate-key" || r == "E duplicate-node" {
				// a name clash is reported by add or by merge depending on which file holds the nodes
				r = "E duplicate"
			}
			if seen[r] {
				continue
			}
			seen[r] = true
		}
		out = append(out, r)
	}
	return out
}

const multiBody = `container ca { uses la:g; leaf x { type la:t; } } container cb { uses lb:g; leaf x { type lb:t; } } container cc { uses lc:g; leaf x { type lc:t; } }`

// libLeaf: the leaf that grouping g of each revision of lib holds, and the kind of its typedef t.
var libLeaf = map[string][2]string{
	"lib@2019-01-01.yang": {"from2019", "int8"},
	"lib@2020-02-02.yang": {"from2020", "string"},
	"lib.yang":            {"fromnorev", "boolean"},
}

// multiOracle: the property's own reading of the modules multi / multi2 (Go side, independent of the
// model): the statement with revision-date R denotes lib@R when that revision is loaded, the one
// without revision-date the latest revision loaded; what `uses pfx:g` expands to and what `type pfx:t`
// resolves to is that revision's.  "" when the dump agrees (or holds errors / no such module).
func multiOracle(c rescorr.Case, dump []string) string {
	loaded := map[string]bool{}
	for _, n := range c.Names {
		loaded[n] = true
	}
	latest := ""
	for _, n := range []string{"lib.yang", "lib@2019-01-01.yang", "lib@2020-02-02.yang"} {
		if loaded[n] {
			latest = n
		}
	}
	want := map[string]string{"cc": latest}
	if loaded["lib@2020-02-02.yang"] {
		want["ca"] = "lib@2020-02-02.yang"
	}
	if loaded["lib@2019-01-01.yang"] {
		want["cb"] = "lib@2019-01-01.yang"
	}
	stmt := map[string]string{"ca": "import lib { prefix la; revision-date 2020-02-02; }", "cb": "import lib { prefix lb; revision-date 2019-01-01; }", "cc": "import lib { prefix lc; } (no revision-date)"}
	for _, mod := range []string{"multi", "multi2"} {
		if !loaded[mod+".yang"] || rescorr.HasErrors(dump) {
			continue
		}
		for _, cn := range []string{"ca", "cb", "cc"} {
			w := want[cn]
			if w == "" {
				continue // the revision asked for is not loaded: the property is silent
			}
			var kids []string
			typ := ""
			pre := "/" + mod + "/" + cn + "/"
			for _, r := range dump {
				fs := strings.Fields(r)
				if len(fs) < 3 || fs[0] != "N" {
					continue
				}
				mb, _ := lib.UnHex(fs[1])
				pb, err := lib.UnHex(fs[2])
				if err != nil {
					pb = []byte(fs[2])
				}
				if string(mb) != mod || !strings.HasPrefix(string(pb), pre) {
					continue
				}
				k := strings.TrimPrefix(string(pb), pre)
				if k == "x" {
					for _, kv := range fs[3:] {
						if strings.HasPrefix(kv, "type=") {
							typ = kv
							if b, err := lib.UnHex(strings.TrimPrefix(kv, "type=")); err == nil {
								typ = string(b) // {k=<kind>;n=<hex name>;...}
							}
						}
					}
					continue
				}
				kids = append(kids, k)
			}
			if len(kids) != 1 || kids[0] != libLeaf[w][0] {
				return fmt.Sprintf("module %s, statement `%s`: `uses %s:g` in container %s expanded to %v, the grouping of %s holds leaf %s", mod, stmt[cn], "l"+cn[1:], cn, kids, strings.TrimSuffix(w, ".yang"), libLeaf[w][0])
			}
			if !strings.Contains(typ, "k="+libLeaf[w][1]+";") {
				return fmt.Sprintf("module %s, statement `%s`: `type %s:t` resolved to %s, the typedef of %s is %s", mod, stmt[cn], "l"+cn[1:], typ, strings.TrimSuffix(w, ".yang"), libLeaf[w][1])
			}
		}
	}
	return ""
}

// family builds the revision family: batch cases (one per file subset) and, for each, every
// permutation with every intermediate Process() position.
func family() (batch, incr []rescorr.Case) {
	files := map[string]string{
		"lib@2019-01-01.yang": `module lib { namespace "urn:lib"; prefix l; revision 2019-01-01; typedef t { type int8; } grouping g { leaf from2019 { type t; } } }`,
		"lib@2020-02-02.yang": `module lib { namespace "urn:lib"; prefix l; revision 2020-02-02; typedef t { type string; } grouping g { leaf from2020 { type t; } } }`,
		"lib.yang":            `module lib { namespace "urn:lib"; prefix l; typedef t { type boolean; } grouping g { leaf fromnorev { type t; } } }`,
		"user.yang":           `module user { namespace "urn:user"; prefix u; import lib { prefix lib; } container c { uses lib:g; leaf x { type lib:t; } } }`,
		"pinned.yang":         `module pinned { namespace "urn:pinned"; prefix p; import lib { prefix lib; revision-date 2019-01-01; } container c { uses lib:g; leaf x { type lib:t; } } }`,
		"own.yang":            `module own { namespace "urn:own"; prefix o; include sub; container c { uses sg; } }`,
		"sub@2019-01-01.yang": `submodule sub { belongs-to own { prefix o; } revision 2019-01-01; grouping sg { leaf s2019 { type string; } } }`,
		"sub@2021-01-01.yang": `submodule sub { belongs-to own { prefix o; } revision 2021-01-01; grouping sg { leaf s2021 { type string; } } }`,
		// one module with several import statements of ONE module name (RFC 7950 7.1.5: "multiple revisions of the
		// same module can be imported, provided that different prefixes are used"): every statement denotes its own
		// revision (seeded change C13-m21 linked the imports of a module once per module NAME); two statement orders
		"multi.yang":  `module multi { yang-version 1.1; namespace "urn:multi"; prefix mu; import lib { prefix la; revision-date 2020-02-02; } import lib { prefix lb; revision-date 2019-01-01; } import lib { prefix lc; } ` + multiBody + ` }`,
		"multi2.yang": `module multi2 { yang-version 1.1; namespace "urn:multi2"; prefix mu; import lib { prefix lb; revision-date 2019-01-01; } import lib { prefix lc; } import lib { prefix la; revision-date 2020-02-02; } ` + multiBody + ` }`,
	}
	subsets := [][]string{
		{"lib@2019-01-01.yang", "lib@2020-02-02.yang", "user.yang"},
		{"lib@2019-01-01.yang", "lib@2020-02-02.yang", "user.yang", "pinned.yang"},
		{"lib@2019-01-01.yang", "lib.yang", "user.yang"},
		{"lib@2019-01-01.yang", "lib@2020-02-02.yang", "lib.yang", "user.yang"},
		{"own.yang", "sub@2019-01-01.yang", "sub@2021-01-01.yang"},
		{"lib@2020-02-02.yang", "user.yang", "own.yang", "sub@2021-01-01.yang"},
		{"lib@2019-01-01.yang", "lib@2020-02-02.yang", "multi.yang"},
		{"lib@2019-01-01.yang", "lib@2020-02-02.yang", "multi2.yang"},
		{"lib@2019-01-01.yang", "lib.yang", "multi.yang"}, // 2020-02-02 is not loaded: that statement falls back to the bare name
		{"lib@2019-01-01.yang", "lib@2020-02-02.yang", "lib.yang", "multi2.yang"},
	}
	var permute func(a []string, k int, out *[][]string)
	permute = func(a []string, k int, out *[][]string) {
		if k == len(a) {
			*out = append(*out, append([]string{}, a...))
			return
		}
		for i := k; i < len(a); i++ {
			a[k], a[i] = a[i], a[k]
			permute(a, k+1, out)
			a[k], a[i] = a[i], a[k]
		}
	}
	for _, sub := range subsets {
		texts := make([]string, len(sub))
		for i, n := range sub {
			texts[i] = files[n]
		}
		batch = append(batch, rescorr.Case{Names: append([]string{}, sub...), Texts: texts})
		bi := len(batch) - 1
		var perms [][]string
		permute(append([]string{}, sub...), 0, &perms)
		for _, p := range perms {
			pt := make([]string, len(p))
			for i, n := range p {
				pt[i] = files[n]
			}
			for k := 1; k < len(p); k++ {
				incr = append(incr, rescorr.Case{Names: append([]string{}, p...), Texts: pt,
					Extra: map[string]string{"process_after": fmt.Sprint(k), "batch": fmt.Sprint(bi)}})
			}
			incr = append(incr, rescorr.Case{Names: append([]string{}, p...), Texts: pt, Extra: map[string]string{"batch": fmt.Sprint(bi)}})
		}
	}
	return
}

// ownerRevisions: unsplit = revisions of module m each written with the shared nodes inline; split =
// the same revisions each saying `include s;` with the shared nodes in submodule s. Position-free
// dumps must agree. Known finding D63 (the merged-submodule bookkeeping is keyed by bare names, so
// only the revision converted first receives the submodule's nodes) is recognised by its exact
// signature: the only differences are records of a revision other than the latest that are missing
// from the split run; anything else is reported as a violation.
func ownerRevisions(f *lib.Flags, res *lib.Result) {
	shared := []string{"leaf froms { type string; }", "container cs { leaf inner { type int8; } }",
		"grouping sg { leaf viag { type string; } } container usesg { uses sg; }"}
	revs := []string{"2019-01-01", "2020-01-01", "2021-06-01"}
	var cases []rescorr.Case
	for k := 2; k <= 3; k++ {
		for si, sh := range shared {
			var un, sn, ut, st []string
			for i := 0; i < k; i++ {
				own := fmt.Sprintf("leaf own%d { type string; }", i)
				name := "m@" + revs[i] + ".yang"
				un, sn = append(un, name), append(sn, name)
				ut = append(ut, fmt.Sprintf("module m { namespace \"urn:m\"; prefix m; revision %s; %s %s }", revs[i], own, sh))
				st = append(st, fmt.Sprintf("module m { namespace \"urn:m\"; prefix m; include s; revision %s; %s }", revs[i], own))
			}
			sn = append(sn, "s.yang")
			st = append(st, "submodule s { belongs-to m { prefix m; } "+sh+" }")
			id := fmt.Sprintf("owner-revisions k=%d shared=%d", k, si)
			cases = append(cases, rescorr.Case{Names: un, Texts: ut, Extra: map[string]string{"variant": "unsplit", "id": id}},
				rescorr.Case{Names: sn, Texts: st, Extra: map[string]string{"variant": "split", "id": id, "latest": "m@" + revs[k-1]}})
		}
	}
	// only the OLDER revision includes submodules (nested: s includes t; definitions of t are used in
	// s and in the owner); the latest revision dropped them: what the older revision gets through its
	// includes must not depend on the latest revision's include closure
	for vi, v := range []struct{ inT, inS, inOwner string }{
		{"typedef tt { type int8; }", "leaf viaS { type tt; }", "leaf viaOwner { type tt; }"},
		{"grouping tg { leaf gl { type string; } }", "container cs { uses tg; }", "container co { uses tg; }"},
		{"identity tid;", "identity sid { base tid; } leaf ls { type identityref { base tid; } }", "leaf lo { type identityref { base tid; } }"},
		{"typedef tt { type string; } grouping tg { leaf gl { type tt; } }", "uses tg;", "leaf lo2 { type tt; }"},
	} {
		un := []string{"m@2019-01-01.yang", "m@2021-06-01.yang"}
		ut := []string{fmt.Sprintf("module m { namespace \"urn:m\"; prefix m; revision 2019-01-01; %s %s %s }", v.inT, v.inS, v.inOwner),
			"module m { namespace \"urn:m\"; prefix m; revision 2021-06-01; leaf only-new { type string; } }"}
		sn := []string{"m@2019-01-01.yang", "m@2021-06-01.yang", "s.yang", "t.yang"}
		st := []string{fmt.Sprintf("module m { namespace \"urn:m\"; prefix m; include s; include t; revision 2019-01-01; %s }", v.inOwner), ut[1],
			"submodule s { belongs-to m { prefix m; } include t; " + v.inS + " }", "submodule t { belongs-to m { prefix m; } " + v.inT + " }"}
		id := fmt.Sprintf("older-revision-includes v=%d", vi)
		// the same with the inner submodule reached ONLY through the outer one (the owner does not
		// list t): definitions of t are used from the owner, from s and nothing else includes t
		{
			nn := []string{"m@2019-01-01.yang", "m@2021-06-01.yang", "s.yang", "t.yang"}
			nt := []string{fmt.Sprintf("module m { namespace \"urn:m\"; prefix m; include s; revision 2019-01-01; %s }", v.inOwner), ut[1], st[2], st[3]}
			cases = append(cases, rescorr.Case{Names: un, Texts: ut, Extra: map[string]string{"variant": "unsplit", "id": id + " nested-only"}},
				rescorr.Case{Names: nn, Texts: nt, Extra: map[string]string{"variant": "split", "id": id + " nested-only", "latest": "m@2021-06-01", "subs": "s,t"}})
			// and with a single revision
			cases = append(cases, rescorr.Case{Names: un[:1], Texts: ut[:1], Extra: map[string]string{"variant": "unsplit", "id": id + " nested-only single"}},
				rescorr.Case{Names: []string{nn[0], nn[2], nn[3]}, Texts: []string{nt[0], nt[2], nt[3]}, Extra: map[string]string{"variant": "split", "id": id + " nested-only single", "latest": "m@2019-01-01", "subs": "s,t"}})
		}
		for _, ord := range [][]int{{0, 1, 2, 3}, {1, 0, 3, 2}, {3, 2, 1, 0}} {
			pn, pt := make([]string, 4), make([]string, 4)
			for a, b := range ord {
				pn[a], pt[a] = sn[b], st[b]
			}
			cases = append(cases, rescorr.Case{Names: un, Texts: ut, Extra: map[string]string{"variant": "unsplit", "id": id}},
				rescorr.Case{Names: pn, Texts: pt, Extra: map[string]string{"variant": "split", "id": id, "latest": "m@2021-06-01", "subs": "s,t"}})
		}
	}
	outs := rescorr.RunAll(cases, f)
	var n int64
	for i := 0; i+1 < len(outs); i += 2 {
		u, sp := outs[i], outs[i+1]
		if u.Crashed || sp.Crashed {
			res.AddDisagreement(lib.Disagreement{Kind: "crash", Input: sp.Case, Go: u.CrashMsg + sp.CrashMsg, SpecVerdict: "violates",
				What: "goyang crashed or hung on the owner-revision family", Replay: sp.Case})
			continue
		}
		if u.Skipped != "" || sp.Skipped != "" {
			continue
		}
		n++
		// the submodule's own tree has no counterpart in the unsplit set
		var gs []string
		for _, r := range stripPos(lib.Project(sp.Go.Dump, keys, true)) {
			if fs := strings.Fields(r); len(fs) > 1 && fs[0] == "N" && (fs[1] == lib.HexS("s") || fs[1] == lib.HexS("t")) {
				continue
			}
			gs = append(gs, r)
		}
		gu := stripPos(lib.Project(u.Go.Dump, keys, true))
		if d := rescorr.Diff(gu, gs); d != "" {
			inS := map[string]bool{}
			for _, r := range gs {
				inS[r] = true
			}
			inU := map[string]bool{}
			for _, r := range gu {
				inU[r] = true
			}
			known := "D63"
			for _, r := range gs {
				if !inU[r] {
					known = "" // something the unsplit run does not have
				}
			}
			for _, r := range gu {
				if !inS[r] {
					fs := strings.Fields(r)
					if len(fs) < 2 || fs[0] != "N" || fs[1] == lib.HexS(sp.Case.Extra["latest"]) {
						known = "" // not a node record, or the latest revision lost nodes
					}
				}
			}
			res.AddDisagreement(lib.Disagreement{Kind: "spec", Input: map[string]any{"unsplit": u.Case, "split": sp.Case}, Go: gs, Model: gu,
				SpecVerdict: "violates", Known: known,
				What: "revisions of a module that include one submodule differ from the same revisions with the nodes written inline: " + d, Replay: sp.Case})
		}
	}
	res.Distribution["owner_revision_pairs"] = n
}

// leftoverOrder: regression witness of D67 (repaired).  Splitting an augment-free submodule off a
// module changes the order in which the stage after FixChoice meets the modules that still hold
// pending augments (the swap-remove of the augment loop permutes the survivors).  That stage used to be
// one sweep `Augment(true)`, order dependent when one augment's target is created by another: the
// unsplit set processed cleanly, the split set reported `augment ... not found`.  It is now a fixpoint
// (the loop is retried, FixChoice after every productive round).  The witness (found while proving
// include = inline with augments, corpus/C13/D67-witness.txt) runs in both spellings: any difference
// between them is reported as a violation, and both must agree with the model.
func leftoverOrder(f *lib.Flags, res *lib.Result) {
	ma := `module ma { namespace "urn:ma"; prefix ma; import t { prefix t; } augment "/t:ch/t:x" { container y { } } }`
	mb := `module mb { namespace "urn:mb"; prefix mb; import t { prefix t; } import ma { prefix ma; } augment "/t:ch/t:x/ma:y" { leaf z { type string; } } }`
	un := rescorr.Case{Names: []string{"ma.yang", "mb.yang", "t.yang"}, Texts: []string{ma, mb,
		`module t { namespace "urn:t"; prefix t; choice ch { leaf x { type string; } } container keep { leaf k { type string; } } }`},
		Extra: map[string]string{"variant": "unsplit", "id": "leftover-order"}}
	sp := rescorr.Case{Names: []string{"ma.yang", "mb.yang", "t.yang", "a-sub.yang"}, Texts: []string{ma, mb,
		`module t { namespace "urn:t"; prefix t; include a-sub; choice ch { leaf x { type string; } } }`,
		`submodule a-sub { belongs-to t { prefix t; } container keep { leaf k { type string; } } }`},
		Extra: map[string]string{"variant": "split", "id": "leftover-order", "module": "t"}}
	outs := rescorr.RunAll([]rescorr.Case{un, sp}, f)
	u, s := outs[0], outs[1]
	if u.Crashed || s.Crashed {
		res.AddDisagreement(lib.Disagreement{Kind: "crash", Input: sp, Go: u.CrashMsg + s.CrashMsg, SpecVerdict: "violates",
			What: "goyang crashed or hung on the leftover-order witness", Replay: sp})
		return
	}
	if u.Skipped != "" || s.Skipped != "" {
		return
	}
	var gs []string
	for _, r := range stripPos(lib.Project(s.Go.Dump, keys, true)) {
		if fs := strings.Fields(r); len(fs) > 1 && fs[0] == "N" && fs[1] == lib.HexS("a-sub") {
			continue // the submodule's own tree has no counterpart in the unsplit set
		}
		gs = append(gs, r)
	}
	gu := stripPos(lib.Project(u.Go.Dump, keys, true))
	res.Distribution["leftover_order_pairs"] = 1
	if d := rescorr.Diff(gu, gs); d != "" {
		res.AddDisagreement(lib.Disagreement{Kind: "spec", Input: map[string]any{"unsplit": u.Case, "split": s.Case}, Go: gs, Model: gu,
			SpecVerdict: "violates",
			What:        "a module split into owner + augment-free submodule differs from the unsplit module (augments left for the stage after FixChoice, chained through an implied case): " + d, Replay: s.Case})
	}
	for _, o := range []rescorr.Outcome{u, s} {
		if o.Outside != "" {
			continue
		}
		g := lib.Project(o.Go.Dump, keys, true)
		m := lib.Project(o.Model, keys, true)
		if d := rescorr.Diff(g, m); d != "" {
			res.AddDisagreement(lib.Disagreement{Kind: "correspondence", Input: o.Case, Go: g, Model: m,
				What: "resolver differs from the model on the leftover-order witness: " + d, Replay: o.Case})
		}
	}
}

// leftoverChains: chains of augments that only become applicable after FixChoice (targets below
// implied cases; gen.LeftoverChains: 2-4 links across modules, every assignment of module names to
// the links, links that add short-hand choice members of their own, complete and broken chains), each
// set unsplit and with an augment-free submodule split off the target module (submodule name sorting
// first / last).  Every spelling must agree with the model, and every split spelling with the unsplit
// one (position-free; the submodule's own tree has no counterpart).
func leftoverChains(f *lib.Flags, res *lib.Result) {
	depth := 3
	if f.Thorough() || os.Getenv("C13C_CHAIN_DEPTH") == "4" {
		depth = 4 // (the environment variable is a maintenance aid: the long chains in the quick tier)
	}
	chains := gen.LeftoverChains(depth)
	var cases []rescorr.Case
	per := 0
	for _, c := range chains {
		cases = append(cases, rescorr.Case{Names: c.Names, Texts: c.Texts, Extra: map[string]string{"variant": "unsplit", "id": c.Label}})
		for _, sp := range c.Splits {
			cases = append(cases, rescorr.Case{Names: sp.Names, Texts: sp.Texts,
				Extra: map[string]string{"variant": "split", "id": c.Label, "module": "t", "sub": sp.Sub}})
		}
		per = 1 + len(c.Splits)
	}
	outs := rescorr.RunAll(cases, f)
	var pairs, complete, broken int64
	for ci, c := range chains {
		grp := outs[ci*per : (ci+1)*per]
		bad := false
		for _, o := range grp {
			if o.Crashed {
				res.AddDisagreement(lib.Disagreement{Kind: "crash", Input: o.Case, Go: o.CrashMsg, SpecVerdict: "violates",
					What: "goyang crashed or hung on a leftover chain", Replay: o.Case})
				bad = true
			}
			if o.Skipped != "" {
				bad = true
			}
		}
		if bad {
			continue
		}
		if c.Broken == 0 {
			complete++
		} else {
			broken++
		}
		for _, o := range grp {
			if o.Outside != "" {
				continue
			}
			g := lib.Project(o.Go.Dump, keys, true)
			m := lib.Project(o.Model, keys, true)
			if d := rescorr.Diff(g, m); d != "" {
				res.AddDisagreement(lib.Disagreement{Kind: "correspondence", Input: o.Case, Go: g, Model: m,
					What: "resolver differs from the model on a chain of augments left for the stage after FixChoice: " + d, Replay: o.Case})
			}
		}
		u := grp[0]
		gu := stripPos(lib.Project(u.Go.Dump, keys, true))
		if c.Broken == 0 && rescorr.HasErrors(u.Go.Dump) {
			res.AddDisagreement(lib.Disagreement{Kind: "spec", Input: u.Case, Go: gu, SpecVerdict: "violates",
				What: "a complete chain of augments (every target is created by the previous link) is reported with errors: " + c.Label, Replay: u.Case})
		}
		for _, s := range grp[1:] {
			var gs []string
			for _, r := range stripPos(lib.Project(s.Go.Dump, keys, true)) {
				if fs := strings.Fields(r); len(fs) > 1 && fs[0] == "N" && fs[1] == lib.HexS(s.Case.Extra["sub"]) {
					continue // the submodule's own tree has no counterpart in the unsplit set
				}
				gs = append(gs, r)
			}
			pairs++
			if d := rescorr.Diff(gu, gs); d != "" {
				res.AddDisagreement(lib.Disagreement{Kind: "spec", Input: map[string]any{"unsplit": u.Case, "split": s.Case}, Go: gs, Model: gu,
					SpecVerdict: "violates",
					What:        "a module split into owner + augment-free submodule differs from the unsplit module (chain of augments left for the stage after FixChoice, " + c.Label + "): " + d, Replay: s.Case})
			}
		}
	}
	res.Distribution["leftover_chain_sets(complete)"] = complete
	res.Distribution["leftover_chain_sets(one link missing)"] = broken
	res.Distribution["leftover_chain_pairs(unsplit vs split)"] = pairs
}

func main() {
	f := lib.ParseFlags()
	if lib.IsChild() {
		rescorr.ServeChild(nil)
		return
	}
	if f.Replay != "" {
		rescorr.Replay(f, nil, keys)
		return
	}
	res := lib.NewResult("C13", f)
	n := 1500
	if f.Thorough() {
		n = 60000
	}
	cfg := gen.Default()
	cfg.Submodules = false
	var cases, incr []rescorr.Case
	for i := 0; i < n; i++ {
		r := f.Rand(i)
		set := gen.Generate(r, cfg)
		m := set.Mods[r.Intn(len(set.Mods))]
		names, texts := set.Files()
		cases = append(cases, rescorr.Case{Names: names, Texts: texts, Extra: map[string]string{"variant": "unsplit"}})
		// the same set loaded incrementally, in a random order, with a Process() in between: which
		// revision a bare name / an import denotes must not depend on when it was loaded
		perm := r.Perm(len(names))
		pn, pt := make([]string, len(names)), make([]string, len(names))
		for a, b := range perm {
			pn[a], pt[a] = names[b], texts[b]
		}
		incr = append(incr, rescorr.Case{Names: pn, Texts: pt, Extra: map[string]string{"variant": "incremental",
			"process_after": fmt.Sprint(1 + r.Intn(len(names)))}})
		sp := gen.Split(r, set, m)
		names2, texts2 := sp.Files()
		cases = append(cases, rescorr.Case{Names: names2, Texts: texts2, Extra: map[string]string{"variant": "split", "module": m.Name}})
	}
	// exhaustive family: two or three revisions of a library (each exporting a different grouping
	// and typedef), users that import it with and without revision-date and a module that includes a
	// submodule with two revisions, modules that import several revisions of the library at once (one import
	// statement per revision and one without revision-date, different prefixes: judged per statement by
	// multiOracle); every load order x every position of an intermediate Process()
	famBatch, famIncr := family()
	outsFB := rescorr.RunAll(famBatch, f)
	outsFI := rescorr.RunAll(famIncr, f)
	var famCompared, famMulti, famMultiBad int64
	for j, io := range outsFI {
		var bi int
		fmt.Sscanf(io.Case.Extra["batch"], "%d", &bi)
		b := outsFB[bi]
		if io.Crashed || b.Crashed {
			res.AddDisagreement(lib.Disagreement{Kind: "crash", Input: io.Case, Go: io.CrashMsg + b.CrashMsg, SpecVerdict: "violates",
				What: "goyang crashed or hung on the revision family", Replay: io.Case})
			continue
		}
		if io.Skipped != "" || b.Skipped != "" {
			continue
		}
		famCompared++
		if strings.Contains(strings.Join(io.Case.Names, " "), "multi") {
			famMulti++
		}
		if why := multiOracle(io.Case, io.Go.Dump); why != "" {
			if famMultiBad++; famMultiBad > 10 {
				continue
			}
			res.AddDisagreement(lib.Disagreement{Kind: "spec", Input: io.Case, Go: lib.Project(io.Go.Dump, keys, true), SpecVerdict: "violates",
				What: "C13 `an import with a revision-date denotes exactly that revision when it is loaded, an import without revision-date the latest` fails per import statement: " + why, Replay: io.Case})
			continue
		}
		gi := lib.Project(io.Go.Dump, keys, true)
		gb := lib.Project(b.Go.Dump, keys, true)
		if d := rescorr.Diff(gi, gb); d != "" {
			res.AddDisagreement(lib.Disagreement{Kind: "spec", Input: map[string]any{"incremental": io.Case, "batch": b.Case}, Go: gi, Model: gb,
				SpecVerdict: "violates", What: "which revision a name denotes depends on when it was loaded (load order / a Process() in between): " + d, Replay: io.Case})
		}
		if io.Outside == "" {
			m := lib.Project(io.Model, keys, true)
			if d := rescorr.Diff(gi, m); d != "" && j%3 == 0 {
				res.AddDisagreement(lib.Disagreement{Kind: "correspondence", Input: io.Case, Go: gi, Model: m,
					What: "resolver differs from the model on the revision family: " + d, Replay: io.Case})
			}
		}
	}
	res.Distribution["revision_family_histories"] = famCompared
	res.Distribution["revision_family_histories(one module importing several revisions of one name)"] = famMulti
	// several revisions of one OWNER module that include the same submodule: every revision's tree
	// must hold the submodule's nodes, as the unsplit revisions do
	ownerRevisions(f, res)
	leftoverOrder(f, res)
	leftoverChains(f, res)
	outs := rescorr.RunAll(cases, f)
	// incremental variants: Go against Go (batch), position-free (load order moves nothing, but the
	// comparison is shared with the split variant)
	iouts := rescorr.RunAll(incr, f)
	var incrCompared int64
	for j, io := range iouts {
		u := outs[2*j]
		if io.Crashed {
			res.AddDisagreement(lib.Disagreement{Kind: "crash", Input: io.Case, Go: io.CrashMsg, SpecVerdict: "violates",
				What: "goyang crashed or hung on an incremental load", Replay: io.Case})
			continue
		}
		if u.Crashed || u.Skipped != "" || io.Skipped != "" {
			continue
		}
		incrCompared++
		gi := lib.Project(io.Go.Dump, keys, true)
		gb := lib.Project(u.Go.Dump, keys, true)
		if d := rescorr.Diff(gi, gb); d != "" {
			res.AddDisagreement(lib.Disagreement{Kind: "spec", Input: map[string]any{"incremental": io.Case, "batch": u.Case}, Go: gi, Model: gb,
				SpecVerdict: "violates", What: "loading in another order with a Process() in between gives another result than the batch run: " + d, Replay: io.Case})
		}
	}
	res.Distribution["incremental_vs_batch_compared"] = incrCompared
	distinct := lib.NewDistinct()
	var compared, withErr, outside int64
	for i := 0; i+1 < len(outs); i += 2 {
		u, s := outs[i], outs[i+1]
		bad := false
		for _, o := range []rescorr.Outcome{u, s} {
			if o.Crashed {
				res.AddDisagreement(lib.Disagreement{Kind: "crash", Input: o.Case, Go: o.CrashMsg, SpecVerdict: "violates",
					What: "goyang crashed or hung", Replay: o.Case})
				bad = true
			}
		}
		if bad || u.Skipped != "" || s.Skipped != "" {
			continue
		}
		// model vs Go on the split run
		if s.Outside != "" {
			outside++
		} else {
			g := lib.Project(s.Go.Dump, keys, true)
			m := lib.Project(s.Model, keys, true)
			if d := rescorr.Diff(g, m); d != "" {
				res.AddDisagreement(lib.Disagreement{Kind: "correspondence", Input: s.Case, Go: g, Model: m,
					What: "resolver differs from the model on a module split into submodules: " + d, Replay: s.Case})
			}
		}
		// Go unsplit vs Go split, position-free. Only error-free unsplit sets are compared: the
		// property's sentence is about what an included submodule contributes; which of several errors
		// of a faulty set is reported first depends on the stage that meets it, which a split may move.
		gu := stripPos(lib.Project(u.Go.Dump, keys, true))
		gs := stripPos(lib.Project(s.Go.Dump, keys, true))
		if rescorr.HasErrors(u.Go.Dump) {
			withErr++
			continue
		}
		compared++
		if d := rescorr.Diff(gu, gs); d != "" {
			res.AddDisagreement(lib.Disagreement{Kind: "spec", Input: map[string]any{"unsplit": u.Case, "split": s.Case}, Go: gs, Model: gu,
				SpecVerdict: "violates", What: "the module split into submodules differs from the unsplit module: " + d, Replay: s.Case})
		}
		if !rescorr.HasErrors(u.Go.Dump) && distinct.Add(strings.Join(s.Case.Texts, "\x00")) && i%(len(outs)/6+1) < 2 {
			res.AddSample(map[string]any{"split_files": s.Case.Names, "module": s.Case.Extra["module"], "records": len(s.Go.Dump)})
		}
	}
	res.Evaluations = int64(len(cases))
	res.DistinctNontrivial = distinct.Len()
	res.Rule = "generated module sets; one module of each set is additionally split into 1-3 submodules (random partition of its top-level statements, groupings in the innermost submodule, nested includes); distinct_nontrivial = distinct error-free split sets"
	res.Distribution["pairs_compared"] = compared
	res.Distribution["pairs_with_errors"] = withErr
	res.Distribution["outside_model"] = outside
	res.Write(f.Out)
}
