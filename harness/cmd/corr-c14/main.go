// corr-c14: correspondence between goyang's EnumType (NewEnumType/NewBitfield, Set, SetNext, views) plus
// the enum/bit loops of Type.resolve (real code, in-process) and the Lean model Goyang.Model.Enum
// (driver drv_enum); the RFC 7950 assignment (Goyang.Spec.Enum) is evaluated on every Go answer.
//
// Inputs: every member sequence up to length 3 (quick) / 4 (thorough) over 15 boundary values
// (no value, 0, +-1, -5, 7, int32 min/max and +-1, 2^32-1, 2^32, +-2^63, 2^64-1 — the last two replaced by
// int64-representable neighbours on the direct path) x names {a, b, c}, for enumeration and
// for bits, (1) directly through Set/SetNext and (2) through YANG text, Modules.Parse and
// Modules.Process reading Entry.Type.Enum/Bit — each text case under four histories of the Modules value
// (Process once; twice; ToEntry before Process; Process, load an unrelated module, Process), the result taken
// after every run, so that memoised tables or errors of an earlier run cannot hide a rejection; odd argument spellings (base prefixes, leading
// zeros, underscores, white space, junk) on the text path; seeded random longer sequences.
// Every value handed out by NameMap / ValueMap / Names / Values is edited by the runner after every reading
// (owned.go): the table must behave as the model says for the calls alone.
// (3) Calls AFTER resolution (post.go, path "post"): written lists placed in a leaf, typedef chains, union members,
// groupings, deviations ..., processed, then Set/SetNext sequences on the table reached through Entry.Type.Enum / .Bit;
// every other table reachable in the processed modules is the same object or an independent table.
package main

import (
	"encoding/json"
	"fmt"
	"os"
	"regexp"
	"sort"
	"strconv"
	"strings"
	"sync"

	"github.com/openconfig/goyang/pkg/yang"
	"verif/harness/lib"
)

// tcase: Kind "e" | "b"; Path "ops" | "text" | "post" (post.go); Vals[i] is "-" (ops: SetNext) / "nil" (text: no statement),
// a decimal int64 (ops) or the hex of the written argument (text).
type tcase struct {
	Kind  string   `json:"kind"`
	Path  string   `json:"path"`
	Names []string `json:"names"`
	Vals  []string `json:"vals"`
	// text path only.  Hist: the history the Modules value goes through, the result is taken after EVERY run:
	//   "" / "a"  Parse, Process
	//   "b"       Parse, Process, Process
	//   "c"       Parse, ToEntry(module) (a read before the run), Process
	//   "d"       Parse, Process, Parse of an unrelated module, Process
	// Form: "" the type is written in a leaf; "typedef": in a typedef that a leaf uses (when there are
	// errors only the errors are compared: the leaf then has no resolved type).
	// Further forms (placements of the generated statement list), all on the text path:
	//   "leaflist"  leaf-list l { type T {...} }
	//   "chain"     typedef t1 { type T {...} } typedef t2 { type t1; } typedef t3 { type t2; } leaf l { type t3; }
	//   "grouping"  grouping g { leaf l { type T {...} } } used by two containers (both copies are read)
	//   "u1" "u2" "u3"  member 1 / 2 / 3 of a union whose other members are, in this order: the twin (a type
	//               with exactly the members the model's fold leaves, written with explicit values; omitted
	//               when nothing survives), an unrelated enumeration {x, y}, string
	//   "dr" "da"   the inline type of `deviate replace` / `deviate add` in module m deviating leaf l of module o
	//   "n0" "nm" "nv" "n+"  member 2 of a union { near twin, generated type, string }: the near twin (in Twin) is the
	//               table the model's fold leaves with exactly one difference - the zero-valued member renamed /
	//               the maximum-valued member renamed / one value changed under the same names / one more member.
	//               The union has to keep BOTH members, each with its own table: every member of the kind is
	//               read back in order, the first must hold the near twin's table, the second the model's.
	//   "r1" "r2" "r3" "r4"  the generated list written INSIDE a type statement that names a typedef `base` of the same
	//               kind with five other-valued members (a "restriction"): in a leaf / in a derived typedef used by a
	//               leaf / as a union member / in a leaf-list.  goyang runs the ordinary fold over the written list
	//               from an empty table there (it does not consult the base's table; see the report on RFC 7950
	//               9.6.4.2 restricted types), and that is what the model requires.
	// With errors the forms typedef, chain, r2, dr, da compare the errors only (no resolved type reaches the leaf).
	Hist string   `json:"hist,omitempty"`
	Form string   `json:"form,omitempty"`
	Twin []string `json:"twin,omitempty"` // union forms: surviving members "name:value", from the model
	// Subs[i]: a further substatement of member i that must NOT influence the numbering ("" none):
	//   sc / sd / so  status current / deprecated / obsolete      de  description      re  reference
	//   fd / fu       if-feature with a defined / an undefined feature                 ex  an extension statement
	// a trailing "<" puts it before the value / position statement instead of after it.  The model never sees it.
	Subs []string `json:"subs,omitempty"`
	// ops path only.  After EVERY call the runner edits every object the accessors NameMap / ValueMap / Names /
	// Values handed out (owned.go): by default one of 625 edit combinations derived from the case and the call
	// index; Edits[i] != "" names the edits after call i explicitly (corpus cases; syntax: see handed.edit).
	Edits []string `json:"edits,omitempty"`
	// post path only (post.go): Names / Vals are the WRITTEN members (text encoding), placed as Form says and
	// processed; PostN / PostV are the calls made afterwards on the resolved table ("-" SetNext, else Set with
	// that decimal value).
	PostN []string `json:"post_names,omitempty"`
	PostV []string `json:"post_vals,omitempty"`
}

func (c tcase) key() string {
	return c.req() + " " + c.Hist + " " + c.Form + " " + strings.Join(c.Subs, ",") + strings.Join(c.Edits, ",")
}

func (c tcase) req() string {
	op := "enum.text"
	if c.Path == "post" {
		return "enum.after" + c.afterArgs()
	}
	if c.Path == "ops" {
		op = "enum.steps" // the table is read back after every call
	}
	return op + c.args()
}

func (c tcase) args() string {
	var sb strings.Builder
	sb.WriteString(" " + c.Kind)
	for i := range c.Names {
		sb.WriteString(" " + lib.HexS(c.Names[i]) + " " + c.Vals[i])
	}
	return sb.String()
}

func (c tcase) specReq() string {
	op := "spec.steps" // the assignment of every prefix of the calls
	if c.Path == "post" {
		return "spec.after" + c.afterArgs()
	}
	if c.Path == "text" {
		op = "spec.text"
	}
	return op + c.args()
}

func numClass(m string) string {
	switch {
	case strings.HasSuffix(m, "invalid syntax"):
		return "syntax"
	case strings.HasSuffix(m, "value out of range"):
		return "range"
	case strings.Contains(m, "converting empty string to number"):
		return "empty"
	case strings.Contains(m, "sign with no value"):
		return "signOnly"
	case strings.Contains(m, "called Int() on decimal64 value"):
		return "decimalInt"
	case strings.Contains(m, "signed integer overflow"):
		return "overflow"
	}
	return "other"
}

func errClass(err error) string {
	m := err.Error()
	switch {
	case strings.Contains(m, "already assigned"):
		return "dupName"
	case strings.Contains(m, "conflict on value"):
		return "dupValue"
	case strings.Contains(m, "too small (minimum is"):
		return "tooSmall"
	case strings.Contains(m, "too large (maximum is"):
		return "tooLarge"
	case strings.Contains(m, "must specify a value since previous enum is the maximum value allowed"):
		return "needValue"
	}
	return "num." + numClass(m)
}

// table reads every view of e — Names(), Values(), NameMap(), ValueMap(), the exported maps ToInt and
// ToString, and the point lookups — and prints the four views; when the views do not agree with the maps
// (or, for an enumeration, are not mutually inverse) it says so instead.
func table(kind string, e *yang.EnumType) string {
	t, _ := tableH(kind, e)
	return t
}

// tableH is table; it also returns the objects the accessors handed out at this reading.
func tableH(kind string, e *yang.EnumType) (string, *handed) {
	h := &handed{names: e.Names(), values: e.Values(), nm: e.NameMap(), vm: e.ValueMap()}
	return tableOf(kind, e, h), h
}

func tableOf(kind string, e *yang.EnumType, h *handed) string {
	var names, values, nm, vm []string
	for _, n := range h.names {
		names = append(names, lib.HexS(n))
	}
	for _, v := range h.values {
		values = append(values, strconv.FormatInt(v, 10))
	}
	m := h.nm
	for _, n := range lib.SortedKeys(m) {
		nm = append(nm, lib.HexS(n)+":"+strconv.FormatInt(m[n], 10))
	}
	v := h.vm
	var ks []int64
	for k := range v {
		ks = append(ks, k)
	}
	sort.Slice(ks, func(i, j int) bool { return ks[i] < ks[j] })
	for _, k := range ks {
		vm = append(vm, strconv.FormatInt(k, 10)+":"+lib.HexS(v[k]))
	}
	out := "names=" + strings.Join(names, ",") + " values=" + strings.Join(values, ",") +
		" namemap=" + strings.Join(nm, ",") + " valuemap=" + strings.Join(vm, ",")
	bad := func(what string) string { return "inconsistent-views(" + what + "): " + out }
	// the views are copies of the maps.  Every lookup is made with the comma-ok form and names are printed
	// quoted: an entry that is absent and an entry that holds the zero value (the name "", the value 0) are
	// different things.
	if len(m) != len(e.ToInt) || len(h.names) != len(e.ToInt) || len(h.values) != len(e.ToInt) {
		return bad(fmt.Sprintf("NameMap/Names/Values have %d/%d/%d entries, ToInt has %d", len(m), len(h.names), len(h.values), len(e.ToInt)))
	}
	for n, val := range e.ToInt {
		if got, ok := m[n]; !ok || got != val {
			return bad(fmt.Sprintf("NameMap differs from ToInt at %q", n))
		}
		if e.Value(n) != val || !e.IsDefined(n) {
			return bad(fmt.Sprintf("Value/IsDefined differ from ToInt at %q", n))
		}
	}
	// Names() lists exactly the names of NameMap, each once
	seen := map[string]bool{}
	for _, n := range h.names {
		if _, ok := m[n]; !ok || seen[n] {
			return bad(fmt.Sprintf("Names() lists %q, which NameMap does not hold / twice", n))
		}
		seen[n] = true
	}
	if len(v) != len(e.ToString) {
		return bad(fmt.Sprintf("ValueMap has %d entries, ToString has %d", len(v), len(e.ToString)))
	}
	for k, n := range e.ToString {
		if got, ok := v[k]; !ok || got != n {
			return bad("ValueMap differs from ToString at " + strconv.FormatInt(k, 10))
		}
		if e.Name(k) != n {
			return bad("Name differs from ToString at " + strconv.FormatInt(k, 10))
		}
	}
	// every name's value is named (by that name, unless two bits share the position)
	for n, val := range m {
		got, ok := v[val]
		if !ok {
			return bad(fmt.Sprintf("value %d of %q is missing from ValueMap", val, n))
		}
		if kind == "e" && got != n {
			return bad(fmt.Sprintf("name->value and value->name are not mutually inverse: %q has value %d, value %d is named %q (two names share one value)", n, val, val, got))
		}
	}
	if kind == "e" && len(m) != len(v) {
		return bad(fmt.Sprintf("enumeration with %d names and %d named values", len(m), len(v)))
	}
	for k, n := range v {
		if got, ok := m[n]; !ok || got != k {
			return bad(fmt.Sprintf("name->value and value->name are not mutually inverse: value %d is named %q, which NameMap does not hold with that value", k, n))
		}
	}
	return out
}

func dump(kind string, e *yang.EnumType, errs []string) string {
	if e == nil {
		return "errs=" + strings.Join(errs, ",") + " no-type"
	}
	return dump1(table(kind, e), errs)
}

func dump1(t string, errs []string) string {
	if strings.HasPrefix(t, "inconsistent-views") {
		return t
	}
	return "errs=" + strings.Join(errs, ",") + " " + t
}

func quoteYang(raw []byte) string {
	var sb strings.Builder
	sb.WriteByte('"')
	for _, b := range raw {
		switch b {
		case '\\':
			sb.WriteString(`\\`)
		case '"':
			sb.WriteString(`\"`)
		case '\n':
			sb.WriteString(`\n`)
		case '\t':
			sb.WriteString(`\t`)
		default:
			sb.WriteByte(b)
		}
	}
	sb.WriteByte('"')
	return sb.String()
}

var plainName = regexp.MustCompile(`^[A-Za-z_][A-Za-z0-9_.-]*$`)

// yangName writes a member name as a YANG argument: identifiers as they are (the texts of the cases over
// {a, b, c} are what they always were), everything else - the empty name, blanks, NUL, digits, non-ASCII,
// very long names - as a double-quoted string.
func yangName(n string) string {
	if plainName.MatchString(n) {
		return n
	}
	return quoteYang([]byte(n))
}

// splitMember splits a written member "name:value" at the LAST colon (values are decimal integers; names are
// arbitrary byte strings).
func splitMember(m string) (string, string) {
	i := strings.LastIndex(m, ":")
	if i < 0 {
		return m, ""
	}
	return m[:i], m[i+1:]
}

var subStatements = map[string]string{
	"sc": "status current;", "sd": "status deprecated;", "so": "status obsolete;",
	"de": "description \"d\";", "re": "reference \"r\";",
	"fd": "if-feature f;", "fu": "if-feature nosuch;", "ex": "m:note \"n\";",
}
var subCodes = []string{"sc", "sd", "so", "de", "re", "fd", "fu", "ex", "so<", "de<", "fd<", "ex<"}

// yangFiles returns the files of a text case in parse order (name, text) and the 1-based line of
// m.yang on which the first generated member stands (every member has a line of its own).
func yangFiles(c tcase) (files [][2]string, firstLine int) {
	tn, mk, vk := "enumeration", "enum", "value"
	if c.Kind == "b" {
		tn, mk, vk = "bits", "bit", "position"
	}
	var mem strings.Builder
	for i := range c.Names {
		sub, before := "", false
		if i < len(c.Subs) && c.Subs[i] != "" {
			code := c.Subs[i]
			if strings.HasSuffix(code, "<") {
				code, before = code[:len(code)-1], true
			}
			sub = subStatements[code] + " "
		}
		switch {
		case c.Vals[i] == "nil" && sub == "":
			mem.WriteString(mk + " " + yangName(c.Names[i]) + ";\n")
		case c.Vals[i] == "nil":
			mem.WriteString(mk + " " + yangName(c.Names[i]) + " { " + sub + "}\n")
		default:
			raw, _ := lib.UnHex(c.Vals[i])
			val := vk + " " + quoteYang(raw) + "; "
			if before {
				mem.WriteString(mk + " " + yangName(c.Names[i]) + " { " + sub + val + "}\n")
			} else {
				mem.WriteString(mk + " " + yangName(c.Names[i]) + " { " + val + sub + "}\n")
			}
		}
	}
	gen := "type " + tn + " {\n" + mem.String() + " }" // the generated type statement; members start on the next line
	head := "module m { namespace \"urn:m\"; prefix m; feature f; extension note { argument t; }\n"
	var pre, post string
	if isUnused(c.Form) {
		return unusedFiles(c.Form, head, gen) // unused.go: a typedef that nothing refers to
	}
	switch c.Form {
	case "":
		pre, post = head+" leaf l { ", " } }\n"
	case "leaflist":
		pre, post = head+" leaf-list l { ", " } }\n"
	case "typedef":
		pre, post = head+" typedef t { ", " }\n leaf l { type t; } }\n"
	case "chain":
		pre, post = head+" typedef t1 { ", " }\n typedef t2 { type t1; }\n typedef t3 { type t2; }\n leaf l { type t3; } }\n"
	case "grouping":
		pre, post = head+" grouping g { leaf l { ", " } }\n container c1 { uses g; }\n container c2 { uses g; } }\n"
	// typedef-based placements of the post path (post.go): the table is reached through the typedef
	case "chain2":
		pre, post = head+" typedef t1 { ", " }\n typedef t2 { type t1; }\n leaf l { type t2; } }\n"
	case "tdll":
		pre, post = head+" typedef t { ", " }\n leaf-list l { type t; } }\n"
	case "tdu":
		pre, post = head+" typedef t { ", " }\n leaf l { type union { type t; type string; } } }\n"
	case "tdu2":
		pre, post = head+" typedef t1 { ", " }\n typedef t2 { type t1; }\n leaf l { type union { type string; type t2; } } }\n"
	case "tdtu":
		pre, post = head+" typedef t { ", " }\n typedef u { type union { type t; type string; } }\n leaf l { type u; } }\n"
	case "tdtwo":
		pre, post = head+" typedef t { ", " }\n leaf l { type t; }\n leaf l2 { type t; } }\n"
	case "tdgrp":
		pre, post = head+" grouping g { typedef t { ", " }\n leaf l { type t; } }\n container c1 { uses g; }\n container c2 { uses g; } }\n"
	case "tddr":
		files = append(files, [2]string{"o.yang", "module o { namespace \"urn:o\"; prefix o; leaf l { type string; } }\n"})
		pre = "module m { namespace \"urn:m\"; prefix m; import o { prefix o; } feature f; extension note { argument t; }\n typedef t { "
		post = " }\n deviation /o:l { deviate replace { type t; } } }\n"
	case "tdimp":
		pre = "module o { namespace \"urn:o\"; prefix o; feature f; extension note { argument t; }\n typedef t { "
		files = append(files, [2]string{"o.yang", pre + gen + " } }\n"},
			[2]string{"m.yang", "module m { namespace \"urn:m\"; prefix m; import o { prefix o; }\n leaf l { type o:t; } }\n"})
		return files, strings.Count(pre, "\n") + 2
	case "u1", "u2", "u3":
		var others []string
		if len(c.Twin) > 0 {
			tw := "type " + tn + " {"
			for _, nv := range c.Twin {
				mn, mv := splitMember(nv)
				tw += " " + mk + " " + yangName(mn) + " { " + vk + " " + mv + "; }"
			}
			others = append(others, tw+" }\n")
		}
		others = append(others, "type enumeration { enum x; enum y; }\n", "type string;\n")
		at := int(c.Form[1] - '1')
		if at > len(others) {
			at = len(others)
		}
		pre = head + " leaf l { type union {\n" + strings.Join(others[:at], "")
		post = "\n" + strings.Join(others[at:], "") + " } } }\n"
	case "r1", "r2", "r3", "r4":
		baseTd := " typedef base { type enumeration { enum a { value 3; } enum b; enum c { value -2; } enum d; enum e; } }\n"
		if c.Kind == "b" {
			baseTd = " typedef base { type bits { bit a { position 3; } bit b; bit c { position 1; } bit d; bit e; } }\n"
		}
		gen = "type base {\n" + mem.String() + " }"
		switch c.Form {
		case "r1":
			pre, post = head+baseTd+" leaf l { ", " } }\n"
		case "r2":
			pre, post = head+baseTd+" typedef d { ", " }\n leaf l { type d; } }\n"
		case "r3":
			pre, post = head+baseTd+" leaf l { type union {\n", "\ntype string;\n } } }\n"
		case "r4":
			pre, post = head+baseTd+" leaf-list l { ", " } }\n"
		}
	case "n0", "nm", "nv", "n+":
		tw := "type " + tn + " {"
		for _, nv := range c.Twin {
			mn, mv := splitMember(nv)
			tw += " " + mk + " " + yangName(mn) + " { " + vk + " " + mv + "; }"
		}
		pre = head + " leaf l { type union {\n" + tw + " }\n"
		post = "\ntype string;\n } } }\n"
	case "dr", "da":
		files = append(files, [2]string{"o.yang", "module o { namespace \"urn:o\"; prefix o; leaf l { type string; } }\n"})
		how := "replace"
		if c.Form == "da" {
			how = "add"
		}
		pre = "module m { namespace \"urn:m\"; prefix m; import o { prefix o; } feature f; extension note { argument t; }\n deviation /o:l { deviate " + how + " {\n "
		post = " } } }\n"
	default:
		return nil, 0
	}
	files = append(files, [2]string{"m.yang", pre + gen + post})
	return files, strings.Count(pre, "\n") + 2
}

func yangText(c tcase) string {
	files, _ := yangFiles(c)
	var sb strings.Builder
	for _, f := range files {
		sb.WriteString("--- " + f[0] + "\n" + f[1])
	}
	return sb.String()
}

// tables finds the EnumType(s) the case is about in the processed modules (nil: no resolved type there).
func tables(c tcase, ms *yang.Modules) []*yang.EnumType {
	pick := func(t *yang.YangType) *yang.EnumType {
		if t == nil {
			return nil
		}
		if c.Kind == "b" {
			return t.Bit
		}
		return t.Enum
	}
	typeOf := func(e *yang.Entry, path ...string) *yang.YangType {
		for _, p := range path {
			if e == nil {
				return nil
			}
			e = e.Dir[p]
		}
		if e == nil {
			return nil
		}
		return e.Type
	}
	if isUnused(c.Form) {
		// nothing uses the typedef: its own resolved type, in the statement tree
		td := unusedTypedef(ms)
		if td == nil {
			return []*yang.EnumType{nil}
		}
		return []*yang.EnumType{pick(td.YangType)}
	}
	switch c.Form {
	case "dr", "da", "tddr":
		return []*yang.EnumType{pick(typeOf(yang.ToEntry(ms.Modules["o"]), "l"))}
	case "tdtwo":
		m := yang.ToEntry(ms.Modules["m"])
		return []*yang.EnumType{pick(typeOf(m, "l")), pick(typeOf(m, "l2"))}
	case "grouping", "tdgrp":
		m := yang.ToEntry(ms.Modules["m"])
		return []*yang.EnumType{pick(typeOf(m, "c1", "l")), pick(typeOf(m, "c2", "l"))}
	case "u1", "u2", "u3", "r3", "tdu", "tdu2", "tdtu":
		u := typeOf(yang.ToEntry(ms.Modules["m"]), "l")
		if u == nil {
			return []*yang.EnumType{nil}
		}
		// the first member of the wanted kind that is not the unrelated {x, y}: the generated type, or a
		// twin holding the same table
		for _, t := range u.Type {
			if e := pick(t); e != nil && !e.IsDefined("x") {
				return []*yang.EnumType{e}
			}
		}
		return []*yang.EnumType{nil}
	}
	return []*yang.EnumType{pick(typeOf(yang.ToEntry(ms.Modules["m"]), "l"))}
}

// origin: a table reached by another route than the leaf's Entry: the statement tree (the leaf's own type
// statement, the typedefs of a chain, the leaf inside the grouping).  After the caller edited the views it got
// from the Entry these must still hold the same table as the Entry.
type origin struct {
	what string
	e    *yang.EnumType
}

func origins(c tcase, ms *yang.Modules) []origin {
	pick := func(t *yang.YangType) *yang.EnumType {
		if t == nil {
			return nil
		}
		if c.Kind == "b" {
			return t.Bit
		}
		return t.Enum
	}
	if isUnused(c.Form) {
		if td := unusedTypedef(ms); td != nil && td.Type != nil {
			return []origin{{"the type statement of typedef t", pick(td.Type.YangType)}}
		}
		return nil
	}
	m := ms.Modules["m"]
	if m == nil {
		return nil
	}
	ofType := func(t *yang.Type) *yang.EnumType {
		if t == nil {
			return nil
		}
		return pick(t.YangType)
	}
	var out []origin
	switch c.Form {
	case "", "typedef", "chain":
		for _, l := range m.Leaf {
			out = append(out, origin{"the type statement of leaf " + l.Name, ofType(l.Type)})
		}
		for _, td := range m.Typedef {
			out = append(out, origin{"typedef " + td.Name, pick(td.YangType)}, origin{"the type statement of typedef " + td.Name, ofType(td.Type)})
		}
	case "leaflist":
		for _, l := range m.LeafList {
			out = append(out, origin{"the type statement of leaf-list " + l.Name, ofType(l.Type)})
		}
	case "grouping":
		for _, g := range m.Grouping {
			for _, l := range g.Leaf {
				out = append(out, origin{"the type statement of leaf " + l.Name + " in grouping " + g.Name, ofType(l.Type)})
			}
		}
	}
	return out
}

func isNear(form string) bool { return form == "n0" || form == "nm" || form == "nv" || form == "n+" }

// expectDump is the dump of a table given as written members "name:value" (no errors).
func expectDump(members []string) string {
	type nv struct {
		n string
		v int64
	}
	var ms []nv
	byVal := map[int64]string{}
	for _, m := range members {
		mn, mv := splitMember(m)
		v, _ := strconv.ParseInt(mv, 10, 64)
		ms = append(ms, nv{mn, v})
		byVal[v] = mn // the later of two bits on one position names it
	}
	sort.Slice(ms, func(i, j int) bool { return ms[i].n < ms[j].n })
	var names, nm, values, vm []string
	var vs []int64
	for _, m := range ms {
		names = append(names, lib.HexS(m.n))
		nm = append(nm, lib.HexS(m.n)+":"+strconv.FormatInt(m.v, 10))
		vs = append(vs, m.v)
	}
	sort.Slice(vs, func(i, j int) bool { return vs[i] < vs[j] })
	for _, v := range vs {
		values = append(values, strconv.FormatInt(v, 10))
	}
	var ks []int64
	for k := range byVal {
		ks = append(ks, k)
	}
	sort.Slice(ks, func(i, j int) bool { return ks[i] < ks[j] })
	for _, k := range ks {
		vm = append(vm, strconv.FormatInt(k, 10)+":"+lib.HexS(byVal[k]))
	}
	return "errs= names=" + strings.Join(names, ",") + " values=" + strings.Join(values, ",") +
		" namemap=" + strings.Join(nm, ",") + " valuemap=" + strings.Join(vm, ",")
}

// nearAnswer reads back every member of the case's kind from the union of a near-twin case: there must
// be two, the first holding the near twin's table; the answer is then the dump of the second.
func nearAnswer(c tcase, ms *yang.Modules, errs []string, mode int) string {
	l := yang.ToEntry(ms.Modules["m"]).Dir["l"]
	if l == nil || l.Type == nil {
		return dump(c.Kind, nil, errs)
	}
	var tabs []*yang.EnumType
	for _, t := range l.Type.Type {
		e := t.Enum
		if c.Kind == "b" {
			e = t.Bit
		}
		if e != nil {
			tabs = append(tabs, e)
		}
	}
	if len(tabs) != 2 {
		var ds []string
		for _, e := range tabs {
			ds = append(ds, dump(c.Kind, e, nil))
		}
		return fmt.Sprintf("union-keeps-%d-of-2-members errs=%s: %s", len(tabs), strings.Join(errs, ","), strings.Join(ds, " ## "))
	}
	// the caller edits what it was handed from the first member before the second is read, then what it was
	// handed from the second; both members are then read again
	t0, h0 := tableH(c.Kind, tabs[0])
	h0.scribble(mode)
	if got, want := dump1(t0, nil), expectDump(c.Twin); got != want {
		return "near-twin-table-changed: " + got + " want " + want
	}
	t1, h1 := tableH(c.Kind, tabs[1])
	h1.scribble(mode + 1)
	for k, t := range []string{t0, t1} {
		if again := table(c.Kind, tabs[k]); again != t {
			_, h := tableH(c.Kind, tabs[k])
			return fmt.Sprintf("%s(%s; union member %d, edit mode %d): read %s ## after the caller edited what it was handed, read %s", aliasedMark, aliasWhy(tabs[k], h), k+1, mode+k,
				strings.ReplaceAll(t, " ", "_"), strings.ReplaceAll(again, " ", "_"))
		}
	}
	return dump1(t1, errs)
}

// runGo runs the real code on one case.
func runGo(c tcase) (out string) {
	defer func() {
		if r := recover(); r != nil {
			out = fmt.Sprintf("panic: %v", r)
		}
	}()
	if c.Path == "post" {
		return runPost(c)
	}
	if c.Path == "ops" {
		e := yang.NewEnumType()
		if c.Kind == "b" {
			e = yang.NewBitfield()
		}
		// after EVERY call every view is read back (a view read between two calls must not go stale), every
		// object the reading was handed is edited by the caller, and so are (again) the objects handed out before
		// the call: the next reading and the next calls must not notice
		var steps []string
		var held *handed
		key := c.key()
		for i := range c.Names {
			var err error
			if c.Vals[i] == "-" {
				err = e.SetNext(c.Names[i])
			} else {
				v, perr := strconv.ParseInt(c.Vals[i], 10, 64)
				if perr != nil {
					return "bad-case"
				}
				err = e.Set(c.Names[i], v)
			}
			cl := "-"
			if err != nil {
				cl = errClass(err)
			}
			edits := ""
			if i < len(c.Edits) {
				edits = c.Edits[i]
			}
			var t string
			t, held = ownedRead(c.Kind, e, held, modeOf(key, i), edits)
			steps = append(steps, "err="+cl+" "+t)
		}
		return strings.Join(steps, stepSep)
	}
	files, firstLine := yangFiles(c)
	if files == nil {
		return "bad-case"
	}
	ms := yang.NewModules()
	for _, f := range files {
		if err := ms.Parse(f[1], f[0]); err != nil {
			return "parse-error: " + err.Error()
		}
	}
	var dumps []string
	key := c.key()
	look := func(raw []error) {
		errs := classify(c, firstLine, raw)
		mode := modeOf(key, len(dumps))
		if isNear(c.Form) {
			dumps = append(dumps, nearAnswer(c, ms, errs, mode))
			return
		}
		// every use is read, and the caller edits every object that reading was handed, before the next use is
		// read; then every use (and the typedefs / the grouping's own leaf the uses come from) is read again
		tabs := tables(c, ms)
		first := make([]string, len(tabs))
		for k, e := range tabs {
			if e == nil {
				first[k] = dump(c.Kind, e, errs)
				continue
			}
			t, h := tableH(c.Kind, e)
			h.scribble(mode + k)
			first[k] = dump1(t, errs)
		}
		for k, e := range tabs {
			if e == nil {
				continue
			}
			if again := dump(c.Kind, e, errs); again != first[k] {
				_, h := tableH(c.Kind, e)
				first[k] = fmt.Sprintf("%s(%s; use %d of %d, edit mode %d): read %s ## after the caller edited what it was handed, read %s", aliasedMark, aliasWhy(e, h), k+1, len(tabs), mode+k,
					strings.ReplaceAll(first[k], " ", "_"), strings.ReplaceAll(again, " ", "_"))
			}
		}
		if tabs[0] != nil && !strings.HasPrefix(first[0], aliasedMark) {
			for _, o := range origins(c, ms) {
				if o.e == nil {
					continue
				}
				if got := dump(c.Kind, o.e, errs); got != first[0] {
					first[0] = fmt.Sprintf("origin-differs(%s): the leaf holds %s ## %s holds %s", o.what, strings.ReplaceAll(first[0], " ", "_"), o.what, strings.ReplaceAll(got, " ", "_"))
					break
				}
			}
		}
		for _, d := range first {
			dumps = append(dumps, project(c, d))
		}
	}
	switch c.Hist {
	case "", "a":
		look(ms.Process())
	case "b":
		look(ms.Process())
		look(ms.Process())
	case "c":
		look(yang.ToEntry(ms.Modules["m"]).GetErrors())
		look(ms.Process())
	case "d":
		look(ms.Process())
		if err := ms.Parse("module p { namespace \"urn:p\"; prefix p; leaf x { type string; } }", "p.yang"); err != nil {
			return "parse-error: " + err.Error()
		}
		look(ms.Process())
	default:
		return "bad-case"
	}
	for _, d := range dumps[1:] {
		if d != dumps[0] {
			return runsDiffer + strings.Join(dumps, runSep)
		}
	}
	return dumps[0]
}

const stepSep = " | "
const runsDiffer = "runs-differ: "
const runSep = " || "

var posRe = regexp.MustCompile(`m\.yang:(\d+):(\d+): `)

// classify maps the errors of one run to "member index:class", in member order.  A message may carry
// several positions ("deviation has unresolvable type, [m.yang:4:1: ... m.yang:5:1: ...]"): each
// position starts a segment that is classified on its own.
func classify(c tcase, firstLine int, raw []error) []string {
	var errs []string
	for _, err := range raw {
		m := err.Error()
		locs := posRe.FindAllStringSubmatchIndex(m, -1)
		if len(locs) == 0 {
			errs = append(errs, "?:"+m)
			continue
		}
		for k, loc := range locs {
			end := len(m)
			if k+1 < len(locs) {
				end = locs[k+1][0]
			}
			ln, _ := strconv.Atoi(m[loc[2]:loc[3]])
			idx := ln - firstLine
			if idx < 0 || idx >= len(c.Names) {
				errs = append(errs, "?:"+m)
				continue
			}
			errs = append(errs, strconv.Itoa(idx)+":"+errClass(fmt.Errorf("%s", strings.TrimRight(m[loc[1]:end], " ]"))))
		}
	}
	sort.SliceStable(errs, func(i, j int) bool {
		a, _ := strconv.Atoi(strings.SplitN(errs[i], ":", 2)[0])
		b, _ := strconv.Atoi(strings.SplitN(errs[j], ":", 2)[0])
		return a < b
	})
	return errs
}

// project keeps what is compared: for the typedef form with errors only the errors (the leaf has no
// resolved type then); everything otherwise.  Applied to the Go answer and to the model's answer.
func project(c tcase, ans string) string {
	if !(c.Form == "typedef" || c.Form == "chain" || c.Form == "r2" || c.Form == "dr" || c.Form == "da" || isUnused(c.Form)) || !strings.HasPrefix(ans, "errs=") {
		return ans
	}
	first := strings.Fields(ans)[0]
	if first == "errs=" {
		return ans
	}
	return first
}

// judge: does the Go answer g satisfy the specification answer s (na | none | ok table; on the ops path one
// such answer per prefix of the calls, separated by stepSep)?
func judge(c tcase, g, s string) (bool, string) {
	ok, what := judge0(c, g, s)
	if c.Path == "text" && isUnused(c.Form) {
		what = unusedClause(c, g, what)
	}
	return ok, what
}

func judge0(c tcase, g, s string) (bool, string) {
	if i := strings.Index(g, aliasedMark); i >= 0 {
		return false, "a value handed out by an accessor (NameMap/ValueMap/Names/Values) is not the caller's own: the table must be the one of the Set/SetNext calls alone (views_inverse, fold_eq_rfc), but editing the handed-out object changed it: " + g[i:]
	}
	if i := strings.Index(g, "origin-differs"); i >= 0 {
		return false, "the table reached through the statement tree is not the table of the Entry: " + g[i:]
	}
	if c.Path == "post" {
		return judgePost(c, g, s)
	}
	if s == "na" {
		return true, "outside the claimed literal form"
	}
	if strings.HasPrefix(g, runsDiffer) {
		// every run has to satisfy the specification
		for i, d := range strings.Split(strings.TrimPrefix(g, runsDiffer), runSep) {
			if ok, what := judge0(c, d, s); !ok {
				return false, fmt.Sprintf("run %d of history %q: %s", i+1, c.Hist, what)
			}
		}
		return true, "the runs differ, each satisfies the specification"
	}
	if c.Path == "ops" {
		// per-call blocks: every block must be self-consistent; the table after EVERY call, with the errors
		// collected so far, is judged against the RFC assignment of the calls made so far
		if strings.Contains(g, "inconsistent-views") {
			at := g[strings.Index(g, "inconsistent-views"):]
			if k := strings.Index(at, stepSep); k >= 0 {
				at = at[:k]
			}
			return false, fmt.Sprintf("after call %d of %d the views read back are not mutually inverse or disagree with the maps (views_inverse; names in hex, - = the empty name): %s", strings.Count(g[:strings.Index(g, "inconsistent-views")], stepSep)+1, len(c.Names), at)
		}
		blocks := strings.Split(g, stepSep)
		specs := strings.Split(s, stepSep)
		if len(specs) != len(blocks) {
			return false, "Go did not produce a result: " + g
		}
		var errs []string
		what := ""
		for i, b := range blocks {
			if !strings.HasPrefix(b, "err=") {
				return false, "Go did not produce a result: " + g
			}
			if cl := strings.TrimPrefix(strings.Fields(b)[0], "err="); cl != "-" {
				errs = append(errs, strconv.Itoa(i)+":"+cl)
			}
			var ok bool
			if ok, what = judgeTable(c, "errs="+strings.Join(errs, ",")+b[strings.Index(b, " "):], specs[i]); !ok {
				return false, fmt.Sprintf("after call %d of %d: %s", i+1, len(blocks), what)
			}
		}
		return true, what
	}
	return judgeTable(c, g, s)
}

// judgeTable: one table with its errors against one specification answer.
func judgeTable(c tcase, g, s string) (bool, string) {
	if strings.HasPrefix(g, "union-keeps-") {
		return false, "a member of the union lost its table (taken for a duplicate of a different type, or dropped): " + g
	}
	if strings.HasPrefix(g, "near-twin-table-changed") {
		return false, "the table of another member of the union changed: " + g
	}
	if strings.HasPrefix(g, "inconsistent-views") {
		return false, "the views of the table are not mutually inverse or disagree with its maps (views_inverse; names in hex, - = the empty name): " + g
	}
	if !strings.HasPrefix(g, "errs=") {
		return false, "Go did not produce a result: " + g
	}
	fields := map[string]string{}
	for _, f := range strings.Fields(g) {
		kv := strings.SplitN(f, "=", 2)
		if len(kv) == 2 {
			fields[kv[0]] = kv[1]
		}
	}
	if s == "none" {
		if fields["errs"] == "" {
			return false, "RFC 7950 makes this type invalid, Go reports no error"
		}
		return true, "invalid by the RFC, Go reports an error"
	}
	if fields["errs"] != "" {
		return false, "RFC 7950 accepts this type, Go reports errors " + fields["errs"]
	}
	want := strings.TrimPrefix(s, "ok ")
	if fields["namemap"] != want {
		return false, "name->value table is " + fields["namemap"] + ", RFC 7950 gives " + want
	}
	// ranges and, for enumerations, value->name is the inverse of name->value
	lo, hi := int64(-1<<31), int64(1<<31-1)
	if c.Kind == "b" {
		lo, hi = 0, 1<<32-1
	}
	var inv []string
	for _, p := range strings.Split(want, ",") {
		if p == "" {
			continue
		}
		kv := strings.SplitN(p, ":", 2)
		v, _ := strconv.ParseInt(kv[1], 10, 64)
		if v < lo || v > hi {
			return false, "value out of range in an accepted type"
		}
		inv = append(inv, kv[1]+":"+kv[0])
	}
	if c.Kind == "e" {
		sort.Slice(inv, func(i, j int) bool {
			a, _ := strconv.ParseInt(strings.SplitN(inv[i], ":", 2)[0], 10, 64)
			b, _ := strconv.ParseInt(strings.SplitN(inv[j], ":", 2)[0], 10, 64)
			return a < b
		})
		if fields["valuemap"] != strings.Join(inv, ",") {
			return false, "value->name view " + fields["valuemap"] + " is not the inverse of name->value " + want
		}
	}
	return true, "Go's tables are the RFC 7950 assignment"
}

var namesPool = []string{"a", "b", "c"}

var textVals = []string{"nil", "0", "1", "-1", "-5", "7", "-2147483648", "-2147483649", "2147483647", "2147483648", "4294967295", "4294967296",
	"9223372036854775808", "-9223372036854775808", "18446744073709551615"}
var opsVals = []string{"-", "0", "1", "-1", "-5", "7", "-2147483648", "-2147483649", "2147483647", "2147483648", "4294967295", "4294967296",
	"9223372036854775807", "-9223372036854775808", "4294967294"}

// odd spellings for the text path (Go's base-0 syntax etc.)
var oddVals = []string{"0x10", "010", "0b11", "0o7", "1_0", "+5", "-0", " 7 ", "\t3", "abc", "", "1.0", "+", "-", "0x7fffffff", "0x80000000", "0xffffffff",
	"0x100000000", "-0x80000000", "-0x80000001", "00", "08", "1e3", "18446744073709551616", "-18446744073709551615", "-9223372036854775809", "2147483647 ", "\u0663", "\u00a05", "5\u2003"}

// oddNames: the degenerate and look-alike member names a table keyed by name (and a value->name view whose
// zero value is a name) is sensitive to.  For the model (names are byte lists) and for RFC 7950 they are
// names like any other: distinct byte strings are distinct names.
//
//	the empty name, one blank, NUL alone (look-alikes of "no name");
//	a / A (case), "a " (trailing blank), "a\x00" (trailing NUL), b (ordinary);
//	U+00E9 and e + U+0301 (one character in the two Unicode normalisation forms);
//	two names of 300 bytes that differ in the last byte only;
//	names that are decimal numbers - the text of the values the members of these lists hold: 0, 1, -1, 7,
//	2147483647 - and 00 (another spelling of 0).
var oddNames = []string{"", " ", "\x00", "a", "A", "a ", "a\x00", "b", "\u00e9", "e\u0301",
	strings.Repeat("a", 300), strings.Repeat("a", 299) + "b", "0", "1", "-1", "7", "2147483647", "00"}

// oddNameVals: automatic, and the explicit values whose text is in oddNames.
var oddNameVals = []string{"-", "0", "1", "7", "-1", "2147483647"}

// oddTriples: value patterns of the lists of three - a later member asks for the value an earlier one holds
// (explicitly or automatically; first/middle, first/last, middle/last), the running maximum, the end of the range.
var oddTriples = [][3]string{
	{"-", "-", "-"}, {"-", "0", "-"}, {"0", "-", "0"}, {"-", "-", "0"}, {"-", "-", "1"}, {"7", "-", "7"}, {"7", "-", "8"},
	{"-1", "-", "0"}, {"0", "1", "1"}, {"1", "-", "-"}, {"2147483647", "-1", "-"}, {"-", "2147483646", "-"},
}

// oddVal writes a value of the odd-name lists for the path: ops "-" / decimal, text "nil" / hex of the decimal.
func oddVal(path, v string) string {
	if path == "ops" {
		return v
	}
	if v == "-" {
		return "nil"
	}
	return lib.HexS(v)
}

type choice struct{ name, val string }

func choices(path string) []choice {
	var out []choice
	vals := opsVals
	if path == "text" {
		vals = textVals
	}
	for _, v := range vals {
		if path == "text" && v != "nil" {
			v = lib.HexS(v)
		}
		for _, n := range namesPool {
			out = append(out, choice{n, v})
		}
	}
	return out
}

var newForms = []string{"leaflist", "chain", "grouping", "u1", "u2", "u3", "dr", "da", "r1", "r2", "r3", "r4"}
var nearForms = []string{"n0", "nm", "nv", "n+"}

// nearOf derives a near twin from the surviving members (written order, "name:value"); ok = false when
// the variant does not apply (no zero-valued member, empty table).
func nearOf(kind, form string, twin []string) (out []string, ok bool) {
	lo, hi := int64(-1<<31), int64(1<<31-1)
	if kind == "b" {
		lo, hi = 0, 1<<32-1
	}
	names := make([]string, len(twin))
	vals := make([]int64, len(twin))
	used := map[int64]bool{}
	maxAt := -1
	for i, m := range twin {
		mn, mv := splitMember(m)
		names[i] = mn
		vals[i], _ = strconv.ParseInt(mv, 10, 64)
		used[vals[i]] = true
		if maxAt < 0 || vals[i] > vals[maxAt] {
			maxAt = i
		}
	}
	fresh := func() int64 { // a value in range that no member has
		var cands []int64
		if maxAt >= 0 {
			cands = append(cands, vals[maxAt]+1)
		}
		for v := int64(0); v < 16; v++ {
			cands = append(cands, v)
		}
		for _, v := range cands {
			if v >= lo && v <= hi && !used[v] {
				return v
			}
		}
		return lo
	}
	emit := func() []string {
		var o []string
		for i := range names {
			o = append(o, names[i]+":"+strconv.FormatInt(vals[i], 10))
		}
		return o
	}
	switch form {
	case "n0":
		for i := range vals {
			if vals[i] == 0 {
				names[i] = "q"
				return emit(), true
			}
		}
		return nil, false
	case "nm":
		if maxAt < 0 {
			return nil, false
		}
		names[maxAt] = "q"
		return emit(), true
	case "nv":
		if maxAt < 0 {
			return nil, false
		}
		vals[maxAt] = fresh()
		return emit(), true
	case "n+":
		names = append(names, "q")
		vals = append(vals, fresh())
		return emit(), true
	}
	return nil, false
}

// expand returns the text case c (a bare statement list) in every history in a leaf, in the typedef form
// under the two histories that process twice (when wanted), and in every other placement (history a).
// twin: the members the model's fold leaves (for the union placements).  rot < 0: every placement;
// rot = 0 .. mod-1: every mod-th of the sixteen placements beyond leaf and typedef, starting at rot.
// hists: the histories in the leaf form.
func expand(c tcase, typedefToo bool, twin []string, rot, mod int, hists []string) []tcase {
	var out []tcase
	for _, h := range hists {
		x := c
		x.Hist = h
		out = append(out, x)
	}
	if typedefToo {
		for _, h := range []string{"b", "d"} {
			x := c
			x.Hist, x.Form = h, "typedef"
			out = append(out, x)
		}
	}
	for k, fm := range newForms {
		if rot >= 0 && k%mod != rot {
			continue
		}
		x := c
		x.Hist, x.Form = "a", fm
		if fm[0] == 'u' {
			x.Twin = twin
		}
		out = append(out, x)
	}
	for k, fm := range nearForms {
		if rot >= 0 && (len(newForms)+k)%mod != rot {
			continue
		}
		if near, ok := nearOf(c.Kind, fm, twin); ok {
			x := c
			x.Hist, x.Form, x.Twin = "a", fm, near
			out = append(out, x)
		}
	}
	return out
}

// twinOf reads the surviving members out of the model's answer ("errs=<idx:class,...> ... namemap=<hex>:<int>,...")
// and lists them in written order (the members whose index is not among the rejected ones), so that the
// twin builds the same value->name map too when two bits share a position.
func twinOf(c tcase, modelAns string) []string {
	rejected := map[int]bool{}
	vals := map[string]string{}
	for _, f := range strings.Fields(modelAns) {
		switch {
		case strings.HasPrefix(f, "errs="):
			for _, p := range strings.Split(strings.TrimPrefix(f, "errs="), ",") {
				if i, err := strconv.Atoi(strings.SplitN(p, ":", 2)[0]); err == nil {
					rejected[i] = true
				}
			}
		case strings.HasPrefix(f, "namemap="):
			for _, p := range strings.Split(strings.TrimPrefix(f, "namemap="), ",") {
				if p == "" {
					continue
				}
				kv := strings.SplitN(p, ":", 2)
				n, _ := lib.UnHex(kv[0])
				vals[string(n)] = kv[1]
			}
		}
	}
	var out []string
	for i, n := range c.Names {
		if v, ok := vals[n]; ok && !rejected[i] {
			out = append(out, n+":"+v)
		}
	}
	return out
}

func main() {
	f := lib.ParseFlags()
	if f.Replay != "" {
		replay(f)
		return
	}
	res := lib.NewResult("C14", f)
	maxLen := 3
	if f.Thorough() {
		maxLen = 4
	}
	// bare statement lists first (the model is asked about them before the placements are built:
	// the union placements need the table the model's fold leaves)
	type base struct {
		c          tcase
		typedefToo bool
		random     bool
		decorated  bool
		odd        int // odd-name lists: 2 = leaf (histories a, b) and a seeded quarter of the placements; 3 = leaf and one seeded placement (thorough: everything)
	}
	var bases []base
	enumerated := int64(0)
	// corpus: call sequences with the caller's edits of the handed-out views written out (the first is the
	// sequence of seeded/C14-k22: hide a member in the name view and one in the value view, add a local key,
	// then reuse the names and values)
	corpus := []tcase{
		{Kind: "e", Path: "ops", Names: []string{"a", "b", "c", "a", "z", "local", "n"}, Vals: []string{"5", "-", "-2", "9", "6", "50", "-"},
			Edits: []string{"", "", "nm-a;vm-6;nm+local:100"}},
		{Kind: "e", Path: "ops", Names: []string{"a", "b", "c", "d"}, Vals: []string{"-", "-", "-", "-"}, Edits: []string{"", "", "nm-c;vm-2"}},
		{Kind: "e", Path: "ops", Names: []string{"a", "b", "c"}, Vals: []string{"7", "-", "-"}, Edits: []string{"nm+z:2147483647;vm+2147483647:z", "vm-8;nm-b"}},
		{Kind: "b", Path: "ops", Names: []string{"a", "b", "a", "c"}, Vals: []string{"4294967294", "-", "3", "-"}, Edits: []string{"", "nm-a;vm-4294967295"}},
		{Kind: "b", Path: "ops", Names: []string{"a", "b", "c"}, Vals: []string{"3", "3", "-"}, Edits: []string{"nm+c:9", "vm+3:a;vm+4:q"}},
	}
	// the sequences of seeded/C14-l21: a member named "" holds a value (explicitly / automatically) that a
	// later member asks for
	corpus = append(corpus,
		tcase{Kind: "e", Path: "ops", Names: []string{"", "b"}, Vals: []string{"3", "3"}},
		tcase{Kind: "e", Path: "ops", Names: []string{"one", "", "two", "three"}, Vals: []string{"1", "-", "2", "-"}},
		tcase{Kind: "e", Path: "text", Names: []string{"one", "", "two", "three"}, Vals: []string{lib.HexS("1"), "nil", lib.HexS("2"), "nil"}},
		tcase{Kind: "b", Path: "text", Names: []string{"one", "", "two", "three"}, Vals: []string{lib.HexS("1"), "nil", lib.HexS("2"), "nil"}})
	for _, c := range corpus {
		bases = append(bases, base{c: c})
	}
	for _, kind := range []string{"e", "b"} {
		for _, path := range []string{"ops", "text"} {
			ch := choices(path)
			lim := maxLen
			if path == "text" {
				lim = 3 // longer ones are sampled below
			}
			var rec func(names, vals []string)
			rec = func(names, vals []string) {
				if len(names) > 0 {
					c := tcase{Kind: kind, Path: path, Names: append([]string{}, names...), Vals: append([]string{}, vals...)}
					bases = append(bases, base{c: c, typedefToo: len(names) <= 2})
					enumerated++
				}
				if len(names) == lim {
					return
				}
				for _, c := range ch {
					rec(append(names, c.name), append(vals, c.val))
				}
			}
			rec(nil, nil)
		}
	}
	// member substatements that must not influence the numbering (status, description, reference, if-feature,
	// extension), on explicit and implicit members in every position: lists of length 1 and 2 exhaustively over
	// member position x substatement (quick: a seeded third of the twelve substatement variants for length 2),
	// lists of length 3 as a seeded sample, once with one decorated member and once with every member decorated
	rd := f.Rand(1)
	decorated := int64(0)
	for bi, nPlain := 0, len(bases); bi < nPlain; bi++ {
		b := bases[bi]
		if b.c.Path != "text" {
			continue
		}
		n := len(b.c.Names)
		deco := func(subs []string) {
			for p, code := range subs {
				if strings.HasSuffix(code, "<") && b.c.Vals[p] == "nil" {
					subs[p] = code[:len(code)-1] // nothing to stand before
				}
			}
			c := b.c
			c.Subs = subs
			bases = append(bases, base{c: c, decorated: true})
			decorated++
		}
		if n <= 2 {
			for p := 0; p < n; p++ {
				third := -1
				if n == 2 && !f.Thorough() {
					third = rd.Intn(3)
				}
				for k, code := range subCodes {
					if third >= 0 && k%3 != third {
						continue
					}
					subs := make([]string, n)
					subs[p] = code
					deco(subs)
				}
			}
			continue
		}
		every := 10
		if f.Thorough() {
			every = 2
		}
		if rd.Intn(every) != 0 {
			continue
		}
		one := make([]string, n)
		one[rd.Intn(n)] = subCodes[rd.Intn(len(subCodes))]
		deco(one)
		all := make([]string, n)
		for p := range all {
			all[p] = subCodes[rd.Intn(len(subCodes))]
		}
		deco(all)
	}
	// odd spellings on the text path: one or two members, the odd one first or second
	oddCount := int64(0)
	for _, kind := range []string{"e", "b"} {
		for _, o := range oddVals {
			h := lib.HexS(o)
			if o == "" {
				h = "-"
			}
			bases = append(bases, base{c: tcase{Kind: kind, Path: "text", Names: []string{"a"}, Vals: []string{h}}, typedefToo: true})
			for _, other := range []string{"nil", lib.HexS("16"), lib.HexS("7"), lib.HexS("2147483647")} {
				bases = append(bases, base{c: tcase{Kind: kind, Path: "text", Names: []string{"a", "b"}, Vals: []string{h, other}}, typedefToo: true},
					base{c: tcase{Kind: kind, Path: "text", Names: []string{"a", "b"}, Vals: []string{other, h}}, typedefToo: true})
				oddCount += 2
			}
			oddCount++
		}
	}
	// degenerate and look-alike member names (oddNames), both kinds, both paths: every list of one and of two
	// members over oddNames x oddNameVals; lists of three: every ordered pair of oddNames in every pair of
	// positions (first/middle, first/last, middle/last) beside the ordinary name c, under every value pattern of
	// oddTriples; seeded random lists of length 3..8 over oddNames alone
	oddNameCount := int64(0)
	nOddRand := 3000
	if f.Thorough() {
		nOddRand = 60000
	}
	ro := f.Rand(2)
	for _, kind := range []string{"e", "b"} {
		for _, path := range []string{"ops", "text"} {
			add := func(odd int, random bool, names []string, vals []string) {
				c := tcase{Kind: kind, Path: path, Names: append([]string{}, names...)}
				for _, v := range vals {
					c.Vals = append(c.Vals, oddVal(path, v))
				}
				bases = append(bases, base{c: c, odd: odd, random: random})
				oddNameCount++
			}
			for _, n1 := range oddNames {
				for _, v1 := range oddNameVals {
					add(2, false, []string{n1}, []string{v1})
					for _, n2 := range oddNames {
						for _, v2 := range oddNameVals {
							add(2, false, []string{n1, n2}, []string{v1, v2})
						}
					}
				}
			}
			for _, n1 := range oddNames {
				for _, n2 := range oddNames {
					for _, pat := range oddTriples {
						add(3, false, []string{n1, n2, "c"}, pat[:])
						add(3, false, []string{n1, "c", n2}, pat[:])
						add(3, false, []string{"c", n1, n2}, pat[:])
					}
				}
			}
			for i := 0; i < nOddRand; i++ {
				n := 3 + ro.Intn(6)
				var names, vals []string
				for j := 0; j < n; j++ {
					names = append(names, oddNames[ro.Intn(len(oddNames))])
					switch ro.Intn(3) {
					case 0:
						vals = append(vals, "-")
					case 1:
						vals = append(vals, oddNameVals[ro.Intn(len(oddNameVals))])
					default:
						vals = append(vals, strconv.Itoa(ro.Intn(n+1))) // small values: collisions with automatic ones
					}
				}
				add(0, true, names, vals)
			}
		}
	}
	// seeded random longer sequences (length 4..10), both paths
	nRand := 20000
	if f.Thorough() {
		nRand = 400000
	}
	r := f.Rand(0)
	moreNames := []string{"a", "b", "c", "d", "e", "a"}
	for i := 0; i < nRand; i++ {
		kind := []string{"e", "b"}[r.Intn(2)]
		path := []string{"ops", "text"}[r.Intn(2)]
		n := 4 + r.Intn(7)
		c := tcase{Kind: kind, Path: path}
		for j := 0; j < n; j++ {
			c.Names = append(c.Names, moreNames[r.Intn(len(moreNames))])
			var v string
			switch r.Intn(4) {
			case 0, 1:
				if path == "ops" {
					v = "-"
				} else {
					v = "nil"
				}
			case 2:
				if path == "ops" {
					v = opsVals[1+r.Intn(len(opsVals)-1)]
				} else {
					v = lib.HexS(textVals[1+r.Intn(len(textVals)-1)])
				}
			default:
				base := []int64{0, 5, -3, 2147483640, -2147483648, 4294967290}[r.Intn(6)]
				s := strconv.FormatInt(base+int64(r.Intn(8)), 10)
				if path == "ops" {
					v = s
				} else {
					v = lib.HexS(s)
				}
			}
			c.Vals = append(c.Vals, v)
		}
		if path == "text" {
			c.Subs = make([]string, len(c.Names))
			for p := range c.Subs {
				if r.Intn(4) == 0 {
					c.Subs[p] = subCodes[r.Intn(len(subCodes))]
					if c.Vals[p] == "nil" {
						c.Subs[p] = strings.TrimSuffix(c.Subs[p], "<")
					}
				}
			}
		}
		bases = append(bases, base{c: c, random: true})
	}

	// the model and the specification on every bare statement list
	baseReqs := make([]string, len(bases))
	baseSpecReqs := make([]string, len(bases))
	for i, b := range bases {
		baseReqs[i] = b.c.req()
		baseSpecReqs[i] = b.c.specReq()
	}
	baseAns, err := lib.ParBatch(f.Driver, baseReqs, f.Procs)
	if err != nil {
		lib.Fatal("driver: %v", err)
	}
	baseSpec, err := lib.ParBatch(f.Driver, baseSpecReqs, f.Procs)
	if err != nil {
		lib.Fatal("driver: %v", err)
	}
	// placements and histories
	var cases []tcase
	var ans, specAns []string
	allForms := append(append([]string{"", "typedef"}, newForms...), nearForms...)
	rx := f.Rand(5)
	unusedRot, unusedCount := 0, int64(0)
	for i, b := range bases {
		var xs []tcase
		switch {
		case b.c.Path == "ops":
			xs = []tcase{b.c}
		case b.random:
			x := b.c
			x.Form = allForms[r.Intn(len(allForms))]
			x.Hist = "a"
			if x.Form == "" || x.Form == "typedef" {
				x.Hist = []string{"a", "b", "c", "d"}[r.Intn(4)]
			}
			if strings.HasPrefix(x.Form, "u") {
				x.Twin = twinOf(b.c, baseAns[i])
			}
			if isNear(x.Form) {
				near, ok := nearOf(x.Kind, x.Form, twinOf(b.c, baseAns[i]))
				if ok {
					x.Twin = near
				} else {
					x.Form = "u2"
					x.Twin = twinOf(b.c, baseAns[i])
				}
			}
			xs = []tcase{x}
		case b.odd == 2:
			orot := -1
			if !f.Thorough() {
				orot = r.Intn(4)
			}
			hs := []string{"a", "b"}
			if f.Thorough() {
				hs = []string{"a", "b", "c", "d"}
			}
			xs = expand(b.c, orot < 0 || orot == 0, twinOf(b.c, baseAns[i]), orot, 4, hs)
		case b.odd == 3:
			if f.Thorough() {
				xs = expand(b.c, false, twinOf(b.c, baseAns[i]), -1, 1, []string{"a", "b"})
			} else {
				xs = expand(b.c, false, twinOf(b.c, baseAns[i]), r.Intn(16), 16, []string{"a"})
			}
		default:
			// quick tier: the lists of length 3 take every third placement (seeded choice of the third),
			// shorter ones and the thorough tier take all
			rot := -1
			if !f.Thorough() && len(b.c.Names) >= 3 {
				rot = r.Intn(3)
			}
			if b.decorated {
				// a member carries a further substatement: leaf (histories a, b) and, in the quick tier, a
				// seeded quarter of the other placements
				drot := -1
				if !f.Thorough() {
					drot = r.Intn(4)
				}
				xs = expand(b.c, drot < 0 || drot == 0, twinOf(b.c, baseAns[i]), drot, 4, []string{"a", "b"})
			} else {
				xs = expand(b.c, b.typedefToo, twinOf(b.c, baseAns[i]), rot, 3, []string{"a", "b", "c", "d"})
			}
		}
		// unused.go: the list in a typedef that nothing refers to.  Lists of one and two members (and, in the
		// thorough tier, all enumerated ones): every such placement; lists of three, decorated, odd-named and
		// random ones: one placement, taken in rotation, for a seeded half of them (thorough: all of them)
		if b.c.Path == "text" {
			switch {
			case !b.random && !b.decorated && b.odd == 0 && (len(b.c.Names) <= 2 || f.Thorough()):
				xs = append(xs, unusedPlacements(b.c, -1)...)
			case f.Thorough() || rx.Intn(2) == 0:
				xs = append(xs, unusedPlacements(b.c, unusedRot)...)
				unusedRot++
			}
		}
		for _, x := range xs {
			if isUnused(x.Form) {
				unusedCount++
			}
			cases = append(cases, x)
			ans = append(ans, project(x, baseAns[i]))
			specAns = append(specAns, baseSpec[i])
		}
	}

	// post path (post.go): written members, a placement, Process, then calls on the resolved table
	postBare, postCounts := postCandidates(f)
	postReqs := make([]string, len(postBare))
	postSpecReqs := make([]string, len(postBare))
	for i, c := range postBare {
		postReqs[i] = c.req()
		postSpecReqs[i] = c.specReq()
	}
	postAns, err := lib.ParBatch(f.Driver, postReqs, f.Procs)
	if err != nil {
		lib.Fatal("driver: %v", err)
	}
	postSpec, err := lib.ParBatch(f.Driver, postSpecReqs, f.Procs)
	if err != nil {
		lib.Fatal("driver: %v", err)
	}
	rp := f.Rand(4)
	postKept := int64(0)
	for i, c := range postBare {
		if strings.HasPrefix(postAns[i], writtenBad) {
			continue // the written list has errors: no resolved table (the text path covers these)
		}
		postKept++
		var forms []string
		switch {
		case i >= postCounts.enumerated: // random ones: one placement (thorough: three)
			forms = []string{postForms[rp.Intn(len(postForms))]}
			if f.Thorough() {
				forms = append(forms, postForms[rp.Intn(len(postForms))], postForms[rp.Intn(len(postForms))])
			}
		case len(c.Names) <= 2 || f.Thorough():
			forms = postForms
		default: // quick tier, three written members: two seeded placements, one of them typedef-based
			forms = []string{postForms[rp.Intn(len(postForms))], postTypedefForms[rp.Intn(len(postTypedefForms))]}
		}
		for _, fm := range forms {
			x := c
			x.Form, x.Hist = fm, "a"
			cases = append(cases, x)
			ans = append(ans, postAns[i])
			specAns = append(specAns, postSpec[i])
		}
	}

	// run Go (text path in parallel: independent Modules values)
	goOut := make([]string, len(cases))
	var wg sync.WaitGroup
	nw := f.Procs
	for w := 0; w < nw; w++ {
		wg.Add(1)
		go func(w int) {
			defer wg.Done()
			for i := w; i < len(cases); i += nw {
				goOut[i] = runGo(cases[i])
			}
		}(w)
	}
	wg.Wait()
	distinct := lib.NewDistinct()
	nontrivial := int64(0)
	byKey := map[string]int64{}
	byHist := map[string]int64{}
	byPost := map[string]int64{}
	for _, c := range cases {
		if distinct.Add(c.key()) && len(c.Names)+len(c.PostN) >= 2 {
			nontrivial++
		}
		byKey[c.Kind+"/"+c.Path]++
		if c.Path == "text" || c.Path == "post" {
			fm := c.Form
			if fm == "" {
				fm = "leaf"
			}
			if c.Path == "post" {
				byPost[fm]++
			} else {
				byHist[c.Hist+"/"+fm]++
			}
		}
	}
	perPlace := map[string]int{}
	nViol, nHold := 0, 0 // separate caps: violating disagreements are never crowded out by harmless ones
	accepted, rejected, na := int64(0), int64(0), int64(0)
	// examined first: the lists the RFC rejects in a typedef nothing refers to (so that, when such placements
	// fail, the recorded findings show the unreported invalid lists before the accepted ones left unresolved)
	order := make([]int, 0, len(cases))
	for i, c := range cases {
		if isUnused(c.Form) && specAns[i] == "none" {
			order = append(order, i)
		}
	}
	for i, c := range cases {
		if !(isUnused(c.Form) && specAns[i] == "none") {
			order = append(order, i)
		}
	}
	for _, i := range order {
		c := cases[i]
		lastSpec := specAns[i]
		if k := strings.LastIndex(lastSpec, stepSep); k >= 0 {
			lastSpec = lastSpec[k+len(stepSep):]
		}
		switch {
		case lastSpec == "na":
			na++
		case lastSpec == "none":
			rejected++
		default:
			accepted++
		}
		ok, what := judge(c, goOut[i], specAns[i])
		if ans[i] == goOut[i] && ok {
			if i%(len(cases)/6+1) == 0 {
				res.AddSample(map[string]any{"case": c, "go": goOut[i], "model": ans[i], "spec": specAns[i]})
			}
			continue
		}
		kind, v := "correspondence", "holds"
		if ans[i] == goOut[i] {
			kind = "spec"
		}
		if !ok {
			v = "violates"
		}
		if strings.HasPrefix(goOut[i], "panic") {
			kind = "crash"
		}
		if v == "violates" || kind == "crash" {
			// at most 8 per path and placement, so that the recorded ones show every place the fault reaches
			place, most := c.Path+"/"+c.Form, 8
			if isUnused(c.Form) {
				// lists the RFC rejects and lists it accepts are recorded side by side, for every placement
				place, most = place+"/"+strings.SplitN(lastSpec, " ", 2)[0], 2
			}
			if perPlace[place]++; nViol >= 50 || perPlace[place] > most {
				res.Count("violating_disagreements_not_recorded", 1)
				continue
			}
			nViol++
		} else {
			if nHold >= 50 {
				res.Count("harmless_disagreements_not_recorded", 1)
				continue
			}
			nHold++
		}
		res.AddDisagreement(lib.Disagreement{Kind: kind, Input: c, Go: goOut[i], Model: ans[i], SpecVerdict: v,
			What: fmt.Sprintf("%s %s: %s; spec says %s", map[string]string{"e": "enumeration", "b": "bits"}[c.Kind], map[string]string{"ops": "ops", "text": "text", "post": "calls after resolution"}[c.Path], what, specAns[i]), Replay: c})
	}
	res.Evaluations = int64(len(cases))
	res.DistinctNontrivial = nontrivial
	res.Exhaustive = true
	res.Rule = fmt.Sprintf("complete enumeration of member sequences of length 1..%d (direct Set/SetNext) and 1..3 (YANG text) over 15 boundary values x names {a, b, c} "+
		"(45 choices per member, so duplicate names and three distinct names both occur), for enumeration and for bits; plus %d cases with odd argument spellings on the text path and %d seeded random sequences of length 4..10 over 6 names. "+
		"Degenerate and look-alike member names (the empty name, one blank, NUL, a/A, a trailing blank, a trailing NUL, one character in both Unicode normalisation forms, two 300-byte names differing in the last byte, names that are the decimal text of other members' values: 0, 1, -1, 7, 2147483647, 00; written as quoted strings on the text path), for both kinds on both paths: "+
		"every list of one and two members over these 18 names x {automatic, 0, 1, 7, -1, 2147483647}; lists of three with every ordered pair of them in every pair of positions beside the ordinary name c under 12 value patterns (a later member asks for the value an earlier one holds explicitly or automatically, running maximum, end of range); "+fmt.Sprintf("%d", 4*nOddRand)+" seeded random lists of length 3..8 over them; "+
		"text lists of one and two in a leaf under the histories a, b (thorough: all four) and a seeded quarter (thorough: all) of the placements, lists of three in a leaf and one seeded placement (thorough: all), random ones in one placement. "+
		"Every text case goes through four histories of one Modules value - (a) Parse, Process; (b) Parse, Process, Process; (c) Parse, ToEntry(module), Process; (d) Parse, Process, Parse of an unrelated module, Process - "+
		"and the result is taken after EVERY run (and after the early read in c); sequences up to length 2 and the odd spellings also with the type in a typedef (histories b, d). "+
		"Every enumerated and odd statement list is also placed (history a; in the quick tier the lists of length 3 take a seeded third of these sixteen placements, in the thorough tier all) in a leaf-list, in a typedef used through a chain of three, in a grouping used twice (both copies read), as member 1 / 2 / 3 of a union beside "+
		"its twin (exactly the members the model's fold leaves), an unrelated enumeration and string, as the inline type of deviate replace / deviate add on a leaf of another module, "+
		"inside a type statement that names an enumeration/bits typedef with other members (in a leaf, a derived typedef, a union, a leaf-list: goyang folds the written list from an empty table there), "+
		"and as member 2 of a union behind a near twin (the surviving table with the zero-valued member renamed / the maximum-valued member renamed / one value changed / one more member), where every member of the union is read back and both tables must be intact; the random ones get one random placement. "+
		"A typedef that NOTHING refers to: every text list of one and two members in every one of "+fmt.Sprintf("%d", len(unusedForms))+" placements (the first four also under the histories b / d), a seeded half of the lists of three, the decorated, odd-named and random ones in one of them in rotation (thorough: all enumerated lists everywhere, the others in one) - "+
		"typedef t holding the generated type, no leaf / typedef / union / deviation naming t: at module level, in a container, a list, an rpc, the input / output of an rpc, a notification, directly in a grouping used once / twice / never, in a container / list inside a used grouping, in a container inside an unused grouping, "+
		"in a grouping nested in a used grouping (inner one unused / used inside the outer), in an unused grouping whose own leaf is the only user, in a submodule (top level, container, grouping used by the including module, grouping never used). "+
		"Process must report exactly the model's errors (member + class), so every list the RFC rejects is reported wherever it is written and no accepted one is; for an accepted list Typedef.YangType and the typedef's type statement, reached in the statement tree, hold the RFC table (views edited and re-read as everywhere). "+
		"Members of text lists also carry substatements that must not influence the numbering - status current/deprecated/obsolete, description, reference, if-feature (defined and undefined feature), an extension statement, before or after the value - "+
		"on explicit and implicit members in every position: lists of length 1 and 2 over member position x substatement, a seeded sample of the lists of length 3 (one member / every member decorated), a quarter of the members of the random lists; in a leaf (histories a, b) and a seeded quarter (thorough: all) of the placements; the model never sees them. "+
		"On the direct path every view (Names, Values, NameMap, ValueMap, the maps ToInt and ToString, point lookups) is read back after EVERY Set/SetNext call and compared with the model's table after that prefix; the views must equal the maps and, for enumerations, be mutually inverse at every step, and the table after every call is judged against the RFC assignment of the calls made so far. "+
		"Every value an accessor hands out is treated as the caller's own; covered accessors (every method of EnumType that returns a map or a slice): NameMap(), ValueMap(), Names(), Values() - the exported fields ToInt / ToString are the table itself, not views, and are only read. "+
		"After EVERY reading (after every call on the direct path; after every run and for every use on the text path) the runner edits each object it was handed - maps: delete a key / insert a fresh key / overwrite a value / clear / rename (delete + insert); slices: reverse / overwrite an element / append and overwrite / overwrite the whole backing array up to its capacity / truncate and append; "+
		"one of 625 combinations, derived from the case and the step - edits once more, after the next call, the objects handed out before it, reads again and continues the call sequence: every reading and every later call must be what the model says for the Set/SetNext sequence WITHOUT the edits (specification: views_inverse, fold_eq_rfc, which speak about the calls alone). "+
		"On the text path the same is done with the tables reached through Entry.Type.Enum / .Bit after Process: of a leaf, a leaf-list, a typedef use, a chain of typedefs, both uses of a grouping (the views of the first use are edited before the second use is read), every kept member of a union (the near twin's views are edited before the generated member is read), a deviated leaf; "+
		"then every use is read again, the tables reached through the statement tree (the type statement of the leaf, each typedef and its type statement, the leaf inside the grouping) must hold the Entry's table, and in the histories b, c, d the next Process / read follows the edits. "+
		fmt.Sprintf("%d corpus sequences (among them the call sequence of seeded/C14-k22 with the caller's edits named explicitly, and the lists of seeded/C14-l21 with a member named by the empty string). ", len(corpus))+
		"Calls AFTER resolution (path post): the written member lists of length 1..3 over {no value, 0, 1, -1, -5, 7, int32 max-1, int32 max, int32 min} (bits: {no position, 0, 1, 3, 7, int32 max, uint32 max-1, uint32 max}) x distinct names, for both kinds, that the model resolves without an error, "+
		"each under 18 call sequences of length 1..3 (SetNext of a new name, of a written name, twice the same name; Set with 0, 1, 8, a value below every written one, the maximum, beyond the maximum; SetNext after each of these), plus seeded random written lists (1..6 members) x random call sequences (1..6 calls); "+
		"the text is placed (lists up to two members: every placement; three members: two seeded placements in the quick tier, all in the thorough tier; random ones: one) in a leaf, a leaf-list, a typedef (1 level), a typedef chain of 2 and of 3 levels, a grouping used twice, a union member (first / second / third), the inline type of deviate replace / add, the four restriction placements, "+
		"and through a typedef in a leaf-list, as a union member (directly, through a chain of 2 behind string, inside a union typedef), under two leaves, inside a grouping used twice, as the type of a deviate replace, and imported from another module. After Process the table reached through Entry.Type.Enum / .Bit is read, the calls are made on it through Set / SetNext with every view read back (and the handed-out views edited) after EVERY call, "+
		"and the blocks are compared with the model's fold continued from the state the written members left (driver enum.after) and judged against the RFC assignment of the written members followed by the calls so far (spec.after). Every other table reachable in the processed modules (Entry trees; typedefs, type statements of leaves, leaf-lists, typedefs, union members, deviates of both modules and inside groupings) is either the same object or an independent table: "+
		"it must not notice the calls, and when it held the written members too the same calls are made on it and must give the same blocks. "+
		"Every Go answer (errors as member index + class, Names, Values, NameMap, ValueMap, point lookups) of every run is compared with the compiled model and judged against the RFC 7950 assignment. "+
		"distinct_nontrivial = distinct cases with at least two members (the assignment rule is about earlier members)", maxLen, oddCount, nRand)
	res.Distribution["enumerated_sequences"] = enumerated
	res.Distribution["lists_over_degenerate_and_lookalike_names"] = oddNameCount
	var oddShown []string
	for _, n := range oddNames {
		if len(n) > 20 {
			oddShown = append(oddShown, fmt.Sprintf("%q...(%d bytes)", n[len(n)-3:], len(n)))
		} else {
			oddShown = append(oddShown, strconv.Quote(n))
		}
	}
	res.Distribution["degenerate_and_lookalike_names"] = oddShown
	res.Distribution["accessors_whose_results_are_edited"] = coveredAccessors
	if u := uncoveredAccessors(); len(u) > 0 {
		res.Distribution["accessors_returning_map_slice_pointer_not_covered"] = u
		res.Notes = append(res.Notes, "EnumType has accessors returning a map, slice or pointer whose results are not edited by the runner: "+strings.Join(u, ", "))
	}
	res.Distribution["lists_with_member_substatements"] = decorated
	res.Distribution["cases_in_a_typedef_nothing_refers_to"] = unusedCount
	res.Distribution["cases_by_kind_and_path"] = byKey
	res.Distribution["text_cases_by_history_and_form"] = byHist
	res.Distribution["calls_after_resolution_cases_by_placement"] = byPost
	res.Distribution["calls_after_resolution_written_lists_x_call_sequences"] = map[string]int64{"candidates": int64(len(postBare)), "enumerated": int64(postCounts.enumerated), "random": int64(postCounts.random), "with_error_free_written_list": postKept}
	res.Distribution["spec_accepts"] = accepted
	res.Distribution["spec_rejects"] = rejected
	res.Distribution["spec_not_applicable"] = na
	res.Write(f.Out)
}

func replay(f *lib.Flags) {
	raw, err := os.ReadFile(f.Replay)
	if err != nil {
		lib.Fatal("%v", err)
	}
	var p struct {
		Disagreement struct {
			Replay tcase `json:"replay"`
		} `json:"disagreement"`
	}
	if err := json.Unmarshal(raw, &p); err != nil {
		lib.Fatal("%v", err)
	}
	c := p.Disagreement.Replay
	d, err := lib.StartDriver(f.Driver)
	if err != nil {
		lib.Fatal("%v", err)
	}
	defer d.Close()
	g := runGo(c)
	m, _ := d.Ask(c.req())
	m = project(c, m)
	s, _ := d.Ask(c.specReq())
	ok, what := judge(c, g, s)
	v := "holds"
	if !ok {
		v = "violates"
	}
	if c.Path == "text" || c.Path == "post" {
		fmt.Printf("yang:\n%s", yangText(c))
	}
	if c.Path == "post" {
		fmt.Printf("calls made on the resolved table after Process (- = SetNext): names %q values %q\n", c.PostN, c.PostV)
	}
	if len(c.Edits) > 0 {
		fmt.Printf("edits of the handed-out views after call i: %q\n", c.Edits)
	}
	fmt.Printf("input: %s  history=%q form=%q\ngo:    %s\nmodel: %s\nspec:  %s -> %s (%s)\n", c.req(), c.Hist, c.Form, g, m, s, v, what)
	if g != m || !ok {
		os.Exit(1)
	}
}
