// owned.go: every value an accessor of EnumType hands out is the caller's own.
//
// Covered accessors (the methods of *yang.EnumType that return a map or a slice): NameMap(), ValueMap(),
// Names(), Values().  The exported FIELDS ToInt and ToString are the table itself, not views: they are
// read, never written here.  After a reading the runner edits every object it was handed (maps: delete a
// key, insert a fresh key, overwrite a value, clear, rename; slices: reverse, overwrite an element, append
// and overwrite, overwrite the whole backing array up to its capacity) and goes on: the table has to
// behave exactly as the model says for the Set/SetNext sequence WITHOUT the edits (Goyang.Props.C14
// views_inverse, fold_eq_rfc speak about the calls alone).
package main

import (
	"fmt"
	"hash/fnv"
	"reflect"
	"sort"
	"strconv"
	"strings"

	"github.com/openconfig/goyang/pkg/yang"
)

// handed: the objects the accessors of one table handed out at one reading.
type handed struct {
	names  []string
	values []int64
	nm     map[string]int64
	vm     map[int64]string
}

const aliasedMark = "accessor-aliased"

// coveredAccessors are the accessors whose results are edited; uncoveredAccessors lists every further
// method of *yang.EnumType without arguments that returns a map, a slice or a pointer (none today).
var coveredAccessors = []string{"NameMap", "Names", "ValueMap", "Values"}

func uncoveredAccessors() []string {
	var out []string
	t := reflect.TypeOf(&yang.EnumType{})
	for i := 0; i < t.NumMethod(); i++ {
		m := t.Method(i)
		if m.Type.NumIn() != 1 || m.Type.NumOut() == 0 {
			continue
		}
		covered := false
		for _, c := range coveredAccessors {
			covered = covered || c == m.Name
		}
		if covered {
			continue
		}
		for o := 0; o < m.Type.NumOut(); o++ {
			switch m.Type.Out(o).Kind() {
			case reflect.Map, reflect.Slice, reflect.Ptr:
				out = append(out, m.Name)
			}
		}
	}
	sort.Strings(out)
	return out
}

func modeOf(key string, salt int) int {
	h := fnv.New32a()
	h.Write([]byte(key))
	return int((h.Sum32()>>3)%625)*7 + salt*131
}

const freshName = "~fresh"

// scribble edits every handed object, as its owner may.  mode selects one of five edits per object.
func (h *handed) scribble(mode int) {
	if h == nil {
		return
	}
	if mode < 0 {
		mode = -mode
	}
	// NameMap
	{
		m := h.nm
		ks := make([]string, 0, len(m))
		var hi int64 = -1
		for k, v := range m {
			ks = append(ks, k)
			if v > hi {
				hi = v
			}
		}
		sort.Strings(ks)
		switch op := mode % 5; {
		case m == nil:
		case len(ks) == 0 || op == 1:
			m[freshName] = hi + 1
		case op == 0:
			delete(m, ks[0])
		case op == 2:
			m[ks[0]] = hi + 1
		case op == 3:
			for _, k := range ks {
				delete(m, k)
			}
		default:
			v := m[ks[len(ks)-1]]
			delete(m, ks[len(ks)-1])
			m[freshName] = v
		}
	}
	// ValueMap
	{
		m := h.vm
		ks := make([]int64, 0, len(m))
		for k := range m {
			ks = append(ks, k)
		}
		sort.Slice(ks, func(i, j int) bool { return ks[i] < ks[j] })
		switch op := (mode / 5) % 5; {
		case m == nil:
		case len(ks) == 0:
			m[0] = freshName
		case op == 1:
			m[ks[len(ks)-1]+1] = freshName
		case op == 0:
			delete(m, ks[0])
		case op == 2:
			m[ks[0]] = freshName
		case op == 3:
			for _, k := range ks {
				delete(m, k)
			}
		default:
			k := ks[len(ks)-1]
			n := m[k]
			delete(m, k)
			m[k+1] = n
		}
	}
	// Names
	{
		s := h.names
		switch op := (mode / 25) % 5; {
		case op == 0:
			for i, j := 0, len(s)-1; i < j; i, j = i+1, j-1 {
				s[i], s[j] = s[j], s[i]
			}
		case op == 1 && len(s) > 0:
			s[0] = freshName
		case op == 2:
			s = append(s, freshName)
			s[0] = freshName + "2"
		case op == 3:
			s = s[:cap(s)]
			for i := range s {
				s[i] = freshName
			}
		default:
			if len(s) > 0 {
				s[len(s)-1] = s[0]
			}
			s = append(s[:0], freshName)
		}
		h.names = s
	}
	// Values
	{
		s := h.values
		switch op := (mode / 125) % 5; {
		case op == 0:
			for i, j := 0, len(s)-1; i < j; i, j = i+1, j-1 {
				s[i], s[j] = s[j], s[i]
			}
		case op == 1 && len(s) > 0:
			s[0] = s[len(s)-1] + 1
		case op == 2:
			s = append(s, 77)
			s[0] = -77
		case op == 3:
			s = s[:cap(s)]
			for i := range s {
				s[i] = 77
			}
		default:
			if len(s) > 0 {
				s[len(s)-1] = s[0]
			}
			s = append(s[:0], 77)
		}
		h.values = s
	}
}

// edit applies explicit caller edits (corpus cases): tokens separated by ';'
//
//	nm-<name>  nm+<name>:<int>  vm-<int>  vm+<int>:<name>
func (h *handed) edit(spec string) {
	for _, tok := range strings.Split(spec, ";") {
		if len(tok) < 4 {
			continue
		}
		arg := tok[3:]
		switch tok[:3] {
		case "nm-":
			delete(h.nm, arg)
		case "nm+":
			kv := strings.SplitN(arg, ":", 2)
			if len(kv) == 2 && h.nm != nil {
				v, _ := strconv.ParseInt(kv[1], 10, 64)
				h.nm[kv[0]] = v
			}
		case "vm-":
			v, _ := strconv.ParseInt(arg, 10, 64)
			delete(h.vm, v)
		case "vm+":
			kv := strings.SplitN(arg, ":", 2)
			if len(kv) == 2 && h.vm != nil {
				v, _ := strconv.ParseInt(kv[0], 10, 64)
				h.vm[v] = kv[1]
			}
		}
	}
}

func mapPtr(m any) uintptr {
	v := reflect.ValueOf(m)
	if v.Kind() != reflect.Map || v.IsNil() {
		return 0
	}
	return v.Pointer()
}

// aliasWhy says which handed object is not the caller's own (pointer identity, used for the wording only:
// the finding itself is the changed table).
func aliasWhy(e *yang.EnumType, h *handed) string {
	var why []string
	if p := mapPtr(h.nm); p != 0 && (p == mapPtr(e.ToInt) || p == mapPtr(e.NameMap())) {
		why = append(why, "NameMap() hands out the table / the same map again, not a copy of the caller's own")
	}
	if p := mapPtr(h.vm); p != 0 && (p == mapPtr(e.ToString) || p == mapPtr(e.ValueMap())) {
		why = append(why, "ValueMap() hands out the table / the same map again, not a copy of the caller's own")
	}
	if again := e.Names(); cap(h.names) > 0 && cap(again) > 0 && &h.names[:1][0] == &again[:1][0] {
		why = append(why, "Names() hands out the same slice again, not a copy of the caller's own")
	}
	if again := e.Values(); cap(h.values) > 0 && cap(again) > 0 && &h.values[:1][0] == &again[:1][0] {
		why = append(why, "Values() hands out the same slice again, not a copy of the caller's own")
	}
	if len(why) == 0 {
		return "an object handed out by NameMap/ValueMap/Names/Values is shared with the table"
	}
	return strings.Join(why, "; ")
}

// ownedRead reads the table, edits every object the reading was handed (and the objects `held` from an
// earlier reading), reads again: the answer is the first reading, or an aliasedMark report when the two
// readings differ.  It returns the objects of the second reading, unedited, for the caller to hold on to.
func ownedRead(kind string, e *yang.EnumType, held *handed, mode int, edits string) (string, *handed) {
	t1, h := tableH(kind, e)
	if edits != "" {
		h.edit(edits)
	} else {
		h.scribble(mode)
	}
	held.scribble(mode + 1)
	t2, h2 := tableH(kind, e)
	if t1 != t2 {
		return fmt.Sprintf("%s(%s; edit mode %d %s): read %s ## after the caller edited what it was handed, read %s", aliasedMark, aliasWhy(e, h), mode, edits,
			strings.ReplaceAll(t1, " ", "_"), strings.ReplaceAll(t2, " ", "_")), h2
	}
	return t1, h2
}
