// post.go: the tables a user reaches AFTER resolution are tables like any other.
//
// Path "post": a member list is written as YANG text in some placement, the modules are processed, and the
// table the user reaches through Entry.Type.Enum / .Bit (of a leaf, a leaf-list, through a typedef chain of
// 1 / 2 / 3 levels, an imported typedef, a union member, both uses of a grouping, two leaves on one typedef,
// a deviated leaf, a restriction) is then operated on through the exported API (Set / SetNext), the table read
// back after EVERY call (with the caller's edits of the handed-out views, owned.go).  The model: the fold goes
// on from the state the written members left - the members, last = the highest value so far
// (driver op enum.after); the specification: the RFC 7950 assignment of the written members followed by the
// calls made so far (spec.after).
//
// Every table that can be reached in the processed modules by another route (the statement tree: typedefs,
// type statements of leaves / leaf-lists / typedefs / union members / deviates, of both modules, inside
// groupings; the Entry tree) is looked at too.  Two routes either lead to ONE object (then it is one table) or
// to two objects, and then the two are independent tables: an operation on one must not show in the other, and
// each of those that held the written members obeys the same fold when the same calls are made on it.
package main

import (
	"fmt"
	"strconv"
	"strings"

	"github.com/openconfig/goyang/pkg/yang"
	"verif/harness/lib"
)

const (
	viaMark    = "via("
	leakMark   = "operation-shows-in-another-table"
	startMark  = "resolved-tables-differ"
	writtenBad = "err=written("
)

// postForms: the placements of the post path: the placements of the text path that leave a resolved type,
// and the typedef-based ones (t*: the generated type stands in a typedef, the table is reached through it).
var postForms = []string{"", "leaflist", "typedef", "chain2", "chain", "grouping", "u1", "u2", "u3", "dr", "da", "r1", "r2", "r3", "r4",
	"tdll", "tdu", "tdu2", "tdtu", "tdtwo", "tdgrp", "tddr", "tdimp"}

func (c tcase) afterArgs() string {
	var sb strings.Builder
	sb.WriteString(" " + c.Kind + " " + strconv.Itoa(len(c.Names)))
	for i := range c.Names {
		sb.WriteString(" " + lib.HexS(c.Names[i]) + " " + c.Vals[i])
	}
	for i := range c.PostN {
		sb.WriteString(" " + lib.HexS(c.PostN[i]) + " " + c.PostV[i])
	}
	return sb.String()
}

// reach lists every table of the case's kind that can be reached in the processed modules: the uses first
// (tables(c, ms): what the case is about), then the Entry trees, then the statement trees of m and o.
func reach(c tcase, ms *yang.Modules) []origin {
	var out []origin
	pick := func(t *yang.YangType) *yang.EnumType {
		if t == nil {
			return nil
		}
		if c.Kind == "b" {
			return t.Bit
		}
		return t.Enum
	}
	add := func(what string, e *yang.EnumType) {
		if e != nil {
			out = append(out, origin{what, e})
		}
	}
	for k, e := range tables(c, ms) {
		if k == 0 && e == nil {
			return nil
		}
		add(fmt.Sprintf("use %d (Entry.Type)", k+1), e)
	}
	var ofYang func(what string, y *yang.YangType, depth int)
	ofYang = func(what string, y *yang.YangType, depth int) {
		if y == nil || depth > 4 {
			return
		}
		add(what, pick(y))
		for i, m := range y.Type {
			ofYang(fmt.Sprintf("%s, union member %d", what, i+1), m, depth+1)
		}
	}
	var ofEntry func(path string, e *yang.Entry, depth int)
	ofEntry = func(path string, e *yang.Entry, depth int) {
		if e == nil || depth > 4 {
			return
		}
		ofYang("Entry "+path+" .Type", e.Type, 0)
		for _, n := range sortedDir(e) {
			ofEntry(path+"/"+n, e.Dir[n], depth+1)
		}
	}
	var ofType func(what string, t *yang.Type, depth int)
	ofType = func(what string, t *yang.Type, depth int) {
		if t == nil || depth > 4 {
			return
		}
		ofYang(what, t.YangType, 0)
		for i, m := range t.Type {
			ofType(fmt.Sprintf("%s, member type statement %d", what, i+1), m, depth+1)
		}
	}
	for _, mn := range []string{"m", "o"} {
		mod := ms.Modules[mn]
		if mod == nil {
			continue
		}
		ofEntry(mn, yang.ToEntry(mod), 0)
		typedefs := func(where string, tds []*yang.Typedef) {
			for _, td := range tds {
				ofYang("typedef "+td.Name+where, td.YangType, 0)
				ofType("the type statement of typedef "+td.Name+where, td.Type, 0)
			}
		}
		leaves := func(where string, ls []*yang.Leaf, lls []*yang.LeafList) {
			for _, l := range ls {
				ofType("the type statement of leaf "+l.Name+where, l.Type, 0)
			}
			for _, l := range lls {
				ofType("the type statement of leaf-list "+l.Name+where, l.Type, 0)
			}
		}
		typedefs(" of module "+mn, mod.Typedef)
		leaves(" of module "+mn, mod.Leaf, mod.LeafList)
		for _, g := range mod.Grouping {
			typedefs(" in grouping "+g.Name, g.Typedef)
			leaves(" in grouping "+g.Name, g.Leaf, g.LeafList)
		}
		for _, dv := range mod.Deviation {
			for _, d := range dv.Deviate {
				ofType("the type statement of deviate "+d.Name+" of "+dv.Name, d.Type, 0)
			}
		}
	}
	return out
}

func sortedDir(e *yang.Entry) []string {
	ns := make([]string, 0, len(e.Dir))
	for n := range e.Dir {
		ns = append(ns, n)
	}
	// insertion sort: the directories here have one to three entries
	for i := 1; i < len(ns); i++ {
		for j := i; j > 0 && ns[j] < ns[j-1]; j-- {
			ns[j], ns[j-1] = ns[j-1], ns[j]
		}
	}
	return ns
}

func flat(s string) string { return strings.ReplaceAll(s, " ", "_") }

// runPost runs a post case on the real code.  Answer: err=- <table as resolved> | err=<class|-> <table after
// call 1> | ... for the first use; when another object that held the same members answers the same calls
// differently: via(<route>): <its blocks>; when an operation on one object shows in another:
// operation-shows-in-another-table(...).
func runPost(c tcase) string {
	files, firstLine := yangFiles(c)
	if files == nil {
		return "bad-case"
	}
	ms := yang.NewModules()
	for _, f := range files {
		if err := ms.Parse(f[1], f[0]); err != nil {
			return "parse-error: " + err.Error()
		}
	}
	if errs := classify(c, firstLine, ms.Process()); len(errs) > 0 {
		return writtenBad + strings.Join(errs, ",") + ")"
	}
	all := reach(c, ms)
	if len(all) == 0 {
		return "no-type"
	}
	// distinct objects, in the order they were reached, each with the routes that lead to it
	var objs []*yang.EnumType
	routes := map[*yang.EnumType][]string{}
	for _, o := range all {
		if _, ok := routes[o.e]; !ok {
			objs = append(objs, o.e)
		}
		routes[o.e] = append(routes[o.e], o.what)
	}
	route := func(e *yang.EnumType) string {
		r := routes[e]
		if len(r) > 3 {
			return strings.Join(r[:3], " = ") + fmt.Sprintf(" = ... (%d routes)", len(r))
		}
		return strings.Join(r, " = ")
	}
	cur := map[*yang.EnumType]string{}
	for _, e := range objs {
		cur[e] = table(c.Kind, e)
	}
	prim := objs[0]
	start := cur[prim]
	// every use the case is about holds the written members
	for k, e := range tables(c, ms) {
		if e != nil && cur[e] != start {
			return fmt.Sprintf("%s: use 1 holds %s ## use %d holds %s", startMark, flat(start), k+1, flat(cur[e]))
		}
	}
	key := c.key()
	ops := func(e *yang.EnumType, salt int) (string, string) {
		steps := []string{"err=- " + cur[e]}
		var held *handed
		for i := range c.PostN {
			var err error
			if c.PostV[i] == "-" {
				err = e.SetNext(c.PostN[i])
			} else {
				v, perr := strconv.ParseInt(c.PostV[i], 10, 64)
				if perr != nil {
					return "bad-case", ""
				}
				err = e.Set(c.PostN[i], v)
			}
			cl := "-"
			if err != nil {
				cl = errClass(err)
			}
			var t string
			t, held = ownedRead(c.Kind, e, held, modeOf(key, salt+i), "")
			steps = append(steps, "err="+cl+" "+t)
		}
		cur[e] = table(c.Kind, e)
		// no other object has noticed
		for _, o := range objs {
			if o == e {
				continue
			}
			if now := table(c.Kind, o); now != cur[o] {
				return strings.Join(steps, stepSep), fmt.Sprintf("%s(the calls were made on the table reached by: %s; a DIFFERENT object, reached by: %s, held %s and now holds %s)",
					leakMark, route(e), route(o), flat(cur[o]), flat(now))
			}
		}
		return strings.Join(steps, stepSep), ""
	}
	first, leak := ops(prim, 0)
	if leak != "" {
		return leak + " ## " + first
	}
	// every other object that held the written members answers the same calls in the same way; an object that
	// does not is listed after the first use: each listed block list is judged
	parts := []string{first}
	n := 0
	for _, e := range objs[1:] {
		if cur[e] != start {
			continue // a bystander: another table (the base of a restriction, another union member)
		}
		if n++; n > 6 {
			break
		}
		got, leak := ops(e, 1000*n)
		if leak != "" {
			return leak + " ## " + got
		}
		if !sameSteps(got, first) && len(parts) < 3 {
			parts = append(parts, viaMark+route(e)+"): "+got)
		}
	}
	return strings.Join(parts, partSep)
}

const partSep = " ## "

func sameSteps(a, b string) bool { return a == b }

// judgePost: the blocks of a post case (block 0 = the table as resolved, block i = after call i) against the
// specification answers of spec.after (the written members followed by the first i calls).
func judgePost(c tcase, g, s string) (bool, string) {
	if i := strings.Index(g, leakMark); i >= 0 {
		return false, "two tables reached by different routes are different objects but not independent tables: a Set/SetNext call on one changed the other (every EnumType is a table of its own calls: fold_eq_rfc, views_inverse): " + g[i:]
	}
	if strings.HasPrefix(g, startMark) {
		return false, "the uses of one type do not hold the same table after resolution: " + g
	}
	if parts := strings.Split(g, partSep); len(parts) > 1 {
		for _, p := range parts {
			if ok, what := judgePost(c, p, s); !ok {
				return false, what
			}
		}
		return true, "tables that held the same written members answer the same calls differently; each satisfies the specification"
	}
	where := "the table reached through the first use (Entry.Type)"
	if strings.HasPrefix(g, viaMark) {
		k := strings.Index(g, "): ")
		if k < 0 {
			return false, "Go did not produce a result: " + g
		}
		where = "the table reached by: " + g[len(viaMark):k]
		g = g[k+3:]
	}
	if strings.HasPrefix(g, writtenBad) || g == "no-type" {
		if s == "na" || strings.HasPrefix(s, "none") {
			return true, "the written list is rejected, as the RFC says"
		}
		return false, "RFC 7950 accepts the written list, Go reports " + g
	}
	if s == "na" {
		return true, "outside the claimed literal form"
	}
	if strings.Contains(g, "inconsistent-views") {
		at := g[strings.Index(g, "inconsistent-views"):]
		if k := strings.Index(at, stepSep); k >= 0 {
			at = at[:k]
		}
		return false, fmt.Sprintf("%s: after call %d of %d made after resolution the views read back are not mutually inverse or disagree with the maps (views_inverse; names in hex, - = the empty name): %s",
			where, strings.Count(g[:strings.Index(g, "inconsistent-views")], stepSep), len(c.PostN), at)
	}
	blocks := strings.Split(g, stepSep)
	specs := strings.Split(s, stepSep)
	if len(specs) != len(blocks) {
		return false, "Go did not produce a result: " + g
	}
	var errs []string
	what := ""
	for i, b := range blocks {
		if !strings.HasPrefix(b, "err=") {
			return false, "Go did not produce a result: " + g
		}
		if cl := strings.TrimPrefix(strings.Fields(b)[0], "err="); cl != "-" {
			errs = append(errs, strconv.Itoa(i)+":"+cl)
		}
		var ok bool
		if ok, what = judgeTable(c, "errs="+strings.Join(errs, ",")+b[strings.Index(b, " "):], specs[i]); !ok {
			if i == 0 {
				return false, where + " as resolved, before any call: " + what
			}
			call := "SetNext(" + strconv.Quote(c.PostN[i-1]) + ")"
			if c.PostV[i-1] != "-" {
				call = "Set(" + strconv.Quote(c.PostN[i-1]) + ", " + c.PostV[i-1] + ")"
			}
			return false, fmt.Sprintf("placement %q, %s: after resolution, call %d of %d, %s, does not continue the fold of the written members (an automatic value is one more than the highest value so far, written members included): %s",
				c.Form, where, i, len(c.PostN), call, what)
		}
	}
	return true, what
}

// postTypedefForms: the placements in which the table is reached through at least one typedef.
var postTypedefForms = []string{"typedef", "chain2", "chain", "tdll", "tdu", "tdu2", "tdtu", "tdtwo", "tdgrp", "tddr", "tdimp"}

var postWritten = map[string][]string{
	"e": {"nil", "0", "1", "-1", "-5", "7", "2147483646", "2147483647", "-2147483648"},
	"b": {"nil", "0", "1", "3", "7", "2147483647", "4294967294", "4294967295"},
}

type call struct{ n, v string }

// postSeqs: the call sequences of the enumerated part.
func postSeqs(kind string) [][]call {
	low, top, over, nearTop := "-6", "2147483647", "2147483648", "-7"
	if kind == "b" {
		low, top, over, nearTop = "2", "4294967295", "4294967296", "4294967294"
	}
	return [][]call{
		{{"n", "-"}}, {{"a", "-"}}, {{"n", "0"}}, {{"n", "1"}}, {{"n", "8"}}, {{"n", low}}, {{"n", top}}, {{"n", over}},
		{{"n", "-"}, {"p", "-"}}, {{"n", "100"}, {"p", "-"}}, {{"a", "-"}, {"n", "-"}}, {{"n", "0"}, {"p", "-"}}, {{"n", "-"}, {"p", "1"}},
		{{"n", "-"}, {"n", "-"}}, {{"n", top}, {"p", "-"}}, {{"n", nearTop}, {"p", "-"}},
		{{"n", "-"}, {"p", "5"}, {"q", "-"}}, {{"n", "1"}, {"p", "-"}, {"q", "-"}},
	}
}

type postCount struct{ enumerated, random int }

// postCandidates: written list x call sequence, without a placement; the enumerated ones first.
func postCandidates(f *lib.Flags) ([]tcase, postCount) {
	var out []tcase
	names := []string{"a", "b", "c"}
	mk := func(kind string, vals []string, seq []call) tcase {
		c := tcase{Kind: kind, Path: "post", Names: append([]string{}, names[:len(vals)]...)}
		for _, v := range vals {
			if v != "nil" {
				v = lib.HexS(v)
			}
			c.Vals = append(c.Vals, v)
		}
		for _, s := range seq {
			c.PostN = append(c.PostN, s.n)
			c.PostV = append(c.PostV, s.v)
		}
		return c
	}
	for _, kind := range []string{"e", "b"} {
		w := postWritten[kind]
		seqs := postSeqs(kind)
		var rec func(vals []string)
		rec = func(vals []string) {
			if len(vals) > 0 {
				for _, s := range seqs {
					out = append(out, mk(kind, vals, s))
				}
			}
			if len(vals) == 3 {
				return
			}
			for _, v := range w {
				rec(append(append([]string{}, vals...), v))
			}
		}
		rec(nil)
	}
	cnt := postCount{enumerated: len(out)}
	r := f.Rand(3)
	nRand := 6000
	if f.Thorough() {
		nRand = 100000
	}
	wn := []string{"a", "b", "c", "d", "e", "f"}
	cn := []string{"n", "p", "q", "r", "a", "b", "n"}
	for i := 0; i < nRand; i++ {
		kind := []string{"e", "b"}[r.Intn(2)]
		c := tcase{Kind: kind, Path: "post"}
		n := 1 + r.Intn(6)
		for j := 0; j < n; j++ {
			c.Names = append(c.Names, wn[j])
			switch r.Intn(5) {
			case 0, 1:
				c.Vals = append(c.Vals, "nil")
			case 2, 3:
				c.Vals = append(c.Vals, lib.HexS(strconv.Itoa(r.Intn(3*n+2))))
			default:
				w := postWritten[kind]
				c.Vals = append(c.Vals, lib.HexS(w[1+r.Intn(len(w)-1)]))
			}
		}
		k := 1 + r.Intn(6)
		for j := 0; j < k; j++ {
			c.PostN = append(c.PostN, cn[r.Intn(len(cn))])
			switch r.Intn(5) {
			case 0, 1, 2:
				c.PostV = append(c.PostV, "-")
			case 3:
				c.PostV = append(c.PostV, strconv.Itoa(r.Intn(3*n+6)))
			default:
				w := postWritten[kind]
				c.PostV = append(c.PostV, w[1+r.Intn(len(w)-1)])
			}
		}
		out = append(out, c)
	}
	cnt.random = nRand
	return out, cnt
}
