// unused.go: member lists in a typedef that NOTHING refers to.
//
// The other placements of the text path put the generated type where a leaf (or something a leaf reaches) uses
// it.  RFC 7950 makes an enumeration / bits type with a bad member sequence invalid wherever it is written, and
// Modules.Process resolves every typedef of every module and submodule (typeDictionary.resolveTypedefs), used or
// not.  The placements here (forms "x..") write the generated type in a typedef `t` that no leaf, leaf-list,
// typedef, union or deviation refers to - at module level, in a container, a list, an rpc, its input / output, a
// notification, a grouping (used once, twice, never), a container / list / grouping nested in a grouping, a
// grouping whose own leaf is the only user (grouping never used), a submodule (top level, container, grouping used
// by the including module / never used).  Demanded: Process reports exactly the errors the model's fold reports
// (member + class, as for the used placements), so every list the RFC rejects is reported and every list it
// accepts is not; for an accepted list the typedef's own resolved type (Typedef.YangType in the statement tree)
// holds the RFC table, and so does the type statement of the typedef.
package main

import (
	"fmt"
	"strings"

	"github.com/openconfig/goyang/pkg/yang"
)

// unusedForms in the order they are rotated through; unusedDesc says where the typedef stands.
var unusedForms = []string{"xm", "xg", "xc", "xgu", "xgc", "xri", "xgg", "xs", "xg2", "xn", "xgo", "xl", "xgh", "xsg", "xro", "xgl", "xr", "xsu", "xgcu", "xsc"}

var unusedDesc = map[string]string{
	"xm":   "at module level",
	"xc":   "in a container",
	"xl":   "in a list",
	"xr":   "in an rpc",
	"xri":  "in the input of an rpc",
	"xro":  "in the output of an rpc",
	"xn":   "in a notification",
	"xg":   "directly in a grouping that a container uses",
	"xg2":  "directly in a grouping that two containers use",
	"xgu":  "directly in a grouping that nothing uses",
	"xgc":  "in a container inside a grouping that a container uses",
	"xgcu": "in a container inside a grouping that nothing uses",
	"xgl":  "in a list inside a grouping that a container uses",
	"xgg":  "in a grouping nested in a used grouping, the inner one not used",
	"xgh":  "in a grouping nested in a used grouping, the inner one used inside the outer",
	"xgo":  "in a grouping that nothing uses, referred to only by a leaf of that grouping",
	"xs":   "at the top level of a submodule",
	"xsc":  "in a container of a submodule",
	"xsg":  "in a grouping of a submodule that the including module uses",
	"xsu":  "in a grouping of a submodule that nothing uses",
}

func isUnused(form string) bool { _, ok := unusedDesc[form]; return ok }

// unusedFiles: the files of an unused-typedef placement; the generated type always stands in m.yang (for the
// submodule placements m is the submodule and o the module that includes it), so that positions are classified
// as everywhere else.
func unusedFiles(form, head, gen string) (files [][2]string, firstLine int) {
	x := "leaf x { type string; }"
	var pre, post string
	switch form {
	case "xm":
		pre, post = head+" typedef t { ", " }\n "+x+" }\n"
	case "xc":
		pre, post = head+" container c { typedef t { ", " }\n "+x+" } }\n"
	case "xl":
		pre, post = head+" list c { key x; typedef t { ", " }\n "+x+" } }\n"
	case "xr":
		pre, post = head+" rpc r { typedef t { ", " }\n input { "+x+" } } }\n"
	case "xri":
		pre, post = head+" rpc r { input { typedef t { ", " }\n "+x+" } } }\n"
	case "xro":
		pre, post = head+" rpc r { output { typedef t { ", " }\n "+x+" } } }\n"
	case "xn":
		pre, post = head+" notification n { typedef t { ", " }\n "+x+" } }\n"
	case "xg":
		pre, post = head+" grouping g { typedef t { ", " }\n "+x+" }\n container c { uses g; } }\n"
	case "xg2":
		pre, post = head+" grouping g { typedef t { ", " }\n "+x+" }\n container c1 { uses g; }\n container c2 { uses g; } }\n"
	case "xgu":
		pre, post = head+" grouping g { typedef t { ", " }\n "+x+" } }\n"
	case "xgc":
		pre, post = head+" grouping g { container k { typedef t { ", " }\n "+x+" } }\n container c { uses g; } }\n"
	case "xgcu":
		pre, post = head+" grouping g { container k { typedef t { ", " }\n "+x+" } } }\n"
	case "xgl":
		pre, post = head+" grouping g { list k { key x; typedef t { ", " }\n "+x+" } }\n container c { uses g; } }\n"
	case "xgg":
		pre, post = head+" grouping g { grouping h { typedef t { ", " }\n leaf y { type string; } }\n "+x+" }\n container c { uses g; } }\n"
	case "xgh":
		pre, post = head+" grouping g { grouping h { typedef t { ", " }\n leaf y { type string; } }\n container k { uses h; } "+x+" }\n container c { uses g; } }\n"
	case "xgo":
		pre, post = head+" grouping g { typedef t { ", " }\n leaf l { type t; } } }\n"
	case "xs", "xsc", "xsg", "xsu":
		sub := "submodule m { belongs-to o { prefix m; } feature f; extension note { argument t; }\n"
		body := ""
		switch form {
		case "xs":
			pre, post = sub+" typedef t { ", " }\n "+x+" }\n"
		case "xsc":
			pre, post = sub+" container c { typedef t { ", " }\n "+x+" } }\n"
		case "xsg":
			pre, post = sub+" grouping g { typedef t { ", " }\n "+x+" } }\n"
			body = " container d { uses g; }"
		case "xsu":
			pre, post = sub+" grouping g { typedef t { ", " }\n "+x+" } }\n"
		}
		files = append(files, [2]string{"o.yang", "module o { namespace \"urn:o\"; prefix o; include m;" + body + " }\n"})
	default:
		return nil, 0
	}
	files = append(files, [2]string{"m.yang", pre + gen + post})
	return files, strings.Count(pre, "\n") + 2
}

// typedefsNamed collects every typedef called name in the statement tree below n (module, container, list,
// grouping, rpc, input, output, notification - every statement that may hold typedefs in these texts).
func typedefsNamed(n yang.Node, name string, out *[]*yang.Typedef) {
	take := func(tds []*yang.Typedef) {
		for _, td := range tds {
			if td.Name == name {
				*out = append(*out, td)
			}
		}
	}
	conts := func(cs []*yang.Container, ls []*yang.List, gs []*yang.Grouping) {
		for _, c := range cs {
			typedefsNamed(c, name, out)
		}
		for _, l := range ls {
			typedefsNamed(l, name, out)
		}
		for _, g := range gs {
			typedefsNamed(g, name, out)
		}
	}
	switch s := n.(type) {
	case *yang.Module:
		take(s.Typedef)
		conts(s.Container, s.List, s.Grouping)
		for _, r := range s.RPC {
			typedefsNamed(r, name, out)
		}
		for _, r := range s.Notification {
			typedefsNamed(r, name, out)
		}
	case *yang.Container:
		take(s.Typedef)
		conts(s.Container, s.List, s.Grouping)
	case *yang.List:
		take(s.Typedef)
		conts(s.Container, s.List, s.Grouping)
	case *yang.Grouping:
		take(s.Typedef)
		conts(s.Container, s.List, s.Grouping)
	case *yang.RPC:
		take(s.Typedef)
		if s.Input != nil {
			typedefsNamed(s.Input, name, out)
		}
		if s.Output != nil {
			typedefsNamed(s.Output, name, out)
		}
	case *yang.Input:
		take(s.Typedef)
		conts(s.Container, s.List, s.Grouping)
	case *yang.Output:
		take(s.Typedef)
		conts(s.Container, s.List, s.Grouping)
	case *yang.Notification:
		take(s.Typedef)
		conts(s.Container, s.List, s.Grouping)
	}
}

// unusedTypedef finds the typedef t of an unused-typedef placement in the statement tree of m.yang (the
// module m, or the submodule m).  There is exactly one.
func unusedTypedef(ms *yang.Modules) *yang.Typedef {
	root := ms.Modules["m"]
	if root == nil {
		root = ms.SubModules["m"]
	}
	if root == nil {
		return nil
	}
	var tds []*yang.Typedef
	typedefsNamed(root, "t", &tds)
	if len(tds) != 1 {
		return nil
	}
	return tds[0]
}

// unusedClause prefixes the judge's finding for these placements.
func unusedClause(c tcase, g, what string) string {
	if strings.HasPrefix(g, "errs= no-type") {
		what = "Process reports nothing and leaves the typedef without a resolved type (Typedef.YangType has no table); " + what
	}
	return fmt.Sprintf("typedef that nothing refers to, %s: %s [an invalid member sequence is an error wherever the type is written; Process resolves every typedef, used or not]", unusedDesc[c.Form], what)
}

// unusedPlacements: the unused-typedef placements of the bare text case c: all of them (history a; the first
// four also processed twice / with a module loaded in between), or the k-th one only.
func unusedPlacements(c tcase, k int) []tcase {
	var out []tcase
	if k >= 0 {
		x := c
		x.Form, x.Hist = unusedForms[k%len(unusedForms)], "a"
		return append(out, x)
	}
	for i, fm := range unusedForms {
		x := c
		x.Form, x.Hist = fm, "a"
		out = append(out, x)
		if i < 4 {
			x.Hist = []string{"b", "d"}[i%2]
			out = append(out, x)
		}
	}
	return out
}
