// corr-c15: correspondence between the number code of pkg/yang (real code, in-process) and the Lean
// model Goyang.Model.Number (driver drv_num), plus the executable specification Goyang.Spec.Number
// evaluated on every Go output.
//
// Inputs: (1) boundary grid of magnitudes x sign x fraction digits 0..18, all ordered pairs for
// Less/Equal, every number for String/Int/Trunc/print-parse; (2) FromInt/FromUint on boundary integers;
// (3) literals: complete enumeration of short strings over a number alphabet, structured decimal
// literals with 0..300 fraction digits, base-0 literals, underscores, white space (all Unicode
// White_Space encodings and look-alikes), 64-bit boundary mantissas split at every position;
// (4) fraction-digits arguments through YANG text and Process (Value.asRangeInt); (5) seeded random
// numbers with related partners; (6) numbers outside the domain (fd 19..255) for the panics.
package main

import (
	"encoding/json"
	"fmt"
	"math/big"
	"math/rand"
	"os"
	"strconv"
	"strings"

	"github.com/openconfig/goyang/pkg/yang"
	"verif/harness/lib"
)

type num struct {
	V   uint64
	FD  uint8
	Neg bool
}

func (n num) f() string {
	b := "0"
	if n.Neg {
		b = "1"
	}
	return strconv.FormatUint(n.V, 10) + " " + strconv.Itoa(int(n.FD)) + " " + b
}

func (n num) y() yang.Number { return yang.Number{Value: n.V, FractionDigits: n.FD, Negative: n.Neg} }

func fromY(y yang.Number) num { return num{y.Value, y.FractionDigits, y.Negative} }

func parseNum(a []string) (num, error) {
	if len(a) < 3 {
		return num{}, fmt.Errorf("short")
	}
	v, err := strconv.ParseUint(a[0], 10, 64)
	if err != nil {
		return num{}, err
	}
	fd, err := strconv.ParseUint(a[1], 10, 8)
	if err != nil {
		return num{}, err
	}
	return num{v, uint8(fd), a[2] == "1"}, nil
}

func (n num) wfInt() bool { return n.FD == 0 }
func (n num) wfDec() bool {
	return n.FD >= 1 && n.FD <= 18 && (n.V < 1<<63 || (n.Neg && n.V == 1<<63))
}
func (n num) wf() bool { return n.FD <= 18 }

// tcase is one question; Args are protocol fields (numbers as three fields, strings hex encoded).
type tcase struct {
	Op   string   `json:"op"`
	Args []string `json:"args"`
}

func (c tcase) req() string { return "num." + c.Op + " " + strings.Join(c.Args, " ") }

func errClass(err error) string {
	m := err.Error()
	switch {
	case strings.HasSuffix(m, "invalid syntax"):
		return "syntax"
	case strings.HasSuffix(m, "is not a valid decimal number"):
		// decimalValueFromString, repaired (D10-S1, /repo 6916d90): a point directly followed by a sign
		return "syntax"
	case strings.HasSuffix(m, "value out of range"):
		return "range"
	case strings.Contains(m, "converting empty string to number"):
		return "empty"
	case strings.Contains(m, "sign with no value"):
		return "signOnly"
	case strings.Contains(m, "has too much precision"):
		return "precision"
	case strings.Contains(m, "invalid number of fraction digits"):
		return "badFd"
	case strings.Contains(m, "called Int() on decimal64 value"):
		return "decimalInt"
	case strings.Contains(m, "signed integer overflow"):
		return "overflow"
	case strings.Contains(m, "value is required in the range"):
		return "missing"
	case strings.Contains(m, "out of range ["):
		return "outOfRange"
	}
	return "other"
}

func b01(b bool) string {
	if b {
		return "1"
	}
	return "0"
}

// runGo runs the real code on one case and returns the canonical answer line.
func runGo(c tcase) (out string) {
	defer func() {
		if r := recover(); r != nil {
			out = "panic"
		}
	}()
	switch c.Op {
	case "less", "equal":
		n, e1 := parseNum(c.Args)
		m, e2 := parseNum(c.Args[3:])
		if e1 != nil || e2 != nil {
			return "bad-case"
		}
		if c.Op == "less" {
			return b01(n.y().Less(m.y()))
		}
		return b01(n.y().Equal(m.y()))
	case "trunc":
		n, _ := parseNum(c.Args)
		return strconv.FormatUint(n.y().Trunc(), 10)
	case "str":
		n, _ := parseNum(c.Args)
		return lib.HexS(n.y().String())
	case "int":
		n, _ := parseNum(c.Args)
		i, err := n.y().Int()
		if err != nil {
			return "err " + errClass(err)
		}
		return "ok " + strconv.FormatInt(i, 10)
	case "fromint":
		i, _ := strconv.ParseInt(c.Args[0], 10, 64)
		return fromY(yang.FromInt(i)).f()
	case "fromuint":
		u, _ := strconv.ParseUint(c.Args[0], 10, 64)
		return fromY(yang.FromUint(u)).f()
	case "parseint":
		s, _ := lib.UnHex(c.Args[0])
		n, err := yang.ParseInt(string(s))
		if err != nil {
			return "err " + errClass(err)
		}
		return "ok " + fromY(n).f()
	case "parsedec":
		s, _ := lib.UnHex(c.Args[0])
		fd, _ := strconv.Atoi(c.Args[1])
		n, err := yang.ParseDecimal(string(s), uint8(fd))
		if err != nil {
			return "err " + errClass(err)
		}
		return "ok " + fromY(n).f()
	case "roundtrip":
		n, _ := parseNum(c.Args)
		s := n.y().String()
		var m yang.Number
		var err error
		if n.FD == 0 {
			m, err = yang.ParseInt(s)
		} else {
			m, err = yang.ParseDecimal(s, n.FD)
		}
		if err != nil {
			return "err " + errClass(err)
		}
		return "ok " + fromY(m).f()
	case "asrange":
		return goAsRange(c.Args[0])
	}
	return "bad-case"
}

// goAsRange reaches (*Value).asRangeInt(1, 18) through `fraction-digits` of a decimal64 leaf.
func goAsRange(hexArg string) string {
	stmt := ""
	if hexArg != "nil" {
		raw, _ := lib.UnHex(hexArg)
		var sb strings.Builder
		for _, b := range raw {
			switch b {
			case '\\':
				sb.WriteString(`\\`)
			case '"':
				sb.WriteString(`\"`)
			case '\n':
				sb.WriteString(`\n`)
			case '\t':
				sb.WriteString(`\t`)
			default:
				sb.WriteByte(b)
			}
		}
		stmt = `fraction-digits "` + sb.String() + `";`
	}
	text := "module m { namespace \"urn:m\"; prefix m; leaf l { type decimal64 { " + stmt + " } } }"
	ms := yang.NewModules()
	if err := ms.Parse(text, "m.yang"); err != nil {
		return "parse-error"
	}
	errs := ms.Process()
	if len(errs) > 0 {
		return "err " + errClass(errs[0])
	}
	e := yang.ToEntry(ms.Modules["m"])
	l := e.Dir["l"]
	if l == nil || l.Type == nil {
		return "no-type"
	}
	return "ok " + strconv.Itoa(l.Type.FractionDigits)
}

// specReq gives the specification question for case c and the Go answer g.  decided != "" means the
// verdict is known without asking ("holds": outside the property's domain, or nothing claimed).
func specReq(c tcase, g string) (req string, decided string) {
	switch c.Op {
	case "less", "equal":
		n, _ := parseNum(c.Args)
		m, _ := parseNum(c.Args[3:])
		if !n.wf() || !m.wf() {
			return "", "holds"
		}
		return "spec." + c.Op + " " + strings.Join(c.Args, " "), ""
	case "int":
		return "spec.int " + strings.Join(c.Args, " "), ""
	case "str":
		n, _ := parseNum(c.Args)
		if !n.wfInt() && !n.wfDec() {
			return "", "holds"
		}
		if g == "panic" {
			return "", "violates"
		}
		return "spec.str " + strings.Join(c.Args, " ") + " " + g, ""
	case "roundtrip":
		n, _ := parseNum(c.Args)
		if !n.wfInt() && !n.wfDec() {
			return "", "holds"
		}
		if !strings.HasPrefix(g, "ok ") {
			return "", "violates"
		}
		fs := strings.Fields(g)
		if fs[2] != c.Args[1] {
			return "", "violates"
		}
		return "spec.equal " + strings.Join(c.Args, " ") + " " + strings.Join(fs[1:], " "), ""
	case "parseint":
		return "spec.parseint " + c.Args[0], ""
	case "parsedec":
		return "spec.parsedec " + c.Args[0] + " " + c.Args[1], ""
	case "fromint":
		if g == "panic" {
			return "", "violates"
		}
		return "spec.int " + g, ""
	case "fromuint":
		if g != c.Args[0]+" 0 0" {
			return "", "violates"
		}
		return "", "holds"
	case "asrange":
		if c.Args[0] == "nil" {
			return "", "holds"
		}
		return "spec.parseint " + c.Args[0], ""
	}
	return "", "holds"
}

// judge says whether Go answer g satisfies the specification answer s for case c.
// A second question may be needed (two parsed numbers compared by denotation): ask does it.
func judge(c tcase, g, s string, ask func(string) string) bool {
	switch c.Op {
	case "less", "equal":
		return g == s
	case "int":
		if strings.HasPrefix(s, "ok ") {
			return g == s
		}
		return strings.HasPrefix(g, "err")
	case "str":
		return s == "1"
	case "roundtrip":
		return s == "1"
	case "fromint":
		return s == "ok "+c.Args[0]
	case "parseint", "parsedec":
		if s == "na" {
			return true
		}
		if s == "err" {
			return strings.HasPrefix(g, "err")
		}
		if !strings.HasPrefix(g, "ok ") {
			return false
		}
		gf, sf := strings.Fields(g), strings.Fields(s)
		if len(gf) != 4 || len(sf) != 4 || gf[2] != sf[2] {
			return false
		}
		if g == s {
			return true
		}
		return ask("spec.equal "+strings.Join(gf[1:], " ")+" "+strings.Join(sf[1:], " ")) == "1"
	case "asrange":
		if s == "na" {
			return true
		}
		if s == "err" {
			return strings.HasPrefix(g, "err")
		}
		sf := strings.Fields(s) // ok v fd neg
		v, _ := strconv.ParseUint(sf[1], 10, 64)
		if sf[3] == "1" && v != 0 || v < 1 || v > 18 {
			return strings.HasPrefix(g, "err")
		}
		return g == "ok "+sf[1]
	}
	return true
}

var pow10 [20]uint64

func init() {
	pow10[0] = 1
	for i := 1; i < 20; i++ {
		pow10[i] = pow10[i-1] * 10
	}
}

func magnitudes(thorough bool) []uint64 {
	set := map[uint64]bool{}
	var out []uint64
	add := func(v uint64) {
		if !set[v] {
			set[v] = true
			out = append(out, v)
		}
	}
	for _, v := range []uint64{0, 1, 9, 10} {
		add(v)
	}
	ks := []int{1, 2, 9, 17, 18, 19}
	if thorough {
		ks = nil
		for k := 1; k <= 19; k++ {
			ks = append(ks, k)
		}
	}
	for _, k := range ks {
		add(pow10[k] - 1)
		add(pow10[k])
		add(pow10[k] + 1)
	}
	for _, v := range []uint64{1<<31 - 1, 1 << 31, 1<<31 + 1, 1<<32 - 1, 1 << 32, 1<<32 + 1, 1<<63 - 1, 1 << 63, 1<<63 + 1, 1<<64 - 1} {
		add(v)
	}
	if thorough {
		add(1<<64 - 2)
		add(922337203685477580)
		add(922337203685477581)
		add(1844674407370955161)
		add(1844674407370955162)
	}
	return out
}

func randMag(r *rand.Rand) uint64 {
	switch r.Intn(7) {
	case 0:
		return r.Uint64()
	case 1:
		return r.Uint64() >> uint(r.Intn(64))
	case 2:
		return pow10[r.Intn(20)] + uint64(r.Intn(7)) - 3
	case 3:
		return uint64(1)<<uint(r.Intn(64)) + uint64(r.Intn(7)) - 3
	case 4:
		return uint64(r.Intn(21))
	case 5:
		j := r.Intn(19)
		return (r.Uint64() >> uint(r.Intn(64))) / pow10[j] * pow10[j]
	default:
		return 1<<64 - 1 - uint64(r.Intn(4))
	}
}

func randNum(r *rand.Rand) num {
	return num{randMag(r), uint8(r.Intn(19)), r.Intn(2) == 0}
}

// related returns a number close to n in value but (usually) at another scale.
func related(r *rand.Rand, n num) num {
	fd2 := uint8(r.Intn(19))
	v := n.V
	if fd2 >= n.FD {
		p := pow10[fd2-n.FD]
		if v == 0 || p <= (1<<64-1)/v {
			v *= p
		}
	} else {
		v /= pow10[n.FD-fd2]
	}
	v += uint64(r.Intn(5)) - 2
	neg := n.Neg
	if r.Intn(8) == 0 {
		neg = !neg
	}
	return num{v, fd2, neg}
}

var spaceEnc = []string{"\t", "\n", "\v", "\f", "\r", " ", "\u0085", "\u00a0", "\u1680", "\u2000", "\u2001", "\u2002", "\u2003", "\u2004", "\u2005",
	"\u2006", "\u2007", "\u2008", "\u2009", "\u200a", "\u2028", "\u2029", "\u202f", "\u205f", "\u3000"}

// look-alikes that are not white space for strings.TrimSpace
var notSpace = []string{"\u200b", "\ufeff", "\u180e", "\x85", "\xa0", "\xc2", "\xe2\x80", "\x80", "\xe2\x80\x80\xa0", "\x1f", "\x00", "\u2060", "\u200b ",
	"\u200b\u2000", "\xc2\xc2\xa0", "\xe2\x80\xab", "\u2027", "\u202a", "\x1c", "\x1d", "\x1e"}

func randDigits(r *rand.Rand, n int) string {
	b := make([]byte, n)
	for i := range b {
		b[i] = byte('0' + r.Intn(10))
	}
	return string(b)
}

func randLiteral(r *rand.Rand) string {
	sign := []string{"", "", "+", "-", "-"}[r.Intn(5)]
	var body string
	switch r.Intn(10) {
	case 0, 1, 2: // decimal literal, moderate sizes
		ip := randDigits(r, r.Intn(21))
		if r.Intn(3) == 0 {
			ip = strings.TrimLeft(ip, "0")
		}
		body = ip
		if r.Intn(4) != 0 {
			body += "." + randDigits(r, r.Intn(22))
		}
	case 3: // many fraction digits (0..300), often trailing zeros
		k := r.Intn(301)
		fp := randDigits(r, r.Intn(4))
		if len(fp) < k {
			fp += strings.Repeat("0", k-len(fp))
		}
		if r.Intn(4) == 0 && k > 0 {
			fp = fp[:k-1] + "5"
		}
		body = randDigits(r, 1+r.Intn(3)) + "." + fp
	case 4: // boundary mantissa with a dot somewhere
		m := []string{"9223372036854775807", "9223372036854775808", "9223372036854775809", "18446744073709551615",
			"18446744073709551616", "922337203685477580", "1844674407370955161", "99999999999999999999", "9223372036854775800"}[r.Intn(9)]
		d := r.Intn(len(m) + 1)
		body = m[:d] + "." + m[d:]
		if r.Intn(3) == 0 {
			body = m
		}
		if r.Intn(3) == 0 {
			body += strings.Repeat("0", r.Intn(4))
		}
	case 5, 6: // base-0 literal
		pre := []string{"0x", "0X", "0o", "0O", "0b", "0B", "0", "0", ""}[r.Intn(9)]
		alpha := "0123456789abcdefABCDEF_"
		switch pre {
		case "0b", "0B":
			alpha = "0101012_"
		case "0o", "0O", "0":
			alpha = "012345677778_"
		case "":
			alpha = "0123456789_"
		}
		n := r.Intn(24)
		if r.Intn(6) == 0 {
			n = 60 + r.Intn(10)
		}
		b := make([]byte, n)
		for i := range b {
			b[i] = alpha[r.Intn(len(alpha))]
			if b[i] == '_' && r.Intn(3) != 0 {
				b[i] = alpha[0]
			}
		}
		body = pre + string(b)
	case 7: // base-0 boundaries
		body = []string{"0xFFFFFFFFFFFFFFFF", "0x10000000000000000", "0xffff_ffff_ffff_ffff", "01777777777777777777777", "02000000000000000000000",
			"0o1777777777777777777777", "0b" + strings.Repeat("1", 64), "0b1" + strings.Repeat("0", 64), "0x_1", "0_1", "0__1", "1__0", "1_", "_1", "0x", "0b", "0o", "0",
			"00", "08", "0_", "0x1_", "0X_f_F", "1_000", "0b_", "0x8000000000000000", "0x7fffffffffffffff"}[r.Intn(27)]
	default: // junk over a number alphabet
		alpha := "0123456789+-._xXoObBeEaAfF \t"
		n := r.Intn(10)
		b := make([]byte, n)
		for i := range b {
			b[i] = alpha[r.Intn(len(alpha))]
		}
		body = string(b)
	}
	s := sign + body
	if r.Intn(4) == 0 {
		pool := spaceEnc
		if r.Intn(4) == 0 {
			pool = notSpace
		}
		l, t := "", ""
		for i := r.Intn(3); i > 0; i-- {
			l += pool[r.Intn(len(pool))]
		}
		for i := r.Intn(3); i > 0; i-- {
			t += pool[r.Intn(len(pool))]
		}
		s = l + s + t
		if r.Intn(10) == 0 { // white space inside
			k := r.Intn(len(s) + 1)
			s = s[:k] + " " + s[k:]
		}
	}
	return s
}

func main() {
	f := lib.ParseFlags()
	if f.Replay != "" {
		replay(f)
		return
	}
	res := lib.NewResult("C15", f)
	distinct := lib.NewDistinct()
	sd, err := lib.StartDriver(f.Driver)
	if err != nil {
		lib.Fatal("driver: %v", err)
	}
	defer sd.Close()
	ask := func(q string) string {
		a, err := sd.Ask(q)
		if err != nil {
			lib.Fatal("driver: %v", err)
		}
		return a
	}
	// report records one disagreement.  spec is the specification's answer when it was already obtained in a
	// batch ("" = ask now).  Disagreements whose verdict is "violates" (or crashes) are never crowded out by
	// harmless ones: each class has its own cap of 50.
	nViol, nHold, asked := 0, 0, 0
	report := func(c tcase, g, m string, kind string, spec string) {
		if spec == "" {
			if _, d := specReq(c, g); d == "" {
				if asked >= 2000 {
					res.Count("disagreements_not_examined", 1)
					return
				}
				asked++
			}
		}
		v, what := verdictFrom(c, g, spec, ask)
		if kind == "spec" {
			what = "Go agrees with the model but not with the specification: " + what
		} else {
			what = "Go differs from the model: " + what
		}
		if g == "panic" {
			kind = "crash"
		}
		if v == "violates" || kind == "crash" {
			if nViol >= 50 {
				res.Count("violating_disagreements_not_recorded", 1)
				return
			}
			nViol++
		} else {
			if nHold >= 50 {
				res.Count("harmless_disagreements_not_recorded", 1)
				return
			}
			nHold++
		}
		res.AddDisagreement(lib.Disagreement{Kind: kind, Input: c, Go: g, Model: m, SpecVerdict: v, What: c.Op + ": " + what, Replay: c})
	}

	// ---- 1. pair grid --------------------------------------------------------------------------
	mags := magnitudes(f.Thorough())
	var grid []num
	for _, v := range mags {
		for fd := 0; fd <= 18; fd++ {
			grid = append(grid, num{v, uint8(fd), false}, num{v, uint8(fd), true})
		}
	}
	type row struct {
		n  num
		ms []num
	}
	var rows []row
	for _, n := range grid {
		rows = append(rows, row{n, grid})
	}
	gridPairs := int64(len(grid)) * int64(len(grid))

	// ---- 5. random rows ------------------------------------------------------------------------
	nRand := 60000
	if f.Thorough() {
		nRand = 1500000
	}
	r := f.Rand(0)
	var randNums []num
	for i := 0; i < nRand; i++ {
		n := randNum(r)
		randNums = append(randNums, n)
		ms := make([]num, 0, 16)
		for j := 0; j < 8; j++ {
			ms = append(ms, related(r, n))
		}
		for j := 0; j < 7; j++ {
			ms = append(ms, randNum(r))
		}
		ms = append(ms, n)
		rows = append(rows, row{n, ms})
	}
	// ---- 6. outside the domain: fraction digits above 18 (panics, wrap-around) -----------------
	var odd []num
	for _, fd := range []uint8{19, 20, 21, 37, 38, 63, 64, 65, 100, 200, 255} {
		for _, v := range []uint64{0, 1, 5, 1<<63 + 1, 1<<64 - 1, 1000000000000000000} {
			odd = append(odd, num{v, fd, false}, num{v, fd, true})
		}
	}
	for _, n := range odd {
		rows = append(rows, row{n, append(append([]num{}, odd...), num{1, 0, false}, num{0, 3, true}, num{7, 18, true})})
	}

	rowReqs := make([]string, len(rows))
	for i, rw := range rows {
		var sb strings.Builder
		sb.WriteString("num.cmprow ")
		sb.WriteString(rw.n.f())
		for _, m := range rw.ms {
			sb.WriteByte(' ')
			sb.WriteString(m.f())
		}
		rowReqs[i] = sb.String()
	}
	rowAns, err := lib.ParBatch(f.Driver, rowReqs, f.Procs)
	if err != nil {
		lib.Fatal("driver: %v", err)
	}
	pairs, pairsNontrivial := int64(0), int64(0)
	for i, rw := range rows {
		a := rowAns[i]
		if len(a) != 4*len(rw.ms) {
			lib.Fatal("row answer has wrong length: %q for %q", a, rowReqs[i][:80])
		}
		for j, m := range rw.ms {
			pairs++
			cl := tcase{"less", strings.Fields(rw.n.f() + " " + m.f())}
			ce := tcase{"equal", cl.Args}
			gl, ge := runGo(cl), runGo(ce)
			if gl == "panic" {
				gl = "p"
			}
			if ge == "panic" {
				ge = "p"
			}
			ml, me, sl, se := string(a[4*j]), string(a[4*j+1]), string(a[4*j+2]), string(a[4*j+3])
			if rw.n != m && distinct.Add(cl.req()) {
				pairsNontrivial++
			}
			inDom := rw.n.wf() && m.wf()
			unp := func(s string) string {
				if s == "p" {
					return "panic"
				}
				return s
			}
			if gl != ml {
				report(cl, unp(gl), unp(ml), "correspondence", sl)
			} else if inDom && gl != sl {
				report(cl, unp(gl), unp(ml), "spec", sl)
			}
			if ge != me {
				report(ce, unp(ge), unp(me), "correspondence", se)
			} else if inDom && ge != se {
				report(ce, unp(ge), unp(me), "spec", se)
			}
		}
	}
	res.AddSample(map[string]any{"request": rowReqs[3][:120] + " ...", "model_and_spec": rowAns[3][:40] + "..."})

	// ---- unary and literal cases ---------------------------------------------------------------
	var cases []tcase
	addNumOps := func(n num) {
		a := strings.Fields(n.f())
		for _, op := range []string{"str", "int", "trunc", "roundtrip"} {
			cases = append(cases, tcase{op, a})
		}
	}
	for _, n := range grid {
		addNumOps(n)
	}
	for _, n := range randNums {
		addNumOps(n)
	}
	for _, n := range odd {
		addNumOps(n)
	}
	// 2. FromInt / FromUint
	var ints []int64
	for _, v := range []int64{0, 1, -1, 9, 10, 1<<31 - 1, 1 << 31, -(1 << 31), -(1 << 31) - 1, 1 << 32, 1<<63 - 1, -(1<<63 - 1), -1 << 63, -1<<63 + 1} {
		ints = append(ints, v)
	}
	for i := 0; i < 2000; i++ {
		v := int64(randMag(r))
		ints = append(ints, v, -v)
	}
	for _, v := range ints {
		cases = append(cases, tcase{"fromint", []string{strconv.FormatInt(v, 10)}})
	}
	for _, v := range mags {
		cases = append(cases, tcase{"fromuint", []string{strconv.FormatUint(v, 10)}})
	}
	for i := 0; i < 2000; i++ {
		cases = append(cases, tcase{"fromuint", []string{strconv.FormatUint(randMag(r), 10)}})
	}
	// 3. literals
	addLit := func(s string, fds ...int) {
		h := lib.HexS(s)
		cases = append(cases, tcase{"parseint", []string{h}})
		for _, fd := range fds {
			cases = append(cases, tcase{"parsedec", []string{h, strconv.Itoa(fd)}})
		}
	}
	// 3a. complete enumeration of short strings
	alpha := "0179_xb+-. af"
	maxLen := 4
	if f.Thorough() {
		alpha = "01789_xbo+-. af"
		maxLen = 5
	}
	enumCount := int64(0)
	var enum func(prefix string)
	enum = func(prefix string) {
		addLit(prefix, 1, 3)
		enumCount++
		if len(prefix) == maxLen {
			return
		}
		for i := 0; i < len(alpha); i++ {
			enum(prefix + alpha[i:i+1])
		}
	}
	enum("")
	// 3b. boundary mantissas split at every position, every admissible precision
	for _, m := range []string{"9223372036854775807", "9223372036854775808", "9223372036854775809", "18446744073709551615", "18446744073709551616",
		"922337203685477580", "922337203685477581", "1", "0", "10", "100000000000000000000", "000", "0009223372036854775807"} {
		for _, sg := range []string{"", "-", "+"} {
			addLit(sg + m)
			for d := 0; d <= len(m); d++ {
				s := sg + m[:d] + "." + m[d:]
				for fd := 0; fd <= 19; fd++ {
					cases = append(cases, tcase{"parsedec", []string{lib.HexS(s), strconv.Itoa(fd)}})
				}
			}
		}
	}
	// 3c. 0..300 written fraction digits (all zeros, or a last non-zero digit) at small precisions
	for k := 0; k <= 300; k++ {
		for _, last := range []string{"0", "5"} {
			fp := ""
			if k > 0 {
				fp = strings.Repeat("0", k-1) + last
			}
			for _, fd := range []int{1, 2, 18, k % 19, (k + 1) % 19, 255} {
				cases = append(cases, tcase{"parsedec", []string{lib.HexS("0." + fp), strconv.Itoa(fd)}})
				cases = append(cases, tcase{"parsedec", []string{lib.HexS("-7." + fp), strconv.Itoa(fd)}})
			}
		}
	}
	// 3d. white space around a literal: every encoding, left / right / both, and look-alikes
	for _, sp := range append(append([]string{}, spaceEnc...), notSpace...) {
		for _, body := range []string{"12", "-1.5", "0x1f", ""} {
			addLit(sp+body, 2)
			addLit(body+sp, 2)
			addLit(sp+body+sp, 2)
			addLit(sp+sp+body+" "+sp, 2)
			addLit("1"+sp+"2", 2)
		}
	}
	// 3f. scaled-mantissa boundaries: for every precision f and every number w < f of written fraction digits,
	// mantissas m with m*10^(f-w) just below / at / just above 2^63, 2^64, 2^64+2^62, 2*2^64, 3*2^64 and 10^19
	// (a product computed in uint64 wraps there), with and without sign; plus seeded random m whose scaled
	// value is >= 2^64 but whose residue mod 2^64 is <= 2^63-1 (a wrapped value that passes a range check).
	// All of them are literals of the claimed form, so the specification verdict is decisive.
	scaledCount := int64(0)
	{
		two64 := new(big.Int).Lsh(big.NewInt(1), 64)
		two63 := new(big.Int).Lsh(big.NewInt(1), 63)
		two62 := new(big.Int).Lsh(big.NewInt(1), 62)
		ten19, _ := new(big.Int).SetString("10000000000000000000", 10)
		bounds := []*big.Int{two63, two64, new(big.Int).Add(two64, two62), new(big.Int).Mul(big.NewInt(2), two64),
			new(big.Int).Mul(big.NewInt(3), two64), ten19}
		lit := func(m *big.Int, w int) string {
			d := m.String()
			if w == 0 {
				return d
			}
			for len(d) < w+1 {
				d = "0" + d
			}
			return d[:len(d)-w] + "." + d[len(d)-w:]
		}
		add := func(m *big.Int, f, w int) {
			if m.Sign() < 1 {
				return
			}
			for _, sg := range []string{"", "-"} {
				cases = append(cases, tcase{"parsedec", []string{lib.HexS(sg + lit(m, w)), strconv.Itoa(f)}})
				scaledCount++
			}
		}
		for fd := 1; fd <= 18; fd++ {
			for w := 0; w < fd; w++ {
				p := new(big.Int).Exp(big.NewInt(10), big.NewInt(int64(fd-w)), nil)
				for _, b := range bounds {
					q, rem := new(big.Int).QuoRem(b, p, new(big.Int))
					if rem.Sign() != 0 {
						q.Add(q, big.NewInt(1))
					}
					for _, dlt := range []int64{-1, 0, 1} {
						add(new(big.Int).Add(q, big.NewInt(dlt)), fd, w)
					}
				}
			}
		}
		nWrap := 400
		if f.Thorough() {
			nWrap = 20000
		}
		for got := 0; got < nWrap; {
			fd := 1 + r.Intn(18)
			w := r.Intn(fd)
			p := new(big.Int).Exp(big.NewInt(10), big.NewInt(int64(fd-w)), nil)
			// target between 2^64 and 6*2^64
			t := new(big.Int).Mul(two64, big.NewInt(int64(1+r.Intn(5))))
			t.Add(t, new(big.Int).SetUint64(r.Uint64()>>1))
			m := new(big.Int).Quo(t, p)
			sc := new(big.Int).Mul(m, p)
			if sc.Cmp(two64) < 0 || new(big.Int).Mod(sc, two64).Cmp(two63) >= 0 {
				continue
			}
			add(m, fd, w)
			got++
		}
	}
	// 3e. seeded random literals
	nLit := 150000
	if f.Thorough() {
		nLit = 4000000
	}
	for i := 0; i < nLit; i++ {
		s := randLiteral(r)
		fd := r.Intn(20)
		if r.Intn(50) == 0 {
			fd = []int{0, 19, 20, 255, 128}[r.Intn(5)]
		}
		h := lib.HexS(s)
		if r.Intn(3) == 0 {
			cases = append(cases, tcase{"parseint", []string{h}})
		} else {
			cases = append(cases, tcase{"parsedec", []string{h, strconv.Itoa(fd)}})
		}
	}
	// 4. fraction-digits through YANG text (asRangeInt)
	asr := []string{"nil", lib.HexS("1"), lib.HexS("18"), lib.HexS("19"), lib.HexS("0"), lib.HexS("-1"), lib.HexS("+5"), lib.HexS(" 7 "), lib.HexS("0x10"), lib.HexS("0x13"),
		lib.HexS("010"), lib.HexS("1_0"), lib.HexS("1.0"), lib.HexS("-18446744073709551615"), lib.HexS("18446744073709551615"), lib.HexS("18446744073709551617"),
		lib.HexS("-9223372036854775808"), lib.HexS("-9223372036854775809"), lib.HexS("9223372036854775808"), lib.HexS("-0"), lib.HexS("+"), lib.HexS("-"), lib.HexS(" "),
		lib.HexS("abc"), lib.HexS(" 9 "), lib.HexS("\t3\n"), lib.HexS("0b11"), lib.HexS("0o22"), lib.HexS("0o23"), lib.HexS("-18446744073709551598")}
	for i := 0; i <= 20; i++ {
		asr = append(asr, lib.HexS(strconv.Itoa(i)), lib.HexS(strconv.Itoa(-i)), lib.HexS(fmt.Sprintf("0x%x", i)), lib.HexS(fmt.Sprintf("0%o", i)))
	}
	for _, a := range asr {
		cases = append(cases, tcase{"asrange", []string{a, "1", "18"}})
	}

	// run
	goOut := make([]string, len(cases))
	reqs := make([]string, len(cases))
	specIdx := make([]int, 0, len(cases))
	specReqs := make([]string, 0, len(cases))
	decided := make([]string, len(cases))
	opCount := map[string]int64{}
	nontrivial := int64(0)
	for i, c := range cases {
		goOut[i] = runGo(c)
		reqs[i] = c.req()
		opCount[c.Op]++
		if distinct.Add(reqs[i]) {
			nontrivial++
		}
		q, d := specReq(c, goOut[i])
		decided[i] = d
		if q != "" {
			specIdx = append(specIdx, i)
			specReqs = append(specReqs, q)
		}
	}
	ans, err := lib.ParBatch(f.Driver, reqs, f.Procs)
	if err != nil {
		lib.Fatal("driver: %v", err)
	}
	specAns, err := lib.ParBatch(f.Driver, specReqs, f.Procs)
	if err != nil {
		lib.Fatal("driver: %v", err)
	}
	specOf := make(map[int]string, len(specIdx))
	for k, i := range specIdx {
		specOf[i] = specAns[k]
	}
	specChecked, specNA, okParses := int64(0), int64(0), int64(0)
	for i, c := range cases {
		if strings.HasPrefix(goOut[i], "ok ") && (c.Op == "parseint" || c.Op == "parsedec") {
			okParses++
		}
		if ans[i] != goOut[i] {
			report(c, goOut[i], ans[i], "correspondence", specOf[i])
			continue
		}
		if decided[i] == "violates" {
			report(c, goOut[i], ans[i], "spec", specOf[i])
			continue
		}
		if s, ok := specOf[i]; ok {
			specChecked++
			if s == "na" {
				specNA++
			}
			if !judge(c, goOut[i], s, ask) {
				report(c, goOut[i], ans[i], "spec", specOf[i])
			}
		}
		if i%(len(cases)/6+1) == 0 {
			res.AddSample(map[string]any{"case": c, "go": goOut[i], "model": ans[i], "spec": specOf[i]})
		}
	}
	res.Evaluations = pairs*2 + int64(len(cases))
	res.DistinctNontrivial = pairsNontrivial + nontrivial
	res.Exhaustive = false
	res.Rule = fmt.Sprintf("distinct_nontrivial = distinct ordered pairs (n, m) with n != m compared by Less and Equal + distinct unary/literal requests. "+
		"Pairs: complete square of the boundary grid (%d magnitudes x 2 signs x fd 0..18 = %d numbers, %d ordered pairs) + %d seeded random numbers each against 8 "+
		"rescaled near-equal partners, 7 random ones and itself + numbers with fd 19..255 (panic behaviour). Unary String/Int/Trunc/print-parse on all of these numbers; "+
		"FromInt/FromUint on boundary and random integers; literals: complete enumeration of strings of length <= %d over %q (ParseInt, ParseDecimal at 1 and 3), "+
		"64-bit boundary mantissas with the dot at every position at every precision 0..19, for every precision f in 1..18 and every w < f written fraction digits the mantissas m with m*10^(f-w) at/around 2^63, 2^64, 2^64+2^62, 2*2^64, 3*2^64, 10^19 (with and without sign) and seeded random m whose scaled value exceeds 2^64 with a residue mod 2^64 below 2^63, 0..300 written fraction digits, all Unicode white-space encodings and look-alikes around literals, "+
		"%d seeded random structured literals (decimal, base-0, underscores, junk); fraction-digits arguments through YANG text and Process. "+
		"Every Go answer is compared with the compiled model and, inside the property's domain, with the exact-arithmetic specification.",
		len(mags), len(grid), gridPairs, nRand, maxLen, alpha, nLit)
	res.Distribution["grid_numbers"] = len(grid)
	res.Distribution["grid_pairs"] = gridPairs
	res.Distribution["pairs_total"] = pairs
	res.Distribution["random_numbers"] = nRand
	res.Distribution["enumerated_short_strings"] = enumCount
	res.Distribution["scaled_mantissa_boundary_literals"] = scaledCount
	res.Distribution["cases_by_op"] = opCount
	res.Distribution["spec_evaluated_unary"] = specChecked
	res.Distribution["spec_not_applicable_literals"] = specNA
	res.Distribution["literals_parsed_ok"] = okParses
	res.Notes = append(res.Notes, "on an error ParseInt also returns a Number (Value = 2^64-1 on a range error); it is not compared",
		"addQuantum is unexported: it is exercised through the range functions by corr-c10")
	res.Write(f.Out)
}

// verdictFrom evaluates the specification on the Go answer of one case; spec is the specification's
// answer if already known, "" to ask the driver now.
func verdictFrom(c tcase, g, spec string, ask func(string) string) (string, string) {
	q, d := specReq(c, g)
	if d != "" {
		if d == "violates" {
			return d, "the Go answer " + g + " cannot be right for this input"
		}
		return d, "outside the domain of the property (model fidelity only)"
	}
	s := spec
	if s == "" {
		s = ask(q)
	}
	if judge(c, g, s, ask) {
		return "holds", "specification (" + q + ") says " + s + ", which the Go answer " + g + " satisfies"
	}
	return "violates", "specification (" + q + ") says " + s + ", Go says " + g
}

func verdict(c tcase, g string, ask func(string) string) (string, string) {
	return verdictFrom(c, g, "", ask)
}

func replay(f *lib.Flags) {
	raw, err := os.ReadFile(f.Replay)
	if err != nil {
		lib.Fatal("%v", err)
	}
	var p struct {
		Disagreement struct {
			Replay tcase `json:"replay"`
		} `json:"disagreement"`
	}
	if err := json.Unmarshal(raw, &p); err != nil {
		lib.Fatal("%v", err)
	}
	c := p.Disagreement.Replay
	d, err := lib.StartDriver(f.Driver)
	if err != nil {
		lib.Fatal("%v", err)
	}
	defer d.Close()
	ask := func(q string) string { a, _ := d.Ask(q); return a }
	g := runGo(c)
	m := ask(c.req())
	v, what := verdict(c, g, ask)
	fmt.Printf("input: %s\ngo:    %s\nmodel: %s\nspec:  %s (%s)\n", c.req(), g, m, v, what)
	if g != m || v == "violates" {
		os.Exit(1)
	}
}
