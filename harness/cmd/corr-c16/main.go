// corr-c16 (lexer/parser part of C16): the same comparison as corr-c02 — the position of every
// statement is part of the compared forest — plus a single-fault injector: the first positioned
// error of yang.Parse must stand at the position the reference reader computes from the text alone
// (drv_lex `spec.pos`) for the offending token, backslash or opener.  See harness/lexcorr.
package main

import "verif/harness/lexcorr"

func main() { lexcorr.Main(true) }
