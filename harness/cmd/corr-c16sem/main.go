// corr-c16sem: C16, third sentence — every file:line:col in an error from building or resolving
// a module is the start of a statement of that file, namely the unknown substatement itself, the
// statement that lacks a mandatory substatement, or the type, uses, range, length or enum
// statement whose name or value is bad.
//
// Single-semantic-fault injector over valid generated modules.  One fault kind per positioned
// error class of harness/lib/errclass.go (several for the classes the property names: unknown
// type / prefix in leaf, leaf-list, typedef, union member and deviate type, with a local, an
// own-prefixed, a foreign-prefixed and an undeclared-prefixed name).  The faulty statement is
// addressed by a unique marker, its true position is read off the generic parse
// (Statement.Location), and
//
//   - some error of the expected class must stand exactly at that position,
//   - no error may stand anywhere else (an error's position is the leading file:line:col of its
//     message or of a message wrapped in "[…]"; positions merely mentioned on continuation lines
//     must be statement starts),
//   - every position of every run must be the start of some statement of the file it names.
//
// The expected statement per class is the one the Lean model assigns (Goyang/Props/C16Sem.lean:
// Spec.Positions.Names for the constrained classes; for duplicate-key the parent, duplicate-node
// the grouping, augment-not-found the augment, identity-base-* and the deviation classes the
// module statement of the (deviating) module, cycles the re-entered grouping / the identity).
//
// Source names (names.go): every set, and before them the hand-written single-fault modules of
// corpus/C16/sem, is processed a second time under names with characters special to some layer
// (fmt verbs, blanks, quotes, brackets, backslash, non-ASCII, very long, `:`), in memory and as files
// below directories of such names: the file part of every position must be the given name byte for
// byte, and everything judged above must come out as under the plain names.
//
// With -driver <drv_res> the error records (file:line:col:class) of every faulted set that the
// builder accepts are also compared with the resolver model (whole pipeline, plugFull): the tie
// between the theorems and the Go code.  `type-cycle` is the only class compared without position
// (lib.CanonErrs / Pipeline.normTypeErr); the position inside a wrapped `deviate-bad-type` message
// is checked by the marker oracle only.
package main

import (
	"encoding/json"
	"errors"
	"fmt"
	"os"
	"path/filepath"
	"regexp"
	"sort"
	"strings"

	"github.com/openconfig/goyang/pkg/yang"
	"github.com/openconfig/goyang/pkg/yangentry"
	"verif/harness/gen"
	"verif/harness/lib"
	"verif/harness/rescorr"
)

type tcase struct {
	Names  []string `json:"names"`
	Texts  []string `json:"texts"`
	Fault  string   `json:"fault"`
	Marker string   `json:"marker"`
	// MarkerIsKeyword: the marker is the keyword of the faulty statement (else its argument).
	// (Old form, kept for recorded replays; Key is used when set.)
	MarkerIsKeyword bool `json:"marker_is_keyword"`
	// Key addresses the statement(s) the error must stand at:
	//   kw:<keyword> | arg:<argument> | sub:<parent argument>/<keyword> | parentof:<child argument>
	Key string `json:"key,omitempty"`
	// File restricts Key to one file ("" = any).
	File string `json:"file,omitempty"`
	// Class is the expected class (lib.ErrClass) of the error at that statement ("" = any).
	Class string `json:"class,omitempty"`
	// Also: keys of further statements an error of this fault may stand at.
	Also []string `json:"also,omitempty"`
	// Or: keys of statements that are as good as Key (which statement of a cycle of typedefs is
	// named depends on where the cycle is entered).
	Or []string `json:"or,omitempty"`
	// Naming: the names the texts are handed to goyang under, when these are not Names (names.go).
	// Positions are translated back to Names before anything is judged, and a file part that is
	// not exactly a given name is a finding (BadFile).
	Naming *naming `json:"naming,omitempty"`
}

func (c tcase) key() string {
	if c.Key != "" {
		return c.Key
	}
	if c.Marker == "" {
		return ""
	}
	if c.MarkerIsKeyword {
		return "kw:" + c.Marker
	}
	return "arg:" + c.Marker
}

var posRe = regexp.MustCompile(`^(\S+?):(\d+):(\d+): `)

// starts collects the positions of all statements of a text, and the positions by marker key.
func starts(name, text string) (map[string]bool, map[string][]string) {
	ck := name + "\x00" + text
	if e, ok := startsCache[ck]; ok {
		return e.pos, e.byKey
	}
	pos, byKey := starts1(name, text)
	if len(startsCache) > 64 {
		startsCache = map[string]startsEntry{}
	}
	startsCache[ck] = startsEntry{pos, byKey}
	return pos, byKey
}

type startsEntry struct {
	pos   map[string]bool
	byKey map[string][]string
}

// (the same text is looked at by every mode of loading)
var startsCache = map[string]startsEntry{}

func starts1(name, text string) (map[string]bool, map[string][]string) {
	pos := map[string]bool{}
	byKey := map[string][]string{}
	ss, err := yang.Parse(text, name)
	if err != nil {
		return pos, byKey
	}
	var walk func(s *yang.Statement)
	walk = func(s *yang.Statement) {
		loc := s.Location()
		pos[loc] = true
		byKey["kw:"+s.Keyword] = append(byKey["kw:"+s.Keyword], loc)
		if s.HasArgument {
			byKey["arg:"+s.Argument] = append(byKey["arg:"+s.Argument], loc)
		}
		for _, c := range s.SubStatements() {
			if s.HasArgument {
				k := "sub:" + s.Argument + "/" + c.Keyword
				byKey[k] = append(byKey[k], c.Location())
			}
			if c.HasArgument {
				k := "parentof:" + c.Argument
				byKey[k] = append(byKey[k], loc)
			}
			walk(c)
		}
	}
	for _, s := range ss {
		walk(s)
	}
	return pos, byKey
}

type epos struct {
	Loc   string
	Class string
}

type verdict struct {
	Errors    []string // the messages, positions translated back to the names of the texts
	Raw       []string // the messages as goyang wrote them
	Expected  []string // the positions the marker addresses
	At        []epos   // positions errors stand at
	Named     bool     // some error of the expected class stands at an expected position
	Elsewhere string   // an error that stands at another statement
	Stray     string   // a position that is not a statement start
	NoError   bool
	ParseFail bool
	errs      []error
	// StmtDiff: a loaded module holds a statement whose Location() is not the position of a
	// statement of the text it was loaded from (or lacks one).
	StmtDiff string
	// BadFile: a position whose file part is not the name / path of a text of the set.
	BadFile string
	// Loaded: indices of the texts that ended up loaded (files-on-disk modes).
	Loaded []int
}

// How a set is handed to goyang.
const (
	inMemory  = iota // Modules.Parse(text, name) for every text
	readPaths        // every text written to a fresh directory, Modules.Read(<dir>/<name>) for each
	readRoots        // AddPath(dir), Modules.Read(<module name>) for some roots, Process loads what they import / include
	viaEntry         // yangentry.Parse(<paths>, [dir])
)

var corpusDir = lib.Root() + "/corpus/C16/sem"

var modeName = []string{"Modules.Parse", "Modules.Read(path)", "AddPath + Read(name) of roots + auto-loading", "yangentry.Parse"}

func run(c tcase) (verdict, string) { return runMode(c, inMemory, nil, 0) }

// stmtLocs collects Location() of every statement of the loaded (sub)modules, per file.
func stmtLocs(ms *yang.Modules, strip func(string) string) map[string]map[string]bool {
	out := map[string]map[string]bool{}
	seen := map[*yang.Module]bool{}
	var walk func(file string, s *yang.Statement)
	walk = func(file string, s *yang.Statement) {
		out[file][strip(s.Location())] = true
		for _, c := range s.SubStatements() {
			walk(file, c)
		}
	}
	for _, mm := range []map[string]*yang.Module{ms.Modules, ms.SubModules} {
		for _, m := range mm {
			if m == nil || seen[m] || m.Statement() == nil {
				continue
			}
			seen[m] = true
			loc := strip(m.Statement().Location())
			file := loc
			if mt := posRe.FindStringSubmatch(loc + ": "); mt != nil {
				file = mt[1]
			}
			if out[file] == nil {
				out[file] = map[string]bool{}
			}
			walk(file, m.Statement())
		}
	}
	return out
}

// Every file:line:col of a message (leading, wrapped or merely mentioned).
var locRe = regexp.MustCompile("([^\\s\\[\\]\"'`]+?):(\\d+):(\\d+)")

var revRe = regexp.MustCompile(`(?m)^\s*revision\s+"?(\d{4}-\d{2}-\d{2})"?\s*[;{]`)

// diskName is the name the file of a text gets on disk: <name>@<revision>.yang for a module
// that has a revision statement (RFC 7950 section 5.2; what the finder accepts for <name>).
func diskName(name, text string) string {
	rev := ""
	for _, m := range revRe.FindAllStringSubmatch(text, -1) {
		if m[1] > rev {
			rev = m[1]
		}
	}
	if rev == "" || strings.Contains(name, "@") || !strings.HasSuffix(name, ".yang") {
		return name
	}
	return strings.TrimSuffix(name, ".yang") + "@" + rev + ".yang"
}

var subdirs = []string{"", "sub", filepath.Join("sub", "deep")}

// runMode loads the set in the given way.  variant (files-on-disk modes): bit 0 = some files
// stand in subdirectories (reached through a `dir/...` path entry), the rest chooses which.
func runMode(c tcase, mode int, roots []int, variant int) (v verdict, crashed string) {
	defer func() {
		if r := recover(); r != nil {
			crashed = fmt.Sprint(r)
		}
	}()
	all := map[string]bool{}
	exp := map[string]bool{}
	also := map[string]bool{}
	for i := range c.Names {
		p, bk := starts(c.Names[i], c.Texts[i])
		for k := range p {
			all[k] = true
		}
		if c.File != "" && c.File != c.Names[i] {
			continue
		}
		for _, k := range append([]string{c.key()}, c.Or...) {
			if k == "" {
				continue
			}
			for _, loc := range bk[k] {
				if !exp[loc] {
					exp[loc] = true
					v.Expected = append(v.Expected, loc)
				}
			}
		}
		for _, k := range c.Also {
			for _, loc := range bk[k] {
				also[loc] = true
			}
		}
	}
	perFile := map[string]map[string]bool{}
	for i := range c.Names {
		perFile[c.Names[i]], _ = starts(c.Names[i], c.Texts[i])
	}
	ms := yang.NewModules()
	var errs []error
	// The file part of every position must be, exactly, the name the text was handed over under
	// (Modules.Parse) or the path of the file it was read from, as written; positions are then
	// compared under the name of the text.
	nameOf := map[string]string{}
	for _, n := range c.Names {
		nameOf[n] = n
	}
	given := c.Names
	nm := c.Naming
	if nm != nil && len(nm.Given) == len(c.Names) {
		given = nm.Given
		nameOf = map[string]string{}
		for i, n := range given {
			nameOf[n] = c.Names[i]
		}
	}
	var tr *translator
	strip := func(s string) string {
		if tr == nil {
			tr = newTranslator(nameOf) // (first use is after loading: nameOf is final)
		}
		out, bad := tr.translate(s)
		if bad != "" && v.BadFile == "" {
			v.BadFile = fmt.Sprintf("%q in %q", bad, s)
		}
		return out
	}
	if mode == inMemory {
		for i := range c.Names {
			if err := ms.Parse(c.Texts[i], given[i]); err != nil {
				errs = append(errs, err)
			}
		}
	} else {
		dir, err := os.MkdirTemp("", "c16sem")
		if err != nil {
			lib.Fatal("tempdir: %v", err)
		}
		defer os.RemoveAll(dir)
		dir, _ = filepath.EvalSymlinks(dir)
		// files are known to goyang under the path they were found at: <path entry>/<…>/<file>
		nameOf = map[string]string{}
		pathOf := make([]string, len(c.Names))
		// (a naming puts the whole set below a directory of its own and names the subdirectories;
		// where the file is read by its path the base name is decorated as well)
		if nm != nil && nm.Root != "" {
			dir = filepath.Join(dir, nm.Root)
		}
		for i := range c.Names {
			sd := ""
			if variant&1 == 1 {
				sd = subdirs[(variant>>1+i)%len(subdirs)]
				if nm != nil && len(nm.Dirs) == len(c.Names) {
					sd = nm.Dirs[i]
				}
			}
			base := diskName(c.Names[i], c.Texts[i])
			if nm != nil && mode != readRoots && len(nm.Base) == len(c.Names) && nm.Base[i] != "" {
				base = nm.Base[i]
			}
			pathOf[i] = filepath.Join(dir, sd, base)
			nameOf[pathOf[i]] = c.Names[i]
			os.MkdirAll(filepath.Dir(pathOf[i]), 0o755)
			if err := os.WriteFile(pathOf[i], []byte(c.Texts[i]), 0o644); err != nil {
				lib.Fatal("write: %v", err)
			}
		}
		switch mode {
		case readPaths:
			for i := range c.Names {
				if err := ms.Read(pathOf[i]); err != nil {
					errs = append(errs, err)
				}
			}
		case readRoots:
			if variant&1 == 1 {
				ms.AddPath(filepath.Join(dir, "..."))
			} else {
				ms.AddPath(dir)
			}
			for _, i := range roots {
				if err := ms.Read(strings.TrimSuffix(c.Names[i], ".yang")); err != nil {
					errs = append(errs, err)
				}
			}
		case viaEntry:
			var paths []string
			paths = append(paths, pathOf...)
			_, errs = yangentry.Parse(paths, []string{dir})
			ms = nil
		}
	}
	if ms != nil {
		if len(errs) == 0 {
			errs = ms.Process()
		} else {
			v.ParseFail = true
		}
		// every statement of every loaded (sub)module reports a position of the text it came from,
		// and every statement of that text is there
		idx := map[string]int{}
		for i, n := range c.Names {
			idx[n] = i
		}
		for file, locs := range stmtLocs(ms, strip) {
			if i, ok := idx[file]; ok {
				v.Loaded = append(v.Loaded, i)
			}
			want := perFile[file]
			for l := range locs {
				if !want[l] && v.StmtDiff == "" {
					v.StmtDiff = fmt.Sprintf("a statement of the module loaded from %s reports %s, which is not the start of a statement of that file", file, l)
				}
			}
			for l := range want {
				if !locs[l] && v.StmtDiff == "" {
					v.StmtDiff = fmt.Sprintf("no statement of the module loaded from %s reports %s, where a statement of that file starts", file, l)
				}
			}
		}
		sort.Ints(v.Loaded)
	}
	for i, e := range errs {
		v.Raw = append(v.Raw, e.Error())
		errs[i] = errors.New(strip(e.Error()))
	}
	v.errs = errs
	v.NoError = len(errs) == 0
	for _, e := range errs {
		msg := e.Error()
		v.Errors = append(v.Errors, msg)
		for li, line := range strings.Split(msg, "\n") {
			// an error may wrap others ("deviation has unresolvable type, [pos: …]"): every such
			// position is the position of an error; a position on a continuation line is a mention
			for _, seg := range strings.Split(line, "[") {
				seg = strings.TrimSpace(seg)
				m := posRe.FindStringSubmatch(seg)
				if m == nil {
					continue
				}
				loc := m[1] + ":" + m[2] + ":" + m[3]
				if !all[loc] && v.Stray == "" {
					v.Stray = loc + " in: " + msg
				}
				if li > 0 {
					continue
				}
				_, _, _, cls := lib.ErrClass(seg)
				v.At = append(v.At, epos{loc, cls})
				switch {
				case exp[loc]:
					if c.Class == "" || c.Class == cls {
						v.Named = true
					}
				case also[loc]:
				default:
					if v.Elsewhere == "" {
						v.Elsewhere = loc + " (" + cls + ") in: " + msg
					}
				}
			}
		}
	}
	return v, ""
}

// ---------------------------------------------------------------------------------------------
// fault injection

type site struct {
	m *gen.Module
	n *gen.Node
}

type ictx struct {
	r    interface{ Intn(int) int }
	set  *gen.Set
	mk   string
	c    *tcase
	post func(names, texts []string) ([]string, []string) // text-level edits after rendering

	holders, leaves, containers, types []site
}

func (x *ictx) collect() {
	x.holders, x.leaves, x.containers, x.types = nil, nil, nil, nil
	var walk func(m *gen.Module, n *gen.Node, inDev bool)
	walk = func(m *gen.Module, n *gen.Node, inDev bool) {
		for _, c := range n.Kids {
			dev := inDev || c.Kw == "deviation"
			if !dev {
				switch c.Kw {
				case "leaf":
					x.leaves = append(x.leaves, site{m, c})
				case "container", "list":
					x.containers = append(x.containers, site{m, c})
					x.holders = append(x.holders, site{m, c})
				case "grouping", "case", "input", "output", "notification", "augment":
					x.holders = append(x.holders, site{m, c})
				case "type":
					x.types = append(x.types, site{m, c})
				}
			}
			walk(m, c, dev)
		}
	}
	for _, m := range x.set.Mods {
		x.holders = append(x.holders, site{m, m.Body})
		walk(m, m.Body, false)
	}
}

func pick(r interface{ Intn(int) int }, l []site) *site {
	if len(l) == 0 {
		return nil
	}
	return &l[r.Intn(len(l))]
}

func nd(kw, arg string, kids ...*gen.Node) *gen.Node { return &gen.Node{Kw: kw, Arg: arg, Kids: kids} }

// holder picks a statement that may hold data definitions (module body, container, list,
// grouping, case, rpc input / output, notification, augment).
// A holder at which one more harmless leaf is itself a fault (a grouping used twice by one
// statement: every addition collides with itself) is passed over.
func (x *ictx) holder() *site {
	for try := 0; try < 8; try++ {
		s := pick(x.r, x.holders)
		old := s.n.Kids
		s.n.Kids = append(append([]*gen.Node{}, old...), nd("leaf", "pr"+x.mk, nd("type", "string")))
		names, texts := x.set.Files()
		v, crash := run(tcase{Names: names, Texts: texts})
		s.n.Kids = old
		if crash == "" && v.NoError {
			return s
		}
	}
	m := x.set.Mods[x.r.Intn(len(x.set.Mods))]
	return &site{m, m.Body}
}

// top picks a module or submodule body.
func (x *ictx) top() *site {
	m := x.set.Mods[x.r.Intn(len(x.set.Mods))]
	return &site{m, m.Body}
}

// mainTop picks the body of a module that is not a submodule.
func (x *ictx) mainTop() *site {
	var l []site
	for _, m := range x.set.Mods {
		if !m.Sub {
			l = append(l, site{m, m.Body})
		}
	}
	return pick(x.r, l)
}

// lib adds a helper module (typedef lt, grouping lg, identity li) to the set, imports it into m
// and returns the import prefix.
func (x *ictx) lib(m *gen.Module) string {
	l := &gen.Module{Name: "lib" + x.mk, Prefix: "lq" + x.mk, Namespace: "urn:lib" + x.mk, ImportPrefix: map[*gen.Module]string{}}
	l.Body = nd("module", l.Name,
		nd("typedef", "lt", nd("type", "string")),
		nd("grouping", "lg", nd("leaf", "lgq", nd("type", "string"))),
		nd("identity", "li"))
	x.set.Mods = append([]*gen.Module{l}, x.set.Mods...)
	m.Imports = append(m.Imports, l)
	p := "lp" + x.mk
	m.ImportPrefix[l] = p
	return p
}

func (x *ictx) add(s *site, n *gen.Node) { s.n.Kids = append(s.n.Kids, n) }

func (x *ictx) expect(fault, key, class string) {
	x.c.Fault, x.c.Key, x.c.Class = fault, key, class
	x.c.Marker = key
}

// typeName returns a type name of the given flavour that does not resolve, and the class of the
// error: 0 local, 1 own prefix, 2 foreign prefix (imported module lacks the typedef), 3 a prefix
// that no import declares.
func (x *ictx) typeName(m *gen.Module, flavour int) (string, string) {
	switch flavour {
	case 0:
		return "ty" + x.mk, "unknown-type"
	case 1:
		return m.Prefix + ":ty" + x.mk, "unknown-type"
	case 2:
		return x.lib(m) + ":ty" + x.mk, "unknown-type"
	default:
		return "px" + x.mk + ":lt", "unknown-prefix"
	}
}

var flavourName = []string{"local name", "own prefix", "foreign prefix, no such typedef", "undeclared prefix"}

type fault struct {
	name string
	f    func(x *ictx) bool
}

func typeFaults() []fault {
	var fs []fault
	for fl := 0; fl < 4; fl++ {
		fl := fl
		fs = append(fs,
			fault{"unknown type in leaf: " + flavourName[fl], func(x *ictx) bool {
				s := x.holder()
				tn, cls := x.typeName(s.m, fl)
				x.add(s, nd("leaf", "lf"+x.mk, nd("type", tn)))
				x.expect("unknown type in leaf: "+flavourName[fl], "arg:"+tn, cls)
				return true
			}},
			fault{"unknown type in leaf-list: " + flavourName[fl], func(x *ictx) bool {
				s := x.holder()
				tn, cls := x.typeName(s.m, fl)
				x.add(s, nd("leaf-list", "ll"+x.mk, nd("type", tn)))
				x.expect("unknown type in leaf-list: "+flavourName[fl], "arg:"+tn, cls)
				return true
			}},
			fault{"unknown type in typedef: " + flavourName[fl], func(x *ictx) bool {
				s := x.top()
				tn, cls := x.typeName(s.m, fl)
				x.add(s, nd("typedef", "td"+x.mk, nd("type", tn)))
				x.expect("unknown type in typedef: "+flavourName[fl], "arg:"+tn, cls)
				return true
			}},
			fault{"unknown type in union member: " + flavourName[fl], func(x *ictx) bool {
				s := x.holder()
				tn, cls := x.typeName(s.m, fl)
				x.add(s, nd("leaf", "lf"+x.mk, nd("type", "union", nd("type", "string"), nd("type", tn))))
				x.expect("unknown type in union member: "+flavourName[fl], "arg:"+tn, cls)
				return true
			}},
			fault{"unknown type in typedef used by a leaf: " + flavourName[fl], func(x *ictx) bool {
				s := x.top()
				tn, cls := x.typeName(s.m, fl)
				x.add(s, nd("typedef", "td"+x.mk, nd("type", tn)))
				x.add(s, nd("leaf", "lf"+x.mk, nd("type", "td"+x.mk)))
				x.expect("unknown type in typedef used by a leaf: "+flavourName[fl], "arg:"+tn, cls)
				return true
			}},
			fault{"unknown type in deviate replace: " + flavourName[fl], func(x *ictx) bool {
				s := x.mainTop()
				tn, cls := x.typeName(s.m, fl)
				x.add(s, nd("leaf", "dl"+x.mk, nd("type", "string")))
				x.add(s, nd("deviation", "/"+s.m.Prefix+":dl"+x.mk, nd("deviate", "replace", nd("type", tn))))
				x.expect("unknown type in deviate replace: "+flavourName[fl], "arg:"+tn, cls)
				return true
			}})
	}
	return fs
}

// Arguments of `value` / `position` that are not usable as a number at all (the error names the
// enum / bit statement, not the value statement).  (`+5`, `0x10` and `5 ` are accepted by goyang
// and by the model: strconv.ParseUint with base 0 after trimming; no fault.)
var unusableNumbers = []string{"two", "", "-", "18446744073709551616", "9223372036854775808", "-9223372036854775809", "1.5", "--1", "1e3", "5x"}

var placements = []string{"leaf", "typedef", "union member", "deviate replace"}

// place puts the type statement t at one of the four placements (leaf, typedef, union member,
// deviate replace).
func (x *ictx) place(pl int, t *gen.Node) {
	switch pl {
	case 0:
		x.add(x.holder(), nd("leaf", "lf"+x.mk, t))
	case 1:
		x.add(x.top(), nd("typedef", "td"+x.mk, t))
	case 2:
		x.add(x.holder(), nd("leaf", "lf"+x.mk, nd("type", "union", nd("type", "string"), t)))
	default:
		s := x.mainTop()
		x.add(s, nd("leaf", "dl"+x.mk, nd("type", "string")))
		x.add(s, nd("deviation", "/"+s.m.Prefix+":dl"+x.mk, nd("deviate", "replace", t)))
	}
}

func numberFaults() []fault {
	var fs []fault
	for pl := range placements {
		pl := pl
		fs = append(fs,
			fault{"enum with an unusable value: " + placements[pl], func(x *ictx) bool {
				v := unusableNumbers[x.r.Intn(len(unusableNumbers))]
				x.place(pl, nd("type", "enumeration", nd("enum", "ok"), nd("enum", "en"+x.mk, nd("value", v))))
				x.expect("enum with an unusable value: "+placements[pl], "arg:en"+x.mk, "")
				return true
			}},
			fault{"bit with an unusable position: " + placements[pl], func(x *ictx) bool {
				v := unusableNumbers[x.r.Intn(len(unusableNumbers))]
				x.place(pl, nd("type", "bits", nd("bit", "ok"), nd("bit", "bi"+x.mk, nd("position", v))))
				x.expect("bit with an unusable position: "+placements[pl], "arg:bi"+x.mk, "")
				return true
			}},
			fault{"enum value beyond int32: " + placements[pl], func(x *ictx) bool {
				x.place(pl, nd("type", "enumeration", nd("enum", "ok"), nd("enum", "en"+x.mk, nd("value", "2147483648"))))
				x.expect("enum value beyond int32: "+placements[pl], "arg:en"+x.mk, "enum-too-large")
				return true
			}},
			fault{"bit name twice: " + placements[pl], func(x *ictx) bool {
				x.place(pl, nd("type", "bits", nd("bit", "ok"), nd("bit", "ok", nd("description", "ds"+x.mk))))
				x.expect("bit name twice: "+placements[pl], "parentof:ds"+x.mk, "enum-dup-name")
				return true
			}})
	}
	return fs
}

// leafWith adds `leaf lf<mk> { type <t> { subs } }` to a random holder.
func (x *ictx) leafWith(t string, subs ...*gen.Node) *site {
	s := x.holder()
	x.add(s, nd("leaf", "lf"+x.mk, nd("type", t, subs...)))
	return s
}

func faults() []fault {
	fs := []fault{
		// ---- AST builder (Modules.Parse)
		{"unknown substatement", func(x *ictx) bool {
			s := pick(x.r, x.containers)
			if s == nil {
				return false
			}
			x.add(s, nd("bogus-"+x.mk, "v"))
			x.expect("unknown substatement", "kw:bogus-"+x.mk, "unknown-field")
			return true
		}},
		{"substatement not allowed here", func(x *ictx) bool {
			s := pick(x.r, x.leaves)
			if s == nil {
				return false
			}
			x.add(s, nd("key", "ky"+x.mk))
			x.expect("substatement not allowed here", "arg:ky"+x.mk, "unknown-field")
			return true
		}},
		{"unknown top-level statement", func(x *ictx) bool {
			x.post = func(names, texts []string) ([]string, []string) {
				i := x.r.Intn(len(texts))
				texts[i] += "bogus-" + x.mk + " v;\n"
				return names, texts
			}
			x.expect("unknown top-level statement", "kw:bogus-"+x.mk, "unknown-field")
			return true
		}},
		{"leaf without type", func(x *ictx) bool {
			x.add(x.holder(), nd("leaf", "lf"+x.mk, nd("description", "d")))
			x.expect("leaf without type", "arg:lf"+x.mk, "missing-required")
			return true
		}},
		{"leaf-list without type", func(x *ictx) bool {
			x.add(x.holder(), nd("leaf-list", "ll"+x.mk, nd("description", "d")))
			x.expect("leaf-list without type", "arg:ll"+x.mk, "missing-required")
			return true
		}},
		{"typedef without type", func(x *ictx) bool {
			x.add(x.top(), nd("typedef", "td"+x.mk, nd("description", "d")))
			x.expect("typedef without type", "arg:td"+x.mk, "missing-required")
			return true
		}},
		{"import without prefix", func(x *ictx) bool {
			x.add(x.top(), nd("import", "im"+x.mk))
			x.expect("import without prefix", "arg:im"+x.mk, "missing-required")
			return true
		}},
		{"deviation without deviate", func(x *ictx) bool {
			s := x.mainTop()
			x.add(s, nd("deviation", "/"+s.m.Prefix+":dv"+x.mk, nd("description", "d")))
			x.expect("deviation without deviate", "arg:/"+s.m.Prefix+":dv"+x.mk, "missing-required")
			return true
		}},
		{"belongs-to in a module", func(x *ictx) bool {
			s := x.mainTop()
			x.add(s, nd("belongs-to", "bt"+x.mk, nd("prefix", "bp")))
			x.expect("belongs-to in a module", "parentof:bt"+x.mk, "unknown-field")
			return true
		}},
		{"module without prefix", func(x *ictx) bool {
			x.post = func(names, texts []string) ([]string, []string) {
				return append(names, "mq"+x.mk+".yang"), append(texts, "module mq"+x.mk+" {\n  namespace \"urn:mq\";\n}\n")
			}
			x.expect("module without prefix", "arg:mq"+x.mk, "missing-required")
			return true
		}},
		{"submodule without belongs-to", func(x *ictx) bool {
			x.post = func(names, texts []string) ([]string, []string) {
				return append(names, "sq"+x.mk+".yang"), append(texts, "submodule sq"+x.mk+" {\n  description d;\n}\n")
			}
			x.expect("submodule without belongs-to", "arg:sq"+x.mk, "missing-required")
			return true
		}},
		{"module name with @", func(x *ictx) bool {
			l := &gen.Module{Name: "mm" + x.mk + "@1", Prefix: "mp", Namespace: "urn:mm" + x.mk, ImportPrefix: map[*gen.Module]string{}}
			l.Body = nd("module", l.Name)
			l.File = "mm" + x.mk + ".yang"
			x.set.Mods = append(x.set.Mods, l)
			x.expect("module name with @", "arg:"+l.Name, "bad-module-name")
			return true
		}},

		// ---- entry layer
		{"unknown grouping: local name", func(x *ictx) bool {
			x.add(x.holder(), nd("uses", "gr"+x.mk))
			x.expect("unknown grouping: local name", "arg:gr"+x.mk, "unknown-group")
			return true
		}},
		{"unknown grouping: own prefix", func(x *ictx) bool {
			s := x.holder()
			x.add(s, nd("uses", s.m.Prefix+":gr"+x.mk))
			x.expect("unknown grouping: own prefix", "arg:"+s.m.Prefix+":gr"+x.mk, "unknown-group")
			return true
		}},
		{"unknown grouping: foreign prefix, no such grouping", func(x *ictx) bool {
			s := x.holder()
			p := x.lib(s.m)
			x.add(s, nd("uses", p+":gr"+x.mk))
			x.expect("unknown grouping: foreign prefix, no such grouping", "arg:"+p+":gr"+x.mk, "unknown-group")
			return true
		}},
		{"unknown grouping: undeclared prefix", func(x *ictx) bool {
			x.add(x.holder(), nd("uses", "px"+x.mk+":lg"))
			x.expect("unknown grouping: undeclared prefix", "arg:px"+x.mk+":lg", "unknown-group")
			return true
		}},
		{"grouping that uses itself", func(x *ictx) bool {
			s := x.top()
			x.add(s, nd("grouping", "gc"+x.mk, nd("uses", s.m.Prefix+":gc"+x.mk)))
			x.add(s, nd("container", "cc"+x.mk, nd("uses", "gc"+x.mk)))
			x.expect("grouping that uses itself", "parentof:"+s.m.Prefix+":gc"+x.mk, "cycle")
			return true
		}},
		{"bad config value", func(x *ictx) bool {
			x.add(x.holder(), nd("container", "cc"+x.mk, nd("config", "maybe")))
			x.expect("bad config value", "arg:cc"+x.mk, "bad-tristate")
			return true
		}},
		{"bad config value on a leaf", func(x *ictx) bool {
			x.add(x.holder(), nd("leaf", "lf"+x.mk, nd("type", "string"), nd("config", "maybe")))
			x.expect("bad config value on a leaf", "arg:lf"+x.mk, "bad-tristate")
			return true
		}},
		{"bad mandatory value", func(x *ictx) bool {
			x.add(x.holder(), nd("leaf", "lf"+x.mk, nd("type", "string"), nd("mandatory", "perhaps")))
			x.expect("bad mandatory value", "arg:lf"+x.mk, "bad-tristate")
			return true
		}},
		{"bad max-elements", func(x *ictx) bool {
			x.add(x.holder(), nd("leaf-list", "ll"+x.mk, nd("type", "string"), nd("max-elements", "mx"+x.mk)))
			x.expect("bad max-elements", "arg:mx"+x.mk, "bad-max-elements")
			return true
		}},
		{"max-elements 0 on a list", func(x *ictx) bool {
			x.add(x.holder(), nd("list", "li"+x.mk, nd("key", "k"), nd("leaf", "k", nd("type", "string")), nd("max-elements", "0")))
			x.expect("max-elements 0 on a list", "sub:li"+x.mk+"/max-elements", "bad-max-elements")
			return true
		}},
		{"bad min-elements", func(x *ictx) bool {
			x.add(x.holder(), nd("leaf-list", "ll"+x.mk, nd("type", "string"), nd("min-elements", "mn"+x.mk)))
			x.expect("bad min-elements", "arg:mn"+x.mk, "bad-min-elements")
			return true
		}},
		{"bad ordered-by", func(x *ictx) bool {
			x.add(x.holder(), nd("leaf-list", "ll"+x.mk, nd("type", "string"), nd("ordered-by", "ob"+x.mk)))
			x.expect("bad ordered-by", "arg:ob"+x.mk, "bad-ordered-by")
			return true
		}},
		{"duplicate key", func(x *ictx) bool {
			x.add(x.holder(), nd("container", "cc"+x.mk, nd("leaf", "d", nd("type", "string")), nd("leaf", "d", nd("type", "int8"))))
			x.expect("duplicate key", "arg:cc"+x.mk, "duplicate-key")
			return true
		}},
		{"duplicate node from a grouping", func(x *ictx) bool {
			s := x.top()
			// the second grouping merged into the container brings a name that is taken
			x.add(s, nd("grouping", "gd"+x.mk, nd("leaf", "d", nd("type", "string"))))
			x.add(s, nd("grouping", "ge"+x.mk, nd("leaf", "d", nd("type", "int8"))))
			x.add(s, nd("container", "cc"+x.mk, nd("uses", s.m.Prefix+":gd"+x.mk), nd("uses", s.m.Prefix+":ge"+x.mk)))
			x.expect("duplicate node from a grouping", "arg:ge"+x.mk, "duplicate-node")
			return true
		}},
		{"augment target not found", func(x *ictx) bool {
			s := x.mainTop()
			x.add(s, nd("augment", "/"+s.m.Prefix+":nn"+x.mk, nd("leaf", "al", nd("type", "string"))))
			x.expect("augment target not found", "arg:/"+s.m.Prefix+":nn"+x.mk, "augment-not-found")
			return true
		}},
		{"augment brings a name that is taken", func(x *ictx) bool {
			s := x.mainTop()
			x.add(s, nd("container", "tc"+x.mk, nd("leaf", "d", nd("type", "string"))))
			x.add(s, nd("augment", "/"+s.m.Prefix+":tc"+x.mk, nd("leaf", "d", nd("type", "int8"))))
			x.expect("augment brings a name that is taken", "arg:/"+s.m.Prefix+":tc"+x.mk, "duplicate-node")
			return true
		}},
		{"augment of a leaf", func(x *ictx) bool {
			s := x.mainTop()
			x.add(s, nd("leaf", "tl"+x.mk, nd("type", "string")))
			x.add(s, nd("augment", "/"+s.m.Prefix+":tl"+x.mk, nd("leaf", "al", nd("type", "string"))))
			x.expect("augment of a leaf", "arg:/"+s.m.Prefix+":tl"+x.mk, "augment-not-found")
			return true
		}},

		// ---- type layer: restrictions
		{"range outside the parent", func(x *ictx) bool {
			x.leafWith("int8", nd("range", "1..3000"))
			x.expect("range outside the parent", "arg:1..3000", "bad-range")
			return true
		}},
		{"range outside a typedef's range", func(x *ictx) bool {
			s := x.top()
			x.add(s, nd("typedef", "td"+x.mk, nd("type", "int8", nd("range", "1..10"))))
			x.add(s, nd("leaf", "lf"+x.mk, nd("type", "td"+x.mk, nd("range", "5..20"))))
			x.expect("range outside a typedef's range", "sub:td"+x.mk+"/range", "bad-range")
			return true
		}},
		{"length out of order", func(x *ictx) bool {
			x.leafWith("string", nd("length", "7..3"))
			x.expect("length out of order", "arg:7..3", "bad-length")
			return true
		}},
		{"negative length", func(x *ictx) bool {
			x.leafWith("string", nd("length", "-4..3"))
			// (reported as `bad length`: the `negative length` site of types.go cannot be reached,
			// a length that parses within a uint64 parent has no negative part)
			x.expect("negative length", "arg:-4..3", "bad-length")
			return true
		}},
		{"enum value too large", func(x *ictx) bool {
			x.leafWith("enumeration", nd("enum", "ok"), nd("enum", "en"+x.mk, nd("value", "99999999999")))
			x.expect("enum value too large", "arg:en"+x.mk, "enum-too-large")
			return true
		}},
		{"enum value too small", func(x *ictx) bool {
			x.leafWith("enumeration", nd("enum", "ok"), nd("enum", "en"+x.mk, nd("value", "-99999999999")))
			x.expect("enum value too small", "arg:en"+x.mk, "enum-too-small")
			return true
		}},
		{"enum name twice", func(x *ictx) bool {
			x.leafWith("enumeration", nd("enum", "ok"), nd("enum", "ok", nd("description", "ds"+x.mk)))
			x.expect("enum name twice", "parentof:ds"+x.mk, "enum-dup-name")
			return true
		}},
		{"enum value twice", func(x *ictx) bool {
			x.leafWith("enumeration", nd("enum", "ok", nd("value", "5")), nd("enum", "en"+x.mk, nd("value", "5")))
			x.expect("enum value twice", "arg:en"+x.mk, "enum-dup-value")
			return true
		}},
		{"enum after the largest value", func(x *ictx) bool {
			x.leafWith("enumeration", nd("enum", "ok", nd("value", "2147483647")), nd("enum", "en"+x.mk))
			x.expect("enum after the largest value", "arg:en"+x.mk, "enum-max-reached")
			return true
		}},
		{"bit position too large", func(x *ictx) bool {
			x.leafWith("bits", nd("bit", "ok"), nd("bit", "bi"+x.mk, nd("position", "4294967296")))
			x.expect("bit position too large", "arg:bi"+x.mk, "enum-too-large")
			return true
		}},
		{"bit name twice", func(x *ictx) bool {
			x.leafWith("bits", nd("bit", "ok"), nd("bit", "ok", nd("description", "ds"+x.mk)))
			x.expect("bit name twice", "parentof:ds"+x.mk, "enum-dup-name")
			return true
		}},
		{"fraction-digits on a string", func(x *ictx) bool {
			x.leafWith("string", nd("fraction-digits", "2"))
			x.expect("fraction-digits on a string", "sub:lf"+x.mk+"/type", "fraction-digits-not-decimal")
			return true
		}},
		{"fraction-digits overridden", func(x *ictx) bool {
			s := x.top()
			x.add(s, nd("typedef", "td"+x.mk, nd("type", "decimal64", nd("fraction-digits", "2"))))
			x.add(s, nd("leaf", "lf"+x.mk, nd("type", "td"+x.mk, nd("fraction-digits", "3"))))
			x.expect("fraction-digits overridden", "sub:lf"+x.mk+"/type", "fraction-digits-override")
			return true
		}},
		{"decimal64 without fraction-digits", func(x *ictx) bool {
			x.leafWith("decimal64")
			x.expect("decimal64 without fraction-digits", "sub:lf"+x.mk+"/type", "")
			return true
		}},
		{"identityref without base", func(x *ictx) bool {
			x.leafWith("identityref")
			x.expect("identityref without base", "sub:lf"+x.mk+"/type", "identityref-no-base")
			return true
		}},
		{"bad posix-pattern", func(x *ictx) bool {
			s := x.holder()
			l := &gen.Module{Name: "openconfig-extensions", Prefix: "oc-ext", Namespace: "urn:oc-ext", ImportPrefix: map[*gen.Module]string{}}
			l.Body = nd("module", l.Name, nd("extension", "posix-pattern", nd("argument", "pattern")))
			x.set.Mods = append([]*gen.Module{l}, x.set.Mods...)
			s.m.Imports = append(s.m.Imports, l)
			s.m.ImportPrefix[l] = "oc-ext"
			x.add(s, nd("leaf", "lf"+x.mk, nd("type", "string", nd("oc-ext:posix-pattern", "(pp"+x.mk))))
			x.expect("bad posix-pattern", "arg:(pp"+x.mk, "bad-pattern")
			return true
		}},

		{"fraction-digits out of range", func(x *ictx) bool {
			x.leafWith("decimal64", nd("fraction-digits", "19"))
			x.expect("fraction-digits out of range", "sub:lf"+x.mk+"/type", "")
			return true
		}},
		{"typedef cycle", func(x *ictx) bool {
			s := x.top()
			x.add(s, nd("typedef", "ta"+x.mk, nd("type", "tb"+x.mk)))
			x.add(s, nd("typedef", "tb"+x.mk, nd("type", "ta"+x.mk)))
			// which type statement of the cycle is named depends on where it is entered
			x.expect("typedef cycle", "sub:ta"+x.mk+"/type", "cycle")
			x.c.Or = []string{"sub:tb" + x.mk + "/type"}
			return true
		}},

		// ---- identity layer
		{"identity with an unknown local base", func(x *ictx) bool {
			s := x.mainTop()
			x.add(s, nd("identity", "id"+x.mk, nd("base", "nb"+x.mk)))
			x.expect("identity with an unknown local base", "kw:module", "identity-base-local")
			x.c.File = s.m.FileName()
			return true
		}},
		{"identity with an unknown remote base", func(x *ictx) bool {
			s := x.mainTop()
			p := x.lib(s.m)
			x.add(s, nd("identity", "id"+x.mk, nd("base", p+":nb"+x.mk)))
			x.expect("identity with an unknown remote base", "kw:module", "identity-base-remote")
			x.c.File = s.m.FileName()
			return true
		}},
		{"identity base with an undeclared prefix", func(x *ictx) bool {
			s := x.mainTop()
			x.add(s, nd("identity", "id"+x.mk, nd("base", "px"+x.mk+":li")))
			x.expect("identity base with an undeclared prefix", "kw:module", "identity-prefix")
			x.c.File = s.m.FileName()
			return true
		}},
		{"identity derived from itself", func(x *ictx) bool {
			s := x.mainTop()
			x.add(s, nd("identity", "ia"+x.mk, nd("base", "ib"+x.mk)))
			x.add(s, nd("identity", "ib"+x.mk, nd("base", "ia"+x.mk)))
			x.expect("identity derived from itself", "parentof:ib"+x.mk, "cycle")
			x.c.Also = []string{"parentof:ia" + x.mk}
			return true
		}},
		{"identityref leaf with an unknown base", func(x *ictx) bool {
			s := x.holder()
			x.add(s, nd("leaf", "lf"+x.mk, nd("type", "identityref", nd("base", "nb"+x.mk))))
			x.expect("identityref leaf with an unknown base", "kw:module", "identity-base-local")
			x.c.File = s.m.FileName()
			if s.m.Sub {
				x.c.Key = "kw:submodule"
			}
			return true
		}},

		{"included submodule of a module that is not loaded", func(x *ictx) bool {
			s := x.mainTop()
			l := &gen.Module{Name: "sb" + x.mk, Prefix: "sp", Sub: true, ImportPrefix: map[*gen.Module]string{},
				Owner: &gen.Module{Name: "nm" + x.mk}}
			l.Body = nd("submodule", l.Name)
			x.set.Mods = append([]*gen.Module{l}, x.set.Mods...)
			s.m.Includes = append(s.m.Includes, l)
			x.expect("included submodule of a module that is not loaded", "arg:nm"+x.mk, "no-such-module")
			return true
		}},

		// ---- deviation stage: the errors stand at the deviating module's statement
		{"deviate not-supported of the module itself", func(x *ictx) bool {
			s := x.mainTop()
			x.add(s, nd("leaf", "dl"+x.mk, nd("type", "string")))
			x.add(s, nd("deviation", "/"+s.m.Prefix+":dl"+x.mk+"/..", nd("deviate", "not-supported")))
			x.expect("deviate not-supported of the module itself", "kw:module", "deviate-no-parent")
			x.c.File = s.m.FileName()
			return true
		}},
		{"deviate add default where one exists", func(x *ictx) bool {
			s := x.mainTop()
			x.add(s, nd("leaf", "dl"+x.mk, nd("type", "string"), nd("default", "a")))
			x.add(s, nd("deviation", "/"+s.m.Prefix+":dl"+x.mk, nd("deviate", "add", nd("default", "b"))))
			x.expect("deviate add default where one exists", "kw:module", "deviate-add-default-exists")
			x.c.File = s.m.FileName()
			return true
		}},
		{"deviate delete default where none exists", func(x *ictx) bool {
			s := x.mainTop()
			x.add(s, nd("leaf", "dl"+x.mk, nd("type", "string")))
			x.add(s, nd("deviation", "/"+s.m.Prefix+":dl"+x.mk, nd("deviate", "delete", nd("default", "b"))))
			x.expect("deviate delete default where none exists", "kw:module", "deviate-delete-default-missing")
			x.c.File = s.m.FileName()
			return true
		}},
		{"deviate delete default with another value", func(x *ictx) bool {
			s := x.mainTop()
			x.add(s, nd("leaf", "dl"+x.mk, nd("type", "string"), nd("default", "a")))
			x.add(s, nd("deviation", "/"+s.m.Prefix+":dl"+x.mk, nd("deviate", "delete", nd("default", "b"))))
			x.expect("deviate delete default with another value", "kw:module", "deviate-delete-default-mismatch")
			x.c.File = s.m.FileName()
			return true
		}},
		{"deviate delete default of a leaf-list", func(x *ictx) bool {
			s := x.mainTop()
			x.add(s, nd("leaf-list", "dl"+x.mk, nd("type", "string"), nd("default", "a")))
			x.add(s, nd("deviation", "/"+s.m.Prefix+":dl"+x.mk, nd("deviate", "delete", nd("default", "a"))))
			x.expect("deviate delete default of a leaf-list", "kw:module", "deviate-delete-default-leaflist")
			x.c.File = s.m.FileName()
			return true
		}},
		{"deviate not-supported of a top-level node twice", func(x *ictx) bool {
			s := x.mainTop()
			x.add(s, nd("leaf", "dl"+x.mk, nd("type", "string")))
			x.add(s, nd("deviation", "/"+s.m.Prefix+":dl"+x.mk, nd("deviate", "not-supported"), nd("deviate", "not-supported")))
			x.expect("deviate not-supported of a top-level node twice", "kw:module", "deviate-already-removed")
			x.c.File = s.m.FileName()
			return true
		}},
		{"unknown deviate kind", func(x *ictx) bool {
			s := x.mainTop()
			x.add(s, nd("leaf", "dl"+x.mk, nd("type", "string")))
			x.add(s, nd("deviation", "/"+s.m.Prefix+":dl"+x.mk, nd("deviate", "dk"+x.mk)))
			x.expect("unknown deviate kind", "parentof:dk"+x.mk, "deviate-unknown-kind")
			return true
		}},
	}
	fs = append(fs, typeFaults()...)
	return append(fs, numberFaults()...)
}

// inject plants fault number kind into the set; returns nil when the set offers no site.
func inject(r interface{ Intn(int) int }, set *gen.Set, fl fault, seq int) *tcase {
	x := &ictx{r: r, set: set, mk: fmt.Sprintf("zz%dq", seq), c: &tcase{}}
	x.collect()
	if !fl.f(x) {
		return nil
	}
	x.c.Names, x.c.Texts = set.Files()
	if x.post != nil {
		x.c.Names, x.c.Texts = x.post(x.c.Names, x.c.Texts)
	}
	return x.c
}

// Leading layout put before the first statement of a file: blank lines, blanks and tabs, comments,
// CR LF line ends.  The positions expected are those in the text as written.
var leadings = []string{"", "", "\n", "\n\n\n", "  ", "\t", " \t ", "\n   ", "\n\n\t", "// leading comment\n",
	"/* block\n   comment */\n  ", "\r\n\r\n", "\r\n  ", " \n \n ", "/* c */ ", "\n\n// c\n\n    "}

// layout returns the texts with a leading layout each (and now and then CR LF line ends throughout).
func layout(r interface{ Intn(int) int }, texts []string) []string {
	out := make([]string, len(texts))
	for i, t := range texts {
		if r.Intn(6) == 0 {
			t = strings.ReplaceAll(t, "\n", "\r\n")
		}
		out[i] = leadings[r.Intn(len(leadings))] + t
	}
	return out
}

// errSet is the canonical set of error records (file:line:col:class) of a run.
func errSet(v verdict) string { return strings.Join(eRecords(lib.CanonErrs(v.errs)), "\n") }

// fileModes runs the set through the files-on-disk ways of loading and returns what differs from
// loading the same bytes with Modules.Parse (v0), "" when nothing does.
func fileModes(r interface{ Intn(int) int }, c tcase, v0 verdict, count func(string)) string {
	// (a) Modules.Read of every file, (c) yangentry.Parse: the same outcome, positions included
	variant := r.Intn(16)
	for i := range c.Names {
		if diskName(c.Names[i], c.Texts[i]) != c.Names[i] {
			count("files with a dated name")
		}
		if variant&1 == 1 && subdirs[(variant>>1+i)%len(subdirs)] != "" {
			count("files in subdirectories")
		}
	}
	badFile := "a position names a file that is not the file the statement stands in (the path the file was found at, as written): "
	for _, mode := range []int{readPaths, viaEntry} {
		v, crash := runMode(c, mode, nil, variant)
		switch {
		case crash != "":
			return modeName[mode] + ": goyang panicked: " + crash
		case v.BadFile != "":
			return modeName[mode] + ": " + badFile + v.BadFile
		case v.StmtDiff != "":
			return modeName[mode] + ": " + v.StmtDiff
		case errSet(v) != errSet(v0):
			return fmt.Sprintf("%s reports %q where Modules.Parse of the same bytes reports %q", modeName[mode], v.Errors, v0.Errors)
		}
		if mode == readPaths {
			if why := judge(c, v); why != "" {
				return modeName[mode] + ": " + why
			}
		}
		count(modeName[mode])
	}
	// (b) some roots by name, the rest through the search path while processing; compared with
	// Modules.Parse of exactly the texts that ended up loaded
	if v0.ParseFail {
		return ""
	}
	// (roots are modules: what a lone submodule drags in, and when, is a matter of load order)
	var roots, mods []int
	for i := range c.Names {
		if _, bk := starts(c.Names[i], c.Texts[i]); len(bk["kw:submodule"]) == 0 {
			mods = append(mods, i)
			if r.Intn(2) == 0 {
				roots = append(roots, i)
			}
		}
	}
	if len(mods) == 0 {
		return ""
	}
	if len(roots) == 0 {
		roots = []int{mods[r.Intn(len(mods))]}
	}
	v, crash := runMode(c, readRoots, roots, variant)
	if crash != "" {
		return modeName[readRoots] + ": goyang panicked: " + crash
	}
	if v.BadFile != "" {
		return modeName[readRoots] + ": " + badFile + v.BadFile
	}
	if v.StmtDiff != "" {
		return modeName[readRoots] + ": " + v.StmtDiff
	}
	if v.Stray != "" {
		return modeName[readRoots] + ": an error names a position that is not the start of a statement of that file: " + v.Stray
	}
	sub := tcase{}
	isRoot := map[int]bool{}
	for _, i := range roots {
		isRoot[i] = true
		sub.Names, sub.Texts = append(sub.Names, c.Names[i]), append(sub.Texts, c.Texts[i])
	}
	for _, i := range v.Loaded {
		if !isRoot[i] {
			sub.Names, sub.Texts = append(sub.Names, c.Names[i]), append(sub.Texts, c.Texts[i])
		}
	}
	if len(v.Loaded) > len(roots) {
		count("auto-loaded files")
	}
	vm, crash := run(sub)
	if crash != "" {
		return "Modules.Parse of the loaded subset: goyang panicked: " + crash
	}
	// a module that is looked for and not found is an error of its own in this mode only
	if errSet(v) != errSet(vm) && !strings.Contains(errSet(v), "no-such-") {
		return fmt.Sprintf("%s (roots %v, loaded %v) reports %q where Modules.Parse of the loaded texts reports %q", modeName[readRoots], roots, v.Loaded, v.Errors, vm.Errors)
	}
	count(modeName[readRoots])
	return ""
}

func eRecords(dump []string) []string {
	var out []string
	for _, r := range dump {
		if strings.HasPrefix(r, "E ") {
			out = append(out, r)
		}
	}
	sort.Strings(out)
	return out
}

// judge applies the marker oracle; "" when the case passes.
func judge(c tcase, v verdict) string {
	switch {
	case v.BadFile != "":
		return "a position names a file that is not the file the statement stands in (the name the text was handed over under, or the path the file was found at): " + v.BadFile
	case v.Stray != "":
		return "an error names a position that is not the start of a statement of that file: " + v.Stray
	case c.Fault == "":
		return ""
	case len(v.Expected) == 0:
		return ""
	case v.NoError:
		return fmt.Sprintf("single fault (%s) at %v is not reported at all", c.Fault, v.Expected)
	case !v.Named:
		cls := c.Class
		if cls == "" {
			cls = "(any class)"
		}
		return fmt.Sprintf("single fault (%s): no %s error stands at %v (the statement the error is about): %q", c.Fault, cls, v.Expected, v.Errors)
	case v.Elsewhere != "":
		return fmt.Sprintf("single fault (%s) at %v: an error stands at another statement: %s", c.Fault, v.Expected, v.Elsewhere)
	}
	return ""
}

func main() {
	f := lib.ParseFlags()
	// the model comparison needs the resolver driver (a replay through ./check hands over the
	// property's first driver, which is the lexer's)
	if !strings.HasPrefix(filepath.Base(f.Driver), "drv_res") {
		f.Driver = ""
	}
	// the files-on-disk modes search "." first: work in an empty directory
	for _, p := range []*string{&f.Out, &f.Replay, &f.Driver} {
		if *p != "" {
			if a, err := filepath.Abs(*p); err == nil {
				*p = a
			}
		}
	}
	cleanup := func() {}
	if cwd, err := os.MkdirTemp("", "c16semcwd"); err == nil {
		cleanup = func() { os.Chdir(os.TempDir()); os.RemoveAll(cwd) }
		defer cleanup()
		os.Chdir(cwd)
	}
	if f.Replay != "" {
		raw, _ := os.ReadFile(f.Replay)
		var p struct {
			Disagreement struct {
				Replay tcase `json:"replay"`
			} `json:"disagreement"`
		}
		json.Unmarshal(raw, &p)
		c := p.Disagreement.Replay
		v, crash := run(c)
		for i := range c.Names {
			fmt.Printf("--- %s\n%s", c.Names[i], c.Texts[i])
		}
		why := judge(c, v)
		if c.Naming != nil {
			plain := c
			plain.Naming = nil
			v0, crash0 := run(plain)
			fmt.Printf("given names: %q\non disk: below %q, subdirectories %q, base names %q\nerrors as written: %q\nunder plain names: %q\n",
				c.Naming.Given, c.Naming.Root, c.Naming.Dirs, c.Naming.Base, v.Raw, v0.Errors)
			if crash0 == "" {
				why = namedWhy(plain, v0, c, v, crash)
			}
		}
		fmt.Printf("fault: %s key %s class %s\nexpected position: %v\nerrors: %q\nerror positions: %v\nverdict: %q crash: %q\n",
			c.Fault, c.key(), c.Class, v.Expected, v.Errors, v.At, why, crash)
		bad := crash != "" || why != ""
		if crash == "" {
			if fw := fileModes(f.Rand(0), c, v, func(string) {}); fw != "" {
				fmt.Printf("files on disk: %s\n", fw)
				bad = true
			}
		}
		if f.Driver != "" && !v.ParseFail && crash == "" {
			if req := rescorr.Request(rescorr.Case{Names: c.Names, Texts: c.Texts}); req != "" {
				ans, err := lib.ParBatch(f.Driver, []string{req}, 1)
				if err == nil {
					g, m := eRecords(lib.CanonErrs(v.errs)), eRecords(strings.Split(ans[0], " ; "))
					fmt.Printf("go    E-records: %v\nmodel E-records: %v\n", g, m)
					if !strings.HasPrefix(ans[0], "outsideModel") && strings.Join(g, "\n") != strings.Join(m, "\n") {
						bad = true
					}
				}
			}
		}
		if bad {
			cleanup()
			os.Exit(1)
		}
		return
	}
	res := lib.NewResult("C16", f)
	n := 6000
	if f.Thorough() {
		n = 200000
	}
	cfg := gen.Default()
	cfg.BadRate = 0 // the only fault is the injected one
	cfg.BadRefs = false
	// (two revisions of one module share statements: one fault would stand in two files, and the
	// deviations of the older revision are not applied)
	cfg.Revisions = false
	fs := faults()
	distinct := lib.NewDistinct()
	perKind := map[string]int64{}
	classes := map[string]int64{}
	var unfaulted, unfaultedErr, named int64
	namedPerKind := map[string]int64{}
	namedPctPerKind := map[string]int64{}
	namedBad := 0
	type pending struct {
		c tcase
		v verdict
	}
	var pend []pending
	var reqs []string
	period := len(fs) + 1
	// corpus witnesses (corpus/C16/sem): one hand-written single-fault module per error-construction
	// layer, under its plain name and under every shape of source name; the first four (entry.go
	// newError, types.go) also as files on disk below directories of every shape
	var nWitness int64
	ws := witnesses(corpusDir)
	for wi, w := range ws {
		v0, crash := run(w)
		nWitness++
		why := ""
		if crash != "" {
			why = "goyang panicked: " + crash
		} else if why = judge(w, v0); why == "" && len(v0.Expected) == 0 {
			why = "the witness has no statement " + w.Key
		}
		if why != "" {
			res.AddDisagreement(lib.Disagreement{Kind: "spec", Input: w, Go: v0.Raw, SpecVerdict: "violates", What: w.Fault + ": " + why, Replay: w})
			continue
		}
		wBad := 0 // (at most 5 recorded per witness, 25 in all: room for the generated sets)
		for k := range shapes {
			if wBad >= 5 || namedBad >= 25 {
				break
			}
			wg := w
			wg.Naming = witnessNaming(k, w.Names)
			vg, gcrash := run(wg)
			nWitness++
			why := namedWhy(w, v0, wg, vg, gcrash)
			if why == "" && wi < 4 && !shapes[k].Colon {
				why = fileModes(f.Rand(1<<25+k), wg, vg, func(string) {})
				if why != "" {
					why = "files on disk below " + fmt.Sprintf("%q / %q", wg.Naming.Root, wg.Naming.Dirs) + ": " + why
				}
			}
			if why != "" {
				namedBad++
				wBad++
				res.AddDisagreement(lib.Disagreement{Kind: "spec", Input: wg, Go: vg.Raw, SpecVerdict: "violates",
					What: "source names (" + wg.Naming.Label + "; given " + fmt.Sprintf("%q", wg.Naming.Given) + "): " + why, Replay: wg})
			}
		}
	}
	res.Distribution["corpus_witnesses"] = int64(len(ws))
	res.Distribution["corpus_witness_runs"] = nWitness
	namedBad = 0
	for i := 0; i < n; i++ {
		r := f.Rand(i)
		set := gen.Generate(r, cfg)
		// more modules with a revision (their files get the dated name on disk)
		for _, m := range set.Mods {
			if len(m.Revisions) == 0 && r.Intn(3) == 0 {
				m.Revisions = []string{"2021-03-04"}
			}
		}
		kind := i % period
		var c *tcase
		if kind < len(fs) {
			// a single fault needs a base that is clean without it
			bn, bt := set.Files()
			if bv, bc := run(tcase{Names: bn, Texts: bt}); bc == "" && bv.NoError {
				c = inject(r, set, fs[kind], i)
			} else {
				res.Count("base_not_clean", 1)
				set = gen.Generate(f.Rand(i), cfg)
			}
		}
		if c == nil {
			// no fault: positions of whatever errors arise must still be statement starts
			names, texts := set.Files()
			c = &tcase{Names: names, Texts: texts}
			unfaulted++
		}
		c.Texts = layout(r, c.Texts)
		v, crash := run(*c)
		if crash != "" {
			res.AddDisagreement(lib.Disagreement{Kind: "crash", Input: c, Go: crash, SpecVerdict: "violates", What: "goyang panicked: " + crash, Replay: c})
			continue
		}
		if why := judge(*c, v); why != "" {
			res.AddDisagreement(lib.Disagreement{Kind: "spec", Input: c, Go: v.Errors, SpecVerdict: "violates", What: why, Replay: c})
		} else if v.StmtDiff != "" {
			res.AddDisagreement(lib.Disagreement{Kind: "spec", Input: c, Go: v.Errors, SpecVerdict: "violates", What: "Modules.Parse: " + v.StmtDiff, Replay: c})
		}
		// the same bytes as files on disk (every third set: four more runs each): same statement
		// positions, same errors, same positions
		if i%3 == 0 {
			if fw := fileModes(r, *c, v, func(k string) { res.Count("loaded via "+k, 1) }); fw != "" {
				res.AddDisagreement(lib.Disagreement{Kind: "spec", Input: c, Go: v.Errors, SpecVerdict: "violates", What: "files on disk: " + fw, Replay: c})
			}
		}
		// the same set under source names with characters special to some layer (names.go): for a
		// given fault kind the shapes rotate (step 5), so every kind meets the fmt verbs early
		if namedBad < 25 {
			rn := f.Rand(1<<24 + i)
			cg := *c
			cg.Naming = mkNaming(rn, (i/period)*5+kind, c.Names)
			vg, gcrash := run(cg)
			res.Count("named: "+namingKey(cg.Naming), 1)
			named++
			if c.Fault != "" {
				namedPerKind[c.Fault]++
				if strings.Contains(strings.Join(cg.Naming.Given, " "), "%") {
					namedPctPerKind[c.Fault]++
				}
			}
			if why := namedWhy(*c, v, cg, vg, gcrash); why != "" {
				namedBad++
				res.AddDisagreement(lib.Disagreement{Kind: "spec", Input: cg, Go: vg.Raw, SpecVerdict: "violates",
					What: "source names (" + cg.Naming.Label + "; given " + fmt.Sprintf("%q", cg.Naming.Given) + "): " + why, Replay: cg})
			} else if i%6 == 1 {
				if fw := fileModes(rn, cg, vg, func(k string) { res.Count("named: loaded via "+k, 1) }); fw != "" {
					namedBad++
					res.AddDisagreement(lib.Disagreement{Kind: "spec", Input: cg, Go: vg.Raw, SpecVerdict: "violates",
						What: "source names (" + cg.Naming.Label + "), files on disk below " + fmt.Sprintf("%q / %q", cg.Naming.Root, cg.Naming.Dirs) + ": " + fw, Replay: cg})
				}
			}
		}
		if f.Driver != "" && !v.ParseFail {
			if req := rescorr.Request(rescorr.Case{Names: c.Names, Texts: c.Texts}); req != "" {
				pend = append(pend, pending{*c, v})
				reqs = append(reqs, req)
			}
		}
		if c.Fault == "" {
			if !v.NoError {
				unfaultedErr++
			}
			continue
		}
		perKind[c.Fault]++
		for _, p := range v.At {
			classes[p.Class]++
		}
		if len(v.Expected) == 0 {
			res.Count("marker_not_found", 1)
			continue
		}
		if distinct.Add(strings.Join(c.Texts, "\x00")) && i%(n/8+1) == 0 {
			res.AddSample(map[string]any{"fault": c.Fault, "key": c.key(), "class": c.Class, "expected": v.Expected, "errors": v.Errors})
		}
	}
	// the same sets through the resolver model: error records (file:line:col:class) must agree
	if f.Driver != "" {
		ans, err := lib.ParBatch(f.Driver, reqs, f.Procs)
		if err != nil {
			lib.Fatal("driver: %v", err)
		}
		var compared, outside, withErrs, positioned int64
		for k, p := range pend {
			a := ans[k]
			if strings.HasPrefix(a, "outsideModel") {
				outside++
				continue
			}
			compared++
			g, m := eRecords(lib.CanonErrs(p.v.errs)), eRecords(strings.Split(a, " ; "))
			if len(g) > 0 {
				withErrs++
			}
			for _, e := range g {
				if !strings.HasPrefix(e, "E -:0:0:") {
					positioned++
				}
			}
			if strings.Join(g, "\n") == strings.Join(m, "\n") {
				continue
			}
			sv := "holds"
			if judge(p.c, p.v) != "" {
				sv = "violates"
			}
			c := p.c
			res.AddDisagreement(lib.Disagreement{Kind: "correspondence", Input: c, Go: g, Model: m, SpecVerdict: sv,
				What: fmt.Sprintf("error records of Go and of the resolver model differ (fault: %s)", c.Fault), Replay: c})
		}
		res.Distribution["model_compared"] = compared
		res.Distribution["model_outside"] = outside
		res.Distribution["model_compared_sets_with_errors"] = withErrs
		res.Distribution["model_compared_positioned_error_records"] = positioned
	}
	res.Evaluations = int64(n) + nWitness
	res.DistinctNontrivial = distinct.Len()
	res.Rule = fmt.Sprintf("valid generated module sets (harness/gen, fault rate 0) with exactly one injected semantic fault of %d kinds (one or more per positioned error class: AST builder, entry layer, type layer incl. unknown type / prefix with local, own-prefixed, foreign-prefixed and undeclared-prefixed names in leaf, leaf-list, typedef, union member, typedef used by a leaf and deviate type, identity layer, deviation stage); the faulty statement is addressed by a unique marker, its true position comes from the generic parser, an error of the expected class must stand exactly there and none elsewhere; every set is processed a second time under source names with characters special to some layer (%d shapes, rotating per fault kind: fmt verbs %%20 %%2F %%s %%d %%v %%%% %%[1]s %%*d and a trailing lone %% in directories and in the base name, blanks, @ # + & ; | * ? ~ $, quotes, brackets, backslash, non-ASCII, names of 600-3000 bytes, a labelled family with `:`; Modules.Parse under the given name, and for one set in six Modules.Read(path) / search path / yangentry.Parse below directories of such names): the file part of every position (leading, wrapped, mentioned, Location()) must be the given name byte for byte, and the marker oracle, the error records and the mentioned positions must be those of the plain-named run; before all that the hand-written single-fault modules of corpus/C16/sem under their plain name and under every shape; distinct_nontrivial = distinct faulted sets", len(fs), len(shapes))
	for k, v := range perKind {
		res.Distribution["fault:"+k] = v
	}
	for k, v := range classes {
		res.Distribution["class:"+k] = v
	}
	res.Distribution["fault_kinds"] = int64(len(fs))
	res.Distribution["named_sets"] = named
	res.Distribution["named_shapes"] = int64(len(shapes))
	minNamed, minPct := int64(-1), int64(-1)
	for k := range perKind {
		if n := namedPerKind[k]; minNamed < 0 || n < minNamed {
			minNamed = n
		}
		if n := namedPctPerKind[k]; minPct < 0 || n < minPct {
			minPct = n
		}
	}
	res.Distribution["named_sets_per_fault_kind_min"] = minNamed
	res.Distribution["named_sets_with_a_percent_sign_per_fault_kind_min"] = minPct
	res.Distribution["unfaulted_sets"] = unfaulted
	res.Distribution["unfaulted_sets_with_errors"] = unfaultedErr
	res.Write(f.Out)
}
