// corr-c16sem: C16, third sentence — every file:line:col in an error from building or resolving
// a module is the start of a statement of that file, namely the unknown substatement itself, the
// statement that lacks a mandatory substatement, or the type, uses, range, length or enum
// statement whose name or value is bad.
//
// Single-semantic-fault injector over valid generated modules: the faulty statement carries a
// unique marker, its true position is read off the generic parse (Statement.Location), and the
// errors of Modules.Parse / Process must name exactly that position; in addition every positioned
// error of every run must be the start of some statement of the file it names. (The positions of
// Process errors are also part of the model correspondence of corr-c04: E records.)
package main

import (
	"encoding/json"
	"fmt"
	"os"
	"regexp"
	"strings"

	"github.com/openconfig/goyang/pkg/yang"
	"verif/harness/gen"
	"verif/harness/lib"
)

type tcase struct {
	Names  []string `json:"names"`
	Texts  []string `json:"texts"`
	Fault  string   `json:"fault"`
	Marker string   `json:"marker"`
	// MarkerIsKeyword: the marker is the keyword of the faulty statement (else its argument).
	MarkerIsKeyword bool `json:"marker_is_keyword"`
}

var posRe = regexp.MustCompile(`^(\S+?):(\d+):(\d+): `)

// starts collects the positions of all statements of a text.
func starts(name, text string) (map[string]bool, map[string]string) {
	pos := map[string]bool{}
	byMarker := map[string]string{}
	ss, err := yang.Parse(text, name)
	if err != nil {
		return pos, byMarker
	}
	var walk func(s *yang.Statement)
	walk = func(s *yang.Statement) {
		loc := s.Location()
		pos[loc] = true
		byMarker["kw:"+s.Keyword] = loc
		if s.HasArgument {
			byMarker["arg:"+s.Argument] = loc
		}
		for _, c := range s.SubStatements() {
			walk(c)
		}
	}
	for _, s := range ss {
		walk(s)
	}
	return pos, byMarker
}

type verdict struct {
	Errors   []string
	Expected string
	Named    bool   // some error names the expected position
	Stray    string // a positioned error that is not a statement start
	NoError  bool
}

func run(c tcase) (v verdict, crashed string) {
	defer func() {
		if r := recover(); r != nil {
			crashed = fmt.Sprint(r)
		}
	}()
	all := map[string]bool{}
	for i := range c.Names {
		p, bm := starts(c.Names[i], c.Texts[i])
		for k := range p {
			all[k] = true
		}
		key := "arg:" + c.Marker
		if c.MarkerIsKeyword {
			key = "kw:" + c.Marker
		}
		if loc, ok := bm[key]; ok && c.Marker != "" {
			v.Expected = loc
		}
	}
	ms := yang.NewModules()
	var errs []error
	for i := range c.Names {
		if err := ms.Parse(c.Texts[i], c.Names[i]); err != nil {
			errs = append(errs, err)
		}
	}
	if len(errs) == 0 {
		errs = ms.Process()
	}
	v.NoError = len(errs) == 0
	for _, e := range errs {
		msg := e.Error()
		v.Errors = append(v.Errors, msg)
		// an error may wrap others ("deviation has unresolvable type, [pos: …]"): look at every position
		for _, line := range strings.Split(msg, "\n") {
			for _, seg := range strings.Split(line, "[") {
				if m := posRe.FindStringSubmatch(strings.TrimSpace(seg)); m != nil {
					loc := m[1] + ":" + m[2] + ":" + m[3]
					if loc == v.Expected {
						v.Named = true
					}
					if !all[loc] && v.Stray == "" {
						v.Stray = loc + " in: " + msg
					}
				}
			}
		}
	}
	return v, ""
}

// inject plants one fault into a copy of the set; returns nil when the set offers no site.
func inject(r interface{ Intn(int) int }, set *gen.Set, kind int, seq int) *tcase {
	// collect candidate nodes
	type site struct {
		m *gen.Module
		n *gen.Node
	}
	var leaves, containers, usess, types []site
	var walk func(m *gen.Module, n *gen.Node)
	walk = func(m *gen.Module, n *gen.Node) {
		for _, c := range n.Kids {
			switch c.Kw {
			case "leaf":
				leaves = append(leaves, site{m, c})
			case "container", "list":
				containers = append(containers, site{m, c})
			case "uses":
				usess = append(usess, site{m, c})
			case "type":
				types = append(types, site{m, c})
			}
			walk(m, c)
		}
	}
	for _, m := range set.Mods {
		walk(m, m.Body)
	}
	pick := func(l []site) *site {
		if len(l) == 0 {
			return nil
		}
		return &l[r.Intn(len(l))]
	}
	c := &tcase{}
	mk := fmt.Sprintf("zz%dq", seq)
	switch kind {
	case 0: // unknown substatement (keyword unknown in its context)
		s := pick(containers)
		if s == nil {
			return nil
		}
		s.n.Kids = append(s.n.Kids, &gen.Node{Kw: "bogus-" + mk, Arg: "v"})
		c.Fault, c.Marker, c.MarkerIsKeyword = "unknown substatement", "bogus-"+mk, true
	case 1: // a known keyword that is not allowed in this context
		s := pick(leaves)
		if s == nil {
			return nil
		}
		s.n.Kids = append(s.n.Kids, &gen.Node{Kw: "key", Arg: mk})
		c.Fault, c.Marker = "substatement not allowed here", mk
	case 2: // statement lacking a mandatory substatement: leaf without type
		s := pick(leaves)
		if s == nil {
			return nil
		}
		var kids []*gen.Node
		for _, k := range s.n.Kids {
			if k.Kw != "type" {
				kids = append(kids, k)
			}
		}
		s.n.Kids = kids
		s.n.Arg = mk
		c.Fault, c.Marker = "leaf without type", mk
	case 3: // bad type name
		s := pick(types)
		if s == nil {
			return nil
		}
		s.n.Arg = "ty" + mk
		s.n.Kids = nil
		c.Fault, c.Marker = "unknown type", "ty"+mk
	case 4: // bad uses
		s := pick(containers)
		if s == nil {
			return nil
		}
		s.n.Kids = append(s.n.Kids, &gen.Node{Kw: "uses", Arg: "gr" + mk})
		c.Fault, c.Marker = "unknown grouping", "gr"+mk
	case 5: // bad range: out of the parent's set; the range statement carries the position
		s := pick(leaves)
		if s == nil {
			return nil
		}
		for _, k := range s.n.Kids {
			if k.Kw == "type" {
				k.Arg = "int8"
				k.Kids = []*gen.Node{{Kw: "range", Arg: "1..3000"}}
			}
		}
		c.Fault, c.Marker = "bad range", "1..3000"
	case 6: // bad length
		s := pick(leaves)
		if s == nil {
			return nil
		}
		for _, k := range s.n.Kids {
			if k.Kw == "type" {
				k.Arg = "string"
				k.Kids = []*gen.Node{{Kw: "length", Arg: "7..3"}}
			}
		}
		c.Fault, c.Marker = "bad length", "7..3"
	case 7: // bad enum value
		s := pick(leaves)
		if s == nil {
			return nil
		}
		for _, k := range s.n.Kids {
			if k.Kw == "type" {
				k.Arg = "enumeration"
				k.Kids = []*gen.Node{{Kw: "enum", Arg: "ok"}, {Kw: "enum", Arg: "en" + mk, Kids: []*gen.Node{{Kw: "value", Arg: "99999999999"}}}}
			}
		}
		c.Fault, c.Marker = "bad enum value", "en"+mk
	case 8: // import without prefix
		m := set.Mods[r.Intn(len(set.Mods))]
		m.Body.Kids = append(m.Body.Kids, &gen.Node{Kw: "import", Arg: "im" + mk})
		c.Fault, c.Marker = "import without prefix", "im"+mk
	}
	c.Names, c.Texts = set.Files()
	return c
}

func main() {
	f := lib.ParseFlags()
	if f.Replay != "" {
		raw, _ := os.ReadFile(f.Replay)
		var p struct {
			Disagreement struct {
				Replay tcase `json:"replay"`
			} `json:"disagreement"`
		}
		json.Unmarshal(raw, &p)
		c := p.Disagreement.Replay
		v, crash := run(c)
		for i := range c.Names {
			fmt.Printf("--- %s\n%s", c.Names[i], c.Texts[i])
		}
		fmt.Printf("fault: %s marker %s\nexpected position: %s\nerrors: %q\nnamed: %v stray: %q crash: %q\n", c.Fault, c.Marker, v.Expected, v.Errors, v.Named, v.Stray, crash)
		if crash != "" || v.Stray != "" || (c.Fault != "" && !v.Named) {
			os.Exit(1)
		}
		return
	}
	res := lib.NewResult("C16", f)
	n := 4000
	if f.Thorough() {
		n = 200000
	}
	cfg := gen.Default()
	cfg.BadRate = 0 // the only fault is the injected one
	cfg.BadRefs = false
	distinct := lib.NewDistinct()
	perKind := map[string]int64{}
	var unfaulted, unfaultedErr int64
	for i := 0; i < n; i++ {
		r := f.Rand(i)
		set := gen.Generate(r, cfg)
		kind := i % 10
		var c *tcase
		if kind < 9 {
			// a single fault needs a base that is clean without it
			bn, bt := set.Files()
			if bv, bc := run(tcase{Names: bn, Texts: bt}); bc == "" && bv.NoError {
				c = inject(r, set, kind, i)
			} else {
				res.Count("base_not_clean", 1)
				set = gen.Generate(f.Rand(i), cfg)
			}
		}
		if c == nil {
			// no fault: positions of whatever errors arise must still be statement starts
			names, texts := set.Files()
			c = &tcase{Names: names, Texts: texts}
			unfaulted++
		}
		v, crash := run(*c)
		if crash != "" {
			res.AddDisagreement(lib.Disagreement{Kind: "crash", Input: c, Go: crash, SpecVerdict: "violates", What: "goyang panicked: " + crash, Replay: c})
			continue
		}
		if v.Stray != "" {
			res.AddDisagreement(lib.Disagreement{Kind: "spec", Input: c, Go: v.Errors, SpecVerdict: "violates",
				What: "an error names a position that is not the start of a statement of that file: " + v.Stray, Replay: c})
		}
		if c.Fault == "" {
			if !v.NoError {
				unfaultedErr++
			}
			continue
		}
		perKind[c.Fault]++
		if v.Expected == "" {
			res.Count("marker_not_found", 1)
			continue
		}
		if !v.Named {
			what := fmt.Sprintf("single fault (%s) at %s is not named by any error: %q", c.Fault, v.Expected, v.Errors)
			if v.NoError {
				what = fmt.Sprintf("single fault (%s) at %s is not reported at all", c.Fault, v.Expected)
			}
			res.AddDisagreement(lib.Disagreement{Kind: "spec", Input: c, Go: v.Errors, SpecVerdict: "violates", What: what, Replay: c})
		}
		if distinct.Add(strings.Join(c.Texts, "\x00")) && i%(n/8+1) == 0 {
			res.AddSample(map[string]any{"fault": c.Fault, "marker": c.Marker, "expected": v.Expected, "errors": v.Errors})
		}
	}
	res.Evaluations = int64(n)
	res.DistinctNontrivial = distinct.Len()
	res.Rule = "valid generated module sets (harness/gen, fault rate 0) with exactly one injected semantic fault of the nine kinds of the property (unknown substatement, substatement not allowed in its context, leaf without type, unknown type, unknown grouping, range outside the parent, length out of order, enum value out of range, import without prefix); the faulty statement carries a unique marker and its true position comes from the generic parser; distinct_nontrivial = distinct faulted sets"
	for k, v := range perKind {
		res.Distribution["fault:"+k] = v
	}
	res.Distribution["unfaulted_sets"] = unfaulted
	res.Distribution["unfaulted_sets_with_errors"] = unfaultedErr
	res.Write(f.Out)
}
