package main

// Source names with characters that are special to some layer (fmt verbs first of all).
//
// The file part of every position — the leading file:line:col of an error, a position wrapped in
// "[…]" or merely mentioned, Location() of every statement of every loaded module — is, exactly,
// the name the text was handed over under (Modules.Parse) or the path the file was found at
// (Modules.Read, the search path, yangentry.Parse).  Every set of the run is processed a second
// time under such names (lexcorr.NameShapes: %20 %2F %s %d %v %% %[1]s %*d … and a trailing lone %
// in directories and in the base name, blanks, @ # +, quotes, brackets, backslash, non-ASCII, very
// long names, and a labelled family with `:`), and one set in six also as files below
// directories of such names.  Judged:
//
//   - a file part that is not exactly a given name (BadFile),
//   - the marker oracle of the injected fault, the statement-start oracle and the Location() oracle,
//     all under the given names,
//   - the error records (file:line:col:class) and the positions mentioned anywhere in a message,
//     which must be those of the same set under its plain names, file for file.

import (
	"fmt"
	"os"
	"path/filepath"
	"regexp"
	"sort"
	"strings"

	"verif/harness/lexcorr"
)

type naming struct {
	Label string `json:"label"`
	// Given: the names for Modules.Parse, one per text.
	Given []string `json:"given"`
	// Root: directory (below the scratch directory) that holds the set on disk.
	Root string `json:"root"`
	// Dirs: per text, the subdirectory below Root (used when the variant puts files in subdirectories).
	Dirs []string `json:"dirs"`
	// Base: per text, the file name where the file is read by its path ("" = <module>[@revision].yang).
	Base []string `json:"base"`
}

var shapes = lexcorr.NameShapes()

// diskDirs: the directory parts that can stand on disk.
var diskDirs = func() []string {
	var out []string
	for _, s := range shapes {
		if s.Dir != "" && !s.Colon && !s.NoDisk {
			out = append(out, s.Dir)
		}
	}
	return out
}()

// mkNaming names the texts after shape k (one set in four: every text after a shape of its own).
func mkNaming(r interface{ Intn(int) int }, k int, names []string) *naming {
	nm := &naming{}
	sh := shapes[k%len(shapes)]
	nm.Label = sh.Label
	mixed := r.Intn(4) == 0
	if mixed {
		nm.Label += " (and a shape of its own for every further text)"
	}
	nm.Root = sh.Dir
	if sh.Colon || sh.NoDisk || sh.Dir == "" {
		nm.Root = diskDirs[k%len(diskDirs)]
	}
	for j, n := range names {
		s := sh
		if mixed && j > 0 {
			s = shapes[(k+1+5*j)%len(shapes)]
		}
		nm.Given = append(nm.Given, s.Apply(n))
		sd := ""
		if j%3 != 0 || r.Intn(2) == 0 {
			sd = diskDirs[(k+3*j+r.Intn(3))%len(diskDirs)]
		}
		nm.Dirs = append(nm.Dirs, sd)
		base := ""
		if s.Decorated() && !s.Colon && !s.NoDisk {
			base = NameShapeBase(s, n)
		}
		nm.Base = append(nm.Base, base)
	}
	return nm
}

// NameShapeBase is the decorated base name alone.
func NameShapeBase(s lexcorr.NameShape, plain string) string {
	s.Dir = ""
	return s.Apply(plain)
}

var tailRe = regexp.MustCompile(`^:\d+:\d+`)

func isBoundary(b byte) bool {
	switch b {
	case ' ', '\t', '\n', '\r', '\v', '\f', '[', ']', '"', '\'', '`':
		return true
	}
	return false
}

// translator rewrites `<given name>:line:col` to `<name of the text>:line:col`.
type translator struct {
	nameOf map[string]string
	keys   []string // longest first
}

func newTranslator(nameOf map[string]string) *translator {
	t := &translator{nameOf: nameOf}
	for k := range nameOf {
		t.keys = append(t.keys, k)
	}
	sort.Slice(t.keys, func(i, j int) bool {
		if len(t.keys[i]) != len(t.keys[j]) {
			return len(t.keys[i]) > len(t.keys[j])
		}
		return t.keys[i] < t.keys[j]
	})
	return t
}

// translate returns s with every position under a given name rewritten, and the first file part
// of a position that is not a given name ("" when there is none).  A given name counts where it
// starts the message or follows white space, a bracket or a quote and is followed by :line:col —
// whatever characters it holds itself; what then still looks like a position names another file.
func (t *translator) translate(s string) (string, string) {
	// Location(): exactly <given>:line:col
	if j := strings.LastIndexByte(s, ':'); j > 0 {
		if i := strings.LastIndexByte(s[:j], ':'); i > 0 {
			if n, ok := t.nameOf[s[:i]]; ok && tailRe.FindString(s[i:]) == s[i:] {
				return n + s[i:], ""
			}
		}
	}
	var sb strings.Builder
	bad := ""
	seg := 0
	flush := func(end int) {
		part := s[seg:end]
		if m := locRe.FindStringSubmatch(part); m != nil && bad == "" {
			bad = m[1]
		}
		sb.WriteString(part)
	}
	for i := 0; i < len(s); {
		hit := false
		if i == 0 || isBoundary(s[i-1]) {
			for _, k := range t.keys {
				if !strings.HasPrefix(s[i:], k) {
					continue
				}
				if m := tailRe.FindString(s[i+len(k):]); m != "" {
					flush(i)
					sb.WriteString(t.nameOf[k] + m)
					i += len(k) + len(m)
					seg = i
					hit = true
					break
				}
			}
		}
		if !hit {
			i++
		}
	}
	flush(len(s))
	return sb.String(), bad
}

// mentions lists every position that occurs anywhere in the (translated) messages.
func mentions(msgs []string) string {
	var out []string
	for _, m := range msgs {
		for _, sub := range locRe.FindAllStringSubmatch(m, -1) {
			out = append(out, sub[1]+":"+sub[2]+":"+sub[3])
		}
	}
	sort.Strings(out)
	return strings.Join(out, " ")
}

// namedWhy judges the run vg of the set under given names against the run v0 of the same set
// under its plain names; "" when nothing is wrong.
func namedWhy(c tcase, v0 verdict, cg tcase, vg verdict, crash string) string {
	switch {
	case crash != "":
		return "goyang panicked: " + crash
	case vg.BadFile != "":
		return "a position names a file that is not the file the statement stands in (the file part is not, byte for byte, the name the text was handed over under): " + vg.BadFile
	}
	if why := judge(cg, vg); why != "" {
		return why
	}
	if vg.StmtDiff != "" {
		return "Modules.Parse: " + vg.StmtDiff
	}
	if a, b := errSet(vg), errSet(v0); a != b {
		return fmt.Sprintf("the positioned errors are not those of the same texts under plain names, file for file: %q where plain names give %q (records under the given names: %q, under plain names: %q)",
			vg.Raw, v0.Errors, strings.Split(a, "\n"), strings.Split(b, "\n"))
	}
	if a, b := mentions(vg.Errors), mentions(v0.Errors); a != b {
		return fmt.Sprintf("the positions mentioned in the messages are not those of the same texts under plain names, file for file: %q where plain names give %q", vg.Raw, v0.Errors)
	}
	return ""
}

// namedCounts records which shapes and ways of loading a naming exercised.
func namingKey(nm *naming) string {
	l := nm.Label
	if i := strings.Index(l, " ("); i > 0 && strings.HasSuffix(l, "text)") {
		l = l[:i]
	}
	return l
}

var witnessRe = regexp.MustCompile(`^// c16sem: key=(\S+) class=(\S*) fault=(.*)\n`)
var moduleRe = regexp.MustCompile(`(?m)^\s*module\s+([A-Za-z0-9_.-]+)`)

// witnesses reads the hand-written single-fault modules of corpus/C16/sem (first line:
// `// c16sem: key=<statement the error must stand at> class=<error class> fault=<what is wrong>`).
func witnesses(dir string) []tcase {
	files, _ := filepath.Glob(filepath.Join(dir, "*.yang"))
	sort.Strings(files)
	var out []tcase
	for _, p := range files {
		raw, err := os.ReadFile(p)
		if err != nil {
			continue
		}
		text := string(raw)
		h := witnessRe.FindStringSubmatch(text)
		m := moduleRe.FindStringSubmatch(text)
		if h == nil || m == nil {
			continue
		}
		out = append(out, tcase{Names: []string{m[1] + ".yang"}, Texts: []string{text}, Key: h[1], Marker: h[1], Class: h[2],
			Fault: "corpus " + filepath.Base(p) + ": " + h[3]})
	}
	return out
}

// witnessNaming names the one text of a witness after shape k.
func witnessNaming(k int, names []string) *naming {
	sh := shapes[k%len(shapes)]
	nm := &naming{Label: sh.Label, Root: sh.Dir}
	if sh.Colon || sh.NoDisk || sh.Dir == "" {
		nm.Root = diskDirs[k%len(diskDirs)]
	}
	for j, n := range names {
		nm.Given = append(nm.Given, sh.Apply(n))
		nm.Dirs = append(nm.Dirs, diskDirs[(k+1+j)%len(diskDirs)])
		base := ""
		if sh.Decorated() && !sh.Colon && !sh.NoDisk {
			base = NameShapeBase(sh, n)
		}
		nm.Base = append(nm.Base, base)
	}
	return nm
}
