package main

import (
	"math/rand"
	"regexp"

	"verif/harness/gen"
)

// collidePrefixes re-assigns the prefixes of a generated set so that prefixes collide with module
// NAMES (a prefix is whatever the prefix statements say; that a module of that name exists, is
// imported too, or is the importing module itself must not matter):
//   - an import is bound to the name of another module imported by the same module (before or
//     after it: the import order is shuffled),
//   - an import is bound to the importing module's own name, or to the imported module's name,
//   - a module's own prefix is the name of another module (imported or not),
//   - two modules have each other's names as prefixes.
//
// Within one module the prefixes stay distinct. Every reference already rendered into the body
// (augment and deviation targets, uses, type and identity base references) is rewritten with the module's old -> new table.
func collidePrefixes(r *rand.Rand, set *gen.Set) {
	var names []string
	seen := map[string]bool{}
	for _, m := range set.Mods {
		if seen[m.Name] {
			return // several revisions of one module (they may share a body): left alone
		}
		seen[m.Name] = true
		if !m.Sub {
			names = append(names, m.Name)
		}
	}
	// mutual: the first two modules swap names as own prefixes
	mutual := len(names) >= 2 && r.Intn(3) == 0
	for mi, m := range set.Mods {
		r.Shuffle(len(m.Imports), func(i, j int) { m.Imports[i], m.Imports[j] = m.Imports[j], m.Imports[i] })
		ren := map[string]string{}
		used := map[string]bool{}
		take := func(old, nw string) bool {
			if nw == "" || used[nw] {
				return false
			}
			if _, done := ren[old]; done {
				return false
			}
			ren[old], used[nw] = nw, true
			return true
		}
		// own prefix (for a submodule: the prefix of its belongs-to)
		switch {
		case mutual && !m.Sub && mi < 2:
			take(m.Prefix, names[1-mi])
		case r.Intn(3) == 0:
			take(m.Prefix, names[r.Intn(len(names))])
		}
		if _, ok := ren[m.Prefix]; !ok {
			take(m.Prefix, m.Prefix)
		}
		for k, o := range m.Imports {
			old := m.ImportPrefix[o]
			var cand []string
			for j, o2 := range m.Imports { // the name of another import, earlier or later
				if j != k {
					cand = append(cand, o2.Name)
				}
			}
			owner := m
			if m.Sub {
				owner = m.Owner
			}
			cand = append(cand, owner.Name, o.Name)
			for _, n := range names { // or of a module that is not imported at all
				cand = append(cand, n)
			}
			ok := false
			if r.Intn(4) != 0 {
				for try := 0; try < 4 && !ok; try++ {
					c := cand[r.Intn(len(cand))]
					if try == 0 && len(m.Imports) > 1 {
						c = cand[r.Intn(len(m.Imports)-1)] // prefer the other imports' names
					}
					ok = take(old, c)
				}
			}
			if !ok && !take(old, old) {
				take(old, old+"x")
			}
		}
		// apply
		m.Prefix = ren[m.Prefix]
		for o, p := range m.ImportPrefix {
			if n, ok := ren[p]; ok {
				m.ImportPrefix[o] = n
			}
		}
		rewrite(m.Body, ren)
	}
}

var prefixTok = regexp.MustCompile(`(^|/)([A-Za-z0-9_.-]+):`)

func rewrite(n *gen.Node, ren map[string]string) {
	switch n.Kw {
	case "augment", "deviation", "uses", "type", "base":
		n.Arg = prefixTok.ReplaceAllStringFunc(n.Arg, func(s string) string {
			m := prefixTok.FindStringSubmatch(s)
			if nw, ok := ren[m[2]]; ok {
				return m[1] + nw + ":"
			}
			return s
		})
	}
	for _, c := range n.Kids {
		rewrite(c, ren)
	}
}
