package main

import (
	"strconv"

	"verif/harness/rescorr"
)

// corpus: hand-written sets. The first ones exercise the shapes the property names; then the
// witnesses of the documented limit D17-L1 (names no path can spell): goyang accepts them, Find
// cannot reach them, the specification's wfKeys is false; last the augment into an rpc node itself,
// which Process must reject.
func corpus() []rescorr.Case {
	mk := func(label string, files ...string) rescorr.Case {
		c := rescorr.Case{Extra: map[string]string{"seed": "1", "max_pairs": "4000", "label": label, "kept": "1"}}
		for i := 0; i+1 < len(files); i += 2 {
			c.Names = append(c.Names, files[i])
			c.Texts = append(c.Texts, files[i+1])
		}
		return c
	}
	a := `module a { namespace "urn:a"; prefix pa;
  container c { leaf x { type string; } }
  choice ch { leaf x0 { type string; } case y0 { leaf y1 { type int8; } } }
  rpc r { input { leaf i { type string; } } }
  rpc bare;
  container acts { action act; action act2 { output { leaf o { type string; } } } }
}
`
	b := `module b { namespace "urn:b"; prefix pb; import a { prefix qa; }
  leaf y { type string; }
  container k { leaf z { type string; } }
  augment "/qa:ch" { leaf grafted { type string; } }
  augment "/qa:r/qa:output" { leaf fromb { type string; } }
  augment "/qa:ch/qa:x0" { leaf incase { type string; } }
}
`
	cases := []rescorr.Case{
		mk("lean-example", "a.yang", a, "b.yang", b),
		mk("submodule", "m.yang", `module m { namespace "urn:m"; prefix pm; include s1; include s2;
  container top { leaf a { type string; } }
}
`, "s1.yang", `submodule s1 { belongs-to m { prefix sm; } include s2;
  container ins1 { leaf b { type string; } uses g2; }
  rpc rs { output { leaf o { type string; } } }
}
`, "s2.yang", `submodule s2 { belongs-to m { prefix sm2; }
  grouping g2 { container fromg2 { leaf c { type string; } } }
  list ins2 { key k; leaf k { type string; } }
}
`),
		mk("grouping-from-other-module", "lib.yang", `module lib { namespace "urn:lib"; prefix l;
  grouping g { container gc { leaf gl { type string; } choice gch { leaf ga { type string; } leaf gb { type string; } } } }
  grouping act { action doit { input { leaf p { type string; } } } }
}
`, "user.yang", `module user { namespace "urn:user"; prefix u; import lib { prefix li; } import other { prefix ot; }
  container here { uses li:g; uses li:act; }
  list there { key k; leaf k { type string; } uses li:g; }
}
`, "other.yang", `module other { namespace "urn:other"; prefix o; import user { prefix us; } import user { prefix us2; }
  augment "/us:here/us:gc" { container added { leaf deep { type string; } } }
  augment "/us:here/us:doit/us:output" { leaf res { type string; } }
  leaf top { type string; }
}
`),
		mk("revisions-and-prefix-clash", "a.yang", `module a { namespace "urn:a"; prefix p; revision 2020-01-01;
  container c { leaf x { type string; } }
}
`, "b.yang", `module b { namespace "urn:b"; prefix p; import a { prefix a; revision-date 2020-01-01; }
  container c { leaf x { type string; } container input { leaf output { type string; } } }
}
`),
		// late augments across modules: the target runs through (b, sub) or ends at (c) an implied case,
		// the grafted nodes bring shorthand choice members of their own
		mk("late-augment-across-modules", "a.yang", `module a { namespace "urn:a"; prefix a; include asub;
  container top { choice ch { container x { leaf own { type string; } } leaf lf { type string; } } }
  rpc op { input { choice how { container slow { leaf t { type string; } } } } }
  leaf start { type string; }
}
`, "asub.yang", `submodule asub { belongs-to a { prefix as; }
  augment "/as:top/as:ch/as:x/as:x" { choice fromsub { leaf sy { type string; } container sz { leaf sw { type string; } } } }
}
`, "b.yang", `module b { namespace "urn:b"; prefix b; import a { prefix a; }
  augment "/a:top/a:ch/a:x/a:x" { choice inner { leaf y { type string; } container z { leaf w { type string; } } } }
  augment "/a:op/a:input/a:how/a:slow/a:slow" { choice retry { leaf once { type empty; } } }
  leaf start { type string; }
}
`, "c.yang", `module c { namespace "urn:c"; prefix c; import a { prefix qa; }
  augment "/qa:top/qa:ch/qa:lf" { choice atcase { leaf cy { type string; } case k { leaf cv { type string; } } } }
  container own { choice ch { container x { leaf o { type string; } } } }
  augment "/c:own/c:ch/c:x/c:x" { choice inner { leaf y { type string; } } }
}
`),
		// names that exist only further down (inside cases, inside an rpc input) are no children
		mk("descendants-are-no-children", "m.yang", `module m { namespace "urn:m"; prefix m;
  container top {
    leaf plain { type string; }
    choice transport {
      case tcp { leaf port { type uint16; } choice security { container tls { leaf cert { type string; } } } }
      leaf serial { type string; }
    }
  }
  rpc reset { input { choice how { leaf hard { type empty; } } } }
  leaf start { type string; }
}
`, "n.yang", `module n { namespace "urn:n"; prefix n; import m { prefix mm; }
  augment "/mm:top" { choice grafted { case g1 { leaf gport { type string; } } } }
  leaf start { type string; }
}
`),
		// prefixes that are also module names: only the prefix statements count
		mk("prefix-is-a-module-name", "test.yang", `module test { namespace "urn:t"; prefix t;
  import bar { prefix b; } import baz { prefix bar; }
  leaf ctx { type string; }
  augment "/bar:fish" { leaf extra { type string; } }
}
`, "tset.yang", `module tset { namespace "urn:ts"; prefix baz;
  import baz { prefix bar; } import bar { prefix tset; }
  leaf ctx { type string; }
  augment "/tset:fish" { leaf extra2 { type string; } }
}
`, "bar.yang", `module bar { namespace "urn:bar"; prefix baz; import baz { prefix bar; }
  container fish { leaf chips { type string; } }
  leaf conflict { type string; }
}
`, "baz.yang", `module baz { namespace "urn:baz"; prefix bar; import bar { prefix baz; }
  container fish { leaf bones { type string; } }
  leaf conflict { type string; }
}
`),
		// an implied case takes its prefix context from the node it wraps: ext spells base as b,
		// which base itself binds to lib (and base does not know l and ext at all)
		mk("implied-case-of-grafted-node", "base.yang", `module base { namespace "urn:base"; prefix base; import lib { prefix b; }
  container top { choice how { leaf plain { type string; } } leaf other { type string; } }
  rpc op { input { choice pick { leaf one { type empty; } } } }
}
`, "lib.yang", `module lib { namespace "urn:lib"; prefix lib;
  container shelf { leaf book { type string; } }
  container top { leaf other { type string; } }
  grouping g { leaf fromg { type string; } }
}
`, "ext.yang", `module ext { namespace "urn:ext"; prefix ext; import base { prefix b; } import lib { prefix l; }
  container mine { leaf own { type string; } }
  augment "/b:top/b:how" { leaf extra { type string; } container cextra { leaf in { type string; } } uses l:g; }
  augment "/b:op/b:input/b:pick" { leaf two { type empty; } }
}
`),
		// ---- documented limits
		mk("limit:name-with-slash", "m.yang", `module m { namespace "urn:m"; prefix pm;
  container "a/b" { leaf x { type string; } }
  leaf ok { type string; }
}
`),
		mk("limit:name-dotdot", "m.yang", `module m { namespace "urn:m"; prefix pm;
  container c { container ".." { leaf x { type string; } } leaf "." { type string; } leaf ok { type string; } }
}
`),
		mk("limit:name-with-colon", "m.yang", `module m { namespace "urn:m"; prefix pm;
  container c { leaf "p:x" { type string; } leaf ok { type string; } }
}
`),
	}
	// repaired (049247d): an augment whose target is the rpc itself used to file `stray` in the rpc's
	// Dir, out of reach of every path; Process must now report an error
	rej := mk("augment-into-rpc-rejected", "m.yang", `module m { namespace "urn:m"; prefix pm;
  rpc r { input { leaf i { type string; } } }
  container c { action act { input { leaf j { type string; } } } }
  augment "/pm:r" { leaf stray { type string; } }
  augment "/pm:c/pm:act" { leaf stray2 { type string; } }
}
`)
	rej.Extra["expect_errors"] = "1"
	cases = append(cases, rej)
	for i := range cases {
		cases[i].Extra["label"] = strconv.Itoa(i) + ":" + cases[i].Extra["label"]
	}
	return cases
}
