package main

import (
	"encoding/json"
	"fmt"
	"math/rand"
	"os"
	"path/filepath"
	"sort"
	"strconv"
	"strings"

	"github.com/openconfig/goyang/pkg/yang"
	"verif/harness/gen"
	"verif/harness/lib"
	"verif/harness/rescorr"
)

// Files-on-disk runs ("disk" cases). The property speaks about lookups on a PROCESSED tree; a set
// is processed the same whether the caller hands every text to Modules.Parse or hands over some
// and lets Process find the rest on the search path when an import or include reaches it. A disk
// case writes the texts of a set into a fresh directory tree and hands over only the texts named
// in Extra["roots"]; Process reads the others. Extra["layout"]:
//
//	flat   one directory on the search path, files <module>.yang
//	dated  one directory, files <module>@<date>.yang (the module's revision, else some date; every
//	       other file keeps the bare name)
//	sub    files spread over sub-sub-directories of one directory that is on the path as "dir/..."
//	dirs   two directories, put on the path as one colon separated list
//	read   every file (roots too) in one directory that is NOT put on the path: the roots are
//	       loaded with Modules.Read(<full path>), which makes the directory of a file it reads a
//	       search directory
//
// Extra["hand"] = "parse" (roots by Modules.Parse(text, name)) or "read" (roots written too and
// loaded by Modules.Read(path)); layout read implies hand read.
//
// Oracle (metamorphic): the texts that ended up loaded are also handed, all of them, to a second
// Modules value; both runs must agree on being error free, and the processed trees must hold the
// same nodes (tree, steps, kind). Every node of the all-explicit run that the from-disk trees lack
// is LOOKED UP on the from-disk trees (absolute prefixed path from the roots of all trees and some
// other start nodes, under every prefix the start's context module has for the target's module;
// a node of a submodule's private tree by the relative path from that tree's root): the answer
// must be the node at those steps — these lookups go to the model too, like all others. Then the
// usual lookups of the hook run on the from-disk trees (every node incl. grafted ones from every
// start node), and the model is asked with the loaded texts.
//
// Roots are modules, or a submodule together with the module it belongs to: what a lone submodule
// drags in, and when, is finding D04-P1 (known_findings.txt; corr-c04 tags it) and is kept out.

type textInfo struct {
	name    string // module or submodule name
	sub     bool
	rev     string
	nAug    int
	nDev    int
	nChoice int
}

func infoOf(text, fname string) (textInfo, error) {
	ms := yang.NewModules()
	if err := ms.Parse(text, fname); err != nil {
		return textInfo{}, err
	}
	var ms1 []*yang.Module
	ms1 = append(ms1, distinct(ms.Modules)...)
	ms1 = append(ms1, distinct(ms.SubModules)...)
	if len(ms1) != 1 {
		return textInfo{}, fmt.Errorf("%d modules in one text", len(ms1))
	}
	m := ms1[0]
	ti := textInfo{name: m.Name, sub: m.BelongsTo != nil, rev: m.Current(), nAug: len(m.Augment), nDev: len(m.Deviation)}
	ti.nChoice = len(m.Choice)
	for _, a := range m.Augment {
		ti.nChoice += len(a.Choice)
	}
	return ti, nil
}

// set by diskRun for the hook (the worker serves one case at a time)
var (
	diskExpect *world // the trees of the all-explicit run
	diskWhat   string // how the set was loaded, for messages
)

func serveCase(in []byte) []byte {
	var c rescorr.Case
	if err := json.Unmarshal(in, &c); err != nil {
		return []byte(`{"parse_err":"bad case"}`)
	}
	var o rescorr.GoOut
	if c.Extra["disk"] == "1" {
		o = diskRun(c)
	} else {
		o = rescorr.RunGo(c, hook)
	}
	b, _ := json.Marshal(o)
	return b
}

func diskRun(c rescorr.Case) (out rescorr.GoOut) {
	diskExpect, diskWhat = nil, ""
	defer func() { diskExpect = nil }()
	skip := func(why string) rescorr.GoOut {
		// not a from-disk candidate after all: run it the ordinary way
		c2 := c
		c2.Extra = map[string]string{}
		for k, v := range c.Extra {
			if k != "disk" {
				c2.Extra[k] = v
			}
		}
		o := rescorr.RunGo(c2, hook)
		if o.Extra != nil {
			o.Extra["disk_skipped"] = []string{why}
		}
		return o
	}
	infos := make([]textInfo, len(c.Names))
	byKey := map[string]int{}
	for i := range c.Names {
		ti, err := infoOf(c.Texts[i], c.Names[i])
		if err != nil {
			return skip("a text is rejected on its own")
		}
		infos[i] = ti
		k := fmt.Sprint(ti.sub, " ", ti.name)
		if _, dup := byKey[k]; dup || strings.ContainsAny(ti.name, "/\\@") || ti.name == "" || ti.name == "." || ti.name == ".." {
			return skip("two texts with one (sub)module name, or a name that is no file name")
		}
		byKey[k] = i
	}
	isRoot := map[int]bool{}
	var roots []int
	for _, f := range strings.Split(c.Extra["roots"], ",") {
		if i, err := strconv.Atoi(strings.TrimSpace(f)); err == nil && i >= 0 && i < len(c.Names) && !isRoot[i] {
			isRoot[i] = true
			roots = append(roots, i)
		}
	}
	anyModule := false
	for _, i := range roots {
		anyModule = anyModule || !infos[i].sub
	}
	if !anyModule {
		return skip("no module among the roots (D04-P1 shape)")
	}
	layout, hand := c.Extra["layout"], c.Extra["hand"]
	if layout == "read" {
		hand = "read"
	}
	dir, err := os.MkdirTemp("", "c17disk")
	if err != nil {
		out.ParseErr = "tempdir: " + err.Error()
		return out
	}
	defer os.RemoveAll(dir)
	dir, _ = filepath.EvalSymlinks(dir)
	cwd := filepath.Join(dir, "cwd") // stays empty: findFile looks into "." first
	os.Mkdir(cwd, 0o755)
	if old, err := os.Getwd(); err == nil {
		defer os.Chdir(old)
	}
	os.Chdir(cwd)
	fileOf := make([]string, len(c.Names))
	var search []string
	switch layout {
	case "sub":
		search = []string{filepath.Join(dir, "lib", "...")}
	case "dirs":
		search = []string{filepath.Join(dir, "lib0") + ":" + filepath.Join(dir, "lib1")}
	case "read":
	default:
		search = []string{filepath.Join(dir, "lib")}
	}
	for i, ti := range infos {
		base := ti.name + ".yang"
		d := filepath.Join(dir, "lib")
		switch layout {
		case "dated":
			if i%2 == 0 || ti.rev != "" {
				date := ti.rev
				if date == "" {
					date = fmt.Sprintf("2019-%02d-11", 1+i%12)
				}
				base = ti.name + "@" + date + ".yang"
			}
		case "sub":
			d = filepath.Join(dir, "lib", "d"+strconv.Itoa(i%3), "e"+strconv.Itoa(i%2))
		case "dirs":
			d = filepath.Join(dir, "lib"+strconv.Itoa(i%2))
		}
		if isRoot[i] && hand != "read" {
			continue
		}
		if isRoot[i] && layout != "read" {
			d = filepath.Join(dir, "given") // handed over by path, not on the search path
		}
		os.MkdirAll(d, 0o755)
		fileOf[i] = filepath.Join(d, base)
		if err := os.WriteFile(fileOf[i], []byte(c.Texts[i]), 0o644); err != nil {
			out.ParseErr = "write: " + err.Error()
			return out
		}
	}
	ms := yang.NewModules()
	ms.ParseOptions.IgnoreSubmoduleCircularDependencies = c.IgnoreCircular
	ms.ParseOptions.DeviateOptions.IgnoreDeviateNotSupported = c.IgnoreNotSupported
	ms.AddPath(search...)
	for _, i := range roots {
		var err error
		if hand == "read" {
			err = ms.Read(fileOf[i])
		} else {
			err = ms.Parse(c.Texts[i], c.Names[i])
		}
		if err != nil {
			out.ParseErr = fmt.Sprintf("%s: %v", c.Names[i], err)
			return out
		}
	}
	errs := ms.Process()
	// what ended up loaded, as indices into the case's texts, in the case's order
	var loaded []int
	found := map[int]bool{}
	for k, mm := range []map[string]*yang.Module{ms.Modules, ms.SubModules} {
		for _, m := range distinct(mm) {
			i, ok := byKey[fmt.Sprint(k == 1, " ", m.Name)]
			if !ok || found[i] {
				return skip("a loaded module is not a text of the case, or loaded twice")
			}
			found[i] = true
			loaded = append(loaded, i)
		}
	}
	sort.Ints(loaded)
	var lateNames []string
	nLate, lateAug, lateDev, lateCh := 0, 0, 0, 0
	c2 := c
	c2.Names, c2.Texts = nil, nil
	for _, i := range loaded {
		c2.Names = append(c2.Names, c.Names[i])
		c2.Texts = append(c2.Texts, c.Texts[i])
		if !isRoot[i] {
			nLate++
			lateNames = append(lateNames, infos[i].name)
			if infos[i].nAug > 0 {
				lateAug++
			}
			if infos[i].nDev > 0 {
				lateDev++
			}
			if infos[i].nChoice > 0 {
				lateCh++
			}
		}
	}
	var rootNames []string
	for _, i := range roots {
		rootNames = append(rootNames, infos[i].name)
	}
	handName := "Modules.Parse"
	if hand == "read" {
		handName = "Modules.Read(path)"
	}
	diskWhat = fmt.Sprintf("%s handed over by %s and %s found by Process on the search path (layout %s)",
		strings.Join(rootNames, ", "), handName, ifelse(len(lateNames) == 0, "nothing", strings.Join(lateNames, ", ")), layout)
	// the same texts, all handed over
	ms2 := yang.NewModules()
	ms2.ParseOptions.IgnoreSubmoduleCircularDependencies = c.IgnoreCircular
	ms2.ParseOptions.DeviateOptions.IgnoreDeviateNotSupported = c.IgnoreNotSupported
	for k := range c2.Names {
		if err := ms2.Parse(c2.Texts[k], c2.Names[k]); err != nil {
			return skip("the loaded texts are not accepted by Parse one after the other")
		}
	}
	errs2 := ms2.Process()
	info := []string{layout, hand, strconv.Itoa(len(loaded)), strconv.Itoa(nLate), strconv.Itoa(lateAug), strconv.Itoa(lateDev), strconv.Itoa(lateCh)}
	ld := make([]string, len(loaded))
	for k, i := range loaded {
		ld[k] = strconv.Itoa(i)
	}
	if (len(errs) > 0) != (len(errs2) > 0) {
		out.Extra = map[string][]string{"disk": info, "loaded": ld, "disk_errors_differ": {"1"}}
		e1, e2 := "no errors", "no errors"
		if len(errs) > 0 {
			e1 = "errors (" + firstN(errs[0].Error(), 160) + ")"
		}
		if len(errs2) > 0 {
			e2 = "errors (" + firstN(errs2[0].Error(), 160) + ")"
		}
		out.Findings = append(out.Findings, fmt.Sprintf("the same texts are processed with %s when all are handed over and with %s with %s: there is no one processed tree to look paths up in",
			e2, e1, diskWhat))
		return out
	}
	if len(errs) == 0 {
		diskExpect = buildWorld(ms2)
	}
	hook(c2, ms, errs, &out)
	if out.Extra == nil {
		out.Extra = map[string][]string{}
	}
	if len(errs) > 0 {
		out.Extra["rejected"] = []string{"1"} // by both ways of loading: no trees
	}
	out.Extra["disk"] = info
	out.Extra["loaded"] = ld
	return out
}

func ifelse(c bool, a, b string) string {
	if c {
		return a
	}
	return b
}

func nodeKey(w *world, n *node) string { return w.trees[n.tree].ref + "|" + encSteps(n.steps) }

// diskQueries compares the from-disk world w with the all-explicit world exp; it returns lookups
// of the nodes w lacks and reports the differences through add.
func diskQueries(ms *yang.Modules, w, exp *world, r *rand.Rand, ctxOf func(*node) *yang.Module, add func(string)) []query {
	have := map[string]*node{}
	for _, n := range w.nodes {
		have[nodeKey(w, n)] = n
	}
	want := map[string]bool{}
	var missing []*node
	kindDiff := ""
	for _, n := range exp.nodes {
		k := nodeKey(exp, n)
		want[k] = true
		if h, ok := have[k]; !ok {
			missing = append(missing, n)
		} else if h.e.Kind != n.e.Kind && kindDiff == "" {
			kindDiff = fmt.Sprintf("%s is a %v, handed over a %v", readableLoc(exp.trees[n.tree].ref+"/"+encSteps(n.steps)+"/"+lib.HexS(n.e.Path())), h.e.Kind, n.e.Kind)
		}
	}
	var extra []*node
	for _, n := range w.nodes {
		if !want[nodeKey(w, n)] {
			extra = append(extra, n)
		}
	}
	loc := func(x *world, n *node) string {
		return strings.TrimSpace(readableLoc(x.trees[n.tree].ref + "/" + encSteps(n.steps) + "/" + lib.HexS(n.e.Path())))
	}
	if len(missing) > 0 {
		add(fmt.Sprintf("both ways of loading a set must give processed trees with the same schema paths: with %s the trees lack %d node(s) that they have when every text is handed over, first %s — its path names nothing",
			diskWhat, len(missing), loc(exp, missing[0])))
	}
	if len(extra) > 0 {
		add(fmt.Sprintf("both ways of loading a set must give processed trees with the same schema paths: with %s the trees have %d node(s) more than when every text is handed over, first %s",
			diskWhat, len(extra), loc(w, extra[0])))
	}
	if kindDiff != "" {
		add("both ways of loading a set must give the same nodes: with " + diskWhat + " " + kindDiff)
	}
	if len(missing) == 0 {
		return nil
	}
	// look the missing nodes up: shallowest first, at most 8 targets
	sort.SliceStable(missing, func(i, j int) bool { return len(missing[i].steps) < len(missing[j].steps) })
	if len(missing) > 8 {
		missing = missing[:8]
	}
	treeByRef := map[string]int{}
	for i, t := range w.trees {
		treeByRef[t.ref] = i
	}
	var starts []int
	for _, t := range w.trees {
		starts = append(starts, w.idx[t.root])
	}
	for k := 0; k < 4 && len(w.nodes) > 0; k++ {
		starts = append(starts, r.Intn(len(w.nodes)))
	}
	var qs []query
	for mi, n := range missing {
		if len(n.steps) == 0 || limitOf(n) != "" {
			continue
		}
		et := exp.trees[n.tree]
		ti, ok := treeByRef[et.ref]
		if !ok {
			continue // the whole tree is missing: reported above
		}
		expect := "x" + et.ref + "/" + encSteps(n.steps) + "/" + lib.HexS(n.e.Path())
		tm := w.trees[ti].mod
		if tm.BelongsTo != nil {
			// private tree of a submodule: relative path from its root
			root := w.nodes[w.idx[w.trees[ti].root]]
			if cm := ctxOf(root); cm != nil {
				qs = append(qs, query{w.idx[w.trees[ti].root], treeRef(cm), strings.Join(n.names, "/"), expect, "disk-rel"})
			}
			continue
		}
		for si, s := range starts {
			st := w.nodes[s]
			ctx := ctxOf(st)
			if ctx == nil {
				continue
			}
			pf, _ := prefixesFor(ms, ctx, tm)
			for k, px := range pf {
				qs = append(qs, query{s, treeRef(ctx), absPath(px, n.schema, (mi+si+k)%3), expect, "disk-abs"})
			}
		}
		// relative: from the parent that exists (the deepest existing ancestor), downwards
		for up := 1; up <= len(n.steps); up++ {
			pk := et.ref + "|" + encSteps(n.steps[:len(n.steps)-up])
			if p, ok := have[pk]; ok {
				if cm := ctxOf(p); cm != nil {
					qs = append(qs, query{w.idx[p.e], treeRef(cm), strings.Join(n.names[len(n.names)-up:], "/"), expect, "disk-rel"})
				}
				break
			}
		}
	}
	return qs
}

// ---------------------------------------------------------------------------------------------
// parent side: which sets run from disk, and how

var diskLayouts = []string{"flat", "dated", "sub", "dirs", "read"}

// diskSplit chooses the roots of a generated set: the modules nobody imports (without them part of
// the set would not be loaded at all), then, by the mode, nothing more / some more / a submodule
// together with its owner / everything. mods[i] describes text i.
func diskSplit(r *rand.Rand, mods []*gen.Module, mode int) []int {
	idx := map[*gen.Module]int{}
	for i, m := range mods {
		idx[m] = i
	}
	needed := map[int]bool{}
	for _, m := range mods {
		for _, o := range m.Imports {
			if j, ok := idx[o]; ok && o != m {
				needed[j] = true
			}
		}
	}
	// reachability from the chosen roots; add roots until everything that can be loaded is
	root := map[int]bool{}
	reach := map[int]bool{}
	var visit func(i int)
	visit = func(i int) {
		if reach[i] {
			return
		}
		reach[i] = true
		for _, o := range mods[i].Imports {
			if j, ok := idx[o]; ok {
				visit(j)
			}
		}
		for _, o := range mods[i].Includes {
			if j, ok := idx[o]; ok {
				visit(j)
			}
		}
	}
	for i, m := range mods {
		if !m.Sub && !needed[i] {
			root[i] = true
			visit(i)
		}
	}
	for i, m := range mods { // import cycles: take the first module of each unreached one
		if !m.Sub && !reach[i] {
			root[i] = true
			visit(i)
		}
	}
	switch mode % 4 {
	case 0: // only the importers
	case 1: // some more modules
		for i, m := range mods {
			if !m.Sub && r.Intn(2) == 0 {
				root[i] = true
			}
		}
	case 2: // a submodule with its owner, the owner's other submodules are found
		for i, m := range mods {
			if m.Sub && m.Owner != nil && r.Intn(2) == 0 {
				if j, ok := idx[m.Owner]; ok {
					root[i], root[j] = true, true
				}
			}
		}
	case 3: // everything but the submodules (only the owners) — or everything
		all := r.Intn(3) == 0
		for i, m := range mods {
			if !m.Sub || all {
				root[i] = true
			}
		}
	}
	var out []int
	for i := range mods {
		if root[i] {
			out = append(out, i)
		}
	}
	return out
}

func rootsArg(roots []int) string {
	s := make([]string, len(roots))
	for i, x := range roots {
		s[i] = strconv.Itoa(x)
	}
	return strings.Join(s, ",")
}

// asDisk turns a case into a from-disk case.
func asDisk(c rescorr.Case, roots []int, layout, hand string) rescorr.Case {
	c2 := c
	c2.Extra = map[string]string{}
	for k, v := range c.Extra {
		c2.Extra[k] = v
	}
	if layout == "read" {
		hand = "read"
	}
	c2.Extra["disk"], c2.Extra["roots"], c2.Extra["layout"], c2.Extra["hand"] = "1", rootsArg(roots), layout, hand
	c2.Extra["label"] = c.Extra["label"] + "+disk:" + layout + "/" + hand + "/roots=" + rootsArg(roots)
	return c2
}

// addOwnAugments gives modules and submodules augments of their OWN module's tree and of the
// modules they import (plain targets: containers, lists, choices, rpc input/output), so that the
// modules found late on the search path have grafts of their own to lose.
func addOwnAugments(r *rand.Rand, set *gen.Set) {
	seq := 0
	for _, m := range set.Mods {
		type tgt struct {
			mod *gen.Module
			pfx string
		}
		var tgts []tgt
		if m.Sub {
			if m.Owner != nil {
				tgts = append(tgts, tgt{m.Owner, m.Prefix})
			}
		} else {
			tgts = append(tgts, tgt{m, m.Prefix})
		}
		for _, o := range m.Imports {
			if !o.Sub && r.Intn(2) == 0 {
				tgts = append(tgts, tgt{o, m.ImportPrefix[o]})
			}
		}
		for _, t := range tgts {
			if t.pfx == "" {
				continue
			}
			var cands []string
			for _, p := range t.mod.Paths() {
				switch p.Kw {
				case "container", "list", "choice", "case", "input", "output", "notification":
				default:
					continue
				}
				path, ok := "", true
				for i, n := range p.Names {
					path += "/" + t.pfx + ":" + n
					if p.ChoiceShorthand[i] {
						ok = false // needs the late pass: addLateAugments does those
					}
				}
				if ok && path != "" {
					cands = append(cands, path)
				}
			}
			if len(cands) == 0 {
				continue
			}
			seq++
			id := fmt.Sprintf("%s%d", m.Name[:1], seq)
			a := &gen.Node{Kw: "augment", Arg: cands[r.Intn(len(cands))]}
			a.Kids = append(a.Kids, leafNode("dk"+id))
			c := &gen.Node{Kw: "container", Arg: "dc" + id}
			c.Kids = append(c.Kids, leafNode("dw"+id))
			if r.Intn(2) == 0 {
				ch := &gen.Node{Kw: "choice", Arg: "dh" + id}
				ch.Kids = append(ch.Kids, leafNode("ds"+id))
				c.Kids = append(c.Kids, ch)
			}
			a.Kids = append(a.Kids, c)
			m.Body.Kids = append(m.Body.Kids, a)
		}
	}
}

// diskCorpus: a hand-written chain of imports three deep with a submodule, where every module but
// the first has augments (own tree, own tree through an implied case, the module it imports, a
// node another module grafted), shorthand choice members and deviations, in every split between
// handed over and found, and every layout.
func diskCorpus() []rescorr.Case {
	names := []string{"main.yang", "m1.yang", "m2.yang", "m2s.yang", "m3.yang", "m3s.yang"}
	texts := []string{
		`module main { namespace "urn:main"; prefix m; import m1 { prefix p1; }
  container top { leaf here { type string; } }
}
`,
		`module m1 { namespace "urn:m1"; prefix m1; import m2 { prefix p2; } import m3 { prefix p3; revision-date 2020-01-03; }
  container c1 { choice ch { leaf sh { type string; } container shc { leaf d { type string; } } } }
  leaf dv1 { type string; }
  augment "/m1:c1" { leaf own1 { type string; } container more1 { leaf deep1 { type string; } } }
  augment "/m1:c1/m1:ch/m1:shc/m1:shc" { leaf late1 { type string; } choice lc1 { leaf ly1 { type string; } } }
  augment "/p2:c2" { leaf from1 { type string; } }
  augment "/p2:c2/p2:inner/p2:more2" { leaf chain1 { type string; } }
  augment "/p3:r3/p3:output" { leaf out1 { type string; } }
  deviation "/p2:dv2" { deviate replace { type uint8; } }
  deviation "/p2:ns2" { deviate not-supported; }
}
`,
		`module m2 { namespace "urn:m2"; prefix m2; import m3 { prefix q3; } include m2s;
  container c2 { container inner { leaf own { type string; } } choice ch2 { leaf a2 { type string; } } }
  leaf dv2 { type string; }
  leaf ns2 { type string; }
  augment "/m2:c2/m2:inner" { leaf grafted2 { type string; } container more2 { leaf deep2 { type string; } } }
  augment "/q3:c3/q3:ch3" { leaf bare2 { type string; } }
  augment "/q3:c3/q3:ch3/q3:bare2" { leaf incase2 { type string; } }
  deviation "/q3:c3/q3:gone3" { deviate not-supported; }
}
`,
		`submodule m2s { belongs-to m2 { prefix s2; } import m3 { prefix r3; }
  container ins2 { leaf q { type string; } }
  augment "/s2:c2" { leaf fromsub2 { type string; } }
  augment "/r3:c3" { container fromsub3 { leaf z { type string; } } }
}
`,
		`module m3 { namespace "urn:m3"; prefix m3; revision 2020-01-03; include m3s;
  container c3 { leaf l3 { type string; } leaf gone3 { type string; } choice ch3 { leaf a3 { type string; } } }
  rpc r3;
  augment "/m3:r3/m3:input" { leaf inarg3 { type string; } }
  augment "/m3:c3" { list li3 { key k; leaf k { type string; } } }
  augment "/m3:sc3" { leaf intosub3 { type string; } }
}
`,
		`submodule m3s { belongs-to m3 { prefix s3; }
  container sc3 { leaf sl3 { type string; } }
  augment "/s3:c3/s3:li3" { leaf v3 { type string; } }
}
`,
	}
	base := rescorr.Case{Names: names, Texts: texts, Extra: map[string]string{"seed": "1", "max_pairs": "1200", "label": "disk-chain", "kept": "1"}}
	splits := [][]int{{0}, {0, 2}, {0, 1}, {2}, {1}, {0, 2, 3}, {0, 4, 5}, {4}, {0, 1, 2, 3, 4, 5}}
	var out []rescorr.Case
	out = append(out, base) // all handed over, the ordinary way
	for si, s := range splits {
		for li, l := range diskLayouts {
			if si > 1 && (si+li)%2 == 1 { // the first two splits in every layout, the others in every other one
				continue
			}
			hand := "parse"
			if (si+li)%3 == 1 {
				hand = "read"
			}
			out = append(out, asDisk(base, s, l, hand))
		}
	}
	// the author's shape: one importer handed over, the imported module with an augment of its own tree
	dep := `module dep2 { namespace "urn:dep2"; prefix d;
  container c { container inner { leaf own { type string; } } }
  augment "/d:c/d:inner" { leaf grafted { type string; } container more { leaf deep { type string; } } }
}
`
	main2 := `module main2 { namespace "urn:main2"; prefix m; import dep2 { prefix d; }
  container top { leaf here { type string; } }
}
`
	two := rescorr.Case{Names: []string{"main2.yang", "dep2.yang"}, Texts: []string{main2, dep},
		Extra: map[string]string{"seed": "2", "max_pairs": "2500", "label": "disk-importer-only", "kept": "1"}}
	for _, l := range diskLayouts {
		out = append(out, asDisk(two, []int{0}, l, "parse"))
	}
	return out
}
