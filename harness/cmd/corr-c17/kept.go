package main

import (
	"strings"

	"github.com/openconfig/goyang/pkg/yang"
	"verif/harness/lib"
)

// Phase 5 of the worker ("kept trees"): the property speaks about lookups ON A PROCESSED TREE.
// A caller may keep the trees one Process run has made while the Modules value they came from
// moves on: ClearEntryCache (the documented way to release the conversion cache), another Process,
// GetModule (which runs Process), one more module loaded and Process. Every one of these makes
// ToEntry(module) answer with ANOTHER tree instance (after ClearEntryCache: a raw re-conversion
// that has no grafted nodes, no implied cases, no deviations applied). The kept trees are still
// processed trees, so, started at any node of a kept tree:
//
//   - a relative path, and an absolute path whose first step (by its prefix, read in the start
//     node's context module; a bare first step: the start's own module) denotes the module of the
//     tree the start node lives in, is answered BY THAT TREE: the result is, by pointer identity,
//     the entry reached by walking the kept tree (nil for a path with a step that names no child);
//     the Modules value's conversion cache has no say in it;
//   - an absolute path that crosses into the tree of another module (foreign first prefix; any
//     absolute path started in the private tree of a submodule, which leads to its owner's tree)
//     can only be answered through the Modules value: the result must be the entry reached by
//     walking the steps of the target from the root of that module's CURRENT tree
//     (yang.ToEntry(module), read right after the call so that the oracle does not fill the cache
//     on the lookup's behalf; nil when that tree has no such node) — or the node of that module's
//     kept tree, should the implementation still know it;
//   - no such lookup changes the kept trees (node and error counts).
//
// The own-tree lookups are also sent to the model (whose forest is the kept forest: it has no
// conversion cache to go stale); the crossing ones are judged by the Go-side oracle alone.

// perturbations of the Modules value, applied one after the other in a seeded order
var perturbations = []string{"ClearEntryCache", "Process", "GetModule", "load+Process"}

const keptModule = "module zzkept {\n  namespace \"urn:zzkept\";\n  prefix zzkept;\n  container zzkc { leaf zzkl { type string; } }\n}\n"

// perturb applies one perturbation; why != "" when the Modules value refused (the phase stops).
func perturb(ms *yang.Modules, what string, pick int) (why string) {
	first := func(errs []error) string {
		if len(errs) > 0 {
			return what + ": " + errs[0].Error()
		}
		return ""
	}
	switch what {
	case "ClearEntryCache":
		ms.ClearEntryCache()
	case "Process":
		return first(ms.Process())
	case "GetModule":
		mods := distinct(ms.Modules)
		if len(mods) == 0 {
			return what + ": no module"
		}
		_, errs := ms.GetModule(mods[pick%len(mods)].Name)
		return first(errs)
	case "load+Process":
		if ms.Modules["zzkept"] == nil {
			if err := ms.Parse(keptModule, "zzkept.yang"); err != nil {
				return what + ": " + err.Error()
			}
		}
		return first(ms.Process())
	}
	return ""
}

// resolvePrefix is the runner's reading of RFC 7950 7.1.4/7.1.5: in module ctx a prefix denotes ctx
// itself (its own prefix; for a submodule the belongs-to prefix: the module it belongs to) or the
// module imported under that prefix (the first binding wins).
func resolvePrefix(ms *yang.Modules, ctx *yang.Module, p string) *yang.Module {
	if ctx == nil || p == "" {
		return nil
	}
	if p == ctx.GetPrefix() {
		return ownerOf(ms, ctx)
	}
	for _, i := range ctx.Import {
		if i.Prefix != nil && i.Prefix.Name == p {
			return ownerOf(ms, ms.FindModule(i))
		}
	}
	return nil
}

// firstPrefix returns the prefix of the first step of an absolute path ("" when bare).
func firstPrefix(path string) string {
	first := strings.SplitN(strings.TrimPrefix(path, "/"), "/", 2)[0]
	if i := strings.IndexByte(first, ':'); i >= 0 {
		return first[:i]
	}
	return ""
}

// walkSteps walks encoded steps down from root (nil when a step is not there).
func walkSteps(root *yang.Entry, steps []string) *yang.Entry {
	e := root
	for _, s := range steps {
		if e == nil {
			return nil
		}
		switch s {
		case "i", "o":
			if e.RPC == nil {
				return nil
			}
			if s == "i" {
				e = e.RPC.Input
			} else {
				e = e.RPC.Output
			}
		default:
			if e.RPC != nil {
				return nil
			}
			e = e.Dir[unhex(s[1:])]
		}
	}
	return e
}

func locOf(ref string, steps []string, e *yang.Entry) string {
	return ref + "/" + encSteps(steps) + "/" + lib.HexS(e.Path())
}

// baseKind strips the phase marks of a lookup kind: "refused:<kind>", "kept:<kind>@<perturbation>".
func baseKind(k string) (base, pert string) {
	k = strings.TrimPrefix(k, "refused:")
	if strings.HasPrefix(k, "kept:") {
		k = strings.TrimPrefix(k, "kept:")
		if i := strings.LastIndexByte(k, '@'); i >= 0 {
			k, pert = k[:i], k[i+1:]
		}
	}
	return k, pert
}

// keptShare: the generated sets that get the kept-tree phase.
func keptShare(i int) bool { return true }
