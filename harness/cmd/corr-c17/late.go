package main

import (
	"fmt"
	"math/rand"

	"verif/harness/gen"
)

// addLateAugments adds, to a generated set, augments that can only be applied after FixChoice
// has inserted the implied cases: the target path runs through the implied case of a shorthand
// choice member (`…/ch/x/x/…`) or ends at the implied case of a shorthand leaf (`…/ch/x`), the
// body holds a choice with shorthand members of its own (which need implied cases in turn), and
// the augment is written in the owning module, in one of its submodules or in an importing module.
// These are the nodes "grafted by augments" and "inside implicit cases" of the property at once.
func addLateAugments(r *rand.Rand, set *gen.Set) {
	seq := 0
	for _, m := range set.Mods {
		if r.Intn(10) < 3 {
			continue
		}
		type tgt struct {
			mod *gen.Module
			pfx string
		}
		var tgts []tgt
		if m.Sub {
			tgts = append(tgts, tgt{m.Owner, m.Prefix})
		} else {
			tgts = append(tgts, tgt{m, m.Prefix})
		}
		for _, o := range m.Imports {
			if !o.Sub {
				// importing modules twice: they are the case that matters most
				tgts = append(tgts, tgt{o, m.ImportPrefix[o]}, tgt{o, m.ImportPrefix[o]})
			}
		}
		t := tgts[r.Intn(len(tgts))]
		var cands []string
		for _, p := range t.mod.Paths() {
			through := false
			for _, s := range p.ChoiceShorthand {
				through = through || s
			}
			if !through {
				continue
			}
			last := len(p.Names) - 1
			leafish := p.Kw == "leaf" || p.Kw == "leaf-list" || p.Kw == "anyxml" || p.Kw == "anydata"
			if leafish && !p.ChoiceShorthand[last] {
				continue
			}
			if p.Kw == "rpc" || p.Kw == "action" {
				continue
			}
			path := ""
			for i, n := range p.Names {
				path += "/" + t.pfx + ":" + n
				if p.ChoiceShorthand[i] && !(leafish && i == last) {
					path += "/" + t.pfx + ":" + n
				}
			}
			cands = append(cands, path)
		}
		if len(cands) == 0 {
			continue
		}
		na := 1 + r.Intn(2)
		for k := 0; k < na; k++ {
			seq++
			id := fmt.Sprintf("%s%d", m.Name[:1], seq)
			a := &gen.Node{Kw: "augment", Arg: cands[r.Intn(len(cands))]}
			ch := &gen.Node{Kw: "choice", Arg: "lc" + id}
			ch.Kids = append(ch.Kids, leafNode("ly"+id))
			if r.Intn(2) == 0 {
				cz := &gen.Node{Kw: "container", Arg: "lz" + id}
				cz.Kids = append(cz.Kids, leafNode("lw"+id))
				if r.Intn(2) == 0 {
					deep := &gen.Node{Kw: "choice", Arg: "ld" + id}
					deep.Kids = append(deep.Kids, leafNode("le"+id))
					cz.Kids = append(cz.Kids, deep)
				}
				ch.Kids = append(ch.Kids, cz)
			}
			if r.Intn(2) == 0 {
				cs := &gen.Node{Kw: "case", Arg: "lk" + id}
				cs.Kids = append(cs.Kids, leafNode("lv"+id))
				ch.Kids = append(ch.Kids, cs)
			}
			a.Kids = append(a.Kids, ch)
			if r.Intn(3) == 0 {
				a.Kids = append(a.Kids, leafNode("lp"+id))
			}
			m.Body.Kids = append(m.Body.Kids, a)
		}
	}
}

func leafNode(name string) *gen.Node {
	return &gen.Node{Kw: "leaf", Arg: name, Kids: []*gen.Node{{Kw: "type", Arg: "string"}}}
}

// addChoiceGrafts makes importing modules (and submodules) graft bare, non-case nodes directly
// into choices of another module: FixChoice wraps each in an implied case, a node of the tree
// that has no statement of its own and takes its prefix context from the node it wraps — the
// augmenting module, not the module of the choice. Call after collidePrefixes so that the two
// modules' prefix tables differ in meaning, not just in spelling.
func addChoiceGrafts(r *rand.Rand, set *gen.Set) {
	seq := 0
	for _, m := range set.Mods {
		type tgt struct {
			mod *gen.Module
			pfx string
		}
		var tgts []tgt
		for _, o := range m.Imports {
			if !o.Sub {
				tgts = append(tgts, tgt{o, m.ImportPrefix[o]})
			}
		}
		if m.Sub && r.Intn(2) == 0 {
			tgts = append(tgts, tgt{m.Owner, m.Prefix})
		}
		for _, t := range tgts {
			var cands []string
			for _, p := range t.mod.Paths() {
				if p.Kw != "choice" {
					continue
				}
				path := ""
				for i, n := range p.Names {
					path += "/" + t.pfx + ":" + n
					if p.ChoiceShorthand[i] && r.Intn(2) == 0 {
						path = "" // through a shorthand member: needs the late pass; keep some, drop some
						break
					}
				}
				if path != "" {
					cands = append(cands, path)
				}
			}
			if len(cands) == 0 || r.Intn(4) == 0 {
				continue
			}
			seq++
			id := fmt.Sprintf("%s%d", m.Name[:1], seq)
			a := &gen.Node{Kw: "augment", Arg: cands[r.Intn(len(cands))]}
			a.Kids = append(a.Kids, leafNode("gl"+id))
			if r.Intn(2) == 0 {
				c := &gen.Node{Kw: "container", Arg: "gc" + id}
				c.Kids = append(c.Kids, leafNode("gw"+id))
				a.Kids = append(a.Kids, c)
			}
			m.Body.Kids = append(m.Body.Kids, a)
		}
	}
}

// addIONamed puts ordinary data nodes named `input` and `output` into containers, lists and cases
// (outside rpc/action these are names like any other; inside an rpc input they sit beside nothing
// special either).
func addIONamed(r *rand.Rand, set *gen.Set) {
	var rec func(n *gen.Node, inGrouping bool)
	rec = func(n *gen.Node, inGrouping bool) {
		switch n.Kw {
		case "container", "list", "case", "input", "output", "notification":
			if !inGrouping && r.Intn(5) == 0 {
				has := map[string]bool{}
				for _, c := range n.Kids {
					has[c.Arg] = true
				}
				if !has["input"] && r.Intn(2) == 0 {
					n.Kids = append(n.Kids, leafNode("input"))
				}
				if !has["output"] {
					c := &gen.Node{Kw: "container", Arg: "output"}
					c.Kids = append(c.Kids, leafNode("input"))
					n.Kids = append(n.Kids, c)
				}
			}
		}
		for _, c := range n.Kids {
			if c.Kw != "augment" && c.Kw != "deviation" {
				rec(c, inGrouping || c.Kw == "grouping")
			}
		}
	}
	for _, m := range set.Mods {
		rec(m.Body, false)
	}
}
