// corr-c17: schema path lookup finds exactly the node the path names.
//
// On the processed trees of generated module sets (error-free ones) the Go worker walks every
// tree of every module and submodule (Dir, RPC.Input, RPC.Output) into a pointer -> (tree, steps)
// map and then calls the real Entry.Find
//
//   - for all (start, target) pairs (exhaustive up to 40 nodes, sampled beyond) with the absolute
//     prefixed path of the target under every prefix the start node's context module
//     (RootNode(start.Node)) has for the target's module, in three spellings, and with the
//     relative path (`..` up to a common ancestor, then down); the result must be the target
//     by pointer identity;
//
//   - with one corrupted step (unknown name, `bogus` below an rpc, a trailing step below a leaf,
//     an empty step, `..` above the root, a prefix the context module does not bind): nil;
//
//   - for absent rpc/action inputs and outputs: exactly one node is created, with its parent.
//
//   - after refused loads (phase 4) and, with the processed trees KEPT, after ClearEntryCache /
//     Process / GetModule / one more module + Process on the Modules value (phase 5, kept.go):
//     own-module and relative lookups from nodes of the kept trees must be answered by the kept
//     tree itself (pointer identity), lookups crossing into another module by its current tree.
//
//   - FROM DISK (disk.go): a share of the sets (a hand-written chain of imports three deep with
//     submodules, 1/6 of the generated sets) is written to a directory tree; only some texts are
//     handed over (only the importer, only a submodule's owner, a submodule with its owner, some,
//     all), the rest is found by Process on the search path (flat, dated file names,
//     sub-directories under "dir/...", two directories, Read(path) of the roots); the same texts
//     all handed over give the expected node set, every node the from-disk trees lack is looked up.
//
// After every call the trees are re-walked (node and error counts), after the read-only phase the
// pointer map and the full dump are compared with the ones before. The same calls, in the same
// order, are sent to the Lean driver drv_find (model `find` threaded through the forest) and the
// answers (location reached, nodes created, errors recorded) are compared one by one; the driver
// also evaluates the specification (`spec.paths`: absPath of every node, wfKeys) on the same set.
package main

import (
	"encoding/json"
	"fmt"
	"math/rand"
	"os"
	"sort"
	"strconv"
	"strings"
	"time"

	"github.com/openconfig/goyang/pkg/yang"
	"verif/harness/gen"
	"verif/harness/lib"
	"verif/harness/rescorr"
)

// ---------------------------------------------------------------------------------------------
// Go side (worker child)

type node struct {
	e     *yang.Entry
	tree  int      // index into trees
	steps []string // "c<hex>", "i", "o"
	names []string // written names of the steps
	// schema: the names of the node's schema path as RFC 7950 7.9.2 reads the source: a member
	// written directly under a choice sits in an implied case of its own name. Equal to names on a
	// properly processed tree (FixChoice has inserted every implied case); where a case entry is
	// missing the schema path has one name more than the tree has steps.
	schema []string
	viaRP  bool // some step is a Dir child of an rpc/action entry (limit L2)
}

type tree struct {
	mod  *yang.Module
	ref  string
	root *yang.Entry
}

type world struct {
	trees []tree
	nodes []*node
	idx   map[*yang.Entry]int
	dup   []string
}

func treeRef(m *yang.Module) string {
	k := "m"
	if m.BelongsTo != nil {
		k = "s"
	}
	return k + lib.HexS(m.FullName())
}

func encSteps(s []string) string {
	if len(s) == 0 {
		return "-"
	}
	return strings.Join(s, ".")
}

func (w *world) walk(t int, e *yang.Entry, steps, names, schema []string, viaRP bool) {
	if e == nil {
		return
	}
	if j, ok := w.idx[e]; ok {
		w.dup = append(w.dup, fmt.Sprintf("entry object reachable twice: %s/%s and %s/%s",
			w.trees[w.nodes[j].tree].ref, encSteps(w.nodes[j].steps), w.trees[t].ref, encSteps(steps)))
		return
	}
	w.idx[e] = len(w.nodes)
	w.nodes = append(w.nodes, &node{e: e, tree: t, steps: append([]string{}, steps...), names: append([]string{}, names...),
		schema: append([]string{}, schema...), viaRP: viaRP})
	for _, k := range lib.SortedKeys(e.Dir) {
		sc := append(schema, k)
		if c := e.Dir[k]; e.Kind == yang.ChoiceEntry && c != nil && c.Kind != yang.CaseEntry {
			sc = append(sc, k) // the implied case the source means
		}
		w.walk(t, e.Dir[k], append(steps, "c"+lib.HexS(k)), append(names, k), sc, viaRP || e.RPC != nil)
	}
	if e.RPC != nil {
		w.walk(t, e.RPC.Input, append(steps, "i"), append(names, "input"), append(schema, "input"), viaRP)
		w.walk(t, e.RPC.Output, append(steps, "o"), append(names, "output"), append(schema, "output"), viaRP)
	}
}

func distinct(mm map[string]*yang.Module) []*yang.Module {
	seen := map[*yang.Module]bool{}
	var out []*yang.Module
	for _, m := range mm {
		if !seen[m] {
			seen[m] = true
			out = append(out, m)
		}
	}
	sort.Slice(out, func(i, j int) bool { return out[i].FullName() < out[j].FullName() })
	return out
}

func buildWorld(ms *yang.Modules) *world {
	w := &world{idx: map[*yang.Entry]int{}}
	for _, m := range append(distinct(ms.Modules), distinct(ms.SubModules)...) {
		w.trees = append(w.trees, tree{mod: m, ref: treeRef(m), root: yang.ToEntry(m)})
	}
	for t := range w.trees {
		w.walk(t, w.trees[t].root, nil, nil, nil, false)
	}
	return w
}

// counts re-walks everything: number of entries and of recorded errors.
func counts(w *world) (n, errs int) {
	var rec func(e *yang.Entry)
	rec = func(e *yang.Entry) {
		if e == nil {
			return
		}
		n++
		errs += len(e.Errors)
		for _, c := range e.Dir {
			rec(c)
		}
		if e.RPC != nil {
			rec(e.RPC.Input)
			rec(e.RPC.Output)
		}
	}
	for _, t := range w.trees {
		rec(t.root)
	}
	return
}

// ownerOf is module(): a submodule stands for the module it belongs to.
func ownerOf(ms *yang.Modules, m *yang.Module) *yang.Module {
	if m == nil {
		return nil
	}
	if m.BelongsTo != nil {
		return ms.Modules[m.BelongsTo.Name]
	}
	return m
}

// prefixesFor lists the prefixes under which ctx knows module target (RFC 7950: its own prefix,
// the belongs-to prefix of a submodule, the prefixes of its imports); a prefix shadowed by an
// earlier binding is left out. known reports every prefix ctx binds at all.
func prefixesFor(ms *yang.Modules, ctx, target *yang.Module) (pfx []string, known map[string]bool) {
	known = map[string]bool{}
	bind := func(p string, m *yang.Module) {
		if p == "" || known[p] {
			return
		}
		known[p] = true
		if m != nil && ownerOf(ms, m) == target {
			pfx = append(pfx, p)
		}
	}
	bind(ctx.GetPrefix(), ctx)
	for _, i := range ctx.Import {
		if i.Prefix != nil {
			bind(i.Prefix.Name, ms.FindModule(i))
		}
	}
	return
}

type query struct {
	start  int
	ctx    string // tree ref of the context module
	path   string
	expect string // "t<idx>" | "nil" | "new"
	kind   string
}

func spell(pfx, name string) string {
	if pfx == "" {
		return name
	}
	return pfx + ":" + name
}

// absPath renders the target's path; variant 0: every step prefixed; 1: first step only;
// 2: later steps with a prefix nobody binds (goyang reads the first prefix only).
func absPath(pfx string, names []string, variant int) string {
	var sb strings.Builder
	for i, n := range names {
		p := pfx
		if i > 0 {
			switch variant {
			case 1:
				p = ""
			case 2:
				p = "zz9"
			}
		}
		sb.WriteString("/" + spell(p, n))
	}
	return sb.String()
}

func common(a, b []string) int {
	n := 0
	for n < len(a) && n < len(b) && a[n] == b[n] {
		n++
	}
	return n
}

// relPath: `..` up to the common ancestor at depth c, then the names down ("." when empty).
func relPath(a, b *node, c int) string {
	var parts []string
	for i := c; i < len(a.steps); i++ {
		parts = append(parts, "..")
	}
	parts = append(parts, b.names[c:]...)
	if len(parts) == 0 {
		return "."
	}
	return strings.Join(parts, "/")
}

func unspellable(n string) bool {
	return n == "" || n == "." || n == ".." || strings.ContainsAny(n, "/:")
}

// limitOf classifies a target whose path no lookup can spell (documented limits of C17).
func limitOf(n *node) string {
	// (a node filed in the Dir of an rpc entry, n.viaRP, was limit D17-L2 until the repair 049247d:
	// Augment now rejects an rpc/action node as target, so such a node is a plain violation)
	for i, s := range n.steps {
		if strings.HasPrefix(s, "c") && unspellable(n.names[i]) {
			return "D17-L1"
		}
	}
	return ""
}

func hook(c rescorr.Case, ms *yang.Modules, errs []error, out *rescorr.GoOut) {
	if len(errs) > 0 {
		if c.Extra["expect_errors"] == "1" {
			out.Extra = map[string][]string{"rejected": {"1"}}
		}
		return
	}
	seed, _ := strconv.ParseInt(c.Extra["seed"], 10, 64)
	maxPairs, _ := strconv.Atoi(c.Extra["max_pairs"])
	if maxPairs == 0 {
		maxPairs = 1600
	}
	r := rand.New(rand.NewSource(seed))
	w := buildWorld(ms)
	out.Extra = map[string][]string{}
	add := func(s string) {
		if len(out.Findings) < 12 {
			out.Findings = append(out.Findings, s)
		}
	}
	for _, d := range w.dup {
		add(d)
	}
	if c.Extra["expect_errors"] == "1" {
		add("Process accepted a set it must reject (" + c.Extra["label"] + "): its nodes end up where no path reaches them")
	}
	dumpBefore := lib.DumpOutcome(ms, nil)

	// the Go-side reading of "absolute prefixed schema path" with the tree's own prefix, from the
	// Parent chain and Name fields (compared with the specification's absPath by the parent)
	for _, n := range w.nodes {
		if len(n.steps) == 0 {
			continue
		}
		if p := n.e.Parent; p != nil && p.Kind == yang.ChoiceEntry && n.e.Kind != yang.CaseEntry {
			add(fmt.Sprintf("%s is written directly under choice %s but has no implied case: its schema path %s names nothing",
				n.e.Path(), p.Path(), absPath(w.trees[n.tree].mod.GetPrefix(), n.schema, 0)))
		}
		var names []string
		for x := n.e; x != nil && x.Parent != nil; x = x.Parent {
			names = append([]string{x.Name}, names...)
		}
		goCtx := "?" // what Go itself uses: RootNode(e.Node)
		if n.e.Node != nil {
			if cm := yang.RootNode(n.e.Node); cm != nil {
				goCtx = treeRef(cm)
			}
		}
		out.Extra["own"] = append(out.Extra["own"], w.trees[n.tree].ref+"|"+encSteps(n.steps)+"|"+
			lib.HexS(absPath(w.trees[n.tree].mod.GetPrefix(), names, 0))+"|"+goCtx)
	}

	// ctxOf: the module whose prefix and import statements give a start node's prefixes their
	// meaning: the module the node's statement was written in. The runner does not take Go's word for
	// it where it can tell otherwise: an implied case (made by FixChoice, no statement of its own)
	// belongs where the node it wraps was written — that is what the model says (wrapCases:
	// nodeMod of the wrapped node), and the per-node context Go reports is compared with the
	// model's for every node (own records below).
	ctxOf := func(n *node) *yang.Module {
		if w := wrappedBy(n.e); w != nil && w.Node != nil {
			return yang.RootNode(w.Node)
		}
		if n.e.Node == nil {
			return nil
		}
		return yang.RootNode(n.e.Node)
	}
	homeTree := func(t int) *yang.Module { // the module a path without prefix stays in
		if o := ownerOf(ms, w.trees[t].mod); o != nil {
			return o
		}
		return w.trees[t].mod
	}
	treeOfMod := map[*yang.Module]int{}
	for i, t := range w.trees {
		treeOfMod[t.mod] = i
	}

	var qs []query
	// ---- phase 1: existing nodes, all pairs or a sample
	N := len(w.nodes)
	type pair struct{ a, b int }
	var pairs []pair
	if N*N <= maxPairs || N <= 40 && maxPairs >= 1600 {
		for a := 0; a < N; a++ {
			for b := 0; b < N; b++ {
				pairs = append(pairs, pair{a, b})
			}
		}
	} else {
		for i := 0; i < maxPairs; i++ {
			pairs = append(pairs, pair{r.Intn(N), r.Intn(N)})
		}
	}
	unknownDone := map[string]bool{}
	for pi, p := range pairs {
		a, b := w.nodes[p.a], w.nodes[p.b]
		ctx := ctxOf(a)
		bt := w.trees[b.tree]
		if ctx != nil && len(b.steps) > 0 {
			cref := treeRef(ctx)
			if bt.mod.BelongsTo == nil {
				pf, known := prefixesFor(ms, ctx, bt.mod)
				for k, px := range pf {
					qs = append(qs, query{p.a, cref, absPath(px, b.schema, (pi+k)%3), "t" + strconv.Itoa(p.b), "abs"})
				}
				// the NAME of an imported module is not a prefix (unless some prefix statement says so)
				for _, imp := range ctx.Import {
					if nm := imp.Name; !known[nm] && !unknownDone[cref+"\x00"+nm] && ownerOf(ms, ms.FindModule(imp)) == bt.mod {
						unknownDone[cref+"\x00"+nm] = true
						qs = append(qs, query{p.a, cref, absPath(nm, b.schema, 0), "nil", "name-as-prefix"})
					}
				}
				// a prefix the context module does not bind: nothing may be found
				own := bt.mod.GetPrefix()
				if len(pf) == 0 && own != "" && !known[own] && !unknownDone[cref+"\x00"+own] {
					unknownDone[cref+"\x00"+own] = true
					qs = append(qs, query{p.a, cref, absPath(own, b.names, 0), "nil", "unknown-prefix"})
				}
			}
			// a first step without prefix stays in the start node's own module
			if homeTree(a.tree) == bt.mod && pi%4 == 0 {
				qs = append(qs, query{p.a, cref, absPath("", b.schema, 0), "t" + strconv.Itoa(p.b), "abs-bare"})
			}
		}
		if a.tree == b.tree && ctx != nil {
			cm := common(a.steps, b.steps)
			qs = append(qs, query{p.a, treeRef(ctx), relPath(a, b, cm), "t" + strconv.Itoa(p.b), "rel"})
			if cm > 0 && pi%5 == 0 { // higher than necessary
				up := r.Intn(cm)
				qs = append(qs, query{p.a, treeRef(ctx), relPath(a, b, up), "t" + strconv.Itoa(p.b), "rel-high"})
			}
		}
	}
	// ---- phase 2: one corrupted step; `.` steps (harmless)
	for bi, b := range w.nodes {
		if len(b.steps) == 0 {
			continue
		}
		bt := w.trees[b.tree]
		rootIdx := w.idx[bt.root]
		rootCtx := treeRef(bt.mod)
		own := bt.mod.GetPrefix()
		if bt.mod.BelongsTo != nil || own == "" {
			continue
		}
		k := r.Intn(len(b.names))
		mut := func(f func(parts []string) []string) string {
			parts := make([]string, len(b.names))
			for i, n := range b.names {
				parts[i] = spell(own, n)
			}
			return "/" + strings.Join(f(parts), "/")
		}
		qs = append(qs, query{rootIdx, rootCtx, mut(func(p []string) []string { p[k] = own + ":nosuch9"; return p }), "nil", "bad-name"})
		qs = append(qs, query{rootIdx, rootCtx, mut(func(p []string) []string {
			return append(append(append([]string{}, p[:k]...), ""), p[k:]...)
		}), "nil", "empty-step"})
		for i := range b.steps { // a step other than input/output below an rpc
			if i > 0 && w.nodes[w.idx[ancestor(b.e, len(b.steps)-i)]].e.RPC != nil {
				qs = append(qs, query{rootIdx, rootCtx, mut(func(p []string) []string { p[i] = own + ":bogus"; return p }), "nil", "rpc-bogus"})
				break
			}
		}
		if b.e.RPC != nil {
			qs = append(qs, query{rootIdx, rootCtx, mut(func(p []string) []string { return append(p, own+":bogus") }), "nil", "rpc-bogus"})
		}
		if b.e.Dir == nil {
			qs = append(qs, query{rootIdx, rootCtx, mut(func(p []string) []string { return append(p, own+":zz") }), "nil", "below-leaf"})
		}
		// `..` once more than the depth
		qs = append(qs, query{bi, rootCtx, strings.Repeat("../", len(b.steps)) + "..", "nil", "above-root"})
		qs = append(qs, query{bi, rootCtx, strings.Repeat("../", len(b.steps)) + "../" + b.names[0], "nil", "above-root"})
		// `.` steps change nothing
		if len(b.names) > 1 {
			j := 1 + r.Intn(len(b.names)-1)
			qs = append(qs, query{rootIdx, rootCtx, mut(func(p []string) []string {
				return append(append(append([]string{}, p[:j]...), "."), p[j:]...)
			}), "t" + strconv.Itoa(bi), "dot"})
		}
	}
	// ---- phase 2c: a bogus step INSERTED before step i of a valid path (every i, the rest unchanged,
	// also appended after the last step), or put in the place of a step, with names from the
	// structural pool: the module's own name and prefix, the names and prefixes of the other
	// modules and submodules, its import prefixes, input/output, the names of its groupings,
	// typedefs and identities, names of top-level nodes. And Entry.Path() itself as a lookup:
	// "/<module>/<node>/…" is not a schema path (its first element names the module, not a node).
	// In every case: nothing, unless the name happens to be a child of the node reached there.
	poolOf := func(m *yang.Module) []string {
		seen := map[string]bool{}
		var pool []string
		put := func(n string) {
			if !unspellable(n) && !seen[n] {
				seen[n] = true
				pool = append(pool, n)
			}
		}
		put(m.Name)
		put(m.GetPrefix())
		put("input")
		put("output")
		for _, t := range w.trees {
			put(t.mod.Name)
			put(t.mod.GetPrefix())
		}
		for _, i := range m.Import {
			put(i.Name)
			if i.Prefix != nil {
				put(i.Prefix.Name)
			}
		}
		for _, i := range m.Include {
			put(i.Name)
		}
		for _, g := range m.Grouping {
			put(g.Name)
		}
		for _, g := range m.Typedef {
			put(g.Name)
		}
		for _, g := range m.Identity {
			put(g.Name)
		}
		for _, k := range lib.SortedKeys(yang.ToEntry(m).Dir) {
			put(k)
		}
		return pool
	}
	pools := map[int][]string{}
	// isChildOf: would the step `name` lead somewhere from e? (then the lookup is not a corrupted one)
	isChildOf := func(e *yang.Entry, name string) bool {
		if e.RPC != nil {
			return name == "input" || name == "output"
		}
		_, ok := e.Dir[name]
		return ok
	}
	for bi, b := range w.nodes {
		bt := w.trees[b.tree]
		own := bt.mod.GetPrefix()
		if bt.mod.BelongsTo != nil || own == "" || limitOf(b) != "" || b.viaRP {
			continue
		}
		if _, ok := pools[b.tree]; !ok {
			pools[b.tree] = poolOf(bt.mod)
		}
		pool := pools[b.tree]
		rootIdx := w.idx[bt.root]
		rootCtx := treeRef(bt.mod)
		L := len(b.names)
		reachedAt := func(i int) *yang.Entry { return ancestor(b.e, L-i) } // the node before step i
		build := func(pfx string, i int, name string, replace bool) string {
			var parts []string
			for j, n := range b.names {
				if j == i {
					parts = append(parts, spell(pfx, name))
					if replace {
						continue
					}
				}
				parts = append(parts, spell(pfx, n))
			}
			if i == L {
				parts = append(parts, spell(pfx, name))
			}
			return "/" + strings.Join(parts, "/")
		}
		for i := 0; i <= L; i++ {
			var names []string
			if i == 0 { // the module's own name in first position, always
				names = append(names, bt.mod.Name)
			}
			names = append(names, pool[r.Intn(len(pool))])
			for _, nm := range names {
				if isChildOf(reachedAt(i), nm) {
					continue
				}
				qs = append(qs, query{rootIdx, rootCtx, build(own, i, nm, false), "nil", "insert-step"})
				if i == 0 {
					// the same without prefixes, and from every other module under the prefix it has for this one
					qs = append(qs, query{rootIdx, rootCtx, build("", i, nm, false), "nil", "insert-step"})
					for t2, tr2 := range w.trees {
						if t2 == b.tree {
							continue
						}
						if pf, _ := prefixesFor(ms, tr2.mod, bt.mod); len(pf) > 0 {
							qs = append(qs, query{w.idx[tr2.root], tr2.ref, build(pf[r.Intn(len(pf))], i, nm, false), "nil", "insert-step"})
						}
					}
				}
			}
		}
		if L > 0 {
			i := r.Intn(L)
			if nm := pool[r.Intn(len(pool))]; !isChildOf(reachedAt(i), nm) {
				qs = append(qs, query{rootIdx, rootCtx, build(own, i, nm, true), "nil", "replace-step"})
			}
		}
		// Path() of the node, as a lookup, from the root and from the node itself
		if !isChildOf(bt.root, bt.mod.Name) {
			qs = append(qs, query{rootIdx, rootCtx, b.e.Path(), "nil", "path-literal"})
			if bctx := ctxOf(b); bctx != nil && bi%3 == 0 {
				qs = append(qs, query{bi, treeRef(bctx), b.e.Path(), "nil", "path-literal"})
			}
		}
	}
	// ---- phase 2b: a step spelled like a deeper descendant (one that is reachable only through
	// further steps: a choice and its case, a container, an rpc's input) names no child
	skipDone := map[string]bool{}
	for _, d := range w.nodes {
		if len(d.steps) < 2 {
			continue
		}
		nm := d.names[len(d.names)-1]
		if unspellable(nm) || nm == "input" || nm == "output" {
			continue
		}
		dt := w.trees[d.tree]
		own := dt.mod.GetPrefix()
		for up := 2; up <= len(d.steps); up++ {
			ae := ancestor(d.e, up)
			ai, ok := w.idx[ae]
			if !ok {
				break
			}
			a := w.nodes[ai]
			if _, direct := ae.Dir[nm]; direct || limitOf(a) != "" || a.viaRP {
				continue
			}
			key := strconv.Itoa(ai) + "\x00" + nm
			if skipDone[key] {
				continue
			}
			skipDone[key] = true
			actx := ctxOf(a)
			if actx == nil {
				continue
			}
			// relative, from the node itself
			qs = append(qs, query{ai, treeRef(actx), nm, "nil", "skip-level-rel"})
			// relative, from the child of a on the way down: up one, then the name
			ci := w.idx[ancestor(d.e, up-1)]
			if cctx := ctxOf(w.nodes[ci]); cctx != nil {
				qs = append(qs, query{ci, treeRef(cctx), "../" + nm, "nil", "skip-level-rel"})
			}
			// absolute, from the root of the tree, every step with the module's own prefix
			if dt.mod.BelongsTo == nil && own != "" {
				qs = append(qs, query{w.idx[dt.root], treeRef(dt.mod), absPath(own, append(append([]string{}, a.schema...), nm), 0), "nil", "skip-level"})
			}
		}
	}
	// ---- phase 2d (from-disk cases, disk.go): the nodes the all-explicit run has and these trees lack
	if diskExpect != nil {
		qs = append(qs, diskQueries(ms, w, diskExpect, r, ctxOf, add)...)
	}
	nReadOnly := len(qs)
	// ---- phase 3: absent rpc/action input and output are created (twice: the second lookup finds it)
	for bi, b := range w.nodes {
		bt := w.trees[b.tree]
		own := bt.mod.GetPrefix()
		if b.e.RPC == nil || bt.mod.BelongsTo != nil || own == "" || len(b.steps) == 0 || limitOf(b) != "" {
			continue
		}
		rootIdx := w.idx[bt.root]
		for _, io := range []string{"input", "output"} {
			if io == "input" && b.e.RPC.Input != nil || io == "output" && b.e.RPC.Output != nil {
				continue
			}
			p := absPath(own, append(append([]string{}, b.names...), io), 0)
			qs = append(qs, query{rootIdx, treeRef(bt.mod), p, "new" + strconv.Itoa(bi) + io, "create"})
			qs = append(qs, query{rootIdx, treeRef(bt.mod), p, "same", "create-again"})
		}
	}

	// ---- run
	n0, e0 := counts(w)
	var lastNew *yang.Entry
	var resOf []*yang.Entry // the result of every lookup so far, in order
	exec := func(q query) {
		st := w.nodes[q.start]
		res := st.e.Find(q.path)
		resOf = append(resOf, res)
		n1, e1 := counts(w)
		ans := "none"
		if res != nil {
			if j, ok := w.idx[res]; ok {
				ans = w.trees[w.nodes[j].tree].ref + "/" + encSteps(w.nodes[j].steps) + "/" + lib.HexS(res.Path())
			} else if pj, ok := w.idx[res.Parent]; ok && res.Parent.RPC != nil && (res.Parent.RPC.Input == res || res.Parent.RPC.Output == res) {
				// a node created by this lookup: file it
				pn := w.nodes[pj]
				s, nm := "i", "input"
				if res.Parent.RPC.Output == res {
					s, nm = "o", "output"
				}
				w.idx[res] = len(w.nodes)
				w.nodes = append(w.nodes, &node{e: res, tree: pn.tree, steps: append(append([]string{}, pn.steps...), s),
					names: append(append([]string{}, pn.names...), nm), schema: append(append([]string{}, pn.schema...), nm)})
				ans = w.trees[pn.tree].ref + "/" + encSteps(w.nodes[len(w.nodes)-1].steps) + "/" + lib.HexS(res.Path())
				if q.kind != "create" {
					ans += "!created"
				}
			} else {
				ans = "foreign/" + lib.HexS(res.Path())
			}
		}
		// the expectation in the same notation
		want := "none"
		switch {
		case strings.HasPrefix(q.expect, "x"): // a location given literally (a node these trees lack)
			want = q.expect[1:]
		case strings.HasPrefix(q.expect, "t"):
			j, _ := strconv.Atoi(q.expect[1:])
			want = w.trees[w.nodes[j].tree].ref + "/" + encSteps(w.nodes[j].steps) + "/" + lib.HexS(w.nodes[j].e.Path())
		case strings.HasPrefix(q.expect, "new"):
			want = ans
			lastNew = res
			io := "input"
			kind := yang.InputEntry
			if strings.HasSuffix(q.expect, "output") {
				io, kind = "output", yang.OutputEntry
			}
			bi, _ := strconv.Atoi(strings.TrimSuffix(q.expect[3:], io))
			rp := w.nodes[bi].e
			switch {
			case res == nil:
				want = "created-" + io
			case res.Parent != rp || res.Name != io || res.Kind != kind || res.Dir == nil ||
				(io == "input" && rp.RPC.Input != res) || (io == "output" && rp.RPC.Output != res) || n1 != n0+1:
				want = "a-proper-implicit-" + io
			}
		case q.expect == "same":
			want = ans
			if res == nil || res != lastNew {
				want = "the-node-created-before"
			}
		}
		dn, de := n1-n0, e1-e0
		n0, e0 = n1, e1
		limit := ""
		if strings.HasPrefix(q.expect, "t") {
			j, _ := strconv.Atoi(q.expect[1:])
			limit = limitOf(w.nodes[j])
			if limit == "" {
				limit = limitOf(st) // a start below an unreachable place cannot climb properly either
			}
		}
		out.Extra["q"] = append(out.Extra["q"], w.trees[st.tree].ref+" "+encSteps(st.steps)+" "+q.ctx+" "+lib.HexS(q.path))
		out.Extra["a"] = append(out.Extra["a"], fmt.Sprintf("%s:%d:%d", ans, dn, de))
		out.Extra["want"] = append(out.Extra["want"], want)
		out.Extra["kind"] = append(out.Extra["kind"], q.kind+" "+limit)
		if bk, _ := baseKind(q.kind); bk != "create" && bk != "unknown-prefix" && bk != "name-as-prefix" && (dn != 0 || de != 0) {
			add(fmt.Sprintf("Find(%q) from %s changed the trees: %+d nodes, %+d errors", q.path, readableLoc(w.trees[st.tree].ref+"/"+encSteps(st.steps)+"/"+lib.HexS(st.e.Path())), dn, de))
		}
	}
	for qi, q := range qs {
		if qi == nReadOnly {
			// end of the read-only phase: same objects at the same places, same dump
			w2 := buildWorld(ms)
			if len(w2.nodes) != len(w.nodes) {
				add(fmt.Sprintf("lookups of existing and absent paths changed the number of nodes: %d -> %d", len(w.nodes), len(w2.nodes)))
			}
			for e, i := range w.idx {
				j, ok := w2.idx[e]
				if !ok || encSteps(w2.nodes[j].steps) != encSteps(w.nodes[i].steps) || w2.nodes[j].tree != w.nodes[i].tree {
					add("an entry moved or vanished during read-only lookups: " + w.trees[w.nodes[i].tree].ref + "/" + encSteps(w.nodes[i].steps))
					break
				}
			}
			if d := rescorr.Diff(dumpBefore, lib.DumpOutcome(ms, nil)); d != "" {
				add("dump changed during read-only lookups: " + d)
			}
		}
		exec(q)
	}
	// ---- phase 4: lookups after a refused load. Modules.Parse promises that a text it rejects
	// leaves no trace; seen through Find: the processed trees must answer every kind of lookup
	// (through an import prefix, own prefix, without prefix, relative, from grafted nodes,
	// corrupted ones) exactly as before — no second Process in between. The model's registry does
	// not change on a refused load, so the re-asked lookups simply continue the model's list.
	nBefore := len(qs)
	reask := func(label string) {
		k := 140
		if nBefore < k {
			k = nBefore
		}
		for c := 0; c < k; c++ {
			i := r.Intn(nBefore)
			if k == nBefore {
				i = c
			}
			q := qs[i]
			if strings.HasPrefix(q.expect, "new") || q.expect == "same" {
				j, ok := w.idx[resOf[i]]
				if resOf[i] == nil || !ok {
					continue
				}
				q.expect = "t" + strconv.Itoa(j) // the node created then is an ordinary node now
			}
			q.kind = "refused:" + q.kind
			exec(q)
		}
		_ = label
	}
	for ri, rt := range refusedTexts(ms, r) {
		err := ms.Parse(rt.text, fmt.Sprintf("refused%d.yang", ri))
		if err == nil {
			// not a violation of C17: the offer was not refused after all; stop, the set has changed
			out.Extra["refused_accepted"] = append(out.Extra["refused_accepted"], rt.what)
			break
		}
		out.Extra["refused"] = append(out.Extra["refused"], rt.what)
		reask(rt.what)
	}
	// ---- phase 5: the processed trees are kept while the Modules value moves on (see kept.go)
	if c.Extra["kept"] == "1" && len(out.Extra["refused_accepted"]) == 0 {
		treeByRef := map[string]int{}
		for i, t := range w.trees {
			treeByRef[t.ref] = i
		}
		// classify the lookups asked so far
		type cls struct {
			cross  bool
			target *yang.Module // the module the first step of an absolute path denotes (nil: none / relative)
		}
		classify := func(q query) (cl cls, ok bool) {
			if !strings.HasPrefix(q.path, "/") {
				return cls{}, true
			}
			st := w.nodes[q.start]
			home := w.trees[st.tree].mod
			if p := firstPrefix(q.path); p != "" {
				ti, known := treeByRef[q.ctx]
				if !known {
					return cls{}, false
				}
				cl.target = resolvePrefix(ms, w.trees[ti].mod, p)
				if cl.target == nil { // a prefix nobody binds: nothing is found, wherever one looks
					return cl, true
				}
			} else {
				cl.target = homeTree(st.tree)
			}
			cl.cross = cl.target != home
			return cl, true
		}
		var ownAbs, rel, bad, cross []int
		for i := 0; i < nBefore; i++ {
			q := qs[i]
			cl, ok := classify(q)
			if !ok {
				continue
			}
			positive := strings.HasPrefix(q.expect, "t") || strings.HasPrefix(q.expect, "new") || q.expect == "same"
			switch {
			case cl.cross && strings.HasPrefix(q.expect, "t"):
				cross = append(cross, i)
			case cl.cross: // a corrupted path into another module's current tree: not the kept trees' business
			case !strings.HasPrefix(q.path, "/") && positive:
				rel = append(rel, i)
			case positive:
				ownAbs = append(ownAbs, i)
			default:
				bad = append(bad, i)
			}
		}
		sample := func(from []int, k int) []int {
			if len(from) <= k {
				return from
			}
			var s []int
			for _, j := range r.Perm(len(from))[:k] {
				s = append(s, from[j])
			}
			sort.Ints(s)
			return s
		}
		order := r.Perm(len(perturbations))
		for _, pi := range order {
			pert := perturbations[pi]
			if why := perturb(ms, pert, r.Intn(1<<20)); why != "" {
				// not C17's business (a run after a run: C18); the trees at hand are no longer described by the set
				out.Extra["kept_stopped"] = append(out.Extra["kept_stopped"], why)
				break
			}
			out.Extra["kept"] = append(out.Extra["kept"], pert)
			// (a) answered by the kept tree itself: same expectation as before, the model is asked too
			for _, part := range [][]int{sample(ownAbs, 36), sample(rel, 14), sample(bad, 14)} {
				for _, i := range part {
					q := qs[i]
					if strings.HasPrefix(q.expect, "new") || q.expect == "same" {
						j, ok := w.idx[resOf[i]]
						if resOf[i] == nil || !ok {
							continue
						}
						q.expect = "t" + strconv.Itoa(j)
					}
					q.kind = "kept:" + q.kind + "@" + pert
					exec(q)
				}
			}
			// (b) crossing into another module: the current tree of that module answers
			for _, i := range sample(cross, 16) {
				q := qs[i]
				j, _ := strconv.Atoi(q.expect[1:])
				tn := w.nodes[j]
				tt := w.trees[tn.tree]
				cl, _ := classify(q)
				if cl.target != tt.mod || limitOf(tn) != "" || limitOf(w.nodes[q.start]) != "" {
					continue
				}
				st := w.nodes[q.start]
				nb, eb := counts(w)
				res := st.e.Find(q.path)
				na, ea := counts(w)
				// The oracle reads the Modules value AFTER the call: asking ToEntry before it would fill
				// the conversion cache on the lookup's behalf (after ClearEntryCache it is empty) and hide
				// a lookup that cannot cope with that. An input/output the lookup had to create in the
				// current tree is there by now and is the node the path names.
				cur := yang.ToEntry(tt.mod) // what the Modules value holds for that module
				wantE := walkSteps(cur, tn.steps)
				want, alt := "none", locOf("kept|"+tt.ref, tn.steps, tn.e)
				if wantE != nil {
					want = locOf("current|"+tt.ref, tn.steps, wantE)
				}
				ans := "none"
				switch {
				case res == nil:
				case res == wantE:
					ans = want
				case res == tn.e:
					ans = alt
				default:
					ans = "foreign/" + lib.HexS(res.Path())
				}
				out.Extra["kq"] = append(out.Extra["kq"], w.trees[st.tree].ref+" "+encSteps(st.steps)+" "+q.ctx+" "+lib.HexS(q.path))
				out.Extra["ka"] = append(out.Extra["ka"], fmt.Sprintf("%s:%d:%d", ans, na-nb, ea-eb))
				out.Extra["kwant"] = append(out.Extra["kwant"], want)
				out.Extra["kalt"] = append(out.Extra["kalt"], alt)
				out.Extra["kkind"] = append(out.Extra["kkind"], q.kind+"@"+pert)
				n0, e0 = na, ea
			}
		}
	}
	late := 0
	for _, n := range w.nodes {
		if n.e.Kind == yang.ChoiceEntry && strings.HasPrefix(n.e.Name, "lc") && n.e.Parent != nil {
			late++
		}
	}
	foreignCases := 0 // implied cases of nodes another module grafted into the choice
	for _, n := range w.nodes {
		if wr := wrappedBy(n.e); wr != nil && wr.Node != nil && n.e.Parent != nil && n.e.Parent.Node != nil &&
			yang.RootNode(wr.Node) != yang.RootNode(n.e.Parent.Node) {
			foreignCases++
		}
	}
	out.Extra["n"] = []string{strconv.Itoa(N), strconv.Itoa(nReadOnly), strconv.Itoa(late), strconv.Itoa(foreignCases)}
}

type refusedText struct{ what, text string }

// refusedTexts builds texts that Modules.Parse must reject, from what is loaded:
//   - a bundle whose first module is a newer revision of a loaded module (preferably one that others
//     import: add re-points the bare name to it) and whose second module is a duplicate — the text is
//     rejected at its second module, after the first has been filed;
//   - a bundle of a brand-new module followed by a duplicate;
//   - a single duplicate; a text with a syntax error; a module with an unknown statement.
func refusedTexts(ms *yang.Modules, r *rand.Rand) []refusedText {
	mods := distinct(ms.Modules)
	if len(mods) == 0 {
		return nil
	}
	header := func(m *yang.Module, rev, body string) string {
		ns, pfx := "urn:zz", "zz"
		if m.Namespace != nil {
			ns = m.Namespace.Name
		}
		if m.Prefix != nil {
			pfx = m.Prefix.Name
		}
		t := fmt.Sprintf("module %s {\n  namespace %q;\n  prefix %s;\n", m.Name, ns, pfx)
		if rev != "" {
			t += "  revision " + rev + ";\n"
		}
		return t + body + "}\n"
	}
	dup := func(m *yang.Module) string { return header(m, m.Current(), "") }
	imported := map[string]bool{}
	for _, m := range append(mods, distinct(ms.SubModules)...) {
		for _, i := range m.Import {
			imported[i.Name] = true
		}
	}
	var pref, rest []*yang.Module
	for _, m := range mods {
		if imported[m.Name] {
			pref = append(pref, m)
		} else {
			rest = append(rest, m)
		}
	}
	r.Shuffle(len(pref), func(i, j int) { pref[i], pref[j] = pref[j], pref[i] })
	order := append(pref, rest...)
	var out []refusedText
	other := "  container zzother { leaf zzz { type string; } }\n"
	for k, m := range order {
		if k >= 2 {
			break
		}
		newer := header(m, "2999-01-01", other)
		second := newer // rejected as a duplicate of the module just filed
		what := "bundle[newer revision of " + m.Name + ", the same again]"
		for _, d := range mods {
			if d != m && r.Intn(2) == 0 {
				second = dup(d)
				what = "bundle[newer revision of " + m.Name + ", duplicate of " + d.Name + "]"
				break
			}
		}
		out = append(out, refusedText{what, newer + second})
	}
	d := mods[r.Intn(len(mods))]
	out = append(out, refusedText{"bundle[new module zznew, duplicate of " + d.Name + "]",
		"module zznew {\n  namespace \"urn:zznew\";\n  prefix zznew;\n  container zzc { leaf zzl { type string; } }\n}\n" + dup(d)})
	out = append(out, refusedText{"duplicate of " + d.Name, dup(d)})
	out = append(out, refusedText{"syntax error", "module zzbad {\n  namespace \"urn:zzbad\";\n  prefix zzbad;\n  leaf x {\n"})
	out = append(out, refusedText{"bundle[newer revision of " + order[0].Name + ", module with an unknown statement]",
		header(order[0], "2999-06-01", other) + "module zzbad2 {\n  namespace \"urn:zzbad2\";\n  prefix zzbad2;\n  nosuchstatement x;\n}\n"})
	return out
}

// wrappedBy returns the node an implied case wraps (nil when e is not an implied case): FixChoice
// gives the case the name and the source statement of the one node it holds.
func wrappedBy(e *yang.Entry) *yang.Entry {
	if e.Kind != yang.CaseEntry || len(e.Dir) != 1 {
		return nil
	}
	c := e.Dir[e.Name]
	cn, ok := e.Node.(*yang.Case)
	if c == nil || !ok || c.Node == nil || c.Kind == yang.CaseEntry || cn.Source == nil || cn.Source != c.Node.Statement() {
		return nil
	}
	return c
}

// ancestor walks k parents up.
func ancestor(e *yang.Entry, k int) *yang.Entry {
	for ; k > 0 && e != nil; k-- {
		e = e.Parent
	}
	return e
}

// ---------------------------------------------------------------------------------------------
// parent side

func b01(x bool) string {
	if x {
		return "1"
	}
	return "0"
}

func findRequest(c rescorr.Case, qs []string) string {
	w, err := lib.WireFiles(c.Names, c.Texts)
	if err != nil {
		return ""
	}
	return "find " + b01(c.IgnoreCircular) + " " + b01(c.IgnoreNotSupported) + " " + strconv.Itoa(len(qs)) + " " +
		strings.Join(qs, " ") + " " + w
}

func pathsRequest(c rescorr.Case) string {
	w, err := lib.WireFiles(c.Names, c.Texts)
	if err != nil {
		return ""
	}
	return "spec.paths " + b01(c.IgnoreCircular) + " " + b01(c.IgnoreNotSupported) + " " + w
}

func unhex(s string) string {
	b, err := lib.UnHex(s)
	if err != nil {
		return "?" + s
	}
	return string(b)
}

// readable decodes an answer or a query for messages.
func readableLoc(a string) string {
	f := strings.Split(a, ":")
	parts := strings.Split(f[0], "/")
	if len(parts) == 2 && parts[0] == "foreign" {
		return "an entry that is no node of the walked (kept) trees, Path()=" + unhex(parts[1]) + " " + strings.Join(f[1:], ":")
	}
	if i := strings.IndexByte(parts[0], '|'); i > 0 && len(parts) >= 3 { // "current|<ref>", "kept|<ref>"
		return "[" + parts[0][:i] + " tree] " + readableLoc(a[i+1:])
	}
	if len(parts) >= 3 {
		steps := []string{}
		for _, s := range strings.Split(parts[1], ".") {
			if strings.HasPrefix(s, "c") {
				steps = append(steps, unhex(s[1:]))
			} else {
				steps = append(steps, s)
			}
		}
		return unhex(parts[0][1:]) + "(" + parts[0][:1] + ") [" + strings.Join(steps, " ") + "] Path()=" + unhex(parts[2]) + " " + strings.Join(f[1:], ":")
	}
	return a
}

func readableQuery(q string) string {
	f := strings.Fields(q)
	if len(f) != 4 {
		return q
	}
	return fmt.Sprintf("start %s ctx %s Find(%q)", strings.TrimSuffix(readableLoc(f[0]+"/"+f[1]+"/-"), " Path()= "), unhex(f[2][1:]), unhex(f[3]))
}

func refName(r string) string {
	if len(r) < 2 {
		return r
	}
	return unhex(r[1:]) + "(" + r[:1] + ")"
}

func stripCounts(a string) string {
	if i := strings.IndexByte(a, ':'); i >= 0 {
		return a[:i]
	}
	return a
}

type worked struct {
	c       rescorr.Case
	g       rescorr.GoOut
	crashed bool
	msg     string
	find    string // driver answers
	paths   string
}

func runCases(cases []rescorr.Case, f *lib.Flags) []worked {
	inputs := make([][]byte, len(cases))
	for i, c := range cases {
		inputs[i], _ = json.Marshal(c)
	}
	cr := lib.RunIsolated(inputs, f.Procs, 60*time.Second)
	ws := make([]worked, len(cases))
	var reqs []string
	var idx []int
	for i, c := range cases {
		ws[i].c = c
		if cr[i].Crashed {
			ws[i].crashed, ws[i].msg = true, cr[i].Msg
			continue
		}
		if err := json.Unmarshal(cr[i].Out, &ws[i].g); err != nil {
			ws[i].crashed, ws[i].msg = true, "unreadable worker output"
			continue
		}
		if ws[i].g.ParseErr != "" || ws[i].g.Extra == nil || len(ws[i].g.Extra["rejected"]) > 0 || len(ws[i].g.Extra["disk_errors_differ"]) > 0 {
			continue
		}
		mc := c
		if c.Extra["disk"] == "1" && len(ws[i].g.Extra["disk_skipped"]) == 0 {
			// the model is asked with the texts that ended up loaded
			mc.Names, mc.Texts = nil, nil
			for _, s := range ws[i].g.Extra["loaded"] {
				if k, err := strconv.Atoi(s); err == nil && k >= 0 && k < len(c.Names) {
					mc.Names = append(mc.Names, c.Names[k])
					mc.Texts = append(mc.Texts, c.Texts[k])
				}
			}
		}
		r1, r2 := findRequest(mc, ws[i].g.Extra["q"]), pathsRequest(mc)
		if r1 == "" {
			continue
		}
		reqs = append(reqs, r1, r2)
		idx = append(idx, i)
	}
	ans, err := lib.ParBatch(f.Driver, reqs, f.Procs)
	if err != nil {
		lib.Fatal("driver: %v", err)
	}
	for k, i := range idx {
		ws[i].find, ws[i].paths = ans[2*k], ans[2*k+1]
	}
	return ws
}

type tally struct {
	sets, noTrees, outside, nonWF, queries, absQ, relQ, badQ, createQ, nodes, wfSets, crossQ int64
	kinds                                                                                    map[string]int64
	triples                                                                                  *lib.Distinct
}

// judge compares one worked case; it reports disagreements through res.
func judge(w worked, res *lib.Result, t *tally, verbose bool) (bad bool) {
	c := w.c
	report := func(d lib.Disagreement) {
		bad = true
		d.Input = map[string]any{"names": c.Names, "texts": c.Texts, "label": c.Extra["label"]}
		d.Replay = c
		res.AddDisagreement(d)
	}
	if w.crashed {
		report(lib.Disagreement{Kind: "crash", Go: w.msg, SpecVerdict: "violates", What: "goyang crashed or hung during Process/Find: " + firstLine(w.msg)})
		return
	}
	if d := w.g.Extra["disk"]; len(d) == 7 {
		if len(w.g.Extra["disk_skipped"]) > 0 {
			t.kinds["disk-sets-run-the-ordinary-way("+w.g.Extra["disk_skipped"][0]+")"]++
		} else {
			t.kinds["disk-sets"]++
			t.kinds["disk-sets-layout-"+d[0]+"/"+d[1]]++
			for k, what := range []string{"disk-modules-loaded", "disk-modules-found-on-the-path", "disk-found-modules-with-augments", "disk-found-modules-with-deviations", "disk-found-modules-with-choices"} {
				v, _ := strconv.Atoi(d[2+k])
				t.kinds[what] += int64(v)
			}
			if v, _ := strconv.Atoi(d[4]); v > 0 {
				t.kinds["disk-sets-with-augments-in-found-modules"]++
			}
		}
	} else if len(w.g.Extra["disk_skipped"]) > 0 {
		t.kinds["disk-sets-run-the-ordinary-way("+w.g.Extra["disk_skipped"][0]+")"]++
	}
	if len(w.g.Extra["disk_errors_differ"]) > 0 {
		for _, x := range w.g.Findings {
			report(lib.Disagreement{Kind: "spec", Go: x, SpecVerdict: "violates", What: "Go-side oracle: " + x})
		}
		return
	}
	if w.g.ParseErr != "" || w.g.Extra == nil || len(w.g.Extra["rejected"]) > 0 {
		if len(w.g.Extra["rejected"]) > 0 && len(w.g.Extra["disk"]) > 0 {
			t.kinds["disk-sets-with-errors-both-ways"]++
		} else if len(w.g.Extra["rejected"]) > 0 {
			t.kinds["set-rejected-as-expected"]++
		}
		t.noTrees++
		return
	}
	if strings.HasPrefix(w.find, "outsideModel") {
		t.outside++
		return
	}
	t.sets++
	q, a, want, kind := w.g.Extra["q"], w.g.Extra["a"], w.g.Extra["want"], w.g.Extra["kind"]
	if w.find == "errors" || !strings.HasPrefix(w.find, "ok ") {
		report(lib.Disagreement{Kind: "correspondence", Go: "processed without errors", Model: firstN(w.find, 200),
			What: "Go processed the set without errors, the model did not"})
		return
	}
	mf := strings.Fields(w.find)
	wf := mf[1] == "wf=1"
	if wf {
		t.wfSets++
	} else {
		t.nonWF++
	}
	mans := mf[2:]
	if len(mans) != len(q) {
		report(lib.Disagreement{Kind: "correspondence", Go: len(q), Model: len(mans), What: "driver answered a different number of lookups"})
		return
	}
	for _, x := range w.g.Findings {
		report(lib.Disagreement{Kind: "spec", Go: x, SpecVerdict: "violates", What: "Go-side oracle: " + x})
	}
	t.kinds["refused-loads-offered"] += int64(len(w.g.Extra["refused"]))
	t.kinds["offers-accepted-instead(phase stopped)"] += int64(len(w.g.Extra["refused_accepted"]))
	if n := w.g.Extra["n"]; len(n) == 4 {
		if l, _ := strconv.Atoi(n[3]); l > 0 {
			t.kinds["sets-with-implied-cases-of-foreign-grafts"]++
			t.kinds["implied-cases-of-foreign-grafts(start nodes)"] += int64(l)
		}
		v, _ := strconv.Atoi(n[0])
		t.nodes += int64(v)
		if l, _ := strconv.Atoi(n[2]); l > 0 {
			t.kinds["sets-with-late-grafted-choices"]++
			t.kinds["late-grafted-choices"] += int64(l)
		}
	}
	reportedSpec, reportedCorr := 0, 0 // separate caps: a tree that differs from the model must not crowd out the lookups that violate the property
	for i := range q {
		t.queries++
		kf := strings.SplitN(kind[i], " ", 2)
		classOf := kf[0]
		keptBase, keptPert := baseKind(kf[0])
		if keptPert != "" {
			t.kinds["kept:"+keptBase]++
			t.kinds["kept-after-"+keptPert+"(answered by the kept tree)"]++
			classOf = keptBase
		} else {
			t.kinds[kf[0]]++
		}
		switch classOf {
		case "abs", "abs-bare", "dot", "disk-abs", "disk-rel":
			t.absQ++
		case "rel", "rel-high":
			t.relQ++
		case "create", "create-again":
			t.createQ++
		default:
			t.badQ++
		}
		qf := strings.Fields(q[i])
		if p := unhex(qf[3]); strings.Count(strings.Trim(p, "/"), "/") >= 1 && (kf[0] == "abs" || kf[0] == "rel" || kf[0] == "abs-bare" || kf[0] == "rel-high") {
			t.triples.Add(strings.Join(c.Texts, "\x00") + "\x01" + qf[0] + qf[1] + "\x01" + want[i])
		}
		goLoc := stripCounts(a[i])
		violates := goLoc != want[i]
		if verbose {
			fmt.Printf("%-14s %s\n    go:    %s\n    model: %s\n    want:  %s\n", kf[0], readableQuery(q[i]), readableLoc(a[i]), readableLoc(mans[i]), readableLoc(want[i]))
		}
		if violates {
			t.kinds["VIOLATING-"+kf[0]]++ // uncapped count per lookup family
		}
		if violates && reportedSpec < 6 {
			known := ""
			if len(kf) > 1 && kf[1] != "" && !wf {
				known = kf[1]
			}
			reportedSpec++
			what := fmt.Sprintf("%s: %s returned %s, the path names %s", kf[0], readableQuery(q[i]), readableLoc(goLoc), readableLoc(want[i]))
			if strings.HasPrefix(classOf, "disk-") || strings.Contains(kf[0], ":disk-") {
				what += "[a node these texts have when every one is handed to Modules.Parse; both ways of loading a set must give trees with the same schema paths, and every path must be found; loaded here: " + c.Extra["label"] + "]"
			}
			if keptPert != "" {
				what = fmt.Sprintf("lookup on a processed tree does not return that very node: after %s on the Modules value, %s in the tree kept from Process returned %s; the path names %s of that same tree (an own-module or relative path is answered by the tree the start node lives in, whatever the Modules value's conversion cache holds by now) [%s]",
					keptPert, readableQuery(q[i]), strings.TrimSpace(readableLoc(goLoc)), strings.TrimSpace(readableLoc(want[i])), keptBase)
			}
			report(lib.Disagreement{Kind: "spec", Go: readableLoc(a[i]), Model: readableLoc(mans[i]), SpecVerdict: "violates", Known: known, What: what})
		}
		if a[i] != mans[i] && reportedCorr < 4 {
			v := "holds"
			if violates {
				v = "violates"
			}
			reportedCorr++
			report(lib.Disagreement{Kind: "correspondence", Go: readableLoc(a[i]), Model: readableLoc(mans[i]), SpecVerdict: v,
				What: fmt.Sprintf("%s: model and Go differ on %s (lookup %d of the set)", kf[0], readableQuery(q[i]), i)})
		}
	}
	// lookups from kept trees that cross into another module's tree (Go-side oracle only: kept.go)
	for _, p := range w.g.Extra["kept"] {
		t.kinds["kept-perturbations-applied"]++
		_ = p
	}
	t.kinds["kept-phase-stopped(later run reported errors)"] += int64(len(w.g.Extra["kept_stopped"]))
	if len(w.g.Extra["kept"]) > 0 {
		t.kinds["sets-with-kept-tree-phase"]++
	}
	kq, ka, kwant, kalt, kkind := w.g.Extra["kq"], w.g.Extra["ka"], w.g.Extra["kwant"], w.g.Extra["kalt"], w.g.Extra["kkind"]
	reportedCross := 0
	for i := range kq {
		if i >= len(ka) || i >= len(kwant) || i >= len(kalt) || i >= len(kkind) {
			break
		}
		t.crossQ++
		base, pert := baseKind("kept:" + kkind[i])
		t.kinds["kept-crossing:"+base]++
		t.kinds["kept-after-"+pert+"(crossing, answered by the current tree)"]++
		goLoc := stripCounts(ka[i])
		if goLoc == "none" && kwant[i] == "none" {
			t.kinds["kept-crossing-absent-in-current-tree"]++
		}
		okLoc := goLoc == kwant[i] || goLoc == kalt[i]
		okFrame := strings.HasSuffix(ka[i], ":0:0")
		if okLoc && okFrame {
			continue
		}
		t.kinds["VIOLATING-kept-crossing"]++
		if reportedCross < 4 {
			reportedCross++
			what := fmt.Sprintf("lookup from a kept processed tree into another module does not return the node the path names in that module's current tree: after %s on the Modules value, %s returned %s; walking ToEntry(module) gives %s [%s]",
				pert, readableQuery(kq[i]), strings.TrimSpace(readableLoc(goLoc)), strings.TrimSpace(readableLoc(kwant[i])), base)
			if okLoc {
				what = fmt.Sprintf("a lookup changes no tree: after %s on the Modules value, %s changed the kept trees (%s)", pert, readableQuery(kq[i]), ka[i])
			}
			report(lib.Disagreement{Kind: "spec", Go: readableLoc(ka[i]), Model: "(not asked: the model has one forest)", SpecVerdict: "violates", What: what})
		}
	}
	// the specification's absPath of every node against the Go-side reading (Parent chain, Name)
	if strings.HasPrefix(w.paths, "ok ") {
		spec := map[string]string{}
		specCtx := map[string]string{}
		for _, r := range strings.Fields(w.paths)[2:] {
			f := strings.Split(r, "|")
			if len(f) == 5 {
				spec[f[0]+"|"+f[1]] = f[2]
				specCtx[f[0]+"|"+f[1]] = f[4]
			}
		}
		own := w.g.Extra["own"]
		miss := ""
		for _, r := range own {
			f := strings.Split(r, "|")
			if s, ok := spec[f[0]+"|"+f[1]]; !ok || s != f[2] {
				miss = fmt.Sprintf("node %s: Go reads its path as %q, the specification as %q", readableLoc(f[0]+"/"+f[1]+"/-"), unhex(f[2]), unhex(s))
				break
			}
		}
		if miss == "" {
			for _, r := range own {
				f := strings.Split(r, "|")
				if mc := specCtx[f[0]+"|"+f[1]]; len(f) == 4 && mc != f[3] {
					miss = fmt.Sprintf("node %s: Go takes its prefixes from module %s (RootNode(e.Node)), the model from %s",
						readableLoc(f[0]+"/"+f[1]+"/-"), refName(f[3]), refName(mc))
					break
				}
			}
		}
		if miss == "" && len(spec) != len(own) {
			miss = fmt.Sprintf("the specification lists %d nodes, the Go trees have %d", len(spec), len(own))
		}
		if miss != "" && wf {
			report(lib.Disagreement{Kind: "correspondence", Go: len(own), Model: len(spec), SpecVerdict: "",
				What: "spec.paths differs from the walked Go trees: " + miss})
		}
	}
	return
}

func firstLine(s string) string {
	if i := strings.IndexByte(s, '\n'); i > 0 {
		return s[:i]
	}
	return s
}

func firstN(s string, n int) string {
	if len(s) > n {
		return s[:n]
	}
	return s
}

func main() {
	f := lib.ParseFlags()
	if lib.IsChild() {
		lib.ChildLoop(serveCase)
		return
	}
	if f.Replay != "" {
		replay(f)
		return
	}
	res := lib.NewResult("C17", f)
	n, maxPairs := 3000, 1600
	if f.Thorough() {
		n, maxPairs = 60000, 2500
	}
	t := &tally{kinds: map[string]int64{}, triples: lib.NewDistinct()}
	work := func(cases []rescorr.Case, sampleEvery int) {
		if only := os.Getenv("C17_ONLY"); only != "" { // debugging aid: run the cases whose label contains the text
			var keep []rescorr.Case
			for _, c := range cases {
				if strings.Contains(c.Extra["label"], only) {
					keep = append(keep, c)
				}
			}
			cases = keep
		}
		ws := runCases(cases, f)
		for i, w := range ws {
			judge(w, res, t, false)
			if sampleEvery > 0 && i%sampleEvery == 0 && len(w.g.Extra["q"]) > 0 {
				k := len(w.g.Extra["q"]) / 2
				res.AddSample(map[string]any{"label": w.c.Extra["label"], "files": w.c.Names, "lookups": len(w.g.Extra["q"]),
					"example": readableQuery(w.g.Extra["q"][k]), "go": readableLoc(w.g.Extra["a"][k])})
			}
		}
	}
	work(corpus(), 2)
	work(diskCorpus(), 9)
	// generated sets, in batches (a batch holds all its lookups and answers in memory)
	const batch = 400
	for lo := 0; lo < n; lo += batch {
		var cases []rescorr.Case
		for i := lo; i < lo+batch && i < n; i++ {
			r := f.Rand(i)
			cfg := gen.Default()
			onDisk := i%6 == 4 // a share of the sets runs from disk (disk.go); i%4 is 0 or 2 there: no deliberate faults
			if onDisk && i%12 == 4 {
				cfg.MaxModules = 4
			}
			switch i % 4 {
			case 0, 1: // clean sets: every structure, no deliberate faults
				cfg.BadRefs = false
			case 2: // bigger trees
				cfg.BadRefs = false
				cfg.MaxDepth = 4
				cfg.Deviations = false
			}
			set := gen.Generate(r, cfg)
			if i%8 == 0 || i%8 == 5 || i%8 == 2 {
				collidePrefixes(r, set)
			}
			if i%8 == 2 || i%8 == 5 || i%8 == 4 {
				addChoiceGrafts(r, set)
			}
			if i%8 == 1 || i%8 == 6 {
				addIONamed(r, set)
			}
			if i%4 == 1 || onDisk && i%12 == 10 {
				addLateAugments(r, set)
			}
			if onDisk {
				addOwnAugments(r, set)
			}
			names, texts := set.Files()
			cs := rescorr.Case{Names: names, Texts: texts, IgnoreNotSupported: i%7 == 3,
				Extra: map[string]string{"seed": strconv.FormatInt(f.Seed*7919+int64(i), 10), "max_pairs": strconv.Itoa(maxPairs), "label": "gen" + strconv.Itoa(i),
					"kept": b01(keptShare(i))}}
			if onDisk {
				hand := "parse"
				if r.Intn(3) == 0 {
					hand = "read"
				}
				cs = asDisk(cs, diskSplit(r, set.Mods, r.Intn(4)), diskLayouts[r.Intn(len(diskLayouts))], hand)
			}
			cases = append(cases, cs)
		}
		every := 0
		if lo == 0 {
			every = 97
		}
		work(cases, every)
		if n, _ := res.Distribution["disagreements_total"].(int); n > 200 {
			res.Notes = append(res.Notes, "stopped early: more than 200 disagreements")
			break
		}
	}
	res.Evaluations = t.queries
	res.DistinctNontrivial = t.triples.Len()
	res.Rule = "hand-written corpus (the Lean example forest, submodules, grouping copies from other modules, implicit cases, absent rpc/action input and output, the documented-limit witnesses D17-L1, the rejected augment into an rpc node) + seeded grammar-directed module sets (harness/gen; 3/4 without deliberate faults; 3/8 with prefixes re-assigned so that import prefixes and own prefixes collide with module names (name of another import before or after it, own module name, mutual) and shuffled import order; 3/8 with bare nodes grafted by importing modules directly into foreign choices (their implied cases are start nodes whose prefix context is the augmenting module); 1/4 with added late augments: target through or at the implied case of a shorthand choice member, body with shorthand choice members, written in the owning module, a submodule or an importing module); per error-free set all (start, target) pairs of nodes of all module and submodule trees up to 40 nodes (sampled beyond) x absolute path under every prefix the start's context module binds to the target's module (3 spellings) and relative path, + one-corrupted-step paths (unknown name, empty step, bogus below rpc, step below a leaf, `..` above the root, unbound prefix, an imported module's name used as prefix, a step inserted before or put in place of any step with names from the structural pool (module names and prefixes, input/output, grouping/typedef/identity names), Entry.Path() used as a lookup, and every name of a deeper descendant used as a direct step, absolute and relative), + creation of absent rpc inputs/outputs + the same lookups (sampled, every kind) re-asked after each of up to six refused loads (bundle [newer revision of a loaded module, duplicate], [new module, duplicate], single duplicate, syntax error, unknown statement) on the same processed trees; + KEPT TREES (every corpus and generated set): the processed trees are kept while the Modules value moves on — ClearEntryCache, Process again, GetModule of one of the modules, one more unrelated module loaded and Process, all four one after the other in a seeded order — and after each step up to 36 absolute own-module, 14 relative and 14 corrupted lookups of the kinds above (sampled) are repeated FROM NODES OF THE KEPT TREES: rule: a relative path and an absolute path whose first step denotes the module of the tree the start node lives in (by its prefix read in the start's context module; bare: the start's own module) must return, by pointer identity, the entry reached by walking the kept tree (nil for a corrupted path) and leave the trees unchanged — these are compared with the model too, whose forest is the kept forest; up to 16 absolute lookups per step that cross into ANOTHER module's tree (foreign first prefix; any absolute path started in a submodule's private tree) must return the entry reached by walking the target's steps from yang.ToEntry(that module) as it is at the time of the call (its current tree; nil when that tree has no such node, e.g. a grafted node after ClearEntryCache) or the node of that module's kept tree, and change no kept tree — Go-side oracle only (the model has one forest), the current tree is read after the call so that the oracle does not fill the conversion cache on the lookup's behalf; + FROM DISK: the hand-written chain main -> m1 -> m2(+m2s) -> m3(+m3s) (augments of the own tree, through implied cases, of the imported module, of nodes another module grafted, into rpc input/output, shorthand choice members and deviations in every module but the first) in 9 splits between handed over and found x 5 layouts (flat, name@date.yang, sub-directories under dir/..., two directories, Read(path) with no search path) x Parse/Read of the roots, the importer-only pair of seeded change C17-l22, and 1/6 of the generated sets (up to 4 modules, plus augments of the own tree and of imported modules in every module and submodule; roots: the modules nobody imports, then none / some / a submodule with its owner / all modules; never a submodule alone: D04-P1): the texts that ended up loaded are also all handed to a second Modules value, both runs must agree on being error free and on the set of (tree, steps, kind) of all nodes; every node the from-disk trees lack is looked up by absolute path from the roots of all trees and four other start nodes under every prefix and by relative path from its deepest existing ancestor (kinds disk-abs, disk-rel: the answer must be the node at those steps), then all the lookups above run on the from-disk trees and the model is asked with the loaded texts; evaluations = Find calls compared with the model; distinct_nontrivial = distinct (set, start, target) triples looked up with a path of at least 2 steps"
	res.Distribution["sets_compared"] = t.sets
	res.Distribution["sets_without_trees(errors/parse)"] = t.noTrees
	res.Distribution["outside_model"] = t.outside
	res.Distribution["sets_wfKeys_true"] = t.wfSets
	res.Distribution["sets_wfKeys_false(limit witnesses)"] = t.nonWF
	res.Distribution["nodes_total"] = t.nodes
	res.Distribution["lookups_absolute"] = t.absQ
	res.Distribution["lookups_relative"] = t.relQ
	res.Distribution["lookups_corrupted"] = t.badQ
	res.Distribution["lookups_creating"] = t.createQ
	res.Distribution["lookups_crossing_from_kept_trees(go-side oracle only)"] = t.crossQ
	for k, v := range t.kinds {
		res.Distribution["kind_"+k] = v
	}
	res.Write(f.Out)
}

func replay(f *lib.Flags) {
	raw, err := os.ReadFile(f.Replay)
	if err != nil {
		lib.Fatal("%v", err)
	}
	var p struct {
		Disagreement struct {
			Replay rescorr.Case `json:"replay"`
		} `json:"disagreement"`
	}
	if err := json.Unmarshal(raw, &p); err != nil {
		lib.Fatal("%v", err)
	}
	c := p.Disagreement.Replay
	for i := range c.Names {
		fmt.Printf("--- %s\n%s", c.Names[i], c.Texts[i])
	}
	ws := runCases([]rescorr.Case{c}, f)
	res := lib.NewResult("C17", f)
	t := &tally{kinds: map[string]int64{}, triples: lib.NewDistinct()}
	bad := judge(ws[0], res, t, os.Getenv("C17_VERBOSE") != "")
	for _, d := range res.Disagreements {
		fmt.Printf("%s [%s] known=%q: %s\n", d.Kind, d.SpecVerdict, d.Known, d.What)
	}
	if bad {
		fmt.Println("DIFFERENT")
		os.Exit(1)
	}
	fmt.Printf("same (%d lookups)\n", t.queries)
}
