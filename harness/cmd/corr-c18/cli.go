package main

// COMMAND-LINE stage (cliStage): the goyang command itself is among the anchors of the property
// ("the CLI reports a failed file and carries on", yang.go main()).  The session model has no
// command line, so the oracle is Go against Go: the binary is built ONCE per run from the
// repository under test (VERIF_REPO, package at the repository root) and, for the file histories
// whose Read-by-path operations hold at least one file that fails to load and one that loads, run
// twice in the directory tree of the history:
//
//	goyang [--path=...] [--format=tree] <files in order>          (the command line)
//	goyang [--path=...] [--format=tree] <the files that load>     (the strict twin)
//
// A file that fails to load leaves no trace: apart from the error lines of the failed files
// themselves (the lines of the error Modules.Read returns for them, taken off standard error once
// each - the command must print them), standard output (the printed trees),
// the set of further error lines and the exit status must be equal, and the exit status must be
// what yang.go documents: 1 when Process reported errors (they are the further error lines), else 0.
// Which files fail is decided in process by Modules.Read in command-line order (absolute paths; the
// verdict on a file read by path does not depend on the search path).

import (
	"bytes"
	"context"
	"fmt"
	"os"
	"os/exec"
	"path/filepath"
	"runtime/debug"
	"sort"
	"strings"
	"sync"
	"time"

	"github.com/openconfig/goyang/pkg/yang"
	"verif/harness/lib"
)

// CLISpec makes a file history a command line: goyang Flags... Args...
type CLISpec struct {
	Flags []string `json:"flags,omitempty"`
	Args  []string `json:"args"`
}

type cliRun struct {
	Cmd    string   `json:"cmd"`
	Exit   int      `json:"exit"`
	Stdout string   `json:"stdout"`
	Errs   []string `json:"further_error_lines"` // stderr without the lines that name a failed file, sorted, distinct
	Own    []string `json:"error_lines_of_failed_files,omitempty"`
	// Missing: error lines Modules.Read returns for the failed files that the command did not print
	Missing []string `json:"error_lines_of_failed_files_not_printed,omitempty"`
	Fail    string   `json:"run_failure,omitempty"` // could not be started / timed out / killed
}

type cliOutcome struct {
	H      History
	Failed []string
	Full   cliRun
	Strict cliRun
	What   string // "" = same
}

func cliRepo() string {
	if v := os.Getenv("VERIF_REPO"); v != "" {
		return v
	}
	if bi, ok := debug.ReadBuildInfo(); ok {
		for _, d := range bi.Deps {
			if d.Path == "github.com/openconfig/goyang" && d.Replace != nil && filepath.IsAbs(d.Replace.Path) {
				return d.Replace.Path
			}
		}
	}
	return "/repo"
}

func buildGoyang(dir string) (string, error) {
	out := filepath.Join(dir, "goyang")
	cmd := exec.Command("go", "build", "-o", out, ".")
	cmd.Dir = cliRepo()
	cmd.Env = append(os.Environ(), "GOFLAGS=-mod=mod", "GOPROXY=off", "GOSUMDB=off", "GOTOOLCHAIN=local")
	if b, err := cmd.CombinedOutput(); err != nil {
		return "", fmt.Errorf("go build -o goyang . in %s: %v: %s", cmd.Dir, err, b)
	}
	return out, nil
}

func byPath(name string) bool { return strings.Contains(name, "/") || strings.HasSuffix(name, ".yang") }

// cliOf derives the command line of a file history: its Read-by-path operations in order (a path
// once), variant v picks the flags and the place of the failing files.
func cliOf(h History, v int) *CLISpec {
	if h.CLI != nil {
		return h.CLI
	}
	if !h.fileMode() {
		return nil
	}
	c := &CLISpec{}
	seen := map[string]bool{}
	var dirs []string
	for _, op := range h.Ops {
		switch op.Op {
		case "readfile":
			if byPath(op.Name) && !seen[op.Name] {
				seen[op.Name] = true
				c.Args = append(c.Args, op.Name)
			}
		case "addpath":
			for _, d := range strings.Split(op.Name, ":") {
				if d != "" && !strings.Contains(d, "...") && !strings.Contains(d, ",") && !seen["dir:"+d] {
					seen["dir:"+d] = true
					dirs = append(dirs, d)
				}
			}
		}
	}
	if v%3 == 0 && len(dirs) > 0 {
		c.Flags = append(c.Flags, "--path="+strings.Join(dirs, ","))
	}
	if v%2 == 1 {
		c.Flags = append(c.Flags, "--format=tree")
	}
	return c
}

func writeTree(root string, files []FileSpec) error {
	for _, f := range files {
		p := filepath.Join(root, f.Path)
		var err error
		if f.Dir {
			err = os.MkdirAll(p, 0o755)
		} else if err = os.MkdirAll(filepath.Dir(p), 0o755); err == nil {
			err = os.WriteFile(p, []byte(f.Text), 0o644)
		}
		if err != nil {
			return err
		}
	}
	return nil
}

// failedOf: which of the arguments Modules.Read refuses, in command-line order, on one value with the
// search path the flags give (as main() does: PathsWithModules + AddPath), and the lines of the error
// each refusal returns (paths relative to the tree, as the command prints them when it runs there).
func failedOf(root string, c *CLISpec) (failed []bool, own [][]string, crash string) {
	defer func() {
		if r := recover(); r != nil {
			crash = fmt.Sprint(r)
		}
	}()
	ms := yang.NewModules()
	for _, fl := range c.Flags {
		if strings.HasPrefix(fl, "--path=") {
			for _, d := range strings.Split(fl[len("--path="):], ",") {
				if ex, err := yang.PathsWithModules(filepath.Join(root, d)); err == nil {
					ms.AddPath(ex...)
				}
			}
		}
	}
	failed = make([]bool, len(c.Args))
	own = make([][]string, len(c.Args))
	for i, a := range c.Args {
		if err := ms.Read(filepath.Join(root, a)); err != nil {
			failed[i] = true
			for _, l := range strings.Split(strings.ReplaceAll(err.Error(), root+"/", ""), "\n") {
				if strings.TrimSpace(l) != "" {
					own[i] = append(own[i], l)
				}
			}
		}
	}
	return failed, own, ""
}

// runCLI runs the command in the tree; own = the error lines of the files that fail to load (each is
// taken off standard error once; what is not there goes to Missing).
func runCLI(bin, root string, flags, args, own []string) cliRun {
	all := append(append([]string{}, flags...), args...)
	r := cliRun{Cmd: "goyang " + strings.Join(all, " ")}
	ctx, cancel := context.WithTimeout(context.Background(), 60*time.Second)
	defer cancel()
	cmd := exec.CommandContext(ctx, bin, all...)
	cmd.Dir = root
	var out, errb bytes.Buffer
	cmd.Stdout, cmd.Stderr = &out, &errb
	err := cmd.Run()
	r.Stdout = out.String()
	if err != nil {
		if ee, ok := err.(*exec.ExitError); ok && ctx.Err() == nil && ee.ExitCode() >= 0 {
			r.Exit = ee.ExitCode()
		} else {
			r.Exit = -1
			r.Fail = err.Error()
		}
	}
	want := map[string]int{}
	for _, l := range own {
		want[l]++
	}
	set := map[string]bool{}
	for _, l := range strings.Split(errb.String(), "\n") {
		if strings.TrimSpace(l) == "" {
			continue
		}
		if want[l] > 0 {
			want[l]--
			r.Own = append(r.Own, l)
		} else if !set[l] {
			set[l] = true
			r.Errs = append(r.Errs, l)
		}
	}
	for _, l := range own {
		if want[l] > 0 {
			want[l]--
			r.Missing = append(r.Missing, l)
		}
	}
	sort.Strings(r.Errs)
	return r
}

func short(s string, n int) string {
	if len(s) > n {
		return s[:n] + "..."
	}
	return s
}

// cliCompare states the clause that fails, or "".
func cliCompare(full, strict cliRun, failed []string) string {
	head := "command line (goyang built from the repository under test): a file that fails to load leaves no trace - "
	cmds := fmt.Sprintf(" [`%s`, of which %s fail(s) to load, against `%s`]", full.Cmd, strings.Join(failed, " "), strict.Cmd)
	for _, r := range []cliRun{full, strict} {
		if r.Fail != "" || r.Exit > 1 {
			return head + fmt.Sprintf("the command did not end with the documented status 0 or 1: exit %d %s", r.Exit, r.Fail) + cmds + "; standard error of `" + r.Cmd + "`: " + short(strings.Join(append(r.Own, r.Errs...), " | "), 300)
		}
	}
	if len(full.Missing) > 0 {
		return head + "the command does not print the error Modules.Read returns for a failed file (yang.go: the error is printed and the file skipped)" + cmds +
			fmt.Sprintf("; missing on standard error: [%s]; printed: [%s]", short(strings.Join(full.Missing, " | "), 300), short(strings.Join(append(full.Own, full.Errs...), " | "), 300))
	}
	if full.Exit != strict.Exit {
		return head + fmt.Sprintf("exit status %d with the failed file(s) named, %d without", full.Exit, strict.Exit) + cmds +
			fmt.Sprintf("; further error lines with: [%s], without: [%s]; standard output with: %q, without: %q",
				short(strings.Join(full.Errs, " | "), 200), short(strings.Join(strict.Errs, " | "), 200), short(full.Stdout, 120), short(strict.Stdout, 120))
	}
	if strings.Join(full.Errs, "\n") != strings.Join(strict.Errs, "\n") {
		return head + "the error lines beyond those of the failed file(s) differ" + cmds + fmt.Sprintf("; with [%s], without [%s]", short(strings.Join(full.Errs, " | "), 300), short(strings.Join(strict.Errs, " | "), 300))
	}
	if full.Stdout != strict.Stdout {
		a, b := strings.Split(full.Stdout, "\n"), strings.Split(strict.Stdout, "\n")
		k := 0
		for k < len(a) && k < len(b) && a[k] == b[k] {
			k++
		}
		x, y := "(end)", "(end)"
		if k < len(a) {
			x = a[k]
		}
		if k < len(b) {
			y = b[k]
		}
		return head + fmt.Sprintf("standard output (the printed trees) differs at line %d: with %q, without %q", k+1, x, y) + cmds
	}
	for _, r := range []cliRun{full, strict} {
		// yang.go: exitIfError(ms.Process()) - status 1 exactly when Process reported errors
		if (r.Exit == 1) != (len(r.Errs) > 0) {
			return head + fmt.Sprintf("`%s` ends with status %d although the processing run reported %d error line(s) (yang.go: a failed file is reported and skipped, the status is 1 exactly when Process reports errors)", r.Cmd, r.Exit, len(r.Errs)) + cmds
		}
	}
	return ""
}

// cliCase runs one command line and its strict twin; ok=false: nothing to compare (no failing or no
// loading file).  order: 0 as given, 1 failing files first, 2 failing files last.
func cliCase(bin, scratch string, h History, c *CLISpec, order int) (o cliOutcome, ok bool) {
	root, err := os.MkdirTemp(scratch, "tree-")
	if err != nil {
		return o, false
	}
	defer os.RemoveAll(root)
	if err := writeTree(root, h.Files); err != nil {
		return o, false
	}
	fl, own, crash := failedOf(root, c)
	if crash == "" && order != 0 {
		var bad, good []string
		for i, a := range c.Args {
			if fl[i] {
				bad = append(bad, a)
			} else {
				good = append(good, a)
			}
		}
		c2 := &CLISpec{Flags: c.Flags}
		if order == 1 {
			c2.Args = append(bad, good...)
		} else {
			c2.Args = append(good, bad...)
		}
		c = c2
		fl, own, crash = failedOf(root, c)
	}
	h.CLI = c
	o.H = h
	if crash != "" {
		o.What = "command line: Modules.Read panics on the files of `goyang " + strings.Join(c.Args, " ") + "`: " + crash
		return o, true
	}
	var good, ownLines []string
	for i, a := range c.Args {
		if fl[i] {
			o.Failed = append(o.Failed, a)
			ownLines = append(ownLines, own[i]...)
		} else {
			good = append(good, a)
		}
	}
	if len(o.Failed) == 0 || len(good) == 0 {
		return o, false // without arguments the command reads standard input: another command
	}
	o.Full = runCLI(bin, root, c.Flags, c.Args, ownLines)
	o.Strict = runCLI(bin, root, c.Flags, good, nil)
	o.What = cliCompare(o.Full, o.Strict, o.Failed)
	return o, true
}

// cliStage: at most maxCases command lines (two runs each) over the file histories of hs.
func cliStage(hs []History, maxCases int, res *lib.Result) {
	start := time.Now()
	scratch, err := os.MkdirTemp("", "c18cli-")
	if err != nil {
		lib.Fatal("cli stage: %v", err)
	}
	defer os.RemoveAll(scratch)
	bin, err := buildGoyang(scratch)
	if err != nil {
		res.AddDisagreement(lib.Disagreement{Kind: "obligation", Input: cliRepo(), Go: err.Error(), SpecVerdict: "",
			What: "command-line stage: the goyang command does not build from the repository under test: " + firstLine(err.Error())})
		return
	}
	type job struct {
		h History
		v int
	}
	var jobs []job
	for i, h := range hs {
		if h.fileMode() && h.Mode != "stmts" {
			jobs = append(jobs, job{h, i})
		}
	}
	outs := make([]*cliOutcome, len(jobs))
	var mu sync.Mutex
	next, done := 0, 0
	var wg sync.WaitGroup
	for w := 0; w < 8; w++ {
		wg.Add(1)
		go func() {
			defer wg.Done()
			for {
				mu.Lock()
				if next >= len(jobs) || done >= maxCases {
					mu.Unlock()
					return
				}
				k := next
				next++
				mu.Unlock()
				j := jobs[k]
				c := cliOf(j.h, j.v)
				order := 0
				if j.h.CLI == nil {
					order = []int{0, 1, 0, 2}[j.v%4]
				}
				if c == nil || len(c.Args) < 2 {
					continue
				}
				o, ok := cliCase(bin, scratch, j.h, c, order)
				if !ok {
					continue
				}
				mu.Lock()
				done++
				outs[k] = &o
				mu.Unlock()
			}
		}()
	}
	wg.Wait()
	var n, nViol, nPath, nErrExit, nTrees, nFailed int64
	kinds := map[string]int64{}
	for _, o := range outs {
		if o == nil || n >= int64(maxCases) {
			continue
		}
		n++
		res.Evaluations++
		nFailed += int64(len(o.Failed))
		for _, f := range o.H.CLI.Flags {
			if strings.HasPrefix(f, "--path=") {
				nPath++
			}
		}
		if o.Strict.Exit == 1 {
			nErrExit++
		}
		if strings.TrimSpace(o.Strict.Stdout) != "" {
			nTrees++
		}
		kinds[strings.SplitN(o.H.Origin, "/", 2)[0]]++
		if o.What != "" && nViol < 12 {
			nViol++
			res.AddDisagreement(lib.Disagreement{Kind: "cli-failed-file-left-a-trace", Input: o.H,
				Go:          map[string]any{"failed_files": o.Failed, "with_the_failed_files": o.Full, "without_them": o.Strict},
				SpecVerdict: "violates", What: o.What, Replay: o.H})
		}
	}
	res.Distribution["cli_command_lines"] = map[string]int64{
		"compared (two runs each)":                     n,
		"files that fail to load":                      nFailed,
		"with --path":                                  nPath,
		"strict twin exits 1 (Process reports errors)": nErrExit,
		"strict twin prints trees":                     nTrees,
		"violations":                                   nViol,
		"wall_ms":                                      time.Since(start).Milliseconds(),
	}
	res.Distribution["cli_command_lines_by_origin"] = kinds
}

// replayCLI re-runs one recorded command line; exit 1 when it still differs.
func replayCLI(h History) {
	scratch, err := os.MkdirTemp("", "c18cli-")
	if err != nil {
		lib.Fatal("%v", err)
	}
	bin, err := buildGoyang(scratch)
	if err != nil {
		os.RemoveAll(scratch)
		lib.Fatal("%v", err)
	}
	for _, f := range h.Files {
		if f.Dir {
			fmt.Printf("--- directory %s/\n", f.Path)
		} else {
			fmt.Printf("--- file %s\n%s", f.Path, f.Text)
		}
	}
	o, ok := cliCase(bin, scratch, h, h.CLI, 0)
	os.RemoveAll(scratch)
	if !ok {
		fmt.Println("nothing to compare: no file of the command line fails to load, or none loads")
		return
	}
	fmt.Println("files that fail to load:", strings.Join(o.Failed, " "))
	for _, r := range []cliRun{o.Full, o.Strict} {
		fmt.Printf("--- %s\nexit %d %s\nerror lines of the failed files:\n", r.Cmd, r.Exit, r.Fail)
		for _, l := range r.Own {
			fmt.Println("   ", l)
		}
		fmt.Println("further error lines:")
		for _, l := range r.Errs {
			fmt.Println("   ", l)
		}
		fmt.Printf("standard output:\n%s", r.Stdout)
	}
	if o.What != "" {
		fmt.Println("DIFFERENT:", o.What)
		os.Exit(1)
	}
	fmt.Println("same")
}
