package main

import (
	"fmt"
	"math/rand"
	"strings"

	"verif/harness/gen"
)

// Op is one call on the Modules value of a history.
type Op struct {
	// load | process | getmodule (Name = module name) | read | walk, and in file histories (genfile.go)
	// readfile (ms.Read(Name): a path or a module name) | addpath (ms.AddPath(Name)) | putfile (the file
	// Name with Text appears in the directory tree; not a call on the value)
	Op   string `json:"op"`
	Name string `json:"name,omitempty"`
	Text string `json:"text,omitempty"`
	// Fault names the fault planted in a bad text ("" for a good text):
	// dup, dup-renamed, unknown-sub, missing-required, syntax, trailing-node, two-modules-dup, twice-in-text
	Fault string `json:"fault,omitempty"`
	Key   string `json:"key,omitempty"`  // read: ms.Modules[key]
	Path  string `json:"path,omitempty"` // read: Find(path)
}

// History is one sequence of operations on one Modules value.
type History struct {
	Ops                []Op   `json:"ops"`
	IgnoreCircular     bool   `json:"ignore_circular,omitempty"`
	IgnoreNotSupported bool   `json:"ignore_not_supported,omitempty"`
	Origin             string `json:"origin,omitempty"`
	// Mode: how loads travel to the model: "text" (raw text, default) or "stmts" (statement trees +
	// Go's verdict on parser and builder as a flag)
	Mode string `json:"mode,omitempty"`
	// ReadsEverywhere: the read battery (readsOf) is put to the one value and to its shadow after
	// EVERY operation, not only after refused loads and walks
	ReadsEverywhere bool `json:"reads_everywhere,omitempty"`
	// Files: a FILE history - the worker builds this directory tree, makes it its working directory
	// and the history may Read from it, extend the search path and let Process / GetModule find
	// imports and includes through the search path (Mode is "files")
	Files []FileSpec `json:"files,omitempty"`
	// CLI: the history is (also) a command line of the goyang command, run in the directory tree
	// Files (cli.go); derived from the Read-by-path operations when absent
	CLI *CLISpec `json:"cli,omitempty"`
}

// FileSpec is one file (or, with Dir, one empty directory) of the tree of a file history; Path is
// relative to the root of the tree.
type FileSpec struct {
	Path string `json:"path"`
	Text string `json:"text,omitempty"`
	Dir  bool   `json:"dir,omitempty"`
}

func (h History) fileMode() bool { return h.Mode == "files" }

func (h History) key() string {
	var sb strings.Builder
	for _, f := range h.Files {
		sb.WriteString(f.Path + "\x00" + f.Text + "\x02")
	}
	for _, o := range h.Ops {
		sb.WriteString(o.Op + "\x00" + o.Name + "\x00" + o.Text + "\x00" + o.Key + "\x00" + o.Path + "\x01")
	}
	return sb.String()
}

func cloneNode(n *gen.Node) *gen.Node {
	c := &gen.Node{Kw: n.Kw, Arg: n.Arg, Uses: n.Uses}
	for _, k := range n.Kids {
		c.Kids = append(c.Kids, cloneNode(k))
	}
	return c
}

func withBody(m *gen.Module, body *gen.Node) *gen.Module {
	c := *m
	c.Body = body
	return &c
}

// item is one good text waiting to be loaded.
type item struct {
	name, text string
	mod        *gen.Module // structure the text was rendered from
	variant    bool        // another revision of a module of the set
	// pre: an operation that must come right before this load ("process", "walk", "read"): the
	// text is meant to arrive after the set has been processed or read once
	pre string
}

// poison is a nested scope with a typedef that cannot be resolved: the builder registers the
// typedefs of a nested scope as soon as that scope is finished, long before the late fault.
func poison(tag string) *gen.Node {
	c := &gen.Node{Kw: "container", Arg: "zpoison" + tag}
	td := &gen.Node{Kw: "typedef", Arg: "zt"}
	td.Kids = append(td.Kids, &gen.Node{Kw: "type", Arg: "znosuchtype"})
	c.Kids = append(c.Kids, td)
	id := &gen.Node{Kw: "leaf", Arg: "zl"}
	id.Kids = append(id.Kids, &gen.Node{Kw: "type", Arg: "zt"})
	c.Kids = append(c.Kids, id)
	g := &gen.Node{Kw: "grouping", Arg: "zg"}
	gl := &gen.Node{Kw: "leaf", Arg: "zgl"}
	gl.Kids = append(gl.Kids, &gen.Node{Kw: "type", Arg: "string"})
	g.Kids = append(g.Kids, gl)
	c.Kids = append(c.Kids, g)
	return c
}

// badText derives a rejected text from the good text of it: one late fault, after nested
// typedefs, identities and groupings have been seen by the builder. loaded are the accepted
// texts so far (for faults that need a module that is already there).
func badText(r *rand.Rand, it item, loaded []item) (Op, bool) {
	m := it.mod
	body := cloneNode(m.Body)
	poisoned := r.Intn(10) < 6
	if poisoned {
		body.Kids = append([]*gen.Node{poison("")}, body.Kids...)
	}
	name := it.name
	if r.Intn(3) == 0 {
		name = "bad-" + name
	}
	switch k := r.Intn(12); k {
	case 9, 10, 11:
		// several top-level statements: a NEWER REVISION of a loaded module, acceptable on its own
		// (it takes the bare name over while the text is being registered), then a statement that
		// add refuses - the whole text must be withdrawn
		if len(loaded) == 0 {
			return Op{}, false
		}
		l := loaded[r.Intn(len(loaded))]
		c := *l.mod
		c.Revisions = append(append([]string{}, l.mod.Revisions...), "2023-03-03")
		nb := cloneNode(l.mod.Body)
		nb.Kids = append(nb.Kids, nd("leaf", "rv23", nd("type", "string")))
		if r.Intn(4) == 0 && !c.Sub {
			c.Namespace = c.Namespace + ":moved"
		}
		c.Body = nb
		text := c.Text()
		if r.Intn(3) == 0 {
			// a brand-new module in front
			text = "module zq {\n  namespace \"urn:zq\";\n  prefix zq;\n  leaf q { type string; }\n}\n" + text
		}
		fault := ""
		switch k {
		case 9:
			text += l.text
			fault = "newer-revision-then-duplicate"
		case 10:
			text += "container ztrail {\n  leaf q { type string; }\n}\n"
			fault = "newer-revision-then-non-module"
		default:
			text += "module \"zz@1\" {\n  namespace \"urn:zz\";\n  prefix zz;\n}\n"
			fault = "newer-revision-then-at-name"
		}
		return Op{Op: "load", Name: "multi-" + l.name, Text: text, Fault: fault}, true
	case 0, 1:
		// an unknown substatement deep inside the last statement
		n := body
		for depth := 0; depth < 6; depth++ {
			var next *gen.Node
			for i := len(n.Kids) - 1; i >= 0; i-- {
				c := n.Kids[i]
				switch c.Kw {
				case "container", "list", "grouping", "leaf", "leaf-list", "choice", "case", "rpc", "action", "input", "output", "notification", "augment":
					next = c
				}
				if next != nil {
					break
				}
			}
			if next == nil {
				break
			}
			n = next
		}
		n.Kids = append(n.Kids, &gen.Node{Kw: "frobnicate", Arg: "1"})
		return Op{Op: "load", Name: name, Text: withBody(m, body).Text(), Fault: "unknown-sub"}, true
	case 2:
		// a mandatory substatement is missing in the last statement
		l := &gen.Node{Kw: "leaf", Arg: "zlast"}
		l.Kids = append(l.Kids, &gen.Node{Kw: "description", Arg: "no type"})
		body.Kids = append(body.Kids, l)
		return Op{Op: "load", Name: name, Text: withBody(m, body).Text(), Fault: "missing-required"}, true
	case 3:
		// a syntax error at the very end
		t := withBody(m, body).Text()
		switch r.Intn(3) {
		case 0:
			t = strings.TrimSuffix(t, "}\n")
		case 1:
			t += "}\n"
		default:
			t += "description \"unterminated\n"
		}
		return Op{Op: "load", Name: name, Text: t, Fault: "syntax"}, true
	case 4:
		// a node that is not a module after the module: built, then refused by add
		t := withBody(m, body).Text() + "container ztrail {\n  typedef zt2 { type znosuch2; }\n  leaf q { type string; }\n}\n"
		return Op{Op: "load", Name: name, Text: t, Fault: "trailing-node"}, true
	case 5, 6:
		// a second module in the same text that is a duplicate of a loaded one
		if len(loaded) == 0 {
			t := withBody(m, body).Text()
			return Op{Op: "load", Name: name, Text: t + t, Fault: "twice-in-text"}, true
		}
		l := loaded[r.Intn(len(loaded))]
		if l.name == it.name {
			// the first module of the text would itself be a duplicate: still a bad text
			return Op{Op: "load", Name: name, Text: withBody(m, body).Text() + l.text, Fault: "two-modules-dup"}, true
		}
		return Op{Op: "load", Name: "two-" + it.name, Text: withBody(m, body).Text() + l.text, Fault: "two-modules-dup"}, true
	case 7:
		if len(loaded) == 0 {
			return Op{}, false
		}
		l := loaded[r.Intn(len(loaded))]
		return Op{Op: "load", Name: l.name, Text: l.text, Fault: "dup"}, true
	default:
		if len(loaded) == 0 {
			return Op{}, false
		}
		l := loaded[r.Intn(len(loaded))]
		return Op{Op: "load", Name: "copy-of-" + l.name, Text: l.text, Fault: "dup-renamed"}, true
	}
}

// revisionVariant makes another revision of module m: a later or an earlier date, and a body that
// differs (a top-level data node dropped, a leaf added, a typedef changed).
func revisionVariant(r *rand.Rand, m *gen.Module) item {
	rev := "2021-06-01"
	if r.Intn(3) == 0 {
		rev = "2019-03-03"
	}
	c := *m
	c.Revisions = append(append([]string{}, m.Revisions...), rev)
	if rev < "2020" {
		// an EARLIER revision: it must not also carry the later revision statements of m, or its
		// latest revision - what names it - would be m's, and the text a duplicate of m
		c.Revisions = []string{rev}
	}
	body := cloneNode(m.Body)
	switch r.Intn(4) {
	case 0:
		for i := len(body.Kids) - 1; i >= 0; i-- {
			switch body.Kids[i].Kw {
			case "leaf", "container", "leaf-list", "list":
				body.Kids = append(body.Kids[:i:i], body.Kids[i+1:]...)
				i = -1
			}
		}
	case 1:
		for _, k := range body.Kids {
			if k.Kw == "typedef" {
				k.Kids = []*gen.Node{{Kw: "type", Arg: "string"}}
				break
			}
		}
	case 2:
		// drop a typedef or an identity others may refer to
		for i, k := range body.Kids {
			if k.Kw == "typedef" || k.Kw == "identity" {
				body.Kids = append(body.Kids[:i:i], body.Kids[i+1:]...)
				break
			}
		}
	}
	l := &gen.Node{Kw: "leaf", Arg: "rv" + rev[2:4]}
	l.Kids = append(l.Kids, &gen.Node{Kw: "type", Arg: "string"})
	body.Kids = append(body.Kids, l)
	c.Body = body
	return item{name: fmt.Sprintf("%s@%s.yang", m.Name, rev), text: c.Text(), mod: &c, variant: true}
}

func readPath(r *rand.Rand, m *gen.Module) string {
	ps := m.Paths()
	if len(ps) == 0 || r.Intn(8) == 0 {
		return "/" + m.Prefix + ":nosuchnode"
	}
	p := ps[r.Intn(len(ps))]
	withPrefix := r.Intn(3) != 0
	var sb strings.Builder
	for i, n := range p.Names {
		step := n
		if withPrefix {
			step = m.Prefix + ":" + n
		}
		if p.ChoiceShorthand[i] {
			// after Process an implicit case of the same name sits above a shorthand member
			sb.WriteString("/" + step)
		}
		sb.WriteString("/" + step)
	}
	return sb.String()
}

// genHistory builds one history of at most maxLen operations from a generated module set.
func genHistory(r *rand.Rand, maxLen int) History {
	cfg := gen.Default()
	cfg.MaxModules = 2
	if maxLen >= 12 && r.Intn(2) == 0 {
		cfg.MaxModules = 3
	}
	cfg.BadRate = 0.12
	set := gen.Generate(r, cfg)
	var items []item
	var mods []*gen.Module
	for _, m := range set.Mods {
		items = append(items, item{name: m.FileName(), text: m.Text(), mod: m})
		if !m.Sub {
			mods = append(mods, m)
		}
	}
	origin := "as-generated"
	switch r.Intn(5) {
	case 0:
		// submodules before the modules that include them
		var subs, rest []item
		for _, it := range items {
			if it.mod.Sub {
				subs = append(subs, it)
			} else {
				rest = append(rest, it)
			}
		}
		items = append(subs, rest...)
		origin = "submodules-first"
	case 1:
		r.Shuffle(len(items), func(i, j int) { items[i], items[j] = items[j], items[i] })
		origin = "shuffled"
	case 2:
		for i, j := 0, len(items)-1; i < j; i, j = i+1, j-1 {
			items[i], items[j] = items[j], items[i]
		}
		origin = "reversed"
	}
	if r.Intn(5) < 2 && len(mods) > 0 {
		// another revision of a module or - one time in three when there is one - of a submodule
		// (the superseded revision is then reached by no include any more)
		cands := mods
		if len(set.Mods) > len(mods) && r.Intn(3) == 0 {
			cands = nil
			for _, m := range set.Mods {
				if m.Sub {
					cands = append(cands, m)
				}
			}
		}
		v := revisionVariant(r, cands[r.Intn(len(cands))])
		pos := r.Intn(len(items) + 1)
		if r.Intn(3) != 0 {
			pos = len(items) // usually after everything else (and after a first Process)
		}
		items = append(items[:pos:pos], append([]item{v}, items[pos:]...)...)
		origin += "+revision"
	}
	if len(items) > maxLen-2 {
		items = items[:maxLen-2]
		origin += "+truncated"
	}
	return buildOps(r, items, maxLen, origin)
}

// buildOps interleaves the loads of items (in order) with process, read, walk and bad loads.
func buildOps(r *rand.Rand, items []item, maxLen int, origin string) History {
	h := History{Origin: origin}
	if r.Intn(12) == 0 {
		h.IgnoreCircular = true
	}
	if r.Intn(12) == 0 {
		h.IgnoreNotSupported = true
	}
	var loaded []item
	processed := false
	extra := func(next *item) bool {
		switch k := r.Intn(10); {
		case k <= 3:
			src := next
			if src == nil || (len(loaded) > 0 && r.Intn(3) == 0) {
				if len(loaded) == 0 {
					return false
				}
				src = &loaded[r.Intn(len(loaded))]
			}
			op, ok := badText(r, *src, loaded)
			if !ok {
				return false
			}
			h.Ops = append(h.Ops, op)
		case k <= 6:
			if len(loaded) == 0 && r.Intn(4) != 0 {
				return false
			}
			h.Ops = append(h.Ops, Op{Op: "process"})
			processed = true
		case k <= 8:
			if len(loaded) == 0 {
				return false
			}
			l := loaded[r.Intn(len(loaded))]
			key := l.mod.Name
			if r.Intn(10) == 0 {
				key = "nosuch"
			}
			h.Ops = append(h.Ops, Op{Op: "read", Key: key, Path: readPath(r, l.mod)})
		default:
			h.Ops = append(h.Ops, Op{Op: "walk"})
		}
		return true
	}
	for i := 0; i < len(items); {
		pres := 0
		for _, it := range items[i:] {
			if it.pre != "" {
				pres++
			}
		}
		slack := maxLen - len(h.Ops) - (len(items) - i) - pres - 1
		if pre := items[i].pre; pre != "" {
			// the forced operation, unless the history has just done it
			items[i].pre = ""
			if n := len(h.Ops); n == 0 || h.Ops[n-1].Op != pre {
				switch {
				case pre == "read" && len(loaded) > 0:
					l := loaded[len(loaded)-1]
					h.Ops = append(h.Ops, Op{Op: "read", Key: l.mod.Name, Path: readPath(r, l.mod)})
				case pre == "read":
					h.Ops = append(h.Ops, Op{Op: "walk"})
				default:
					h.Ops = append(h.Ops, Op{Op: pre})
				}
				if pre == "process" {
					processed = true
				}
			}
			continue
		}
		p := 0.45
		if !processed && i > 0 {
			p = 0.6
		}
		if slack > 0 && r.Float64() < p {
			if extra(&items[i]) {
				continue
			}
		}
		if i+1 < len(items) && items[i+1].pre == "" && r.Intn(7) == 0 {
			// two texts offered as one: several top-level statements, registered all or nothing
			h.Ops = append(h.Ops, Op{Op: "load", Name: "two-in-one-" + items[i].name, Text: items[i].text + items[i+1].text})
			loaded = append(loaded, items[i], items[i+1])
			i += 2
			continue
		}
		h.Ops = append(h.Ops, Op{Op: "load", Name: items[i].name, Text: items[i].text})
		loaded = append(loaded, items[i])
		i++
	}
	h.Ops = append(h.Ops, Op{Op: "process"})
	// a tail: process again, with or without something in between
	for tries := 0; len(h.Ops) < maxLen-1 && tries < 3 && r.Intn(3) != 0; tries++ {
		if r.Intn(3) != 0 {
			if !extra(nil) {
				continue
			}
			if h.Ops[len(h.Ops)-1].Op == "process" {
				continue
			}
		}
		h.Ops = append(h.Ops, Op{Op: "process"})
	}
	return h
}

func nd(kw, arg string, kids ...*gen.Node) *gen.Node { return &gen.Node{Kw: kw, Arg: arg, Kids: kids} }

// libTypedefs are the typedefs of the type library `tl` in its first (variant 0) or a later
// written revision (variant > 0: other base kind, other range, other enum / bit set, other
// fraction digits, other union members).
func libTypedefs(r *rand.Rand, variant int) []*gen.Node {
	if variant == 0 {
		return []*gen.Node{
			nd("typedef", "id", nd("type", "int8", nd("range", "1..10"))),
			nd("typedef", "en", nd("type", "enumeration", nd("enum", "a"), nd("enum", "b"))),
			nd("typedef", "bt", nd("type", "bits", nd("bit", "x"), nd("bit", "y"))),
			nd("typedef", "dec", nd("type", "decimal64", nd("fraction-digits", "2"), nd("range", "1..10"))),
			nd("typedef", "u1", nd("type", "union", nd("type", "id"), nd("type", "boolean"))),
		}
	}
	id := []*gen.Node{
		nd("type", "string", nd("length", "1..4")),
		nd("type", "int8", nd("range", "2..5")),
		nd("type", "uint32"),
		nd("type", "en"),
	}[r.Intn(4)]
	en := nd("type", "enumeration", nd("enum", "a"), nd("enum", "c"), nd("enum", "d", nd("value", "7")))
	if r.Intn(3) == 0 {
		en = nd("type", "enumeration", nd("enum", "a"), nd("enum", "b")) // unchanged
	}
	bt := nd("type", "bits", nd("bit", "x"), nd("bit", "z", nd("position", "5")))
	dec := []*gen.Node{
		nd("type", "decimal64", nd("fraction-digits", "3"), nd("range", "1..10")),
		nd("type", "decimal64", nd("fraction-digits", "2"), nd("range", "2..4")),
		nd("type", "int8"),
	}[r.Intn(3)]
	u1 := []*gen.Node{
		nd("type", "union", nd("type", "id"), nd("type", "en")),
		nd("type", "union", nd("type", "boolean"), nd("type", "id"), nd("type", "bt")),
		nd("type", "string"),
	}[r.Intn(3)]
	return []*gen.Node{nd("typedef", "id", id), nd("typedef", "en", en), nd("typedef", "bt", bt), nd("typedef", "dec", dec), nd("typedef", "u1", u1)}
}

func libModule(r *rand.Rand, rev string, variant int) *gen.Module {
	m := &gen.Module{Name: "tl", Prefix: "tl", Namespace: "urn:tl", Revisions: []string{rev}, ImportPrefix: map[*gen.Module]string{},
		Body: nd("module", "tl")}
	m.Body.Kids = libTypedefs(r, variant)
	return m
}

// tag is an extension statement of module ex on a type statement.
func tag(v string) *gen.Node { return nd("ex:tag", v) }

// typeFeatureNodes are leaves and typedefs whose type statement names a BUILT-IN type and yet
// depends on the module set: unions (also nested, also inside typedefs) with typedef members of
// the imported library, built-in members with restrictions beside them, and built-in types that
// carry an extension statement of an imported module.
func typeFeatureNodes(r *rand.Rand, useLib, useExt bool) []*gen.Node {
	var out []*gen.Node
	leaf := func(name string, t *gen.Node) { out = append(out, nd("leaf", name, t)) }
	some := func() bool { return r.Intn(3) != 0 }
	if useLib {
		leaf("tfdirect", nd("type", "tl:id"))
		leaf("tfeither", nd("type", "union", nd("type", "tl:id"), nd("type", "boolean")))
		if some() {
			leaf("tfnested", nd("type", "union",
				nd("type", "union", nd("type", "tl:en"), nd("type", "tl:bt")),
				nd("type", "tl:dec")))
		}
		if some() {
			out = append(out, nd("typedef", "tfut", nd("type", "union", nd("type", "tl:id"), nd("type", "tl:u1"))))
			leaf("tfviaut", nd("type", "tfut"))
			if some() {
				leaf("tfutu", nd("type", "union", nd("type", "tfut"), nd("type", "tl:en")))
			}
		}
		if some() {
			// built-in members with restrictions of their own beside members that change
			leaf("tfmixed", nd("type", "union",
				nd("type", "tl:dec"),
				nd("type", "decimal64", nd("fraction-digits", "2"), nd("range", "1..5")),
				nd("type", "enumeration", nd("enum", "q"), nd("enum", "r")),
				nd("type", "bits", nd("bit", "b0"), nd("bit", "b1")),
				nd("type", "leafref", nd("path", "../tfdirect")),
				nd("type", "tl:en")))
		}
		if some() {
			out = append(out, nd("leaf-list", "tfll", nd("type", "union", nd("type", "tl:bt"), nd("type", "tl:id"))))
		}
		if some() {
			out = append(out, nd("container", "tfc",
				nd("typedef", "tfin", nd("type", "union", nd("type", "tl:dec"), nd("type", "tl:id"))),
				nd("leaf", "tfinl", nd("type", "tfin"))))
		}
	}
	if useExt {
		out = append(out, nd("typedef", "tfname", nd("type", "string", nd("length", "1..8"), tag("n"))))
		leaf("tfn", nd("type", "tfname"))
		if some() {
			leaf("tfint", nd("type", "int8", nd("range", "1..5"), tag("i")))
		}
		if some() {
			leaf("tfenum", nd("type", "enumeration", nd("enum", "a"), nd("enum", "b"), tag("e")))
		}
		if some() {
			leaf("tfdec", nd("type", "decimal64", nd("fraction-digits", "2"), tag("d")))
		}
		if some() {
			leaf("tfbits", nd("type", "bits", nd("bit", "b0"), tag("b")))
		}
		if some() {
			leaf("tflref", nd("type", "leafref", nd("path", "../tfn"), tag("l")))
		}
		if some() {
			leaf("tfbool", nd("type", "boolean", tag("o")))
		}
		if useLib && some() {
			leaf("tfunion", nd("type", "union", nd("type", "tl:id"), nd("type", "string", tag("m")), tag("u")))
		}
	}
	return out
}

// genTypeHistory builds a history around types that name a built-in and still depend on the
// module set: a generated module gets the nodes of typeFeatureNodes; the type library arrives
// early in one revision and late - after a Process - in another one that redefines its typedefs;
// the module that defines the extension arrives only after a first Process, walk or read.
func genTypeHistory(r *rand.Rand, maxLen int) History {
	cfg := gen.Default()
	cfg.MaxModules = 1
	cfg.Submodules = false
	if maxLen >= 12 {
		cfg.MaxModules = 1 + r.Intn(2)
		cfg.Submodules = r.Intn(2) == 0
	}
	cfg.BadRate = 0.05
	set := gen.Generate(r, cfg)
	useLib := r.Intn(4) != 0
	useExt := !useLib || r.Intn(2) == 0
	if maxLen < 12 && useLib && useExt && r.Intn(2) == 0 {
		useExt = false // leave room for bad loads and reads in a short history
	}
	user := set.Mods[r.Intn(len(set.Mods))]
	libA := libModule(r, "2020-01-01", 0)
	ext := &gen.Module{Name: "ex", Prefix: "ex", Namespace: "urn:ex", ImportPrefix: map[*gen.Module]string{},
		Body: nd("module", "ex", nd("extension", "tag", nd("argument", "value")))}
	if useLib {
		user.Imports = append(user.Imports, libA)
		user.ImportPrefix[libA] = "tl"
	}
	if useExt {
		user.Imports = append(user.Imports, ext)
		user.ImportPrefix[ext] = "ex"
	}
	user.Body.Kids = append(user.Body.Kids, typeFeatureNodes(r, useLib, useExt)...)
	var items []item
	for _, m := range set.Mods {
		items = append(items, item{name: m.FileName(), text: m.Text(), mod: m})
	}
	origin := "types"
	if r.Intn(3) == 0 {
		r.Shuffle(len(items), func(i, j int) { items[i], items[j] = items[j], items[i] })
	}
	if useLib {
		origin += "+library-revision"
		a := item{name: "tl.yang", text: libA.Text(), mod: libA}
		pos := r.Intn(len(items) + 1)
		items = append(items[:pos:pos], append([]item{a}, items[pos:]...)...)
	}
	var late []item
	if useLib {
		rev := "2021-06-01"
		if r.Intn(5) == 0 {
			rev = "2019-03-03" // an older revision arriving late: the name keeps denoting the first
		}
		libB := libModule(r, rev, 1)
		late = append(late, item{name: "tl@" + rev + ".yang", text: libB.Text(), mod: libB, variant: true, pre: "process"})
	}
	if useExt {
		origin += "+late-extension-module"
		pre := []string{"process", "process", "walk", "read"}[r.Intn(4)]
		e := item{name: "ex.yang", text: ext.Text(), mod: ext, pre: pre}
		if r.Intn(2) == 0 {
			late = append(late, e)
		} else {
			late = append([]item{e}, late...)
		}
	}
	items = append(items, late...)
	for len(items)+len(late)+1 > maxLen {
		items = items[1:]
		origin += "+truncated"
	}
	return buildOps(r, items, maxLen, origin)
}

// genSubRevHistory builds a history around a submodule revision that is superseded after a
// processing run: module m includes s; the first revision of s has an include and / or an import of
// its own and USES what they bring (a grouping, a typedef, an identity of submodule t; a grouping
// and a typedef of module lib); after a Process a newer revision of s arrives (usually without
// those statements), so that nothing reaches the old revision - and sometimes t - any more.
// A fresh set never links the old revision; a set that keeps links of an earlier run does.
func genSubRevHistory(r *rand.Rand, maxLen int) History {
	some := func() bool { return r.Intn(3) != 0 }
	str := func() *gen.Node { return nd("type", "string") }
	m := &gen.Module{Name: "m", Prefix: "m", Namespace: "urn:m", ImportPrefix: map[*gen.Module]string{}, Body: nd("module", "m")}
	lib := &gen.Module{Name: "lib", Prefix: "lib", Namespace: "urn:lib", ImportPrefix: map[*gen.Module]string{}, Body: nd("module", "lib",
		nd("typedef", "lt", nd("type", "int8", nd("range", "1..9"))),
		nd("grouping", "lg", nd("leaf", "lgl", nd("type", "lt"))),
		nd("identity", "li"))}
	t := &gen.Module{Name: "t", Prefix: "m", Namespace: "urn:m", Sub: true, Owner: m, ImportPrefix: map[*gen.Module]string{}, Body: nd("submodule", "t",
		nd("grouping", "tg", nd("leaf", "x", str())),
		nd("typedef", "tt", nd("type", "uint32")),
		nd("identity", "ti"))}
	if some() {
		t.Body.Kids = append(t.Body.Kids, nd("container", "from-t", nd("leaf", "tl", nd("type", "tt"))))
	}
	useInc := r.Intn(5) != 0
	useImp := !useInc || r.Intn(2) == 0
	sA := &gen.Module{Name: "s", Prefix: "m", Namespace: "urn:m", Sub: true, Owner: m, ImportPrefix: map[*gen.Module]string{}, Body: nd("submodule", "s")}
	if r.Intn(4) != 0 {
		sA.Revisions = []string{"2020-01-01"}
	}
	fromS := nd("container", "from-s")
	if useInc {
		sA.Includes = append(sA.Includes, t)
		fromS.Kids = append(fromS.Kids, nd("uses", "tg"))
		if some() {
			sA.Body.Kids = append(sA.Body.Kids, nd("leaf", "st", nd("type", "tt")))
		}
		if some() {
			// typedefs are resolved in every run for every text ever accepted, also for a module
			// that a later revision displaced
			sA.Body.Kids = append(sA.Body.Kids, nd("typedef", "sx", nd("type", "tt")),
				nd("typedef", "su", nd("type", "union", nd("type", "tt"), nd("type", "boolean"))))
		}
		if some() {
			sA.Body.Kids = append(sA.Body.Kids, nd("identity", "si", nd("base", "ti")),
				nd("leaf", "sir", nd("type", "identityref", nd("base", "si"))))
		}
	}
	if useImp {
		sA.Imports = append(sA.Imports, lib)
		sA.ImportPrefix[lib] = "lib"
		if some() || !useInc {
			fromS.Kids = append(fromS.Kids, nd("container", "viaimport", nd("uses", "lib:lg")))
		}
		if some() {
			sA.Body.Kids = append(sA.Body.Kids, nd("leaf", "slt", nd("type", "lib:lt")))
		}
		if some() {
			sA.Body.Kids = append(sA.Body.Kids, nd("identity", "sli", nd("base", "lib:li")))
		}
	}
	sA.Body.Kids = append(sA.Body.Kids, fromS)
	// the owner: includes s, sometimes t as well (then t stays reachable), a body of its own
	m.Includes = append(m.Includes, sA)
	if useInc && r.Intn(3) == 0 {
		m.Includes = append(m.Includes, t)
	}
	m.Body.Kids = append(m.Body.Kids, nd("container", "top", nd("leaf", "a", str())))
	if some() {
		m.Body.Kids = append(m.Body.Kids, nd("augment", "/m:from-s", nd("leaf", "auga", str())))
	}
	// the later revision of s
	rev := "2021-01-01"
	if len(sA.Revisions) > 0 && r.Intn(5) == 0 {
		rev = "2019-01-01" // an older one: the bare name keeps denoting the first (control)
	}
	sB := &gen.Module{Name: "s", Prefix: "m", Namespace: "urn:m", Sub: true, Owner: m, Revisions: []string{rev},
		ImportPrefix: map[*gen.Module]string{}, Body: nd("submodule", "s")}
	switch r.Intn(4) {
	case 0:
		// still includes t and uses it
		if useInc {
			sB.Includes = append(sB.Includes, t)
			sB.Body.Kids = append(sB.Body.Kids, nd("container", "from-s", nd("uses", "tg"), nd("leaf", "y", str())))
			break
		}
		fallthrough
	default:
		sB.Body.Kids = append(sB.Body.Kids, nd("container", "from-s", nd("leaf", "y", str())))
	}
	// one time in three it is the OWNER that is displaced: m has no revision, its typedefs need
	// what its include chain (m -> s -> t) and its import bring, and a revision of m arrives after a
	// Process (or, mirrored, the revision is there first and the unrevisioned text arrives late)
	ownerDisplaced := r.Intn(3) == 0
	var mLate *item
	if ownerDisplaced {
		if useInc {
			m.Body.Kids = append(m.Body.Kids, nd("typedef", "mx", nd("type", "tt")),
				nd("typedef", "my", nd("type", "mx", nd("range", "1..100"))),
				nd("leaf", "ml", nd("type", "my")))
			if some() {
				m.Body.Kids = append(m.Body.Kids, nd("typedef", "mi", nd("type", "identityref", nd("base", "ti"))))
			}
			if some() {
				m.Body.Kids = append(m.Body.Kids, nd("typedef", "mr", nd("type", "leafref", nd("path", "../top/a"))))
			}
		}
		if useImp {
			m.Imports = append(m.Imports, lib)
			m.ImportPrefix[lib] = "lib"
			m.Body.Kids = append(m.Body.Kids, nd("typedef", "mu", nd("type", "union", nd("type", "lib:lt"), nd("type", "string"))),
				nd("container", "viaimp", nd("uses", "lib:lg")))
		}
		mB := &gen.Module{Name: "m", Prefix: "m", Namespace: "urn:m", Revisions: []string{"2021-05-05"}, ImportPrefix: map[*gen.Module]string{},
			Body: nd("module", "m", nd("container", "top", nd("leaf", "a", str()), nd("leaf", "b", str())))}
		if r.Intn(3) == 0 {
			mB.Includes = append(mB.Includes, sA) // the revision still includes s
		}
		mLate = &item{name: "m@2021-05-05.yang", text: mB.Text(), mod: mB, variant: true, pre: "process"}
	}
	sAName := "s.yang"
	if len(sA.Revisions) > 0 {
		sAName = "s@" + sA.Revisions[0] + ".yang"
	}
	first := []item{{name: "m.yang", text: m.Text(), mod: m}, {name: sAName, text: sA.Text(), mod: sA}}
	if useInc {
		first = append(first, item{name: "t.yang", text: t.Text(), mod: t})
	}
	if useImp {
		first = append(first, item{name: "lib.yang", text: lib.Text(), mod: lib})
	}
	if r.Intn(2) == 0 {
		r.Shuffle(len(first), func(i, j int) { first[i], first[j] = first[j], first[i] })
	}
	origin := "submodule-revision"
	if useInc {
		origin += "+own-include"
	}
	if useImp {
		origin += "+own-import"
	}
	if ownerDisplaced {
		origin += "+owner-displaced"
		if r.Intn(4) == 0 {
			// mirrored: the revision first, the unrevisioned text late (it is displaced from the start)
			for i := range first {
				if first[i].name == "m.yang" {
					late := first[i]
					late.pre = "process"
					first[i] = *mLate
					first[i].pre = ""
					return buildOps(r, append(first, late), maxLen, origin+"+mirrored")
				}
			}
		}
		items := append(first, *mLate)
		if r.Intn(3) == 0 {
			items = append(items, item{name: "s@" + rev + ".yang", text: sB.Text(), mod: sB, variant: true, pre: "process"})
		}
		return buildOps(r, items, maxLen, origin)
	}
	items := append(first, item{name: "s@" + rev + ".yang", text: sB.Text(), mod: sB, variant: true, pre: "process"})
	if maxLen >= 12 && r.Intn(3) == 0 {
		// a third revision after another run
		sC := *sB
		sC.Revisions = []string{"2022-02-02"}
		sC.Body = nd("submodule", "s", nd("container", "from-s", nd("leaf", "z", str())))
		items = append(items, item{name: "s@2022-02-02.yang", text: sC.Text(), mod: &sC, variant: true, pre: "process"})
	}
	return buildOps(r, items, maxLen, origin)
}

// genNsHistory builds a history about namespaces: a generated set is processed (or walked, or
// read), then arrive, each after such an operation: a differently named module that claims a
// namespace already in use; a newer revision of a module whose namespace changed (to a fresh one
// or to another module's); a module that takes over the namespace the revision gave up.
func genNsHistory(r *rand.Rand, maxLen int) History {
	cfg := gen.Default()
	cfg.MaxModules = 2
	cfg.Submodules = maxLen >= 12 && r.Intn(2) == 0
	cfg.BadRate = 0.05
	set := gen.Generate(r, cfg)
	var items []item
	var mods []*gen.Module
	for _, m := range set.Mods {
		items = append(items, item{name: m.FileName(), text: m.Text(), mod: m})
		if !m.Sub {
			mods = append(mods, m)
		}
	}
	if r.Intn(3) == 0 {
		r.Shuffle(len(items), func(i, j int) { items[i], items[j] = items[j], items[i] })
	}
	pre := func() string { return []string{"process", "process", "process", "walk", "read"}[r.Intn(5)] }
	small := func(name, ns string) *gen.Module {
		return &gen.Module{Name: name, Prefix: name, Namespace: ns, ImportPrefix: map[*gen.Module]string{},
			Body: nd("module", name, nd("container", name+"c", nd("leaf", name+"l", nd("type", "string"))))}
	}
	base := mods[r.Intn(len(mods))]
	origin := "namespaces"
	var late []item
	kind := r.Intn(4)
	if kind == 0 || kind == 3 {
		// a second module, another name, the same namespace
		c := small("n1", base.Namespace)
		if r.Intn(3) == 0 {
			c.Imports = append(c.Imports, base)
			c.ImportPrefix[base] = base.Prefix
		}
		late = append(late, item{name: "n1.yang", text: c.Text(), mod: c, pre: pre()})
		origin += "+second-module-same-namespace"
	}
	if kind == 1 || kind == 2 || kind == 3 {
		// a newer revision whose namespace changed
		v := *base
		v.Revisions = append(append([]string{}, base.Revisions...), "2021-06-01")
		v.Namespace = base.Namespace + ":v2"
		if len(mods) > 1 && r.Intn(3) == 0 {
			for _, o := range mods {
				if o != base {
					v.Namespace = o.Namespace // now shared with another module of the set
				}
			}
		}
		late = append(late, item{name: base.Name + "@2021-06-01.yang", text: v.Text(), mod: &v, variant: true, pre: pre()})
		origin += "+revision-changes-namespace"
		if kind == 2 || (kind == 3 && r.Intn(2) == 0) {
			// ... and a module that takes the old namespace over
			t := small("n2", base.Namespace)
			late = append(late, item{name: "n2.yang", text: t.Text(), mod: t, pre: pre()})
			origin += "+namespace-taken-over"
		}
	}
	if r.Intn(4) == 0 {
		r.Shuffle(len(late), func(i, j int) { late[i], late[j] = late[j], late[i] })
	}
	for len(items)+2*len(late)+1 > maxLen && len(items) > 1 {
		items = items[:len(items)-1]
		origin += "+truncated"
	}
	for len(items)+2*len(late)+1 > maxLen && len(late) > 1 {
		late = late[:len(late)-1]
	}
	return buildOps(r, append(items, late...), maxLen, origin)
}

// refusedMulti builds a text of 2-4 top-level statements that add accepts one after the other
// until the LAST one, which it refuses - so that the registrations of the earlier statements have
// happened (a brand-new module, a newer revision that takes a bare name over, an older revision, a
// submodule, the unrevisioned text of a name that has revisions only, a pending text of the set) and
// must be withdrawn.  loaded: the accepted texts so far; pending: good texts not loaded yet.
func refusedMulti(r *rand.Rand, loaded, pending []item) (Op, bool) {
	if len(loaded) == 0 {
		return Op{}, false
	}
	var heads []string
	var text strings.Builder
	var first string
	usedZq, usedRev := false, map[string]bool{}
	nHeads := 1 + r.Intn(3)
	if nHeads == 3 && r.Intn(2) == 0 {
		nHeads = 1
	}
	for k := 0; k < nHeads; k++ {
		l := loaded[r.Intn(len(loaded))]
		t := ""
		kind := ""
		switch c := r.Intn(8); {
		case c == 0 && !usedZq:
			usedZq = true
			kind = "new-module"
			t = "module zq {\n  namespace \"urn:zq\";\n  prefix zq;\n  container zqc { leaf q { type string; } }\n}\n"
			if r.Intn(2) == 0 {
				kind = "new-module-with-revision"
				t = "module zq {\n  namespace \"urn:zq\";\n  prefix zq;\n  revision 2022-02-02;\n  leaf q { type string; }\n}\n"
			}
		case c == 1 && !usedZq:
			// a brand-new module that augments a loaded one (never linked: the text is refused)
			usedZq = true
			var tgt *gen.Module
			for _, x := range loaded {
				if !x.mod.Sub && len(x.mod.Paths()) > 0 {
					tgt = x.mod
				}
			}
			if tgt == nil {
				continue
			}
			kind = "new-module-augmenting"
			t = fmt.Sprintf("module zq {\n  namespace \"urn:zq\";\n  prefix zq;\n  import %s { prefix zi; }\n  augment \"/zi:%s\" { leaf zqa { type string; } }\n}\n",
				tgt.Name, tgt.Paths()[0].Names[0])
		case c <= 4:
			// a newer revision of a loaded module or submodule: it takes the bare name over
			if usedRev[l.mod.Name] {
				continue
			}
			usedRev[l.mod.Name] = true
			m := *l.mod
			m.Revisions = append(append([]string{}, l.mod.Revisions...), "2023-03-03")
			nb := cloneNode(l.mod.Body)
			if r.Intn(3) == 0 && len(nb.Kids) > 0 {
				nb.Kids = nb.Kids[:len(nb.Kids)-1]
			}
			nb.Kids = append(nb.Kids, nd("leaf", "rv23", nd("type", "string")))
			if r.Intn(5) == 0 && !m.Sub {
				m.Namespace += ":moved"
			}
			m.Body = nb
			kind = "newer-revision"
			if m.Sub {
				kind = "newer-submodule-revision"
			}
			t = m.Text()
		case c == 5:
			// an older revision: filed under name@revision only
			if usedRev[l.mod.Name] || len(l.mod.Revisions) == 0 {
				continue
			}
			usedRev[l.mod.Name] = true
			m := *l.mod
			m.Revisions = []string{"2001-01-01"}
			m.Body = cloneNode(l.mod.Body)
			kind = "older-revision"
			t = m.Text()
		case c == 6:
			// a brand-new submodule of a loaded module
			var owner *gen.Module
			for _, x := range loaded {
				if !x.mod.Sub {
					owner = x.mod
				}
			}
			if owner == nil || usedRev["zs"] {
				continue
			}
			usedRev["zs"] = true
			sm := &gen.Module{Name: "zs", Prefix: owner.Prefix, Sub: true, Owner: owner, ImportPrefix: map[*gen.Module]string{},
				Body: nd("submodule", "zs", nd("container", "zsc", nd("leaf", "s", nd("type", "string"))))}
			kind = "new-submodule"
			t = sm.Text()
		default:
			// a pending good text of the set (an import or include somebody is waiting for)
			if len(pending) == 0 {
				continue
			}
			pi := pending[r.Intn(len(pending))]
			if usedRev[pi.mod.Name] {
				continue
			}
			usedRev[pi.mod.Name] = true
			kind = "pending-text"
			t = pi.text
		}
		if t == "" {
			continue
		}
		if first == "" {
			first = t
		}
		heads = append(heads, kind)
		text.WriteString(t)
	}
	if len(heads) == 0 {
		return Op{}, false
	}
	l := loaded[r.Intn(len(loaded))]
	tail := ""
	switch r.Intn(7) {
	case 0, 1:
		tail = "duplicate"
		text.WriteString(l.text)
	case 2:
		tail = "head-again"
		text.WriteString(first)
	case 3:
		tail = "non-module"
		text.WriteString([]string{
			"container ztrail {\n  leaf q { type string; }\n}\n",
			"grouping ztrail {\n  leaf q { type string; }\n}\n",
			"typedef ztrail {\n  type string;\n}\n",
			"leaf ztrail {\n  type string;\n}\n"}[r.Intn(4)])
	case 4:
		tail = "at-name"
		text.WriteString("module \"zz@1\" {\n  namespace \"urn:zz\";\n  prefix zz;\n}\n")
	case 5:
		tail = "submodule-at-name"
		owner := l.mod
		if owner.Sub {
			owner = owner.Owner
		}
		text.WriteString(fmt.Sprintf("submodule \"zs@1\" {\n  belongs-to %s { prefix %s; }\n}\n", owner.Name, owner.Prefix))
	default:
		// the same revision of a loaded module under another body: a duplicate by name
		tail = "duplicate-other-body"
		m := *l.mod
		m.Body = nd(l.mod.Body.Kw, l.mod.Body.Arg, nd("leaf", "zother", nd("type", "string")))
		text.WriteString(m.Text())
	}
	return Op{Op: "load", Name: "refused-multi.yang", Text: text.String(), Fault: "multi:" + strings.Join(heads, "+") + "-then-" + tail}, true
}

// genRefusedHistory builds a history around a REFUSED text of several statements that comes after a
// processing run, followed directly by reads: a generated set (submodules, augments, deviations,
// choices, uses: the processed trees differ from a raw conversion) is loaded and processed; then,
// once or twice: [a read or walk,] the refused text (refusedMulti), then reads of modules the text
// mentioned and of modules it did not (Find on ms.Modules[name], answered by the model from the
// finished Process, and - Go vs Go - the read battery on the shadow value), sometimes a walk;
// sometimes a good text held back arrives afterwards (with reads before the next Process);
// a final Process.  Half of these histories run the read battery after every operation.
func genRefusedHistory(r *rand.Rand, maxLen int) History {
	cfg := gen.Default()
	cfg.MaxModules = 2
	if r.Intn(3) == 0 {
		cfg.MaxModules = 3
	}
	cfg.BadRate = 0.05
	cfg.Revisions = r.Intn(2) == 0
	set := gen.Generate(r, cfg)
	var items []item
	for _, m := range set.Mods {
		items = append(items, item{name: m.FileName(), text: m.Text(), mod: m})
	}
	origin := "refused-multi"
	if r.Intn(4) == 0 {
		r.Shuffle(len(items), func(i, j int) { items[i], items[j] = items[j], items[i] })
	}
	// sometimes one text is held back: it is offered inside the refused text and / or arrives later
	var pending []item
	if len(items) > 1 && r.Intn(3) == 0 {
		k := r.Intn(len(items))
		pending = append(pending, items[k])
		items = append(items[:k:k], items[k+1:]...)
		origin += "+held-back"
	}
	h := History{Origin: origin, ReadsEverywhere: r.Intn(2) == 0}
	if r.Intn(12) == 0 {
		h.IgnoreCircular = true
	}
	if r.Intn(12) == 0 {
		h.IgnoreNotSupported = true
	}
	budget := maxLen + 2 // these histories may be a little longer than the general ones: the reads are cheap
	if len(items) > 3 {
		// several texts as one accepted load, to leave room
		txt := ""
		for _, it := range items {
			txt += it.text
		}
		h.Ops = append(h.Ops, Op{Op: "load", Name: "all-in-one.yang", Text: txt})
	} else {
		for _, it := range items {
			h.Ops = append(h.Ops, Op{Op: "load", Name: it.name, Text: it.text})
		}
	}
	loaded := append([]item{}, items...)
	h.Ops = append(h.Ops, Op{Op: "process"})
	read := func() {
		l := loaded[r.Intn(len(loaded))]
		if l.mod.Sub && l.mod.Owner != nil {
			// reads go through ms.Modules: the owner's tree holds the submodule's nodes
			h.Ops = append(h.Ops, Op{Op: "read", Key: l.mod.Owner.Name, Path: readPath(r, l.mod)})
			return
		}
		h.Ops = append(h.Ops, Op{Op: "read", Key: l.mod.Name, Path: readPath(r, l.mod)})
	}
	rounds := 1 + r.Intn(2)
	for k := 0; k < rounds && len(h.Ops) < budget-3; k++ {
		switch r.Intn(4) {
		case 0:
			read()
		case 1:
			h.Ops = append(h.Ops, Op{Op: "walk"})
		}
		op, ok := refusedMulti(r, loaded, pending)
		if !ok {
			break
		}
		h.Ops = append(h.Ops, op)
		for n := 1 + r.Intn(2); n > 0 && len(h.Ops) < budget-1; n-- {
			read()
		}
		if r.Intn(4) == 0 && len(h.Ops) < budget-1 {
			h.Ops = append(h.Ops, Op{Op: "walk"})
		}
		if len(pending) > 0 && r.Intn(2) == 0 && len(h.Ops) < budget-2 {
			// the held-back text arrives on its own, is read before the next Process
			h.Ops = append(h.Ops, Op{Op: "load", Name: pending[0].name, Text: pending[0].text})
			loaded = append(loaded, pending[0])
			pending = nil
			if r.Intn(2) == 0 {
				read()
			}
		}
		if k+1 < rounds && r.Intn(2) == 0 {
			h.Ops = append(h.Ops, Op{Op: "process"})
		}
	}
	if h.Ops[len(h.Ops)-1].Op != "process" {
		h.Ops = append(h.Ops, Op{Op: "process"})
	}
	return h
}
