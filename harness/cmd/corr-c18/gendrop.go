package main

import (
	"math/rand"
	"strings"

	"verif/harness/gen"
)

// genDropHistory builds a history in which a later GOOD load makes something FAIL that resolved in
// an earlier processing run: a library module dl (sometimes with its definitions in a submodule
// dls) is loaded in a first revision with typedefs (t, a chain t2 -> t, a union tu over t), a
// grouping, identities and a small data tree; a user module imports it and uses those definitions
// in leaves, unions (also nested), local typedef chains, leaf-lists, defaults, list keys, rpc input,
// choices, uses (also through a grouping of its own), identities and identityrefs, augments and
// deviations (deviate replace type, not-supported, add) of the library's nodes; everything is
// processed (clean); then a NEWER revision of the library (or of its submodule) arrives that DROPS
// one to three of those definitions or nodes, and the set is processed again - now with errors, at
// the typedef stage, the conversion stage, the augment stage or the deviation stage, depending on
// what was dropped and who used it.  One time in three a third revision restores everything (the
// next run is clean again and must equal a fresh set's); one time in six the late revision is OLDER
// than the first (control: the names keep denoting the first revision, nothing may change).
// After every Process the runner compares the trees of the one value with those of a fresh twin:
// what failed to resolve now must not show what it resolved to in an earlier generation.
func genDropHistory(r *rand.Rand, maxLen int) History {
	one := func(n int) bool { return r.Intn(n) == 0 }
	str := func() *gen.Node { return nd("type", "string") }
	inSub := one(4)
	kinds := []string{"typedef-t", "typedef-t", "typedef-t2", "typedef-tu", "grouping-g", "identity-i", "identity-j", "node-top", "node-x", "node-y", "node-in"}
	if inSub {
		kinds = []string{"typedef-t", "typedef-t", "typedef-t2", "typedef-tu", "grouping-g", "identity-i", "identity-j"}
	}
	dropped := map[string]bool{}
	nDrop := 1
	if one(3) {
		nDrop = 2 + r.Intn(2)
	}
	for len(dropped) < nDrop {
		dropped[kinds[r.Intn(len(kinds))]] = true
	}
	// does the newer revision repair its OWN uses of what it drops (then only the importer fails),
	// or is the library itself left broken (typedef / identity stage of Process)
	repaired := !one(3)

	// the definitions of the library: all of them (first revision), or without the dropped ones
	defs := func(drop map[string]bool) []*gen.Node {
		var out []*gen.Node
		tGone := drop["typedef-t"] && repaired
		tUse := func() *gen.Node {
			if tGone {
				return nd("type", "int8")
			}
			return nd("type", "t")
		}
		if !drop["typedef-t"] {
			out = append(out, nd("typedef", "t", nd("type", "int8", nd("range", "1..10")), nd("units", "tu1")))
		}
		if !drop["typedef-t2"] {
			out = append(out, nd("typedef", "t2", tUse()))
		}
		if !drop["typedef-tu"] {
			out = append(out, nd("typedef", "tu", nd("type", "union", tUse(), nd("type", "boolean"))))
		}
		if !drop["grouping-g"] {
			out = append(out, nd("grouping", "g", nd("leaf", "gl", tUse()), nd("leaf", "gs", str())))
		}
		if !drop["identity-i"] {
			out = append(out, nd("identity", "i"))
		}
		if !drop["identity-j"] {
			if drop["identity-i"] && repaired {
				out = append(out, nd("identity", "j"))
			} else {
				out = append(out, nd("identity", "j", nd("base", "i")))
			}
		}
		return out
	}
	tree := func(drop map[string]bool) []*gen.Node {
		if drop["node-top"] {
			return []*gen.Node{nd("container", "other", nd("leaf", "x", str()))}
		}
		top := nd("container", "top")
		if !drop["node-x"] {
			top.Kids = append(top.Kids, nd("leaf", "x", str()))
		}
		if !drop["node-y"] {
			top.Kids = append(top.Kids, nd("leaf", "y", nd("type", "int8"), nd("default", "1")))
		}
		if !drop["node-in"] {
			top.Kids = append(top.Kids, nd("container", "in", nd("leaf", "z", str())))
		}
		top.Kids = append(top.Kids, nd("leaf", "stays", str()))
		return []*gen.Node{top}
	}
	mkLib := func(rev string, drop map[string]bool) (dl, dls *gen.Module) {
		dl = &gen.Module{Name: "dl", Prefix: "dl", Namespace: "urn:dl", Revisions: []string{rev}, ImportPrefix: map[*gen.Module]string{}, Body: nd("module", "dl")}
		if inSub {
			dls = &gen.Module{Name: "dls", Prefix: "dl", Namespace: "urn:dl", Sub: true, Owner: dl, Revisions: []string{rev},
				ImportPrefix: map[*gen.Module]string{}, Body: nd("submodule", "dls")}
			dls.Body.Kids = defs(drop)
			dl.Includes = append(dl.Includes, dls)
			dl.Revisions = nil // the owner stays as it is: only the submodule gets revisions
			dl.Body.Kids = tree(nil)
			return dl, dls
		}
		dl.Body.Kids = append(defs(drop), tree(drop)...)
		return dl, nil
	}

	// the user module: at least one use of every dropped thing, others at random
	type feat struct {
		needs string
		nodes []*gen.Node
	}
	tt := func() *gen.Node { return nd("type", "dl:t") }
	feats := []feat{
		{"typedef-t", []*gen.Node{nd("leaf", "dtdirect", tt())}},
		{"typedef-t", []*gen.Node{nd("leaf", "dteither", nd("type", "union", tt(), nd("type", "int32")))}},
		{"typedef-t", []*gen.Node{nd("leaf", "dtnested", nd("type", "union", nd("type", "union", tt(), nd("type", "boolean")), str()))}},
		{"typedef-t", []*gen.Node{nd("typedef", "lt", tt()), nd("typedef", "lt2", nd("type", "lt", nd("range", "2..5"))), nd("leaf", "dtchain", nd("type", "lt2"))}},
		{"typedef-t", []*gen.Node{nd("typedef", "ltu", nd("type", "union", tt(), nd("type", "enumeration", nd("enum", "none")))), nd("leaf", "dtviaunion", nd("type", "ltu"))}},
		{"typedef-t", []*gen.Node{nd("leaf-list", "dtll", tt())}},
		{"typedef-t", []*gen.Node{nd("leaf-list", "dtllu", nd("type", "union", nd("type", "boolean"), tt()))}},
		{"typedef-t", []*gen.Node{nd("leaf", "dtdef", tt(), nd("default", "3"))}},
		{"typedef-t", []*gen.Node{nd("list", "dtlist", nd("key", "k"), nd("leaf", "k", tt()), nd("leaf", "v", str()))}},
		{"typedef-t", []*gen.Node{nd("rpc", "dtrpc", nd("input", "", nd("leaf", "arg", tt())))}},
		{"typedef-t", []*gen.Node{nd("choice", "dtch", nd("case", "c1", nd("leaf", "c1l", tt())), nd("leaf", "c2l", str()))}},
		{"typedef-t", []*gen.Node{nd("container", "dtc", nd("typedef", "inner", tt()), nd("leaf", "dtinner", nd("type", "inner")))}},
		{"typedef-t", []*gen.Node{nd("deviation", "/dl:top/dl:x", nd("deviate", "replace", tt()))}},
		{"typedef-t", []*gen.Node{nd("augment", "/dl:top", nd("leaf", "dtaug", tt()))}},
		{"typedef-t2", []*gen.Node{nd("leaf", "dt2", nd("type", "dl:t2"))}},
		{"typedef-t2", []*gen.Node{nd("leaf", "dt2u", nd("type", "union", nd("type", "dl:t2"), str()))}},
		{"typedef-t2", []*gen.Node{nd("typedef", "lt3", nd("type", "dl:t2")), nd("leaf-list", "dt2ll", nd("type", "lt3"))}},
		{"typedef-tu", []*gen.Node{nd("leaf", "dtu", nd("type", "dl:tu"))}},
		{"typedef-tu", []*gen.Node{nd("leaf", "dtuu", nd("type", "union", nd("type", "dl:tu"), str()))}},
		{"grouping-g", []*gen.Node{nd("container", "dgc", nd("uses", "dl:g"))}},
		{"grouping-g", []*gen.Node{nd("grouping", "ug", nd("uses", "dl:g"), nd("leaf", "ugl", str())), nd("container", "dgc2", nd("uses", "ug"))}},
		{"grouping-g", []*gen.Node{nd("list", "dgl", nd("key", "gs"), nd("uses", "dl:g"))}},
		{"identity-i", []*gen.Node{nd("identity", "ui", nd("base", "dl:i"))}},
		{"identity-i", []*gen.Node{nd("leaf", "dir", nd("type", "identityref", nd("base", "dl:i")))}},
		{"identity-i", []*gen.Node{nd("typedef", "tir", nd("type", "identityref", nd("base", "dl:i"))), nd("leaf", "dirt", nd("type", "tir"))}},
		{"identity-i", []*gen.Node{nd("leaf", "diru", nd("type", "union", nd("type", "identityref", nd("base", "dl:i")), str()))}},
		{"identity-j", []*gen.Node{nd("identity", "uj", nd("base", "dl:j")), nd("leaf", "djr", nd("type", "identityref", nd("base", "uj")))}},
		{"identity-j", []*gen.Node{nd("leaf-list", "djll", nd("type", "identityref", nd("base", "dl:j")))}},
		{"node-top", []*gen.Node{nd("augment", "/dl:top", nd("leaf", "ua", str()))}},
		{"node-top", []*gen.Node{nd("deviation", "/dl:top/dl:stays", nd("deviate", "replace", nd("type", "int32")))}},
		{"node-x", []*gen.Node{nd("deviation", "/dl:top/dl:x", nd("deviate", "replace", nd("type", "int32")))}},
		{"node-x", []*gen.Node{nd("deviation", "/dl:top/dl:x", nd("deviate", "not-supported"))}},
		{"node-y", []*gen.Node{nd("deviation", "/dl:top/dl:y", nd("deviate", "replace", nd("default", "4")))}},
		{"node-y", []*gen.Node{nd("deviation", "/dl:top/dl:y", nd("deviate", "add", nd("units", "yu")))}},
		{"node-in", []*gen.Node{nd("augment", "/dl:top/dl:in", nd("leaf", "uin", nd("type", "int8")))}},
		{"node-in", []*gen.Node{nd("augment", "/dl:top/dl:in", nd("container", "uinc", nd("leaf", "deep", str())))}},
	}
	var body []*gen.Node
	usedDev := map[string]bool{} // one deviation per target (several are legal, but keep the texts simple)
	take := func(f feat) bool {
		for _, n := range f.nodes {
			if n.Kw == "deviation" {
				if usedDev[n.Arg] {
					return false
				}
				usedDev[n.Arg] = true
			}
		}
		for _, n := range f.nodes {
			body = append(body, cloneNode(n))
		}
		return true
	}
	taken := map[int]bool{}
	for _, kind := range kindsSorted(dropped) {
		var cands []int
		for i, f := range feats {
			if f.needs == kind {
				cands = append(cands, i)
			}
		}
		r.Shuffle(len(cands), func(i, j int) { cands[i], cands[j] = cands[j], cands[i] })
		for _, i := range cands {
			if taken[i] = true; take(feats[i]) {
				break
			}
		}
	}
	for i, f := range feats {
		if !taken[i] && one(4) {
			take(f)
		}
	}
	r.Shuffle(len(body), func(i, j int) { body[i], body[j] = body[j], body[i] })

	dlA, dlsA := mkLib("2020-01-01", nil)
	var user *gen.Module
	var items []item
	origin := "dropped-definition"
	if one(2) && !inSub {
		// the uses sit in a generated module (groupings, choices, augments, deviations of its own)
		cfg := gen.Default()
		cfg.MaxModules = 1
		cfg.Submodules = false
		cfg.BadRate = 0
		set := gen.Generate(r, cfg)
		user = set.Mods[0]
		user.Body.Kids = append(user.Body.Kids, body...)
		origin += "+generated-user"
	} else {
		user = &gen.Module{Name: "u", Prefix: "u", Namespace: "urn:u", ImportPrefix: map[*gen.Module]string{}, Body: nd("module", "u")}
		user.Body.Kids = body
	}
	user.Imports = append(user.Imports, dlA)
	user.ImportPrefix[dlA] = "dl"
	items = append(items, item{name: "dl.yang", text: dlA.Text(), mod: dlA})
	if inSub {
		items = append(items, item{name: "dls@2020-01-01.yang", text: dlsA.Text(), mod: dlsA})
		origin += "+in-submodule"
	}
	items = append(items, item{name: user.FileName(), text: user.Text(), mod: user})
	if one(3) {
		r.Shuffle(len(items), func(i, j int) { items[i], items[j] = items[j], items[i] })
	}
	late := func(rev string, drop map[string]bool) item {
		dl, dls := mkLib(rev, drop)
		if inSub {
			return item{name: "dls@" + rev + ".yang", text: dls.Text(), mod: dls, variant: true, pre: "process"}
		}
		return item{name: "dl@" + rev + ".yang", text: dl.Text(), mod: dl, variant: true, pre: "process"}
	}
	if !repaired {
		origin += "+library-left-broken"
	}
	detail := "/" + strings.Join(kindsSorted(dropped), "+")
	switch {
	case one(6):
		// control: an OLDER revision without the definitions arrives late
		items = append(items, late("2019-01-01", dropped))
		origin += "+older-revision-control"
	case one(3):
		items = append(items, late("2021-01-01", dropped), late("2022-02-02", nil))
		origin += "+restored-by-a-third-revision"
	default:
		items = append(items, late("2021-01-01", dropped))
	}
	return buildOps(r, items, maxLen, origin+detail)
}

func kindsSorted(m map[string]bool) []string {
	var out []string
	for _, k := range []string{"typedef-t", "typedef-t2", "typedef-tu", "grouping-g", "identity-i", "identity-j", "node-top", "node-x", "node-y", "node-in"} {
		if m[k] {
			out = append(out, k)
		}
	}
	return out
}

// genReadBetweenHistory builds a history around READS OF FRESHLY LOADED, NOT YET PROCESSED MODULES
// between a load and the next Process.  Such a read is not answered by the model (`unprocessed`: the
// contract is Process first) - the point is its SIDE EFFECT on the next Process, whose outcome is
// compared with the batch run on a fresh set: the read converts a module with the links, caches and
// memos of the PREVIOUS run (include links still point to the superseded revision), and nothing it
// leaves behind may survive the reset at the top of Process.
// Module a reaches typedefs (t, a chain t2 -> t), a grouping and identities through a submodule s
// (one time in three through s -> s2), or holds them itself (one time in four); module u imports a
// and uses a:t in leaves, unions, leaf-lists, a:t2, uses a:g, identityref / base a:i.  Everything is
// processed.  Then arrive, in either order, a NEWER revision of the submodule (of s2, of a) whose t
// has another base type, whose grouping has other leaves, whose identities have other derivations,
// and a NEW module c that imports a and uses the same definitions; a read of c (Find from
// ms.Modules["c"], or a walk = ToEntry of everything) comes after both, between them, or before the
// revision (and sometimes a read of the old module u as well); then Process.  Sometimes a further new
// module d arrives with a read of its own and another Process, or Process runs twice.
func genReadBetweenHistory(r *rand.Rand, maxLen int) History {
	one := func(n int) bool { return r.Intn(n) == 0 }
	str := func() *gen.Node { return nd("type", "string") }
	viaSub := !one(4)
	deep := viaSub && one(3)
	tB := []*gen.Node{
		nd("type", "int32"),
		nd("type", "enumeration", nd("enum", "e1"), nd("enum", "e2")),
		nd("type", "string", nd("length", "2..4")),
		nd("type", "union", nd("type", "int8"), nd("type", "boolean")),
		nd("type", "decimal64", nd("fraction-digits", "2")),
	}[r.Intn(5)]
	defs := func(v int) []*gen.Node {
		t := nd("type", "string", nd("length", "1..8"))
		g := nd("grouping", "g", nd("leaf", "gl", nd("type", "t")), nd("leaf", "ga", str()))
		ids := []*gen.Node{nd("identity", "i"), nd("identity", "k", nd("base", "i"))}
		if v > 0 {
			t = cloneNode(tB)
			g = nd("grouping", "g", nd("leaf", "gl", nd("type", "t")), nd("leaf", "gb", nd("type", "int8")))
			ids = append(ids, nd("identity", "k2", nd("base", "i")))
		}
		return append([]*gen.Node{nd("typedef", "t", t), nd("typedef", "t2", nd("type", "t")), g}, ids...)
	}
	mk := func(v int) (a, s, s2 *gen.Module) {
		a = &gen.Module{Name: "a", Prefix: "a", Namespace: "urn:a", ImportPrefix: map[*gen.Module]string{}, Body: nd("module", "a")}
		own := []*gen.Node{nd("container", "ac", nd("leaf", "al", nd("type", "t")), nd("uses", "g"))}
		rev := []string{"2019-01-01", "2021-01-01"}[v]
		if !viaSub {
			a.Revisions = []string{rev}
			a.Body.Kids = append(defs(v), own...)
			return a, nil, nil
		}
		a.Body.Kids = own
		s = &gen.Module{Name: "s", Prefix: "a", Namespace: "urn:a", Sub: true, Owner: a, ImportPrefix: map[*gen.Module]string{}, Body: nd("submodule", "s")}
		a.Includes = append(a.Includes, s)
		if !deep {
			s.Revisions = []string{rev}
			s.Body.Kids = defs(v)
			return a, s, nil
		}
		s2 = &gen.Module{Name: "s2", Prefix: "a", Namespace: "urn:a", Sub: true, Owner: a, Revisions: []string{rev}, ImportPrefix: map[*gen.Module]string{}, Body: nd("submodule", "s2")}
		s.Includes = append(s.Includes, s2)
		s.Body.Kids = []*gen.Node{nd("container", "sc", nd("leaf", "sl", nd("type", "t2")))}
		s2.Body.Kids = defs(v)
		return a, s, s2
	}
	aA, sA, s2A := mk(0)
	aB, sB, s2B := mk(1)
	user := func(name string) *gen.Module {
		m := &gen.Module{Name: name, Prefix: name, Namespace: "urn:" + name, ImportPrefix: map[*gen.Module]string{}, Body: nd("module", name)}
		m.Imports = append(m.Imports, aA)
		m.ImportPrefix[aA] = "a"
		b := []*gen.Node{nd("leaf", name+"l", nd("type", "a:t"))}
		opt := []*gen.Node{
			nd("leaf", name+"u", nd("type", "union", nd("type", "a:t"), nd("type", "boolean"))),
			nd("leaf-list", name+"ll", nd("type", "a:t2")),
			nd("typedef", name+"t", nd("type", "a:t")),
			nd("container", name+"c", nd("uses", "a:g")),
			nd("leaf", name+"ir", nd("type", "identityref", nd("base", "a:i"))),
			nd("identity", name+"i", nd("base", "a:k")),
			nd("augment", "/a:ac", nd("leaf", name+"aug", nd("type", "a:t"))),
		}
		for _, o := range opt {
			if !one(3) {
				b = append(b, o)
				if o.Kw == "typedef" {
					b = append(b, nd("leaf", name+"tl", nd("type", name+"t")))
				}
			}
		}
		m.Body.Kids = b
		return m
	}
	it := func(m *gen.Module, file string) item { return item{name: file, text: m.Text(), mod: m} }
	first := []item{it(aA, aA.FileName())}
	if !viaSub {
		first[0].name = "a@2019-01-01.yang"
	}
	origin := "read-between-load-and-process+definitions-in-the-module"
	var lateDef item
	switch {
	case deep:
		first = append(first, it(sA, "s.yang"), it(s2A, "s2@2019-01-01.yang"))
		lateDef = it(s2B, "s2@2021-01-01.yang")
		origin = "read-between-load-and-process+definitions-behind-two-includes"
	case viaSub:
		first = append(first, it(sA, "s@2019-01-01.yang"))
		lateDef = it(sB, "s@2021-01-01.yang")
		origin = "read-between-load-and-process+definitions-in-a-submodule"
	default:
		lateDef = it(aB, "a@2021-01-01.yang")
	}
	lateDef.variant = true
	u, c := user("u"), user("c")
	first = append(first, it(u, "u.yang"))
	if one(3) {
		r.Shuffle(len(first), func(i, j int) { first[i], first[j] = first[j], first[i] })
	}
	h := History{ReadsEverywhere: one(5)}
	pattern := ""
	load := func(x item) { h.Ops = append(h.Ops, Op{Op: "load", Name: x.name, Text: x.text}) }
	read := func(m *gen.Module) {
		if one(3) {
			h.Ops = append(h.Ops, Op{Op: "walk"})
			return
		}
		h.Ops = append(h.Ops, Op{Op: "read", Key: m.Name, Path: "/" + m.Prefix + ":" + m.Name + "l"})
	}
	for _, x := range first {
		load(x)
	}
	h.Ops = append(h.Ops, Op{Op: "process"})
	if one(4) {
		read(u)
	}
	cIt := it(c, "c.yang")
	switch r.Intn(6) {
	case 0, 1, 2:
		load(lateDef)
		load(cIt)
		read(c)
		if one(3) {
			read(u)
		}
		pattern += "+read-after-both"
	case 3:
		load(cIt)
		load(lateDef)
		read(c)
		pattern += "+read-after-both"
	case 4:
		load(cIt)
		read(c)
		load(lateDef)
		if one(2) {
			read(c)
			pattern += "+read-before-and-after-the-revision"
		} else {
			pattern += "+read-before-the-revision"
		}
	default:
		load(lateDef)
		read(u)
		load(cIt)
		if one(2) {
			h.Ops = append(h.Ops, Op{Op: "walk"})
			pattern += "+read-after-both"
		} else {
			pattern += "+old-module-read-between"
		}
	}
	h.Ops = append(h.Ops, Op{Op: "process"})
	switch r.Intn(4) {
	case 0:
		h.Ops = append(h.Ops, Op{Op: "process"})
	case 1:
		d := user("d")
		load(it(d, "d.yang"))
		read(d)
		h.Ops = append(h.Ops, Op{Op: "process"})
		pattern += "+another-new-module-read"
	}
	h.Origin = origin + "/" + strings.TrimPrefix(pattern, "+")
	return h
}
