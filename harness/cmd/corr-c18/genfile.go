package main

// FILE histories (genFileHistory): the history runs in a directory tree, loads with Modules.Read,
// extends the search path with AddPath, and lets Process / GetModule find the imports and includes
// that nobody loaded through the search path.  A failed load must leave no trace there either: not
// on the search path, not in the duplicate table of AddPath, not in a parser that is kept, not in
// what a run memoised when an import could not be found.  Shards of their own: the other histories
// stay what they were for a seed.
//
// The tree (the same layout in every history, contents vary with the seed; the root itself holds no
// .yang file, so "." never answers a search):
//
//	da/  la.yang | la@2020-01-01.yang  library: typedef speed, grouping g, identity i (+ derived)
//	     sa.yang                        submodule of ma (one time in two ma includes it)
//	     ma.yang md.yang                mains: import la (prefixed typedef, uses, identityref)
//	     mz.yang                        main: imports lz (dz/, never loaded explicitly) and la
//	     mq.yang lq.yang                main whose import lq is a BROKEN file (braces do not balance)
//	db/  lb.yang mb.yang                library + main (one time in two mb imports la of da as well)
//	dc/  mc.yang                        main: imports la - resolves only when da is on the search path
//	dz/  lz.yang                        library that only a longer search path (or a putfile) brings
//	top/ me.yang  top/sub/deep/ld.yang  main + library found only through AddPath("top/...")
//	de/                                 nothing but rejected files
//	<dir>/x<k>.yang                     rejected files, written where the history wants them
//
// Rejected files: braces that do not balance (truncated by one or two `}`; one or two surplus `}`),
// an unterminated string, an unknown statement deep inside, a leaf without type behind a nested
// scope with an unresolvable typedef, a non-module node after the module, a duplicate of a loaded
// module under another file name, a new module followed by a duplicate.

import (
	"fmt"
	"math/rand"
	"strings"

	"verif/harness/gen"
)

type fileWorld struct {
	r      *rand.Rand
	files  []FileSpec
	text   map[string]string // path -> text
	laFile string
	nBad   int
	lz     string // text of the library lz
}

func (w *fileWorld) put(path, text string) {
	w.files = append(w.files, FileSpec{Path: path, Text: text})
	w.text[path] = text
}

func newFileWorld(r *rand.Rand) *fileWorld {
	w := &fileWorld{r: r, text: map[string]string{}}
	str := func() *gen.Node { return nd("type", "string") }
	hi := fmt.Sprint(50 + r.Intn(200))
	la := newMod("la", "l")
	w.laFile = "da/la.yang"
	if r.Intn(3) == 0 {
		la.Revisions = []string{"2020-01-01"}
		w.laFile = "da/la@2020-01-01.yang"
	}
	la.Body.Kids = []*gen.Node{
		nd("typedef", "speed", nd("type", "uint16", nd("range", "1.."+hi))),
		nd("grouping", "g", nd("leaf", "ga", str()), nd("leaf", "gs", nd("type", "speed"))),
		nd("identity", "i"), nd("identity", "k", nd("base", "i")),
		nd("container", "lc", nd("leaf", "ll", nd("type", "speed"))),
	}
	w.put(w.laFile, la.Text())

	lb := newMod("lb", "lb")
	lb.Body.Kids = []*gen.Node{nd("typedef", "tb", nd("type", "string", nd("length", "1.."+fmt.Sprint(2+r.Intn(9))))), nd("identity", "ib")}
	w.put("db/lb.yang", lb.Text())

	lz := newMod("lz", "z")
	lz.Body.Kids = []*gen.Node{nd("typedef", "tz", nd("type", "int32", nd("range", "0.."+hi))), nd("grouping", "gz", nd("leaf", "zl", nd("type", "tz"))), nd("identity", "iz")}
	w.lz = lz.Text()
	w.put("dz/lz.yang", w.lz)

	ld := newMod("ld", "ld")
	ld.Body.Kids = []*gen.Node{nd("typedef", "td", nd("type", "int8"))}
	w.put("top/sub/deep/ld.yang", ld.Text())

	lq := newMod("lq", "q")
	lq.Body.Kids = []*gen.Node{nd("typedef", "tq", nd("type", "string")), nd("container", "qc", nd("leaf", "ql", str()))}
	w.put("da/lq.yang", w.unbalance(lq.Text()))

	ma := newMod("ma", "a")
	imports(ma, la, "l")
	ma.Body.Kids = []*gen.Node{
		nd("leaf", "speed", nd("type", "l:speed")),
		nd("container", "c", nd("uses", "l:g"), nd("leaf", "id", nd("type", "identityref", nd("base", "l:i")))),
		nd("typedef", "local", nd("type", "l:speed")),
		nd("leaf-list", "ls", nd("type", "local")),
	}
	if r.Intn(2) == 0 {
		sa := newSub("sa", ma)
		sa.Body.Kids = []*gen.Node{nd("typedef", "st", nd("type", "string")), nd("container", "sc", nd("leaf", "sl", nd("type", "st")))}
		ma.Includes = append(ma.Includes, sa)
		ma.Body.Kids = append(ma.Body.Kids, nd("leaf", "viasub", nd("type", "st")))
		w.put("da/sa.yang", sa.Text())
	}
	w.put("da/ma.yang", ma.Text())

	md := newMod("md", "d")
	imports(md, la, "l")
	md.Body.Kids = []*gen.Node{nd("identity", "dk", nd("base", "l:k")), nd("leaf", "d", nd("type", "union", nd("type", "l:speed"), str()))}
	w.put("da/md.yang", md.Text())

	mz := newMod("mz", "mz")
	imports(mz, lz, "z")
	imports(mz, la, "l")
	mz.Body.Kids = []*gen.Node{
		nd("leaf", "z", nd("type", "z:tz")),
		nd("typedef", "zlocal", nd("type", "z:tz")),
		nd("container", "zc", nd("uses", "z:gz"), nd("leaf", "zz", nd("type", "zlocal")), nd("leaf", "zs", nd("type", "l:speed"))),
		nd("leaf", "zi", nd("type", "identityref", nd("base", "z:iz"))),
	}
	w.put("da/mz.yang", mz.Text())

	mq := newMod("mq", "mq")
	imports(mq, lq, "q")
	mq.Body.Kids = []*gen.Node{nd("leaf", "q", nd("type", "q:tq"))}
	w.put("da/mq.yang", mq.Text())

	mb := newMod("mb", "b")
	imports(mb, lb, "lb")
	mb.Body.Kids = []*gen.Node{nd("leaf", "b", nd("type", "lb:tb")), nd("identity", "bk", nd("base", "lb:ib"))}
	if r.Intn(2) == 0 {
		imports(mb, la, "l")
		mb.Body.Kids = append(mb.Body.Kids, nd("leaf", "bs", nd("type", "l:speed")))
	}
	w.put("db/mb.yang", mb.Text())

	mc := newMod("mc", "c")
	imports(mc, la, "l")
	mc.Body.Kids = []*gen.Node{nd("leaf", "c", nd("type", "l:speed")), nd("container", "cc", nd("uses", "l:g"))}
	w.put("dc/mc.yang", mc.Text())

	me := newMod("me", "e")
	imports(me, ld, "ld")
	me.Body.Kids = []*gen.Node{nd("leaf", "e", nd("type", "ld:td"))}
	w.put("top/me.yang", me.Text())

	w.files = append(w.files, FileSpec{Path: "de", Dir: true})
	return w
}

// unbalance: the text with braces that do not balance (either sign).
func (w *fileWorld) unbalance(t string) string {
	switch w.r.Intn(4) {
	case 0:
		return t + "}\n"
	case 1:
		return strings.TrimSuffix(strings.TrimSuffix(t, "}\n"), "  }\n")
	default:
		return strings.TrimSuffix(t, "}\n")
	}
}

var braceKinds = []string{"truncated", "truncated2", "surplus", "surplus2"}
var otherKinds = []string{"string", "unknown-sub", "missing-required", "trailing-node", "dup", "then-dup"}

// bad writes a rejected file into dir and returns its path, its text and the kind of fault.
func (w *fileWorld) bad(dir, kind string) (string, string, string) {
	r := w.r
	if kind == "" {
		if r.Intn(2) == 0 {
			kind = braceKinds[r.Intn(len(braceKinds))]
		} else {
			kind = otherKinds[r.Intn(len(otherKinds))]
		}
	}
	w.nBad++
	name := fmt.Sprintf("x%d", w.nBad)
	m := newMod(name, name)
	m.Body.Kids = []*gen.Node{nd("typedef", "xt", nd("type", "string")), nd("container", "c", nd("leaf", "x", nd("type", "xt")), nd("container", "in", nd("leaf", "y", nd("type", "int8"))))}
	t := m.Text()
	switch kind {
	case "truncated":
		t = strings.TrimSuffix(t, "}\n")
	case "truncated2":
		t = strings.TrimSuffix(strings.TrimSuffix(t, "}\n"), "  }\n")
	case "surplus":
		t += "}\n"
	case "surplus2":
		t += "}\n}\n"
	case "string":
		t += "description \"unterminated\n"
	case "unknown-sub":
		m.Body.Kids[1].Kids[1].Kids = append(m.Body.Kids[1].Kids[1].Kids, nd("frobnicate", "1"))
		t = m.Text()
	case "missing-required":
		m.Body.Kids = append([]*gen.Node{poison("")}, m.Body.Kids...)
		m.Body.Kids = append(m.Body.Kids, nd("leaf", "zlast", nd("description", "no type")))
		t = m.Text()
	case "trailing-node":
		t += "container ztrail {\n  typedef zt2 { type znosuch2; }\n  leaf q { type string; }\n}\n"
	case "dup":
		// (refused only when the history has loaded that module)
		t = w.text["da/ma.yang"]
		if r.Intn(2) == 0 {
			t = w.text["db/mb.yang"]
		}
	case "then-dup":
		if r.Intn(2) == 0 {
			t += w.text["da/ma.yang"]
		} else {
			t += w.text["db/mb.yang"]
		}
	}
	path := dir + "/" + name + ".yang"
	w.put(path, t)
	return path, t, kind
}

// genFileHistory builds one file history of at most maxLen operations.
func genFileHistory(r *rand.Rand, maxLen int) History {
	w := newFileWorld(r)
	h := History{Mode: "files"}
	one := func(n int) bool { return r.Intn(n) == 0 }
	rd := func(name string) { h.Ops = append(h.Ops, Op{Op: "readfile", Name: name}) }
	ap := func(dir string) { h.Ops = append(h.Ops, Op{Op: "addpath", Name: dir}) }
	proc := func() {
		if n := len(h.Ops); n == 0 || h.Ops[n-1].Op != "process" || one(3) {
			h.Ops = append(h.Ops, Op{Op: "process"})
		}
	}
	get := func(name string) { h.Ops = append(h.Ops, Op{Op: "getmodule", Name: name}) }
	var kinds []string
	// one failing operation around dir
	fail := func(dir, kind string) {
		k := r.Intn(12)
		switch {
		case kind != "" || k < 8:
			p, t, kd := w.bad(dir, kind)
			kinds = append(kinds, kd)
			if one(6) || (one(3) && (strings.HasPrefix(kd, "truncated") || strings.HasPrefix(kd, "surplus"))) {
				// the same text offered through Parse
				h.Ops = append(h.Ops, Op{Op: "load", Name: p, Text: t})
			} else {
				rd(p)
			}
		case k == 8:
			rd(dir + "/nosuch.yang")
			kinds = append(kinds, "no-such-file")
		case k == 9:
			rd(dir)
			kinds = append(kinds, "directory")
		case k == 10:
			get("nosuchmod")
			kinds = append(kinds, "getmodule-unknown")
		default:
			rd("nosuchmod")
			kinds = append(kinds, "read-unknown-name")
		}
	}
	noise := func() {
		switch r.Intn(6) {
		case 0:
			get("nosuchmod")
		case 1:
			rd("nosuchmod")
		case 2:
			rd("da")
		case 3:
			h.Ops = append(h.Ops, Op{Op: "walk"})
		case 4:
			rd("dc/nosuch.yang")
		default:
			h.Ops = append(h.Ops, Op{Op: "read", Key: "ma", Path: "/a:c/a:ga"})
		}
	}
	mainsOf := map[string][]string{"da": {"da/ma.yang", "da/md.yang"}, "db": {"db/mb.yang"}, "dc": {"dc/mc.yang"}}
	goodIn := func(dir string) {
		ms := mainsOf[dir]
		if len(ms) == 0 {
			ms = mainsOf["da"]
		}
		rd(ms[r.Intn(len(ms))])
	}
	shape := ""
	// lz becomes available in ONE way per history: its directory goes on the path, or the file appears
	// in da (a file that appears must not hide one that an earlier run has read: the fresh set would
	// rightly find another file)
	lzByPut := one(4)
	round := func() {
		switch k := r.Intn(12); {
		case k < 3:
			// a rejected file from a directory that is not on the path, then good files of the SAME
			// directory whose imports / includes come through the search path
			shape += "+rejected-then-same-directory"
			dir := []string{"da", "da", "db"}[r.Intn(3)]
			if one(5) {
				ap([]string{"db", "dc", "da"}[r.Intn(3)])
			}
			fail(dir, "")
			if one(4) {
				fail(dir, "")
			}
			if one(3) {
				noise()
			}
			goodIn(dir)
			if dir == "da" && one(3) {
				rd("da/md.yang")
			}
			proc()
			if one(2) {
				// AddPath afterwards, through behaviour
				ap(dir)
				proc()
			}
			if one(3) {
				rd("dc/mc.yang")
				proc()
			}
		case k < 5:
			// a rejected file in one directory, good files of ANOTHER one
			shape += "+rejected-then-other-directory"
			bd := []string{"da", "de", "dc"}[r.Intn(3)]
			fail(bd, "")
			if one(3) {
				noise()
			}
			switch r.Intn(3) {
			case 0:
				rd("dc/mc.yang") // its import is in da
			case 1:
				rd("db/mb.yang")
			default:
				rd("da/ma.yang")
			}
			proc()
			if one(2) {
				ap("da")
				proc()
			}
			if one(3) {
				goodIn("da")
				proc()
			}
		case k < 7:
			// braces that do not balance, both signs, one or several; then good files whose imports the
			// processing run loads by itself
			shape += "+unbalanced-braces"
			dir := []string{"da", "db", "de"}[r.Intn(3)]
			n := 1 + r.Intn(3)
			for j := 0; j < n; j++ {
				fail(dir, braceKinds[r.Intn(len(braceKinds))])
			}
			goodIn([]string{"da", "db"}[r.Intn(2)])
			proc()
			if one(2) {
				fail(dir, braceKinds[r.Intn(len(braceKinds))])
				goodIn([]string{"da", "db", "dc"}[r.Intn(3)])
				proc()
			}
		case k < 8:
			// the processing run itself meets a broken file: mq's import lq
			shape += "+broken-import"
			rd("da/mq.yang")
			if one(2) {
				get("mq")
			} else {
				proc()
			}
			goodIn([]string{"da", "db"}[r.Intn(2)])
			proc()
		case k < 10:
			// an import that cannot be found, a run, the search path grows (or the file appears), a run
			shape += "+missing-import-then-path"
			main, fix := "da/mz.yang", Op{Op: "addpath", Name: "dz"}
			if lzByPut {
				fix = Op{Op: "putfile", Name: "da/lz@2021-01-01.yang", Text: w.lz}
			}
			switch r.Intn(4) {
			case 1:
				main, fix = "top/me.yang", Op{Op: "addpath", Name: "top/..."}
			case 2:
				main, fix = "dc/mc.yang", Op{Op: "addpath", Name: "db:da"}
			}
			if one(4) {
				fail("de", "")
			}
			rd(main)
			if one(3) {
				get(strings.TrimSuffix(main[strings.IndexByte(main, '/')+1:], ".yang"))
			} else {
				proc()
			}
			if one(4) {
				noise()
			}
			h.Ops = append(h.Ops, fix)
			proc()
			if one(3) {
				goodIn("db")
				proc()
			}
		default:
			shape += "+random"
			n := 3 + r.Intn(4)
			for j := 0; j < n; j++ {
				switch r.Intn(9) {
				case 0, 1:
					fail([]string{"da", "db", "dc", "de"}[r.Intn(4)], "")
				case 2, 3:
					goodIn([]string{"da", "db", "dc"}[r.Intn(3)])
				case 4:
					d := []string{"da", "db", "dc", "dz", "de", "da:db", "top/...", "nosuchdir"}[r.Intn(8)]
					if d == "dz" && lzByPut {
						d = "de"
					}
					ap(d)
				case 5:
					proc()
				case 6:
					// by module name: found only when its directory is on the path
					if one(2) {
						rd([]string{"ma", "mb", "mc", "la", "lz"}[r.Intn(5)])
					} else {
						get([]string{"ma", "mb", "mc", "md"}[r.Intn(4)])
					}
				case 7:
					noise()
				default:
					rd([]string{"da/mz.yang", "top/me.yang", "da/mq.yang"}[r.Intn(3)])
				}
			}
		}
	}
	round()
	if maxLen >= 12 && len(h.Ops) <= maxLen-6 {
		round()
	}
	if len(h.Ops) > maxLen-1 {
		h.Ops = h.Ops[:maxLen-1]
	}
	if n := len(h.Ops); n == 0 || h.Ops[n-1].Op != "process" {
		h.Ops = append(h.Ops, Op{Op: "process"})
	}
	if one(3) {
		h.ReadsEverywhere = true
	}
	h.Files = w.files
	h.Origin = "files/" + strings.TrimPrefix(shape, "+")
	if len(kinds) > 0 {
		h.Origin += "/" + strings.Join(kinds, ",")
	}
	return h
}

// fileStats counts what the file histories exercised.
func fileStats(o Outcome, d map[string]int64) {
	d["histories"]++
	if f := strings.Split(o.H.Origin, "/"); len(f) > 1 {
		for _, sh := range strings.Split(f[1], "+") {
			d["shape "+sh]++
		}
	}
	refusedFound, goodAfterRefused, implicitAfterRefused := false, false, false
	for i, op := range o.H.Ops {
		if i >= len(o.Go.Steps) {
			break
		}
		s := o.Go.Steps[i]
		switch op.Op {
		case "readfile", "load":
			d[op.Op+" "+s.Load]++
			if s.Load != "accepted" && s.Found != nil {
				d["refused Reads that had found their file (its directory must be off the search path again)"]++
				refusedFound = true
			}
			if s.Load == "accepted" && refusedFound {
				goodAfterRefused = true
			}
			if s.Load == "rejected-parse" {
				d["offers refused by the parser"]++
			}
		case "addpath":
			d["addpath ops"]++
			if refusedFound {
				d["addpath ops after a refused Read"]++
			}
		case "putfile":
			d["putfile ops"]++
		case "process", "getmodule":
			if s.Read == "getmodule-noread" {
				d["getmodule of a name that cannot be read"]++
				break
			}
			d["runs"]++
			d["files read by a run through the search path"] += int64(len(s.Implicit))
			if len(s.Implicit) > 0 && goodAfterRefused {
				implicitAfterRefused = true
			}
			if linkFailed(s.Dump) {
				d["runs that report a missing module"]++
			} else if i > 0 {
				for _, p := range o.Go.Steps[:i] {
					if linkFailed(p.Dump) {
						d["runs without a missing module after a run with one"]++
						break
					}
				}
			}
		}
	}
	if implicitAfterRefused {
		d["histories: refused Read, then accepted Read, then a run that loads imports by itself"]++
	}
	if o.Model != nil {
		d["histories compared with the session model"]++
	}
}
