package main

// Histories with Modules.GetModule(name) as an operation of its own (genGetModuleHistory), and
// histories around imports / includes PINNED by revision-date whose exact revision is absent at
// first - FindModule falls back to the bare name, i.e. to another revision - and arrives in a later
// load (genPinnedHistory).  Shards of their own: the other histories stay what they were for a seed.

import (
	"fmt"
	"math/rand"
	"strings"

	"verif/harness/gen"
)

func newMod(name, prefix string, revs ...string) *gen.Module {
	return &gen.Module{Name: name, Prefix: prefix, Namespace: "urn:" + name, Revisions: revs,
		ImportPrefix: map[*gen.Module]string{}, Body: nd("module", name)}
}

func newSub(name string, owner *gen.Module, revs ...string) *gen.Module {
	return &gen.Module{Name: name, Prefix: owner.Prefix, Namespace: owner.Namespace, Sub: true, Owner: owner, Revisions: revs,
		ImportPrefix: map[*gen.Module]string{}, Body: nd("submodule", name)}
}

func imports(m, o *gen.Module, prefix string) {
	m.Imports = append(m.Imports, o)
	m.ImportPrefix[o] = prefix
}

// fileOf: name.yang or name@revision.yang
func fileOf(m *gen.Module) string {
	if len(m.Revisions) > 0 {
		return m.Name + "@" + m.Revisions[len(m.Revisions)-1] + ".yang"
	}
	return m.Name + ".yang"
}

// genGetModuleHistory: GetModule(name) is what a caller of the convenience path uses INSTEAD of
// Process: it processes on demand and hands out one tree.  Two families.
//
// hand-made (2 of 3): a library ml (typedef t, grouping g, identities i / k, sometimes revisioned), a
// base module mb that uses all of it (container top with plain leaves, a leaf of type l:t, uses l:g,
// an identityref, a list, a choice), an unrelated module mo.  After the first loads: GetModule of mb
// (sometimes of mo / ml, sometimes twice, sometimes a plain Process instead).  Then 1-2 LATE loads of
// OTHER modules, each of which changes the tree of an already converted one or does not: mx augments
// /b:top (sometimes a second augment into what the first one added), md deviates mb's leaves (replace
// type, not-supported, add default), a newer revision of ml (other base type of t, other leaves in g,
// one more derived identity), mi derives an identity from l:i (the value list of the base of mb's
// identityref grows), a newer revision of mb itself, mn = a module nobody refers to (control).  After
// each late load GetModule of the OLD module, of an untouched one, of the new one - once or
// repeatedly, with and without an explicit Process or a read before it.
//
// generated (1 of 3): the texts of a generated set (augments and deviations across modules) in order,
// GetModule of a loaded module after most loads and of every module at the end, no explicit Process.
func genGetModuleHistory(r *rand.Rand, maxLen int) History {
	one := func(n int) bool { return r.Intn(n) == 0 }
	h := History{}
	get := func(name string) { h.Ops = append(h.Ops, Op{Op: "getmodule", Name: name}) }
	load := func(m *gen.Module) { h.Ops = append(h.Ops, Op{Op: "load", Name: fileOf(m), Text: m.Text()}) }
	if one(3) {
		cfg := gen.Default()
		cfg.MaxModules = 3
		cfg.BadRate = 0.05
		set := gen.Generate(r, cfg)
		var names []string
		for i, m := range set.Mods {
			h.Ops = append(h.Ops, Op{Op: "load", Name: m.FileName(), Text: m.Text()})
			if !m.Sub {
				names = append(names, m.Name)
			}
			if len(names) > 0 && i+1 < len(set.Mods) && !one(3) {
				get(names[r.Intn(len(names))])
				if one(4) {
					get(names[r.Intn(len(names))])
				}
			}
		}
		for _, n := range names {
			get(n)
		}
		if one(3) {
			h.Ops = append(h.Ops, Op{Op: "process"})
			get(names[r.Intn(len(names))])
		}
		h.Origin = fmt.Sprintf("getmodule/generated-set-%d-texts", len(set.Mods))
		return h
	}
	str := func() *gen.Node { return nd("type", "string") }
	libV := func(v int) *gen.Module {
		var m *gen.Module
		if v == 0 {
			m = newMod("ml", "l", "2019-01-01")
			m.Body.Kids = []*gen.Node{
				nd("typedef", "t", nd("type", "string", nd("length", "1..8"))),
				nd("grouping", "g", nd("leaf", "ga", str()), nd("leaf", "gt", nd("type", "t"))),
				nd("identity", "i"), nd("identity", "k", nd("base", "i")),
				nd("container", "lc", nd("leaf", "ll", nd("type", "t"))),
			}
		} else {
			m = newMod("ml", "l", "2021-01-01")
			m.Body.Kids = []*gen.Node{
				nd("typedef", "t", nd("type", "int32", nd("range", "1..100"))),
				nd("grouping", "g", nd("leaf", "gb", nd("type", "int8")), nd("leaf", "gt", nd("type", "t"))),
				nd("identity", "i"), nd("identity", "k", nd("base", "i")), nd("identity", "k2", nd("base", "k")),
				nd("container", "lc", nd("leaf", "ll", nd("type", "t")), nd("leaf", "ll2", str())),
			}
		}
		return m
	}
	ml := libV(0)
	if one(3) {
		ml.Revisions = nil
	}
	base := func(v int) *gen.Module {
		mb := newMod("mb", "b")
		if v > 0 {
			mb.Revisions = []string{"2022-02-02"}
		}
		imports(mb, ml, "l")
		top := nd("container", "top", nd("leaf", "name", str()))
		opt := []*gen.Node{
			nd("leaf", "tl", nd("type", "l:t")),
			nd("uses", "l:g"),
			nd("leaf", "ir", nd("type", "identityref", nd("base", "l:i"))),
			nd("list", "items", nd("key", "id"), nd("leaf", "id", str()), nd("leaf", "val", nd("type", "l:t"))),
			nd("choice", "ch", nd("leaf", "ca", str()), nd("container", "cb", nd("leaf", "cbl", str()))),
			nd("leaf", "u", nd("type", "union", nd("type", "l:t"), nd("type", "boolean"))),
		}
		for _, o := range opt {
			if !one(3) {
				top.Kids = append(top.Kids, o)
			}
		}
		mb.Body.Kids = []*gen.Node{top}
		if one(2) {
			mb.Body.Kids = append(mb.Body.Kids, nd("identity", "bi", nd("base", "l:k")))
		}
		if v > 0 {
			top.Kids = append(top.Kids, nd("leaf", "newer", str()))
		}
		return mb
	}
	mb := base(0)
	mo := newMod("mo", "o")
	mo.Body.Kids = []*gen.Node{nd("container", "oc", nd("leaf", "ol", str()))}
	if one(2) {
		imports(mo, ml, "l")
		mo.Body.Kids = append(mo.Body.Kids, nd("leaf", "ot", nd("type", "l:t")))
	}
	first := []*gen.Module{ml, mb, mo}
	if one(3) {
		r.Shuffle(len(first), func(i, j int) { first[i], first[j] = first[j], first[i] })
	}
	pattern := ""
	for i, m := range first {
		load(m)
		if i < len(first)-1 && one(4) {
			get(m.Name) // possibly with the library still missing: errors, compared as well
			pattern = "+early"
		}
	}
	old := []string{"mb", "mb", "mb", "mo", "ml"}
	switch r.Intn(8) {
	case 0:
		h.Ops = append(h.Ops, Op{Op: "process"})
		pattern += "+process-first"
	case 1:
		get("mo")
		pattern += "+untouched-first"
	case 2:
		get("mb")
		get(old[r.Intn(len(old))])
		pattern += "+twice-first"
	default:
		get("mb")
	}
	late := func() (*gen.Module, string) {
		switch r.Intn(7) {
		case 0, 1:
			mx := newMod("mx", "x")
			imports(mx, mb, "b")
			mx.Body.Kids = []*gen.Node{nd("augment", "/b:top", nd("leaf", "extra", nd("type", "int32")), nd("container", "xc", nd("leaf", "xl", str())))}
			if one(2) {
				mx.Body.Kids = append(mx.Body.Kids, nd("augment", "/b:top/x:xc", nd("leaf", "deeper", str())))
			}
			return mx, "augment"
		case 2:
			md := newMod("md", "d")
			imports(md, mb, "b")
			dv := []*gen.Node{
				nd("deviate", "replace", nd("type", "int32")),
				nd("deviate", "not-supported"),
				nd("deviate", "add", nd("default", "dflt")),
			}[r.Intn(3)]
			md.Body.Kids = []*gen.Node{nd("deviation", "/b:top/b:name", dv)}
			return md, "deviation"
		case 3:
			return libV(1), "import-revision"
		case 4:
			mi := newMod("mi", "i")
			imports(mi, ml, "l")
			mi.Body.Kids = []*gen.Node{nd("identity", "di", nd("base", "l:i")), nd("identity", "dk", nd("base", "l:k"))}
			return mi, "derived-identity"
		case 5:
			return base(1), "own-revision"
		}
		mn := newMod("mn", "n")
		mn.Body.Kids = []*gen.Node{nd("leaf", "nl", str())}
		return mn, "unrelated"
	}
	nLate := 1 + r.Intn(2)
	seen := map[string]bool{}
	for k := 0; k < nLate; k++ {
		m, what := late()
		if seen[what] {
			continue
		}
		seen[what] = true
		pattern += "+" + what
		load(m)
		if one(5) {
			h.Ops = append(h.Ops, Op{Op: "read", Key: "mb", Path: "/b:top/b:name"})
		}
		if one(6) {
			h.Ops = append(h.Ops, Op{Op: "process"})
		}
		switch r.Intn(6) {
		case 0:
			get("mo")
			get("mb")
		case 1:
			get(m.Name)
			get("mb")
		case 2:
			get("mb")
			get("mb")
		case 3:
			get(old[r.Intn(len(old))])
		default:
			get("mb")
		}
	}
	if one(3) {
		h.Ops = append(h.Ops, Op{Op: "process"})
		get(old[r.Intn(len(old))])
	}
	h.Origin = "getmodule/" + strings.TrimPrefix(pattern, "+")
	return h
}

// pin writes a revision-date into the import / include statement of name in a rendered text.
func pin(text, name, rev string) string {
	for _, line := range strings.Split(text, "\n") {
		t := strings.TrimSpace(line)
		if strings.HasPrefix(t, "import "+name+" {") {
			return strings.Replace(text, line, strings.TrimSuffix(line, "}")+"revision-date "+rev+"; }", 1)
		}
		if t == "include "+name+";" {
			return strings.Replace(text, line, strings.TrimSuffix(line, ";")+" { revision-date "+rev+"; }", 1)
		}
	}
	return text
}

// genPinnedHistory: an import or include names ONE revision (revision-date R).  FindModule falls back
// to the bare name when name@R is not registered, so a run made while only ANOTHER revision is there
// links to that one; when R arrives later the next run must link to R, as a fresh set does.
//
// The library pl exists in three revisions (2019 / 2020 / 2021) that differ in everything a user can
// reach: typedef t (string / decimal64 / int32 with restrictions), typedef chain t2, grouping g (other
// leaves, a nested uses), identities (other derivations), container c (other leaves: augment and
// deviation target).  One time in three the definitions sit in a submodule ps of pl (each revision of pl
// includes its own revision of ps, pinned or not).  Users: pu imports pl pinned to R and - each with
// probability 2/3 - uses l:g (in a container, at top level, through a grouping of its own), has leaves /
// typedefs / unions / leaf-lists of type l:t and l:t2, an identityref to l:i, an identity derived from
// l:k, an augment of /l:c and a deviation of /l:c/l:cl; sometimes the pinned import is made by a
// SUBMODULE px of pu; pv imports pl unpinned or pinned to another revision (both links in one set).
// The include family: module pa includes its submodule pas pinned to R, pas exists in two revisions
// (typedef, grouping, identities, data nodes differ), pa uses what it brings.
//
// Histories: users and a revision OTHER than R (newer or older) first, then a run (Process, GetModule,
// twice, with a read / walk behind it), then revision R arrives, then a run; sometimes the third
// revision after that and another run; one time in six R is there from the start (control).
func genPinnedHistory(r *rand.Rand, maxLen int) History {
	one := func(n int) bool { return r.Intn(n) == 0 }
	str := func() *gen.Node { return nd("type", "string") }
	revs := []string{"2019-01-01", "2020-06-01", "2021-01-01"}
	h := History{}
	type text struct{ name, text string }
	loadT := func(t text) { h.Ops = append(h.Ops, Op{Op: "load", Name: t.name, Text: t.text}) }
	run := func(names ...string) string {
		switch r.Intn(6) {
		case 0:
			h.Ops = append(h.Ops, Op{Op: "getmodule", Name: names[r.Intn(len(names))]})
			return "getmodule"
		case 1:
			h.Ops = append(h.Ops, Op{Op: "process"}, Op{Op: "process"})
			return "process-twice"
		}
		h.Ops = append(h.Ops, Op{Op: "process"})
		return "process"
	}
	defs := func(v int) []*gen.Node {
		t := []*gen.Node{
			nd("type", "string", nd("length", "1..8")),
			nd("type", "decimal64", nd("fraction-digits", "2")),
			nd("type", "int32", nd("range", "1..100")),
		}[v]
		g := []*gen.Node{
			nd("grouping", "g", nd("leaf", "older", str()), nd("leaf", "gt", nd("type", "t"))),
			nd("grouping", "g", nd("leaf", "middle", nd("type", "int8")), nd("uses", "g2")),
			nd("grouping", "g", nd("leaf", "newer", nd("type", "t2")), nd("container", "gc", nd("leaf", "gcl", str()))),
		}[v]
		out := []*gen.Node{nd("typedef", "t", t), nd("typedef", "t2", nd("type", "t")), g,
			nd("grouping", "g2", nd("leaf", "g2l", nd("type", "boolean"))),
			nd("identity", "i"), nd("identity", "k", nd("base", "i"))}
		if v >= 1 {
			out = append(out, nd("identity", "k"+fmt.Sprint(v), nd("base", "i")))
		}
		if v == 2 {
			out = append(out, nd("identity", "kk", nd("base", "k")))
		}
		return out
	}
	data := func(v int) *gen.Node {
		c := nd("container", "c", nd("leaf", "cl", nd("type", "t")))
		switch v {
		case 1:
			c.Kids = append(c.Kids, nd("leaf", "cmid", str()))
		case 2:
			c.Kids = append(c.Kids, nd("uses", "g"))
		}
		return c
	}
	if one(4) {
		// the include family
		R := r.Intn(2) // the pinned revision of the submodule: 0 = older, 1 = newer
		pa := newMod("pa", "a")
		mkSub := func(v int) *gen.Module {
			s := newSub("pas", pa, []string{"2019-01-01", "2021-01-01"}[v])
			s.Body.Kids = append(defs(2*v), nd("container", "sc", nd("leaf", "scl", nd("type", "t")), nd("uses", "g")))
			return s
		}
		subs := []*gen.Module{mkSub(0), mkSub(1)}
		pa.Includes = []*gen.Module{subs[0]}
		body := []*gen.Node{nd("leaf", "al", str())}
		for _, o := range []*gen.Node{
			nd("container", "ac", nd("uses", "g")),
			nd("leaf", "at", nd("type", "t2")),
			nd("leaf", "air", nd("type", "identityref", nd("base", "i"))),
			nd("identity", "ai", nd("base", "k")),
			nd("augment", "/a:sc", nd("leaf", "aaug", nd("type", "t"))),
		} {
			if !one(3) {
				body = append(body, o)
			}
		}
		pa.Body.Kids = body
		paT := text{"pa.yang", pin(pa.Text(), "pas", subs[R].Revisions[0])}
		st := func(v int) text { return text{fileOf(subs[v]), subs[v].Text()} }
		other := 1 - R
		pattern := fmt.Sprintf("include-pinned-to-%s", []string{"older", "newer"}[R])
		if one(6) {
			loadT(paT)
			loadT(st(R))
			run("pa")
			loadT(st(other))
			pattern += "/control-pinned-revision-first"
		} else {
			if one(2) {
				loadT(paT)
				loadT(st(other))
			} else {
				loadT(st(other))
				loadT(paT)
			}
			pattern += "/" + run("pa")
			if one(4) {
				h.Ops = append(h.Ops, Op{Op: "read", Key: "pa", Path: "/a:sc/a:scl"})
			}
			loadT(st(R))
		}
		pattern += "+" + run("pa")
		if one(3) {
			h.Ops = append(h.Ops, Op{Op: "process"})
		}
		h.Origin = "pinned/" + pattern
		return h
	}
	viaSub := one(3)
	lib := func(v int) []text {
		pl := newMod("pl", "l", revs[v])
		if !viaSub {
			pl.Body.Kids = append(defs(v), data(v))
			return []text{{fileOf(pl), pl.Text()}}
		}
		ps := newSub("ps", pl, revs[v])
		ps.Body.Kids = defs(v)
		pl.Includes = []*gen.Module{ps}
		pl.Body.Kids = []*gen.Node{data(v)}
		plT := pl.Text()
		if !one(3) {
			plT = pin(plT, "ps", revs[v])
		}
		out := []text{{fileOf(pl), plT}, {fileOf(ps), ps.Text()}}
		if one(2) {
			out[0], out[1] = out[1], out[0]
		}
		return out
	}
	R := r.Intn(3)
	other := (R + 1 + r.Intn(2)) % 3
	third := 3 - R - other
	plStub := newMod("pl", "l")
	user := func(name, prefix string) (*gen.Module, []*gen.Node) {
		m := newMod(name, prefix)
		imports(m, plStub, "l")
		b := []*gen.Node{nd("leaf", name+"l", str())}
		opt := []*gen.Node{
			nd("container", name+"c", nd("uses", "l:g")),
			nd("uses", "l:g"),
			nd("grouping", name+"g", nd("uses", "l:g"), nd("leaf", name+"gl", nd("type", "l:t"))),
			nd("leaf", name+"t", nd("type", "l:t")),
			nd("leaf-list", name+"ll", nd("type", "l:t2")),
			nd("typedef", name+"td", nd("type", "union", nd("type", "l:t"), nd("type", "boolean"))),
			nd("leaf", name+"ir", nd("type", "identityref", nd("base", "l:i"))),
			nd("identity", name+"i", nd("base", "l:k")),
			nd("augment", "/l:c", nd("leaf", name+"aug", nd("type", "l:t"))),
			nd("deviation", "/l:c/l:cl", nd("deviate", "replace", nd("type", "int8"))),
		}
		for _, o := range opt {
			if !one(3) {
				b = append(b, o)
				switch o.Kw {
				case "grouping":
					b = append(b, nd("container", name+"gc", nd("uses", name+"g")))
				case "typedef":
					b = append(b, nd("leaf", name+"tdl", nd("type", name+"td")))
				}
			}
		}
		return m, b
	}
	var users []text
	var names []string
	pu, body := user("pu", "u")
	how := "module"
	if one(4) {
		// the pinned import is made by a submodule of pu
		px := newSub("px", pu)
		imports(px, plStub, "l")
		px.Body.Kids = body
		pu.Imports, pu.ImportPrefix = nil, map[*gen.Module]string{}
		pu.Includes = []*gen.Module{px}
		pu.Body.Kids = []*gen.Node{nd("leaf", "own", str())}
		users = append(users, text{"pu.yang", pu.Text()}, text{"px.yang", pin(px.Text(), "pl", revs[R])})
		how = "submodule"
	} else {
		pu.Body.Kids = body
		users = append(users, text{"pu.yang", pin(pu.Text(), "pl", revs[R])})
	}
	names = append(names, "pu")
	if one(2) {
		pv, vb := user("pv", "v")
		pv.Body.Kids = vb
		t := pv.Text()
		if one(2) {
			t = pin(t, "pl", revs[other])
		}
		users = append(users, text{"pv.yang", t})
		names = append(names, "pv")
	}
	pattern := fmt.Sprintf("import-by-%s-pinned-to-%s-fallback-%s", how, revs[R][:4], revs[other][:4])
	if viaSub {
		pattern += "-definitions-in-a-submodule"
	}
	var first []text
	control := one(6)
	if control {
		first = append(users, lib(R)...)
		pattern += "/control-pinned-revision-first"
	} else {
		first = append(users, lib(other)...)
	}
	if one(2) {
		r.Shuffle(len(first), func(i, j int) { first[i], first[j] = first[j], first[i] })
	}
	for _, t := range first {
		loadT(t)
	}
	pattern += "/" + run(names...)
	switch r.Intn(6) {
	case 0:
		h.Ops = append(h.Ops, Op{Op: "read", Key: "pu", Path: "/u:pul"})
	case 1:
		h.Ops = append(h.Ops, Op{Op: "walk"})
	}
	second := lib(R)
	if control {
		second = lib(other)
	}
	for _, t := range second {
		loadT(t)
	}
	if one(5) {
		h.Ops = append(h.Ops, Op{Op: "walk"})
	}
	pattern += "+" + run(names...)
	if one(3) {
		for _, t := range lib(third) {
			loadT(t)
		}
		pattern += "+third-revision+" + run(names...)
	}
	h.Origin = "pinned/" + pattern
	return h
}
