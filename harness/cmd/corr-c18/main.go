// corr-c18: re-processing, incremental loading and failed loads do not skew results.
//
// A case is a history of load(good text) | load(bad text) | process | getmodule | read operations executed
// on ONE yang.Modules value, in a crash-isolated worker.  After every process the worker takes
// the canonical dump of the outcome (lib.DumpOutcome, extended Go-side by the trees of the
// submodules and by every identity's value list with source positions) and ALSO the dump of a
// batch run of the texts accepted so far on a FRESH Modules value: a difference between the two
// Go dumps is a violation by itself.  After EVERY process - also one that reported errors, where
// the canonical dump holds the errors only - the trees that ToEntry hands out right then (all node
// fields, resolved types with union members, tree errors, identity value lists, typedef types) are
// compared with those of the fresh twin as well (treesAfter): a run that fails to resolve something
// must not hand out what an earlier generation resolved.  The sequence of answers (accepted / rejected per load, dump
// per process, node per read) is compared with the Lean session model (drv_session: the registry
// is the only state, process is a pure function of it).
package main

import (
	"encoding/json"
	"fmt"
	"os"
	"path/filepath"
	"sort"
	"strings"
	"time"

	"github.com/openconfig/goyang/pkg/yang"
	"verif/harness/lib"
	"verif/harness/rescorr"
)

var corpusDir = lib.Root() + "/corpus/C18"

// keys is the projection of the node records the property speaks about.
var keys = []string{"kind", "dir", "rpc", "cfg", "mand", "def", "units", "key", "la", "type", "ns", "im"}

// StepRes is what the worker reports for one operation.
type StepRes struct {
	Load string `json:"load,omitempty"` // accepted | rejected-parse | rejected-build | rejected-add | rejected-notmodule
	Err  string `json:"err,omitempty"`  // the Go error of a rejected load
	// process: the canonical dump on the one Modules value
	Dump []string `json:"dump,omitempty"`
	// process: first difference between the extended dumps of the one value and of the batch run
	// on a fresh value ("" when they are equal), and the batch dump when they differ
	BatchDiff string   `json:"batch_diff,omitempty"`
	Batch     []string `json:"batch,omitempty"`
	// process (clean or with errors): first difference between the trees ToEntry hands out for every
	// module and submodule of the one value right after the run and those of the fresh twin (treesAfter)
	TreeDiff string `json:"tree_diff,omitempty"`
	// getmodule: first difference between the tree (or the errors) GetModule returned on the one value
	// and what GetModule of a fresh set that loaded the same accepted texts returns ("" when equal)
	GetDiff string `json:"get_diff,omitempty"`
	Read    string `json:"read,omitempty"` // found <hex path> | found ~ | nomodule
	// every op: first difference between the answers of the one value and of the SHADOW value - a
	// second Modules value that runs the same history without the loads the one value refused -
	// to the lookups a caller can make at any time ("" when equal)
	ShadowDiff string `json:"shadow_diff,omitempty"`
	// a REFUSED load or Read (and an accepted one in a file history): how the answer of the one value
	// differs from the answer a FRESH value gives to the very same offer after it took the accepted
	// operations of the history so far - accepted there, or refused with errors of other (position,
	// class) ("" when the two answer alike): a refused text must not change what a later text is told
	FreshLoadDiff string `json:"fresh_load_diff,omitempty"`
	// what else the strict twin found in this step (a fresh set or the shadow refuses what the one value accepted)
	Findings []string `json:"findings,omitempty"`
	// file histories: ms.Path after the operation
	Path []string `json:"path,omitempty"`
	// file histories, process / getmodule: the files the run read by itself through the search path
	// (found path and text), for the session model (which has no search path: they travel as loads)
	Implicit []FileSpec `json:"implicit,omitempty"`
	// file histories, readfile: the path the file was found under and its text
	Found *FileSpec `json:"found,omitempty"`
}

type GoRes struct {
	Steps    []StepRes `json:"steps"`
	Findings []string  `json:"findings,omitempty"`
}

func newModules(h History) *yang.Modules {
	ms := yang.NewModules()
	ms.ParseOptions.IgnoreSubmoduleCircularDependencies = h.IgnoreCircular
	ms.ParseOptions.DeviateOptions.IgnoreDeviateNotSupported = h.IgnoreNotSupported
	return ms
}

// allModules lists the distinct modules, then the distinct submodules, each by full name.
func allModules(ms *yang.Modules) []*yang.Module {
	out := lib.DistinctModules(ms)
	seen := map[*yang.Module]bool{}
	var subs []*yang.Module
	for _, m := range ms.SubModules {
		if !seen[m] {
			seen[m] = true
			subs = append(subs, m)
		}
	}
	sort.Slice(subs, func(i, j int) bool { return subs[i].FullName() < subs[j].FullName() })
	return append(out, subs...)
}

func identityList(ids []*yang.Identity) string {
	parts := make([]string, len(ids))
	for i, v := range ids {
		parts[i] = lib.IdentityKey(v) + "@" + yang.Source(v)
	}
	return "[" + strings.Join(parts, ",") + "]"
}

func typeIdentityValues(y *yang.YangType, depth int) string {
	if y == nil || depth > 6 {
		return ""
	}
	s := ""
	if y.IdentityBase != nil {
		s = lib.IdentityKey(y.IdentityBase) + "@" + yang.Source(y.IdentityBase) + "=" + identityList(y.IdentityBase.Values)
	}
	for _, m := range y.Type {
		s += "(" + typeIdentityValues(m, depth+1) + ")"
	}
	return s
}

// extendedDump is the Go-side view compared between the one value and the fresh batch value:
// the canonical dump, then (only without errors) the trees of the submodules, the identity values
// reachable from the types of the tree nodes, and the value list of every identity statement.
func extendedDump(ms *yang.Modules, errs []error) (base, ext []string) {
	base = lib.DumpOutcome(ms, errs)
	ext = append(ext, base...)
	if len(errs) > 0 {
		// (the trees that ToEntry hands out after a run with errors are compared by treesAfter)
		return base, ext
	}
	var walk func(e *yang.Entry)
	walk = func(e *yang.Entry) {
		if e.Type != nil {
			if v := typeIdentityValues(e.Type, 0); strings.Trim(v, "()") != "" {
				ext = append(ext, "T "+e.Path()+" "+v)
			}
		}
		ks := make([]string, 0, len(e.Dir))
		for k := range e.Dir {
			ks = append(ks, k)
		}
		sort.Strings(ks)
		for _, k := range ks {
			walk(e.Dir[k])
		}
		if e.RPC != nil {
			if e.RPC.Input != nil {
				walk(e.RPC.Input)
			}
			if e.RPC.Output != nil {
				walk(e.RPC.Output)
			}
		}
	}
	for _, m := range allModules(ms) {
		e := yang.ToEntry(m)
		if m.Kind() == "submodule" {
			lib.DumpTree("sub:"+m.FullName(), e, &ext)
		}
		walk(e)
		for _, id := range m.Identities() {
			ext = append(ext, "I "+m.Kind()+" "+m.FullName()+" "+id.Name+" "+identityList(id.Values))
		}
	}
	return base, ext
}

// queries asks the Modules value what a caller can ask it after a Process, beyond the trees:
// FindModuleByNamespace for every namespace in play and an unknown one, FindModule for every name
// and name@revision (modules by import, submodules by include) and an unknown name, Entry.Find
// from every module root to sampled nodes of its tree and across an import, and - when
// withGetModule - GetModule of the first module (which runs Process once more).  The answers are
// rendered with the source position of what was found, so that two revisions are told apart.
func queries(ms *yang.Modules, errs []error, withGetModule bool) []string {
	var out []string
	where := func(m *yang.Module) string {
		if m == nil {
			return "nil"
		}
		return m.Kind() + " " + m.FullName() + "@" + yang.Source(m)
	}
	nss := map[string]bool{"urn:c18:nobody": true}
	for _, m := range ms.Modules {
		if m.Namespace != nil {
			nss[m.Namespace.Name] = true
		}
	}
	for _, ns := range lib.SortedKeys(nss) {
		if m, err := ms.FindModuleByNamespace(ns); err != nil {
			out = append(out, "Q namespace "+ns+" -> error: "+err.Error())
		} else {
			out = append(out, "Q namespace "+ns+" -> "+where(m))
		}
	}
	split := func(k string) (string, *yang.Value) {
		if i := strings.IndexByte(k, '@'); i >= 0 {
			return k[:i], &yang.Value{Name: k[i+1:]}
		}
		return k, nil
	}
	keys := lib.SortedKeys(ms.Modules)
	for _, k := range append(keys, "c18nobody") {
		n, rev := split(k)
		out = append(out, "Q import "+k+" -> "+where(ms.FindModule(&yang.Import{Name: n, RevisionDate: rev})))
	}
	for _, k := range append(lib.SortedKeys(ms.SubModules), "c18nobody") {
		n, rev := split(k)
		out = append(out, "Q include "+k+" -> "+where(ms.FindModule(&yang.Include{Name: n, RevisionDate: rev})))
	}
	if len(errs) == 0 {
		for _, m := range lib.DistinctModules(ms) {
			root := yang.ToEntry(m)
			n := 0
			var walk func(e *yang.Entry, path string)
			walk = func(e *yang.Entry, path string) {
				if n >= 12 {
					return
				}
				if path != "" {
					n++
					got := "nil"
					if f := root.Find(path); f != nil {
						got = f.Path()
					}
					out = append(out, "Q find "+m.FullName()+" "+path+" -> "+got)
				}
				for _, k := range lib.SortedKeys(e.Dir) {
					walk(e.Dir[k], path+"/"+k)
				}
			}
			walk(root, "")
			// across an import: the first child of each imported module, by the import's prefix
			for _, imp := range m.Import {
				if imp.Prefix == nil {
					continue
				}
				if im := ms.FindModule(imp); im != nil {
					if ks := lib.SortedKeys(yang.ToEntry(im).Dir); len(ks) > 0 {
						p := "/" + imp.Prefix.Name + ":" + ks[0]
						got := "nil"
						if f := root.Find(p); f != nil {
							got = f.Path()
							if f.Node != nil {
								got += " in " + where(yang.RootNode(f.Node))
							}
						}
						out = append(out, "Q find "+m.FullName()+" "+p+" -> "+got)
					}
				}
			}
		}
	}
	if withGetModule && len(keys) > 0 {
		n, _ := split(keys[0])
		e, gerrs := ms.GetModule(n)
		got := "nil"
		if e != nil {
			got = e.Path() + " with " + fmt.Sprint(len(e.Dir)) + " children"
		}
		out = append(out, "Q getmodule "+n+" -> "+got+" "+strings.Join(lib.CanonErrs(gerrs), ","))
	}
	return out
}

// treesOf: what ToEntry answers with for every module and submodule right now (all node fields),
// and the errors recorded on the trees.
func treesOf(ms *yang.Modules) []string {
	var out []string
	for _, m := range allModules(ms) {
		e := yang.ToEntry(m)
		lib.DumpTree(m.Kind()+":"+m.FullName(), e, &out)
		for _, x := range lib.CanonErrs(e.GetErrors()) {
			out = append(out, "T-"+x+" in "+m.FullName())
		}
	}
	return out
}

// findsOf: Entry.Find from every module root to up to 12 nodes of the tree ToEntry answers with right
// now, and across every import (first child of the imported module, by the import's prefix), with
// the source position of the module the found node was written in.
func findsOf(ms *yang.Modules) []string {
	var out []string
	where := func(m *yang.Module) string {
		if m == nil {
			return "nil"
		}
		return m.Kind() + " " + m.FullName() + "@" + yang.Source(m)
	}
	for _, m := range lib.DistinctModules(ms) {
		root := yang.ToEntry(m)
		n := 0
		var walk func(e *yang.Entry, path string)
		walk = func(e *yang.Entry, path string) {
			if n >= 12 {
				return
			}
			if path != "" {
				n++
				got := "nil"
				if f := root.Find(path); f != nil {
					got = f.Path()
				}
				out = append(out, "F find "+m.FullName()+" "+path+" -> "+got)
			}
			for _, k := range lib.SortedKeys(e.Dir) {
				walk(e.Dir[k], path+"/"+k)
			}
		}
		walk(root, "")
		for _, imp := range m.Import {
			if imp.Prefix == nil {
				continue
			}
			im := ms.Modules[imp.Name]
			if im == nil {
				continue
			}
			if ks := lib.SortedKeys(yang.ToEntry(im).Dir); len(ks) > 0 {
				p := "/" + imp.Prefix.Name + ":" + ks[0]
				got := "nil"
				if f := root.Find(p); f != nil {
					got = f.Path()
					if f.Node != nil {
						got += " in " + where(yang.RootNode(f.Node))
					}
				}
				out = append(out, "F find "+m.FullName()+" "+p+" -> "+got)
			}
		}
	}
	return out
}

// readsOf is the battery of READS a caller can make between two processing runs, on the trees as
// they are right now: ToEntry of every module and submodule (also the ones a refused text never
// mentioned) node by node with all fields (resolved types included) and the errors recorded on the
// trees (treesOf), the identity values reachable from the types of the tree nodes, the value list of
// every identity statement of every module and submodule, and Entry.Find inside every tree and
// across every import (findsOf).
func readsOf(ms *yang.Modules) []string {
	out := treesOf(ms)
	var walk func(e *yang.Entry)
	seen := map[*yang.Entry]bool{}
	walk = func(e *yang.Entry) {
		if e == nil || seen[e] {
			return
		}
		seen[e] = true
		if e.Type != nil {
			if v := typeIdentityValues(e.Type, 0); strings.Trim(v, "()") != "" {
				out = append(out, "T "+e.Path()+" "+v)
			}
		}
		for _, k := range lib.SortedKeys(e.Dir) {
			walk(e.Dir[k])
		}
		if e.RPC != nil {
			walk(e.RPC.Input)
			walk(e.RPC.Output)
		}
	}
	for _, m := range allModules(ms) {
		walk(yang.ToEntry(m))
		for _, id := range m.Identities() {
			out = append(out, "I "+m.Kind()+" "+m.FullName()+" "+id.Name+" "+identityList(id.Values))
		}
	}
	return append(out, findsOf(ms)...)
}

// treesAfter is what a caller holds right after a Process, whether or not it reported errors (the
// command-line tool prints the trees next to the errors): the tree ToEntry hands out for every
// module and submodule, node by node with all fields (the resolved type with its union members,
// defaults, units, identity base), the errors recorded on the trees, the identity values reachable
// from the types of the nodes, the value list of every identity statement, and the resolved type of
// every top-level typedef statement.  No model is needed to judge it: a fresh set that loaded the
// same accepted texts and ran Process once must hand out the same - a run that FAILS to resolve
// something must not hand out what an earlier generation resolved.
func treesAfter(ms *yang.Modules) []string {
	out := treesOf(ms)
	seen := map[*yang.Entry]bool{}
	var walk func(e *yang.Entry)
	walk = func(e *yang.Entry) {
		if e == nil || seen[e] {
			return
		}
		seen[e] = true
		if e.Type != nil {
			if v := typeIdentityValues(e.Type, 0); strings.Trim(v, "()") != "" {
				out = append(out, "T "+e.Path()+" "+v)
			}
		}
		for _, k := range lib.SortedKeys(e.Dir) {
			walk(e.Dir[k])
		}
		if e.RPC != nil {
			walk(e.RPC.Input)
			walk(e.RPC.Output)
		}
	}
	for _, m := range allModules(ms) {
		walk(yang.ToEntry(m))
		for _, id := range m.Identities() {
			out = append(out, "I "+m.Kind()+" "+m.FullName()+" "+id.Name+" "+identityList(id.Values))
		}
		for _, td := range m.Typedef {
			out = append(out, "D "+lib.HexS(m.Kind()+":"+m.FullName())+" "+lib.HexS("typedef "+td.Name)+" type="+lib.HexS(lib.DumpYangType(td.YangType)))
		}
	}
	return out
}

// readableType decodes a type= field (and the hex strings inside the type dump) for a message.
func readableType(h string) string {
	if h == "-" {
		return "<none>"
	}
	b, err := lib.UnHex(h)
	if err != nil {
		return h
	}
	s := string(b)
	// the strings inside a type dump are hex encoded once more
	var sb strings.Builder
	for i := 0; i < len(s); {
		j := i
		for j < len(s) && (s[j] >= '0' && s[j] <= '9' || s[j] >= 'a' && s[j] <= 'f') {
			j++
		}
		if j-i >= 2 && (j-i)%2 == 0 && i > 0 && (s[i-1] == '=' || s[i-1] == '[' || s[i-1] == ',' || s[i-1] == ':') {
			if d, err := lib.UnHex(s[i:j]); err == nil {
				sb.WriteString(string(d))
				i = j
				continue
			}
		}
		if j == i {
			j = i + 1
		}
		sb.WriteString(s[i:j])
		i = j
	}
	return sb.String()
}

// treeDiff names the first record in which the trees of the one value (a) and of the fresh twin (b)
// differ, field by field when it is the same node on both sides.
func treeDiff(a, b []string) string {
	for i := 0; i < len(a) || i < len(b); i++ {
		var x, y string
		if i < len(a) {
			x = a[i]
		}
		if i < len(b) {
			y = b[i]
		}
		if x == y {
			continue
		}
		fx, fy := strings.Fields(x), strings.Fields(y)
		if len(fx) == len(fy) && len(fx) > 3 && fx[0] == fy[0] && fx[1] == fy[1] && fx[2] == fy[2] && (fx[0] == "N" || fx[0] == "D") {
			mod, _ := lib.UnHex(fx[1])
			path, _ := lib.UnHex(fx[2])
			var parts []string
			for k := 3; k < len(fx); k++ {
				if fx[k] == fy[k] {
					continue
				}
				kx, ky := fx[k], fy[k]
				if strings.HasPrefix(kx, "type=") && strings.HasPrefix(ky, "type=") {
					tx, ty := readableType(kx[5:]), readableType(ky[5:])
					if nx, ny := strings.Count(tx, "{k="), strings.Count(ty, "{k="); nx != ny && nx > 1 && ny > 1 {
						// unions: say how many member types there are (nested ones included) first
						tx, ty = fmt.Sprintf("[%d member types] %s", nx-1, tx), fmt.Sprintf("[%d member types] %s", ny-1, ty)
					}
					// long dumps: keep the head and the place where the two part ways
					c := 0
					for c < len(tx) && c < len(ty) && tx[c] == ty[c] {
						c++
					}
					cut := func(t string) string {
						if len(t) <= 170 {
							return t
						}
						if c < 120 {
							return t[:170] + "..."
						}
						end := c + 90
						if end > len(t) {
							end = len(t)
						}
						return t[:50] + "..." + t[c-30:end] + "..."
					}
					tx, ty = cut(tx), cut(ty)
					kx, ky = "type="+tx, "type="+ty
				}
				parts = append(parts, "history: "+kx+" | fresh set: "+ky)
			}
			return fmt.Sprintf("%s %s: %s", mod, path, strings.Join(parts, "; "))
		}
		return fmt.Sprintf("record %d: history: %s | fresh set: %s", i, rescorr.Readable(x), rescorr.Readable(y))
	}
	return ""
}

// returnedDiff compares what GetModule returned on the one value (a) and on the fresh twin (b): the
// nodes that only one of the two trees has are named first (decoded), then the first differing record.
func returnedDiff(a, b []string) string {
	paths := func(recs []string) map[string]bool {
		out := map[string]bool{}
		for _, r := range recs {
			if f := strings.Fields(r); len(f) > 2 && f[0] == "N" {
				if p, err := lib.UnHex(f[2]); err == nil {
					out[string(p)] = true
				}
			}
		}
		return out
	}
	pa, pb := paths(a), paths(b)
	var onlyA, onlyB []string
	for _, k := range lib.SortedKeys(pa) {
		if !pb[k] {
			onlyA = append(onlyA, k)
		}
	}
	for _, k := range lib.SortedKeys(pb) {
		if !pa[k] {
			onlyB = append(onlyB, k)
		}
	}
	if len(onlyA)+len(onlyB) > 0 {
		cut := func(x []string) string {
			if len(x) > 6 {
				return strings.Join(x[:6], " ") + " ..."
			}
			if len(x) == 0 {
				return "(none)"
			}
			return strings.Join(x, " ")
		}
		return "nodes only in the tree returned on the one value: " + cut(onlyA) + "; nodes only in the tree a fresh set returns: " + cut(onlyB)
	}
	return treeDiff(a, b)
}

func nameMaps(ms *yang.Modules) map[string]*yang.Module {
	out := map[string]*yang.Module{}
	for k, v := range ms.Modules {
		out["m "+k] = v
	}
	for k, v := range ms.SubModules {
		out["s "+k] = v
	}
	return out
}

func sameMaps(a, b map[string]*yang.Module) bool {
	if len(a) != len(b) {
		return false
	}
	for k, v := range a {
		if b[k] != v {
			return false
		}
	}
	return true
}

// classifyReject says which stage of Modules.Parse refused the text.
func classifyReject(name, text string, err error) string {
	if _, perr := yang.Parse(text, name); perr != nil {
		return "rejected-parse"
	}
	_, _, _, cls := lib.ErrClass(err.Error())
	switch cls {
	case "duplicate-module", "bad-module-name":
		return "rejected-add"
	case "not-a-module":
		return "rejected-notmodule"
	}
	return "rejected-build"
}

func firstLine(s string) string {
	if i := strings.IndexByte(s, '\n'); i > 0 {
		return s[:i]
	}
	return s
}

func serveChild() {
	// FindModule falls back to reading name.yang from the current directory: keep it empty
	// (lib.RunIsolated starts the child in an empty directory of its own and removes it afterwards)
	if os.Getenv("VERIF_CHILD_DIR") == "" {
		if dir, err := os.MkdirTemp("", "corr-c18-"); err == nil {
			os.Chdir(dir)
			defer os.RemoveAll(dir)
		}
	}
	lib.ChildLoop(func(in []byte) []byte {
		var h History
		if err := json.Unmarshal(in, &h); err != nil {
			return []byte(`{"findings":["bad case"]}`)
		}
		b, _ := json.Marshal(runGo(h))
		return b
	})
}

// request is the drv_session line of a history.  Mode "text" (default): every load travels as the
// raw text, the model decides itself whether it is accepted.  Mode "stmts": a load travels as the
// statement trees the real generic parser made, with what Go said about parser and builder as
// the buildOk flag ("" when a text that Go built cannot be serialised).
func request(h History, g GoRes) string {
	b := func(x bool) string {
		if x {
			return "1"
		}
		return "0"
	}
	var sb strings.Builder
	sb.WriteString("session " + b(h.IgnoreCircular) + " " + b(h.IgnoreNotSupported))
	for i, op := range h.Ops {
		if h.fileMode() {
			// the session machine has no search path: the files a run read by itself travel as loads
			// in front of the run (answers skipped by compare), a Read as the load of the file found
			for _, f := range g.Steps[i].Implicit {
				sb.WriteString(" T " + lib.HexS(f.Path) + " " + lib.HexS(f.Text))
			}
		}
		switch op.Op {
		case "readfile":
			if f := g.Steps[i].Found; f != nil {
				sb.WriteString(" T " + lib.HexS(f.Path) + " " + lib.HexS(f.Text))
			}
		case "load":
			if h.Mode != "stmts" {
				sb.WriteString(" T " + lib.HexS(op.Name) + " " + lib.HexS(op.Text))
				continue
			}
			st := g.Steps[i].Load
			if st == "rejected-parse" || st == "rejected-build" {
				sb.WriteString(" L 0 F " + lib.HexS(op.Name) + " E")
				continue
			}
			w, err := lib.WireFile(op.Name, op.Text)
			if err != nil {
				return ""
			}
			sb.WriteString(" L 1 " + strings.TrimSpace(w))
		case "process":
			sb.WriteString(" P")
		case "getmodule":
			// for the session machine GetModule of a registered name is a processing run
			if !skippedGet(g.Steps[i]) {
				sb.WriteString(" P")
			}
		case "read":
			sb.WriteString(" R " + lib.HexS(op.Key) + " " + lib.HexS(op.Path))
		}
	}
	return sb.String()
}

// skippedGet: a getmodule operation that was no processing run (text histories: the name is not
// registered, not executed; file histories: GetModule could not read the module).
func skippedGet(s StepRes) bool { return s.Read == "nomodule" || s.Read == "getmodule-noread" }

// modelSees: the operation has an answer of the session machine (request).
func modelSees(op Op, s StepRes) bool {
	switch op.Op {
	case "walk", "putfile", "addpath":
		return false
	case "getmodule":
		return !skippedGet(s)
	case "readfile":
		return s.Found != nil
	}
	return true
}

// Outcome of one history.
type Outcome struct {
	H        History
	Go       GoRes
	Crashed  bool
	CrashMsg string
	Model    []string // one answer per op that the model sees (walks are skipped)
	Outside  string
}

func runAll(hs []History, f *lib.Flags) []Outcome {
	inputs := make([][]byte, len(hs))
	for i, h := range hs {
		inputs[i], _ = json.Marshal(h)
	}
	cr := lib.RunIsolated(inputs, f.Procs, 30*time.Second)
	outs := make([]Outcome, len(hs))
	var reqs []string
	var idx []int
	for i, h := range hs {
		outs[i].H = h
		if cr[i].Crashed {
			outs[i].Crashed, outs[i].CrashMsg = true, cr[i].Msg
			continue
		}
		if err := json.Unmarshal(cr[i].Out, &outs[i].Go); err != nil || len(outs[i].Go.Steps) != len(h.Ops) {
			outs[i].Crashed, outs[i].CrashMsg = true, "unreadable worker output"
			continue
		}
		r := request(h, outs[i].Go)
		if r == "" {
			outs[i].Outside = "outsideModel unserialisable"
			continue
		}
		reqs = append(reqs, r)
		idx = append(idx, i)
	}
	ans, err := lib.ParBatch(f.Driver, reqs, f.Procs)
	if err != nil {
		lib.Fatal("driver: %v", err)
	}
	for k, i := range idx {
		a := ans[k]
		if strings.HasPrefix(a, "outsideModel") || a == "bad-op" {
			outs[i].Outside = a
			continue
		}
		outs[i].Model = strings.Split(a, " || ")
	}
	return outs
}

// diffs compares one outcome; it returns the Go-only violations and the model disagreements.
type diff struct {
	kind, what string
	goV, model any
}

func compare(o Outcome) (violations, disagreements []diff) {
	for _, x := range o.Go.Findings {
		violations = append(violations, diff{kind: "spec", what: x, goV: o.Go.Findings})
	}
	for i, s := range o.Go.Steps {
		opName := "process"
		if o.H.Ops[i].Op == "getmodule" {
			opName = "getmodule " + o.H.Ops[i].Name
		}
		for _, x := range s.Findings {
			violations = append(violations, diff{kind: "spec", what: x, goV: s.Findings})
		}
		if s.GetDiff != "" {
			violations = append(violations, diff{kind: "spec", goV: s.GetDiff,
				what: fmt.Sprintf("op %d (%s): loading more modules after a processing run and processing again gives the same result as loading everything into a fresh set first - Modules.GetModule (documented: Read if needed + Process + ToEntry) returns another tree / other errors on the one value than on a fresh set that loaded the same accepted texts: %s", i, opName, s.GetDiff)})
		}
		if s.BatchDiff != "" {
			d := s.BatchDiff
			if s.TreeDiff != "" {
				// the same difference, field by field and decoded, first
				d = s.TreeDiff + " || " + d
			}
			violations = append(violations, diff{kind: "spec", goV: map[string]any{"history": s.Dump, "batch_on_fresh_set": s.Batch},
				what: fmt.Sprintf("op %d (%s): processing again / after more loads gives the same result as loading everything into a fresh set first - the one Modules value and a batch run of the accepted texts on a fresh set differ: %s", i, opName, d)})
		} else if s.TreeDiff != "" {
			how := "a clean run"
			if rescorr.HasErrors(s.Dump) {
				how = "a run that reported errors (the same errors on both sides)"
			}
			violations = append(violations, diff{kind: "spec", goV: s.TreeDiff,
				what: fmt.Sprintf("op %d (%s): after %s the trees ToEntry hands out differ from those of a fresh set that loaded the same accepted texts and ran Process once - the one value remembers an earlier generation: %s", i, opName, how, s.TreeDiff)})
		}
		if s.FreshLoadDiff != "" {
			violations = append(violations, diff{kind: "spec", goV: s.FreshLoadDiff,
				what: fmt.Sprintf("op %d (%s %s): a load that fails leaves no trace - after the refused loads of this history the offer is answered differently than by a fresh set that took only the accepted operations: %s", i, o.H.Ops[i].Op, o.H.Ops[i].Name, s.FreshLoadDiff)})
		}
		if s.ShadowDiff != "" {
			violations = append(violations, diff{kind: "spec", goV: s.ShadowDiff,
				what: fmt.Sprintf("after op %d (%s %s): a load that fails leaves no trace - a lookup (modules by name / namespace; in a file history ms.Path; after a refused load or a walk the trees) is answered differently than by a Modules value that ran the same history without the refused loads: %s", i, o.H.Ops[i].Op, o.H.Ops[i].Name, s.ShadowDiff)})
		}
		if op := o.H.Ops[i]; op.Op == "load" && op.Fault != "" && s.Load == "accepted" {
			disagreements = append(disagreements, diff{kind: "obligation", goV: s.Load,
				what: fmt.Sprintf("op %d: the text %s with the planted fault %q was accepted by goyang", i, op.Name, op.Fault)})
		}
	}
	if o.Outside != "" || o.Model == nil {
		return
	}
	k := 0
	for i, op := range o.H.Ops {
		s := o.Go.Steps[i]
		for _, f := range s.Implicit {
			// the answers to the loads that stand for the files the run read by itself
			if k < len(o.Model) && o.Model[k] != "accepted" {
				disagreements = append(disagreements, diff{kind: "correspondence", goV: "read and registered by " + op.Op, model: o.Model[k],
					what: fmt.Sprintf("op %d (%s): goyang read %s through the search path and registered it, the model refuses the text: %s", i, op.Op, f.Path, o.Model[k])})
			}
			k++
		}
		if !modelSees(op, s) {
			continue
		}
		if k >= len(o.Model) {
			disagreements = append(disagreements, diff{kind: "correspondence", what: fmt.Sprintf("the model answered %d operations only", len(o.Model))})
			return
		}
		m := o.Model[k]
		k++
		switch op.Op {
		case "load", "readfile":
			g := s.Load
			if o.H.Mode == "stmts" {
				// parser and builder are one flag there
				if g == "rejected-parse" {
					g = "rejected-build"
				}
			} else {
				if g == "rejected-parse" {
					g = "rejected-syntax"
				}
				// Go adds the statements one after the other and reports the first refusal, the
				// text model looks for non-module nodes first: with both faults the class differs
				if g == "rejected-notmodule" {
					g = "rejected-add"
				}
				if m == "rejected-notmodule" {
					m = "rejected-add"
				}
			}
			if g != m {
				disagreements = append(disagreements, diff{kind: "correspondence", goV: s.Load + " " + s.Err, model: m,
					what: fmt.Sprintf("op %d (%s %s): go: %s, model: %s", i, op.Op, op.Name, s.Load, m)})
			}
		case "process", "getmodule":
			var md []string
			if m != "" {
				md = strings.Split(m, " ; ")
			}
			gp := lib.Project(s.Dump, keys, true)
			mp := lib.Project(md, keys, true)
			if linkFailed(gp) {
				// an include or import did not resolve: the identity layer of the model declines
				// (Identity.Outcome.linkFailed), Go still reports identity errors
				gp, mp = dropIdentityErrors(gp), dropIdentityErrors(mp)
			}
			if d := rescorr.Diff(gp, mp); d != "" {
				disagreements = append(disagreements, diff{kind: "correspondence", goV: gp, model: mp,
					what: fmt.Sprintf("op %d (%s): %s", i, op.Op, d)})
			}
		case "read":
			if m == "unprocessed" {
				continue // not answered from a finished Process: the model says nothing
			}
			if s.Read != m {
				disagreements = append(disagreements, diff{kind: "correspondence", goV: s.Read, model: m,
					what: fmt.Sprintf("op %d (read %s %s): go: %s, model: %s", i, op.Key, op.Path, readable(s.Read), readable(m))})
			}
		}
	}
	return
}

func errClassOf(rec string) string {
	if !strings.HasPrefix(rec, "E ") {
		return ""
	}
	return rec[strings.LastIndexByte(rec, ':')+1:]
}

// linkFailed: Process reported a missing module or submodule.
func linkFailed(d []string) bool {
	for _, r := range d {
		if c := errClassOf(r); c == "no-such-module" || c == "no-such-submodule" {
			return true
		}
	}
	return false
}

// dropIdentityErrors removes the error records that come from identity lookups.
func dropIdentityErrors(d []string) []string {
	var out []string
	for _, r := range d {
		// ("cycle": with a link failure Process stops before ToEntry, so this can only be the
		// circular-base error of an identity; a typedef cycle has the class type-cycle)
		if c := errClassOf(r); strings.HasPrefix(c, "identity") || c == "unknown-prefix" || c == "cycle" {
			continue
		}
		out = append(out, r)
	}
	return out
}

func readable(s string) string {
	f := strings.Fields(s)
	if len(f) == 2 && f[0] == "found" && f[1] != "~" {
		if b, err := lib.UnHex(f[1]); err == nil {
			return "found " + string(b)
		}
	}
	return s
}

func loadCorpus() []History {
	files, _ := filepath.Glob(filepath.Join(corpusDir, "*.json"))
	sort.Strings(files)
	var out []History
	for _, fn := range files {
		raw, err := os.ReadFile(fn)
		if err != nil {
			lib.Fatal("corpus: %v", err)
		}
		var h History
		if err := json.Unmarshal(raw, &h); err != nil || len(h.Ops) == 0 {
			lib.Fatal("corpus %s: not a history (%v)", fn, err)
		}
		h.Origin = "corpus/" + filepath.Base(fn)
		out = append(out, h)
	}
	return out
}

func replay(f *lib.Flags) {
	raw, err := os.ReadFile(f.Replay)
	if err != nil {
		lib.Fatal("%v", err)
	}
	var p struct {
		Disagreement struct {
			Replay History `json:"replay"`
		} `json:"disagreement"`
	}
	var h History
	if err := json.Unmarshal(raw, &p); err == nil && len(p.Disagreement.Replay.Ops) > 0 {
		h = p.Disagreement.Replay
	} else if err := json.Unmarshal(raw, &h); err != nil || len(h.Ops) == 0 {
		lib.Fatal("%s: neither a replay file nor a history", f.Replay) // a bare history (a corpus file) is accepted as well
	}
	if h.CLI != nil {
		replayCLI(h)
		return
	}
	o := runAll([]History{h}, f)[0]
	for _, f := range h.Files {
		if f.Dir {
			fmt.Printf("--- directory %s/\n", f.Path)
		} else {
			fmt.Printf("--- file %s\n%s", f.Path, f.Text)
		}
	}
	for i, op := range h.Ops {
		switch op.Op {
		case "load":
			fmt.Printf("--- op %d: load %s (fault: %q)\n%s", i, op.Name, op.Fault, op.Text)
		case "read":
			fmt.Printf("--- op %d: read %s %s\n", i, op.Key, op.Path)
		case "getmodule":
			fmt.Printf("--- op %d: getmodule %s\n", i, op.Name)
		case "readfile":
			fmt.Printf("--- op %d: Read(%q)\n", i, op.Name)
		case "addpath":
			fmt.Printf("--- op %d: AddPath(%q)\n", i, op.Name)
		case "putfile":
			fmt.Printf("--- op %d: the file %s appears\n%s", i, op.Name, op.Text)
		default:
			fmt.Printf("--- op %d: %s\n", i, op.Op)
		}
	}
	if o.Crashed {
		fmt.Println("goyang crashed:", o.CrashMsg)
		os.Exit(1)
	}
	k := 0
	for i, op := range h.Ops {
		s := o.Go.Steps[i]
		m := "(not asked)"
		k += len(s.Implicit)
		if modelSees(op, s) && o.Model != nil && k < len(o.Model) {
			m = o.Model[k]
			k++
		}
		if h.fileMode() {
			fmt.Printf("op %d %s: search path afterwards: %v\n", i, op.Op, s.Path)
		}
		if s.FreshLoadDiff != "" {
			fmt.Printf("op %d %s %s: answered DIFFERENTLY than by a fresh set: %s\n", i, op.Op, op.Name, s.FreshLoadDiff)
		}
		for _, f := range s.Implicit {
			fmt.Printf("op %d %s: read %s through the search path\n", i, op.Op, f.Path)
		}
		switch op.Op {
		case "readfile":
			found := "no file found"
			if s.Found != nil {
				found = "file " + s.Found.Path
			}
			fmt.Printf("op %d Read(%s): %s; go: %s %s | model: %s\n", i, op.Name, found, s.Load, s.Err, m)
		case "addpath", "putfile":
		case "load":
			fmt.Printf("op %d load %s: go: %s %s | model: %s\n", i, op.Name, s.Load, s.Err, m)
		case "read":
			fmt.Printf("op %d read: go: %s | model: %s\n", i, readable(s.Read), readable(m))
		case "process", "getmodule":
			if op.Op == "getmodule" {
				if s.Read == "nomodule" {
					fmt.Printf("op %d getmodule %s: no such module registered (not executed)\n", i, op.Name)
					continue
				}
				if s.Read == "getmodule-noread" {
					fmt.Printf("op %d getmodule %s: not registered and not readable: %s (GetDiff: %q)\n", i, op.Name, s.Err, s.GetDiff)
					continue
				}
				if s.GetDiff != "" {
					fmt.Printf("op %d getmodule %s: what GetModule returns DIFFERS from a fresh set's: %s\n", i, op.Name, s.GetDiff)
				} else {
					fmt.Printf("op %d getmodule %s: returns what a fresh set with the same accepted texts returns\n", i, op.Name)
				}
			}
			fmt.Printf("op %d %s: go (one value):\n", i, op.Op)
			for _, r := range lib.Project(s.Dump, keys, true) {
				fmt.Println("   ", rescorr.Readable(r))
			}
			if s.BatchDiff != "" {
				fmt.Println("  go (batch on a fresh set) DIFFERS:", s.BatchDiff)
			} else {
				fmt.Println("  go (batch on a fresh set): same")
			}
			fmt.Println("  model:")
			if m != "" && m != "(not asked)" {
				for _, r := range lib.Project(strings.Split(m, " ; "), keys, true) {
					fmt.Println("   ", rescorr.Readable(r))
				}
			}
		}
	}
	if o.Outside != "" {
		fmt.Println("model:", o.Outside)
	}
	v, d := compare(o)
	for _, x := range append(v, d...) {
		fmt.Println("DIFFERENT:", x.kind+":", x.what)
	}
	if len(v)+len(d) > 0 {
		os.Exit(1)
	}
	fmt.Println("same")
}

func main() {
	f := lib.ParseFlags()
	if lib.IsChild() {
		serveChild()
		return
	}
	if f.Replay != "" {
		replay(f)
		return
	}
	res := lib.NewResult("C18", f)
	n, maxLen := 4000, 8
	if f.Thorough() {
		n, maxLen = 150000, 14
	}
	hs := loadCorpus()
	nCorpus := len(hs)
	for _, h := range hs[:nCorpus] {
		// the corpus also in the statement-level mode (file histories have the one mode)
		if h.fileMode() {
			continue
		}
		h.Mode = "stmts"
		hs = append(hs, h)
	}
	// FILE histories (genfile.go; shards of their own), in front of the bulk so that a mass
	// disagreement of the bulk does not end the run before them
	nFiles := 600
	if f.Thorough() {
		nFiles = 20000
	}
	for i := 0; i < nFiles; i++ {
		hs = append(hs, genFileHistory(f.Rand(7000000+i), maxLen))
	}
	for i := 0; i < n; i++ {
		var h History
		if i%5 == 4 {
			h = genTypeHistory(f.Rand(i), maxLen)
		} else if i%5 == 2 {
			h = genSubRevHistory(f.Rand(i), maxLen)
		} else if i%10 == 1 {
			h = genNsHistory(f.Rand(i), maxLen)
		} else {
			h = genHistory(f.Rand(i), maxLen)
		}
		if i%4 == 3 {
			h.Mode = "stmts"
		}
		hs = append(hs, h)
	}
	// histories built around a refused text of several statements after a processing run, with reads
	// right behind it (shards of their own: the histories above stay what they were for a given seed)
	nRefused := 700
	if f.Thorough() {
		nRefused = 25000
	}
	for i := 0; i < nRefused; i++ {
		h := genRefusedHistory(f.Rand(2000000+i), maxLen)
		if i%4 == 3 {
			h.Mode = "stmts"
		}
		hs = append(hs, h)
	}
	// histories in which a later good load DROPS what an earlier run resolved (shards of their own)
	nDropped := 600
	if f.Thorough() {
		nDropped = 20000
	}
	for i := 0; i < nDropped; i++ {
		h := genDropHistory(f.Rand(3000000+i), maxLen)
		if i%4 == 3 {
			h.Mode = "stmts"
		}
		hs = append(hs, h)
	}
	// histories with reads of freshly loaded modules between a load and the next Process
	nBetween := 500
	if f.Thorough() {
		nBetween = 15000
	}
	for i := 0; i < nBetween; i++ {
		h := genReadBetweenHistory(f.Rand(4000000+i), maxLen)
		if i%4 == 3 {
			h.Mode = "stmts"
		}
		hs = append(hs, h)
	}
	// histories with GetModule(name) as an operation of its own (it processes on demand), and histories
	// around imports / includes pinned by revision-date whose exact revision arrives after a run that
	// fell back to another revision (shards of their own)
	nGetH, nPinned := 400, 400
	if f.Thorough() {
		nGetH, nPinned = 12000, 12000
	}
	for i := 0; i < nGetH; i++ {
		h := genGetModuleHistory(f.Rand(5000000+i), maxLen)
		if i%4 == 3 {
			h.Mode = "stmts"
		}
		hs = append(hs, h)
	}
	for i := 0; i < nPinned; i++ {
		h := genPinnedHistory(f.Rand(6000000+i), maxLen)
		if i%4 == 3 {
			h.Mode = "stmts"
		}
		hs = append(hs, h)
	}
	if only := os.Getenv("CORR_C18_ONLY"); only != "" {
		// diagnosis only (not used by ./check): run the histories whose origin starts with this
		var sel []History
		for _, h := range hs {
			if strings.HasPrefix(h.Origin, only) {
				sel = append(sel, h)
			}
		}
		hs = sel
	}
	// COMMAND-LINE stage (cli.go): the goyang command built from the repository under test, with and
	// without the files that fail to load
	nCLI := 150
	if f.Thorough() {
		nCLI = 3000
	}
	if os.Getenv("CORR_C18_NOCLI") == "" {
		cliStage(hs, nCLI, res)
	}
	distinct := lib.NewDistinct()
	var nProcErrAfterClean, nProcCleanAfterErr int64
	droppedKinds := map[string]int64{}
	errStages := map[string]int64{}
	var nGet, nGetUnprocessed, nGetAfterLoadAfterRun, nGetErr int64
	var nOps, nProc, nProcClean, nProcErr, nRead, nReadCompared, nWalk, outside, crashes, reproc, afterReject, incremental, readsEverywhere, refusedAfterProc, readAfterRefused int64
	faults := map[string]int64{}
	loads := map[string]int64{}
	multiHeads := map[string]int64{}
	origins := map[string]int64{}
	modes := map[string]int64{}
	examined := 0
	filesDist := map[string]int64{}
	// in slices, so that a mass disagreement stops the run early
	const slice = 2000
	for lo := 0; lo < len(hs) && examined < 50; lo += slice {
		hi := lo + slice
		if hi > len(hs) {
			hi = len(hs)
		}
		for _, o := range runAll(hs[lo:hi], f) {
			res.Evaluations++
			if o.H.Mode == "stmts" {
				modes["stmts"]++
			} else {
				modes["text"]++
			}
			origins[strings.SplitN(o.H.Origin, "/", 2)[0]]++
			if o.H.ReadsEverywhere {
				readsEverywhere++
			}
			if o.Crashed {
				crashes++
				examined++
				res.AddDisagreement(lib.Disagreement{Kind: "crash", Input: o.H, Go: o.CrashMsg, SpecVerdict: "violates",
					What: "goyang crashed or hung during the history: " + firstLine(o.CrashMsg), Replay: o.H})
				continue
			}
			if o.Outside != "" {
				outside++
			}
			viol, dis := compare(o)
			for _, v := range viol {
				examined++
				res.AddDisagreement(lib.Disagreement{Kind: v.kind, Input: o.H, Go: v.goV, SpecVerdict: "violates", What: v.what, Replay: o.H})
			}
			if o.H.fileMode() {
				fileStats(o, filesDist)
			}
			// the executable specification on the Go output: every process of the history gave what
			// the batch run of the accepted texts on a fresh set gives, no rejected load left a trace
			verdict := "holds"
			if len(viol) > 0 {
				verdict = "violates"
			}
			for _, d := range dis {
				examined++
				res.AddDisagreement(lib.Disagreement{Kind: d.kind, Input: o.H, Go: d.goV, Model: d.model, SpecVerdict: verdict,
					What: "history differs from the session model: " + d.what, Replay: o.H})
			}
			// statistics
			seenProc, seenReject, seenAccept, nontrivial := false, false, false, false
			seenClean, seenErr := false, false
			if k := strings.IndexByte(o.H.Origin, '/'); k > 0 && strings.HasPrefix(o.H.Origin, "dropped-definition") {
				for _, kind := range strings.Split(o.H.Origin[k+1:], "+") {
					droppedKinds[kind]++
				}
			}
			lastWasProc := false
			for i, op := range o.H.Ops {
				nOps++
				s := o.Go.Steps[i]
				switch op.Op {
				case "load", "readfile":
					loads[s.Load]++
					if strings.HasPrefix(op.Fault, "multi:") {
						// refusedMulti: counted by what is refused, and by what had been registered before it
						k := strings.Index(op.Fault, "-then-")
						faults["multi:*"+op.Fault[k:]+" -> "+s.Load]++
						for _, hd := range strings.Split(op.Fault[len("multi:"):k], "+") {
							multiHeads[hd]++
						}
					} else if op.Fault != "" {
						faults[op.Fault+" -> "+s.Load]++
					}
					if s.Load == "accepted" {
						seenAccept = true
						if seenProc {
							incremental++
						}
					} else {
						seenReject = true
						if seenProc {
							refusedAfterProc++
						}
						if i+1 < len(o.H.Ops) && o.H.Ops[i+1].Op == "read" {
							readAfterRefused++
						}
					}
					lastWasProc = false
				case "process":
					nProc++
					if rescorr.HasErrors(s.Dump) {
						nProcErr++
						if seenClean {
							// something that an earlier run of this value resolved fails now (or a
							// new text is faulty): the trees after this run are compared with a fresh twin's
							nProcErrAfterClean++
							if strings.HasPrefix(o.H.Origin, "dropped-definition") {
								errStages[errClassOf(s.Dump[0])]++
							}
						}
						seenErr = true
					} else {
						nProcClean++
						if seenErr {
							nProcCleanAfterErr++
						}
						seenClean = true
					}
					if seenAccept && (seenProc || seenReject) {
						nontrivial = true
					}
					if lastWasProc {
						reproc++
					}
					if seenReject {
						afterReject++
					}
					seenProc, lastWasProc = true, true
				case "getmodule":
					if s.Read == "nomodule" {
						break
					}
					nGet++
					if !lastWasProc {
						nGetUnprocessed++ // GetModule has to process on demand: something was accepted since the last run (or nothing ran yet)
					}
					if seenProc && !lastWasProc {
						nGetAfterLoadAfterRun++
					}
					if rescorr.HasErrors(s.Dump) {
						nGetErr++
						seenErr = true
					} else {
						seenClean = true
					}
					if seenAccept && (seenProc || seenReject) {
						nontrivial = true
					}
					seenProc, lastWasProc = true, true
				case "read":
					nRead++
				case "walk":
					nWalk++
				}
			}
			k := 0
			for i, op := range o.H.Ops {
				k += len(o.Go.Steps[i].Implicit)
				if !modelSees(op, o.Go.Steps[i]) || o.Model == nil || k >= len(o.Model) {
					continue
				}
				if op.Op == "read" && o.Model[k] != "unprocessed" {
					nReadCompared++
				}
				k++
			}
			if nontrivial && distinct.Add(o.H.key()) && res.Evaluations%(int64(len(hs))/6+1) == 0 {
				var shape []string
				for i, op := range o.H.Ops {
					x := op.Op
					if op.Op == "load" {
						x += " " + op.Name + " (" + o.Go.Steps[i].Load + ")"
					}
					shape = append(shape, x)
				}
				res.AddSample(map[string]any{"origin": o.H.Origin, "ops": shape})
			}
		}
	}
	res.DistinctNontrivial = distinct.Len()
	maxMods := 2
	if maxLen >= 12 {
		maxMods = 3
	}
	res.Rule = fmt.Sprintf("histories of load(good text) | load(bad text) | process | read | walk of length <= %d on one Modules value: %d corpus histories (the D30-D32, D44-D46, D55 witnesses, the histories of the Lean non-vacuity examples, imports / submodules arriving after a first Process, unions over typedefs of a library whose newer revision arrives late, extension-bearing built-in types whose extension module arrives after a Process / read), each in raw-text and in statement-tree mode, then seeded histories over the texts of a generated module set (harness/gen: 1-%d modules with submodules, groupings, typedefs, identities, augments, deviations) in as-generated / submodules-first / reversed / shuffled arrival order, 40%% with another (later or earlier) revision of one module whose body differs, one load in seven offers two pending texts as one (several top-level statements, registered all or nothing), with process, read (Find), walk (ToEntry + GetErrors + a visit of every node of everything) and bad texts interleaved; every tenth history is about namespaces: after a Process, walk or read of a generated set a differently named module arrives that claims a namespace already in use, and / or a newer revision of a module with a changed namespace (a fresh one or another module's), and / or a module that takes over the namespace such a revision gave up; every fifth history is built around a submodule revision that is superseded after a Process: module m includes s, the first revision of s has an include (submodule t) and / or an import (module lib) of its own and uses what they bring (grouping, typedef, identity base, identityref), a newer (one time in five: older) revision of s without those statements arrives after a Process, sometimes a third one after another, so that nothing reaches the old revision - and sometimes t - any more; in the general histories one revision variant in three is of a submodule; every fifth history is built around types that name a built-in and still depend on the module set: a generated module gets unions (nested, inside typedefs at module and container level, in leaf-lists) whose members are typedefs of an imported type library beside decimal64 / enumeration / bits / leafref members with restrictions of their own, and built-in types (string, int8, enumeration, decimal64, bits, leafref, boolean, union and its members) that carry an extension statement of an imported module; the library arrives early in one revision and after a Process in another that redefines the typedefs (other base kind, range, enum / bit set, fraction digits, union members), the extension module arrives only after a first Process, walk or read; bad texts = the good text of a pending or loaded module with a nested scope holding an unresolvable typedef (60%%) and ONE late fault (unknown substatement deep inside the last statement, missing type at the end, syntax error at the end, a non-module node after the module, a second module in the text that is a duplicate, the text twice; a text of 2-3 top-level statements that starts with a NEWER REVISION of a loaded module - sometimes with a moved namespace, sometimes behind a brand-new module - and ends with a statement add refuses: a duplicate, a non-module node, a module name with an @) or an exact duplicate (same or other file name); on top of these %d histories built around a REFUSED TEXT OF SEVERAL STATEMENTS after a processing run: a generated set (submodules, augments, deviations, choices, uses - the processed trees differ from a raw conversion; one time in three one text is held back) is loaded and processed, then once or twice a text of 2-4 top-level statements whose earlier statements add accepts (a brand-new module with / without revision or augmenting a loaded module, a newer revision of a loaded module or submodule that takes the bare name over - sometimes with a moved namespace or a dropped node -, an older revision, a brand-new submodule of a loaded module, the held-back text) and whose LAST statement add refuses (a duplicate of a loaded text, the first statement of the text again, the same name and revision with another body, a container / grouping / typedef / leaf, a module or submodule name with an @), directly followed by 1-2 reads (Find from ms.Modules[name] of modules the text mentioned and of modules it did not), sometimes a walk, sometimes the held-back text arriving on its own with a read before the next Process, then a final Process; half of them put the read battery to the one value and its shadow after every operation; on top of these %d histories built around a DROPPED DEFINITION: a library module dl (one time in four with its definitions in a submodule) is loaded in a first revision with typedefs (t, a chain t2 -> t, a union over t), a grouping, identities and a data tree, a user module (hand-made or a generated one) uses them in leaves, unions (nested, in typedefs, in leaf-lists), local typedef chains, defaults, list keys, rpc input, choices, uses (also through a grouping of its own), identities / identityrefs, augments and deviations (deviate replace type, replace default, add, not-supported) of the library's nodes; after a clean Process a NEWER revision arrives that drops 1-3 of those definitions or nodes (repairing its own uses of them or, one time in three, left broken itself), so that the next Process fails at the typedef / identity stage, the conversion stage, the augment stage or the deviation stage; one time in three a third revision restores everything (clean again), one time in six the late revision is an OLDER one (control); and %d histories built around a READ OF A FRESHLY LOADED MODULE BETWEEN A LOAD AND THE NEXT PROCESS: module a reaches typedefs, a grouping and identities through a submodule (one time in three through two includes; one time in four it holds them itself), module u uses them through its import, everything is processed, then a newer revision of the submodule (or of a) with another base type / other grouping leaves / other derivations and a NEW module c using the same definitions arrive in either order, with a read of c (Find from ms.Modules[c], or a walk) after both, between them or before the revision, sometimes a read of the old module too, then Process (sometimes twice, sometimes another new module with a read of its own and a third Process); and %d histories with GETMODULE(name) AS AN OPERATION OF ITS OWN (Modules.GetModule processes on demand and hands out one tree; what it returns is compared with GetModule of a fresh set that loaded the same accepted texts, then the value is compared as after a Process; for the session model it is a processing run): a library, a base module using its typedef / grouping / identities and an unrelated module are loaded, GetModule of the base (of the unrelated one, twice, or a Process) follows with no explicit Process, then 1-2 late loads of OTHER modules that change the tree of an already converted one (an augment into it - and into what the augment added -, a deviation of its leaves, a newer revision of the library it imports, a module deriving from the identity its identityref names, a newer revision of itself) or do not (an unrelated module), each followed by GetModule of the old module, of an untouched one, of the new one, once or repeatedly, with or without a read / Process before; one in three over the texts of a generated set with GetModule after most loads and of every module at the end; and %d histories around IMPORTS / INCLUDES PINNED BY REVISION-DATE whose exact revision is absent at first (FindModule falls back to the bare name, i.e. another - newer or older - revision) and arrives after a run: a library in three revisions that differ in typedefs, grouping leaves, identities and data nodes (one time in three the definitions sit in a submodule that each revision includes, pinned or not), a user that imports it pinned (one time in four through a submodule of its own) and uses l:g (in a container, at top level, through its own grouping), l:t / l:t2 (leaf, leaf-list, union typedef), identityref / derived identity, an augment and a deviation of the library's container, sometimes a second user pinned to another revision or unpinned; or a module whose include of its submodule is pinned, the submodule in two revisions; loads of users + the OTHER revision, a run (Process, twice, GetModule, with a read / walk behind), the pinned revision, a run, sometimes the third revision and a run; one in six has the pinned revision first (control); and %d FILE HISTORIES (genfile.go; the only ones in which Modules.Read, AddPath and the search path take part): the worker builds a directory tree (da: a library la - one time in three as la@2020-01-01.yang -, mains ma / md / mz / mq that import it, a submodule, a library lq whose braces do not balance; db: library lb + main mb; dc: main mc whose import lives in da; dz: library lz that only a longer path brings; top/sub/deep: a library only AddPath(top/...) reaches; de: nothing but rejected files; the root holds no .yang file) and makes it its working directory; operations readfile = Read(path | module name), addpath = AddPath(dir | dir:dir | dir/...), putfile = a file appears, getmodule (also of a name that is not registered: GetModule reads it), load (Parse of a text), process, walk, read; NO import or include is ever loaded explicitly - Process / GetModule / ToEntry find them through the search path; shapes: a REJECTED FILE (braces that do not balance: one or two `}` missing, one or two too many; unterminated string; unknown statement deep inside; leaf without type behind a nested unresolvable typedef; non-module node after the module; duplicate of a loaded module under another name; new module followed by a duplicate) or a Read of a non-existing file / of a directory / of an unknown module name / GetModule of an unknown name, from a directory that is not yet on the path, then good files of the SAME directory (3 in 12; half of them with AddPath(that directory) and another run behind, one in three with a file of another directory behind), or good files of ANOTHER directory whose import lives in the first (2 in 12), 1-3 texts with unbalanced braces of either sign - one in three through Parse - then good files whose imports the run loads by itself, sometimes another such text and more files (2 in 12), a run that meets a BROKEN IMPORT (mq -> lq) followed by good files (1 in 12), an import that CANNOT BE FOUND, a run, then AddPath / AddPath(top/...) / AddPath(db:da) / the file appears, a run, sometimes a second run or more files (2 in 12), 3-6 random operations of all kinds incl. Read by module name (2 in 12); one history in three with the read battery after every operation; thorough tier: two rounds per history; distinct_nontrivial = distinct histories (by operations and texts) with a process that follows an accepted load and an earlier process or rejected load, i.e. where incrementality or failed-load transparency is actually exercised; evaluations also count the command lines of the command-line stage (see notes and cli_command_lines)", maxLen, nCorpus, maxMods, nRefused, nDropped, nBetween, nGetH, nPinned, nFiles)
	res.Distribution["histories_corpus"] = int64(2 * nCorpus)
	res.Distribution["histories_with_loads_as_raw_text"] = modes["text"]
	res.Distribution["histories_with_loads_as_statement_trees"] = modes["stmts"]
	res.Distribution["operations"] = nOps
	res.Distribution["process_ops"] = nProc
	res.Distribution["process_clean"] = nProcClean
	res.Distribution["process_with_errors"] = nProcErr
	res.Distribution["process_right_after_process"] = reproc
	res.Distribution["process_with_errors_after_a_clean_process_of_the_same_value"] = nProcErrAfterClean
	res.Distribution["process_clean_after_a_process_with_errors_of_the_same_value"] = nProcCleanAfterErr
	res.Distribution["dropped_definition_histories_by_what_the_late_revision_drops"] = droppedKinds
	res.Distribution["dropped_definition_first_error_class_of_the_failing_run"] = errStages
	res.Distribution["process_after_a_rejected_load"] = afterReject
	res.Distribution["accepted_loads_after_a_process"] = incremental
	res.Distribution["getmodule_ops"] = nGet
	res.Distribution["getmodule_ops_that_must_process_on_demand"] = nGetUnprocessed
	res.Distribution["getmodule_ops_after_an_accepted_load_that_followed_a_run"] = nGetAfterLoadAfterRun
	res.Distribution["getmodule_ops_with_errors"] = nGetErr
	res.Distribution["read_ops"] = nRead
	res.Distribution["read_ops_compared_with_model"] = nReadCompared
	res.Distribution["walk_ops"] = nWalk
	res.Distribution["histories_with_read_battery_after_every_op"] = readsEverywhere
	res.Distribution["refused_loads_after_a_process"] = refusedAfterProc
	res.Distribution["refused_loads_directly_followed_by_a_read"] = readAfterRefused
	res.Distribution["loads_by_answer"] = loads
	res.Distribution["bad_texts_by_fault_and_answer"] = faults
	res.Distribution["refused_multi_statements_registered_before_the_refusal"] = multiHeads
	res.Distribution["histories_by_arrival_order"] = origins
	res.Distribution["file_histories"] = filesDist
	res.Distribution["histories_outside_model"] = outside
	res.Distribution["crashes"] = crashes
	res.Notes = append(res.Notes,
		fmt.Sprintf("COMMAND-LINE STAGE (cli.go; Go against Go, the session model has no command line): the goyang command is built once per run from the repository under test (go build -o <tmp>/goyang . in $VERIF_REPO) and run in the directory tree of the file histories (corpus first, then the generated ones in order) whose Read-by-path operations - taken as ONE command line, a path once, in history order / failing files first / failing files last, one in two with --format=tree (else the default format), one in three with --path=<the directories the history adds> - hold at least one file that fails to load and one that loads (decided in process by Modules.Read in command-line order): at most %d command lines, two runs each: `goyang [flags] <files>` and `goyang [flags] <the files that load>`; the command must print for every failed file the error Modules.Read returns (yang.go: reported and skipped); apart from those lines standard output (the printed trees), the set of further error lines and the exit status must be equal, the status must be 0 or 1 and 1 exactly when the processing run reported errors; a difference is a violation with the tree and the command line as the failing input (seeded change C18-n21: main() put the directory of every *.yang argument on the search path before reading, so the directory of a file that fails to load stayed searchable: `goyang d2/bad.yang d1/good.yang` printed trees and exited 0 where `goyang d1/good.yang` reports `no such module`; corpus/C18/n21*.json carry their own command line)", nCLI),
		"EVERY REFUSED OFFER (a load or Read the one value answered with an error; in file histories the accepted ones too) is put to a FRESH value that took the accepted operations of the history so far (and, as texts, the files the shadow has read by itself): the two answers must agree - accepted / refused, and when refused the same set of (position, class) - whatever was refused before: a parser, buffer or table that is kept between texts and not reset by a failure (seeded change C18-m22: one parser per Modules, statementDepth survives a text with unbalanced braces; the next well-formed text is refused with `missing N closing brace(s)`) is a violation with the history as the failing input, not only a disagreement with the model",
		"FILE HISTORIES compare the one value with the STRICT twin (shadow value + fresh value that run the history without every refused load and Read - a failed load leaves no trace: ms.Path after every operation, Process errors, trees, lookups, GetModule results, the answers to later offers, and through AddPath + Process what a later AddPath does) and with the model (the session machine has no search path: a Read travels as the load of the file it found, the files a run or a ToEntry read by itself travel as loads in front of that operation; AddPath / putfile are invisible to it); after a run that reports a missing module only errors and search path are compared with the fresh value (which other imports the aborted walk had registered depends on what was converted before); D18-P1 (found by these histories, repaired in /repo 2488dfd): Modules.Read used to leave the directory of a file it had found on ms.Path and in pathMap when Parse refused the text - the witness is corpus/C18/d18p1-*.json and must be clean now; a directory off ms.Path that AddPath still takes for present (seeded change C18-m21), a parser that remembers (C18-m22), a type generation that is not advanced after a run that could not link (C09-m22) are reported with the history as the failing input",
		"after EVERY operation (also right after an accepted or refused load, before the next Process) the lookups that need no processed trees - FindModuleByNamespace for every namespace in play and an unknown one, FindModule for every module / submodule name and name@revision and an unknown name - are put to the one value and to a SHADOW value that runs the same history (same Process, read and walk operations) without the loads the one value refused, and compared with the source position of what is returned (Go vs Go): a refused text leaves no trace for every later load, processing run and query; right after every REFUSED load (and after every walk; in the reads-everywhere histories after every operation) the whole READ BATTERY is put to both values and compared: the trees ToEntry answers with for every module and submodule (also the ones the refused text never mentioned) node by node, all fields incl. the resolved types, the errors recorded on them (GetErrors), the identity values reachable from the types of the nodes, the value list of every identity statement, Entry.Find from every module root to up to 12 nodes of its tree and across every import - a reader that comes before the next Process sees the processed trees (submodule nodes, augments, implied cases, deviations), not a raw conversion; a read op after a refused load is also answered by the session model from the finished Process (the registry is unchanged) and compared",
		"after every Process the same queries are put to the one value and to the batch value and compared (Go vs Go; the session model has no such operations): FindModuleByNamespace for every namespace in play and an unknown one, FindModule for every module / submodule name and name@revision and an unknown name, Entry.Find from every module root to up to 12 nodes of its tree and across every import, GetModule of the first module (every third operation; it processes once more); Entry.Namespace and Entry.InstantiatingModule of every node are part of the dump (ns=, im=); the walk operation asks the namespace and name questions between loads as a perturbation",
		"every process op is checked twice: Go (one value) vs Go (batch of the accepted texts on a fresh value) on an extended dump (all node fields, submodule trees, identity value lists with source positions), and Go vs the Lean session model on the projection "+strings.Join(keys, ",")+" + errors",
		"after EVERY process op, clean or not (also after the second run that GetModule makes), the trees the value hands out right then are compared with those of the fresh twin that loaded the same accepted texts and ran Process once (Go vs Go, no model needed): ToEntry of every module and submodule node by node with all fields (the resolved type with its union members, defaults, units, list attributes, namespace, instantiating module), the errors recorded on the trees, the identity values reachable from the types of the nodes, the value list of every identity statement, the resolved type of every top-level typedef statement - when Process reported errors both sides report the same errors and the trees handed out afterwards must be equal as well: a run that FAILS to resolve something must not hand out what an earlier generation resolved (a leaf that keeps the type of a typedef the newer revision dropped, a union that keeps a stale member); the shadow value is read in the same way, so that the reads perturb both alike",
		"3 of 4 generated histories (and every corpus history) send the raw texts: generic parser, AST builder and registry of the model decide whether a text is accepted, and the answer to every load is compared with goyang's (syntax / build / add); 1 of 4 (and every corpus history a second time) send the statement trees of the real generic parser with goyang's verdict on parser and builder as a flag, duplicates and non-module nodes are then still decided by the model and compared",
		"when Process reports a missing module or submodule, errors of the classes identity-*, unknown-prefix and cycle (identity) are not compared between goyang and the model (the identity layer of the model declines after a link failure); the comparison of the one value with the batch run on a fresh value is on all errors")
	res.Write(f.Out)
}
