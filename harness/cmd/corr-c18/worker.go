package main

// The worker body: one history on ONE yang.Modules value, next to its twins.
//
// Twins.  The STRICT twin is what the property asks for: a shadow value that runs the same history
// without the loads the one value refused, and - at every Process / GetModule, and at every refused
// offer - a FRESH value that takes the accepted operations of the history so far (loads, Reads,
// AddPaths; no processing run, no refused offer) in one go.  Text histories have this twin only.
//
// FILE histories (History.Files: the worker builds the directory tree, makes it its working
// directory; operations readfile = Modules.Read, addpath = Modules.AddPath, putfile = a file appears,
// getmodule of a name that is not registered = GetModule reads it through the search path; Process
// finds imports and includes that nobody loaded through the search path) are judged against the same
// twin: a refused Read leaves no trace, not on ms.Path and not in the duplicate table of AddPath.
// (Found by these histories and repaired in /repo 2488dfd, D18-P1: Modules.Read used to leave the
// directory of a file it had found on the search path when Parse refused the text.  The twin that
// replaced a refused Read by AddPath(directory) - used to tag that finding - is gone: every difference
// from the strict twin is a violation.)

import (
	"fmt"
	"os"
	"path/filepath"
	"regexp"
	"sort"
	"strings"

	"github.com/openconfig/goyang/pkg/yang"
	"verif/harness/lib"
	"verif/harness/rescorr"
)

// twin: one reading of "the same history without the refused loads".
type twin struct {
	shadow *yang.Modules
	good   []Op // what a fresh value takes before its one run: accepted loads / Reads, AddPaths
	// what a fresh value takes before it is asked about an OFFER (a load or Read that the one value
	// answered): good, and - as texts - the files the shadow has read by itself since (a run that met
	// an import nobody loaded, ToEntry of an unprocessed module): whether an offer is a duplicate
	// depends on them
	offer []Op
}

// accept records an operation the twin's shadow took.
func (t *twin) accept(op Op) {
	t.good = append(t.good, op)
	t.offer = append(t.offer, op)
}

// freshForOffer: a fresh value that is in the state in which the twin would be asked about an offer.
func (t *twin) freshForOffer(h History, complain func(string)) *yang.Modules {
	f := newModules(h)
	for _, g := range t.offer {
		if err := applyOp(f, g); err != nil {
			complain(fmt.Sprintf("a fresh set refuses %s %s, which the history accepted or read by itself: %s", g.Op, g.Name, firstLine(err.Error())))
		}
	}
	return f
}

// stepDiffs: how the one value differs from one twin in one step.
type stepDiffs struct {
	batch, tree, get, shadow, freshLoad string
	batchDump                           []string
	findings                            []string
}

// applyOp executes an operation that a fresh value replays.
func applyOp(ms *yang.Modules, op Op) error {
	switch op.Op {
	case "load":
		return ms.Parse(op.Text, op.Name)
	case "readfile":
		return ms.Read(op.Name)
	case "addpath":
		ms.AddPath(op.Name)
	}
	return nil
}

func (t *twin) fresh(h History, complain func(string)) *yang.Modules {
	f := newModules(h)
	for _, g := range t.good {
		if err := applyOp(f, g); err != nil {
			complain(fmt.Sprintf("a fresh set refuses %s %s, which the history accepted: %s", g.Op, g.Name, firstLine(err.Error())))
		}
	}
	return f
}

var revSuffix = regexp.MustCompile(`^@\d{4}-\d{2}-\d{2}\.yang$`)

// directFile: the file Modules.Read(name) reads WITHOUT consulting the search path - the name as
// given when it has a slash or ends in .yang, else name.yang or the latest name@revision.yang of the
// current directory - and whether there is such a file.  In exactly this case findFile puts the
// directory of the file on the search path (an independent reading of the head of findFile; the
// search through ms.Path that follows has no side effect).
func directFile(name string) (string, bool) {
	if !strings.Contains(name, "/") && !strings.HasSuffix(name, ".yang") {
		name += ".yang"
		if ents, err := os.ReadDir("."); err == nil {
			base := strings.TrimSuffix(name, ".yang")
			var revs []string
			exact := false
			for _, e := range ents {
				if e.IsDir() {
					continue
				}
				if e.Name() == name {
					exact = true
				} else if strings.HasPrefix(e.Name(), base) && revSuffix.MatchString(strings.TrimPrefix(e.Name(), base)) {
					revs = append(revs, e.Name())
				}
			}
			if !exact && len(revs) > 0 {
				sort.Strings(revs)
				name = revs[len(revs)-1]
			}
		}
	}
	if fi, err := os.Stat(name); err != nil || fi.IsDir() {
		return "", false
	}
	if _, err := os.ReadFile(name); err != nil {
		return "", false
	}
	return name, true
}

// errKeys reduces the error of a refused load (one message per line) to its sorted set of
// file:line:col:class keys; wording is not compared.
func errKeys(err error) []string {
	seen := map[string]bool{}
	for _, l := range strings.Split(err.Error(), "\n") {
		if l = strings.TrimSpace(l); l != "" {
			seen[lib.ErrLine(l)] = true
		}
	}
	return lib.SortedKeys(seen)
}

// loadVerdictDiff compares the answer of the one value to an offer (a) with the answer of a fresh
// value that took the same accepted operations (b).
func loadVerdictDiff(what string, a, b error) string {
	switch {
	case a == nil && b == nil:
		return ""
	case a != nil && b == nil:
		return fmt.Sprintf("%s is REFUSED by the one value (%s) and ACCEPTED by a fresh set that took the accepted operations of the history so far", what, firstLine(a.Error()))
	case a == nil:
		return fmt.Sprintf("%s is ACCEPTED by the one value and REFUSED by a fresh set that took the accepted operations of the history so far (%s)", what, firstLine(b.Error()))
	}
	ka, kb := errKeys(a), errKeys(b)
	if strings.Join(ka, " ") != strings.Join(kb, " ") {
		return fmt.Sprintf("%s is refused by the one value with the errors %v (%s) and by a fresh set that took the accepted operations of the history so far with the errors %v (%s)", what, ka, firstLine(a.Error()), kb, firstLine(b.Error()))
	}
	return ""
}

// fileOfSource: the file part of a file:line:col position.
func fileOfSource(pos string) string {
	for k := 0; k < 2; k++ {
		i := strings.LastIndexByte(pos, ':')
		if i < 0 {
			return pos
		}
		pos = pos[:i]
	}
	return pos
}

func modulePtrs(ms *yang.Modules) map[*yang.Module]bool {
	out := map[*yang.Module]bool{}
	for _, m := range ms.Modules {
		out[m] = true
	}
	for _, m := range ms.SubModules {
		out[m] = true
	}
	return out
}

// implicitLoads: the files a run read by itself since `before` was taken.
func implicitLoads(ms *yang.Modules, before map[*yang.Module]bool) []FileSpec {
	seen := map[string]bool{}
	for m := range modulePtrs(ms) {
		if !before[m] {
			seen[fileOfSource(yang.Source(m))] = true
		}
	}
	var out []FileSpec
	for _, fn := range lib.SortedKeys(seen) {
		if b, err := os.ReadFile(fn); err == nil {
			out = append(out, FileSpec{Path: fn, Text: string(b)})
		}
	}
	return out
}

// setUpTree builds the directory tree of a file history below the current directory and enters it.
func setUpTree(h History) (cleanup func(), err error) {
	wd, err := os.Getwd()
	if err != nil {
		return nil, err
	}
	root, err := os.MkdirTemp(".", "tree-")
	if err != nil {
		return nil, err
	}
	if root, err = filepath.Abs(root); err != nil {
		return nil, err
	}
	for _, f := range h.Files {
		p := filepath.Join(root, f.Path)
		if f.Dir {
			err = os.MkdirAll(p, 0o755)
		} else if err = os.MkdirAll(filepath.Dir(p), 0o755); err == nil {
			err = os.WriteFile(p, []byte(f.Text), 0o644)
		}
		if err != nil {
			os.RemoveAll(root)
			return nil, err
		}
	}
	if err = os.Chdir(root); err != nil {
		os.RemoveAll(root)
		return nil, err
	}
	return func() { os.Chdir(wd); os.RemoveAll(root) }, nil
}

// runGo is the worker body: the whole history on one Modules value.
func runGo(h History) GoRes {
	var res GoRes
	add := func(s string) {
		if len(res.Findings) < 10 {
			res.Findings = append(res.Findings, s)
		}
	}
	fileMode := h.fileMode()
	if fileMode {
		cleanup, err := setUpTree(h)
		if err != nil {
			add("the directory tree of the history could not be built: " + err.Error())
			return res
		}
		defer cleanup()
	}
	ms := newModules(h)
	// the shadow: the same history, but a text the one value refuses is never offered to it
	twins := []*twin{{shadow: newModules(h)}}
	lookupsOnly := []error{fmt.Errorf("lookups only")}
	lookups := func(v *yang.Modules) []string {
		out := queries(v, lookupsOnly, false)
		if fileMode {
			out = append(out, "Q search-path ["+strings.Join(v.Path, " ")+"]")
		}
		return out
	}
	relabel := func(d string) string {
		d = strings.Replace(d, "| model:", "| batch on a fresh set:", 1)
		return strings.Replace(d, "go:", "history:", 1)
	}
	for i, op := range h.Ops {
		var sr StepRes
		diffs := make([]stepDiffs, len(twins))
		var stepPtrs map[*yang.Module]bool
		twinPtrs := make([]map[*yang.Module]bool, len(twins))
		if fileMode {
			stepPtrs = modulePtrs(ms)
			for k, t := range twins {
				twinPtrs[k] = modulePtrs(t.shadow)
			}
		}
		complain := func(k int) func(string) {
			return func(s string) { diffs[k].findings = append(diffs[k].findings, fmt.Sprintf("op %d: %s", i, s)) }
		}
		// after a processing run (Process or GetModule; errs / dump of the one value): the one value
		// against a fresh value of each twin that ran once
		afterRun := func(errs []error, withGet bool, freshRun func(f *yang.Modules) []error, shadowRun func(s *yang.Modules)) {
			base, ext := extendedDump(ms, errs)
			sr.Dump = base
			if len(sr.Dump) == 0 && op.Op == "getmodule" {
				sr.Dump = []string{}
			}
			// file histories: a run that reports a missing module has stopped its walk at the first
			// import it could not find, module by module; which OTHER imports are registered afterwards
			// depends on what was converted before the run (ToEntry of an unprocessed module reads its
			// imports through the search path too): errors and search path are compared then, the
			// lookups and trees after the next run that finds everything
			errorsOnly := fileMode && linkFailed(base)
			if errorsOnly {
				ext = append([]string{}, base...)
			} else {
				ext = append(ext, queries(ms, errs, withGet)...)
			}
			if fileMode {
				ext = append(ext, "Q search-path ["+strings.Join(ms.Path, " ")+"]")
			}
			// the trees as they are handed out right now, also when the run reported errors (after the
			// queries: GetModule has processed once more; a read is a perturbation too, so the shadow
			// value is read in the same way, right after its run)
			trees := treesAfter(ms)
			for k, t := range twins {
				fresh := t.fresh(h, complain(k))
				ferrs := freshRun(fresh)
				fbase, fext := extendedDump(fresh, ferrs)
				shadowRun(t.shadow)
				treesAfter(t.shadow)
				if errorsOnly {
					fext = append([]string{}, fbase...)
				} else {
					fext = append(fext, queries(fresh, ferrs, withGet)...)
				}
				if fileMode {
					fext = append(fext, "Q search-path ["+strings.Join(fresh.Path, " ")+"]")
				}
				if !errorsOnly {
					diffs[k].tree = treeDiff(trees, treesAfter(fresh))
				}
				if d := rescorr.Diff(ext, fext); d != "" {
					diffs[k].batch = relabel(d)
					diffs[k].batchDump = fext
					if len(sr.Dump) == 0 {
						sr.Dump = []string{}
					}
				}
			}
		}
		switch op.Op {
		case "putfile":
			// a file appears in the directory tree (not a call on the value)
			if fileMode {
				if err := os.MkdirAll(filepath.Dir(op.Name), 0o755); err == nil {
					os.WriteFile(op.Name, []byte(op.Text), 0o644)
				}
			}
			sr.Read = "put"
		case "addpath":
			ms.AddPath(op.Name)
			for _, t := range twins {
				t.shadow.AddPath(op.Name)
				t.accept(op)
			}
			sr.Read = "added"
		case "load", "readfile":
			what := "the text " + op.Name
			if op.Op == "readfile" {
				what = "Read(" + op.Name + ")"
				if fn, ok := directFile(op.Name); ok {
					if b, err := os.ReadFile(fn); err == nil {
						sr.Found = &FileSpec{Path: fn, Text: string(b)}
					}
				}
			}
			before := nameMaps(ms)
			var beforePtrs map[*yang.Module]bool
			if fileMode {
				beforePtrs = modulePtrs(ms)
			}
			err := applyOp(ms, op)
			if err == nil {
				sr.Load = "accepted"
				if op.Op == "readfile" && sr.Found == nil {
					// found through the search path: the file is the one the new modules come from
					if im := implicitLoads(ms, beforePtrs); len(im) == 1 {
						sr.Found = &im[0]
					}
				}
				for k, t := range twins {
					if fileMode {
						// (a file history asks the fresh value about accepted offers too: it costs little there)
						ferr := applyOp(t.freshForOffer(h, complain(k)), op)
						diffs[k].freshLoad = loadVerdictDiff(what, err, ferr)
					}
					if serr := applyOp(t.shadow, op); serr != nil {
						complain(k)(fmt.Sprintf("%s is accepted after refused loads but refused without them: %s", op.Name, firstLine(serr.Error())))
					}
					t.accept(op)
				}
			} else {
				switch {
				case op.Op == "load":
					sr.Load = classifyReject(op.Name, op.Text, err)
				case sr.Found != nil:
					sr.Load = classifyReject(sr.Found.Path, sr.Found.Text, err)
				default:
					sr.Load = "rejected-nofile"
				}
				sr.Err = firstLine(err.Error())
				if !sameMaps(before, nameMaps(ms)) {
					add(fmt.Sprintf("op %d: the rejected load of %s changed Modules / SubModules", i, op.Name))
				}
				for k, t := range twins {
					// what a fresh value that took the accepted operations says to the very same offer
					ferr := applyOp(t.freshForOffer(h, complain(k)), op)
					diffs[k].freshLoad = loadVerdictDiff(what, err, ferr)
				}
			}
		case "process":
			errs := ms.Process()
			// the queries a caller can make now, on both values (GetModule, which processes once
			// more, at every third operation only)
			afterRun(errs, i%3 == 0,
				func(f *yang.Modules) []error { return f.Process() },
				func(s *yang.Modules) { s.Process() })
		case "getmodule":
			// Modules.GetModule(name): the documented convenience path - it processes on demand and
			// hands out the tree of one module.  What it RETURNS is compared with what GetModule of a
			// fresh set that loaded the same accepted texts returns, then the value is looked at as
			// after a Process (GetModule is a processing run for everything that follows).
			registered := ms.Modules[op.Name] != nil
			if !registered && !fileMode {
				// (GetModule would go to the file system: not part of the text machine)
				sr.Read = "nomodule"
				break
			}
			before := nameMaps(ms)
			e, errs := ms.GetModule(op.Name)
			got := func(e *yang.Entry, errs []error) []string {
				var out []string
				if e != nil {
					lib.DumpTree("module:"+op.Name, e, &out)
					for _, x := range lib.CanonErrs(e.GetErrors()) {
						out = append(out, "T-"+x)
					}
				} else {
					out = append(out, "no tree returned")
				}
				for _, x := range lib.CanonErrs(errs) {
					out = append(out, "E "+x)
				}
				return out
			}
			ga := got(e, errs)
			read := !registered && !sameMaps(before, nameMaps(ms))
			if !registered && !read {
				// GetModule could not read the module: a failed load, no processing run
				sr.Read = "getmodule-noread"
				sr.Err = firstLine(fmt.Sprint(errs))
				for k, t := range twins {
					fe, ferrs := t.freshForOffer(h, complain(k)).GetModule(op.Name)
					diffs[k].get = returnedDiff(ga, got(fe, ferrs))
				}
				break
			}
			if read && ms.Modules[op.Name] == nil {
				// the file held something else: read, registered, "module not found", no processing run
				sr.Read = "getmodule-noread"
				sr.Err = firstLine(fmt.Sprint(errs))
				for k, t := range twins {
					fe, ferrs := t.freshForOffer(h, complain(k)).GetModule(op.Name)
					diffs[k].get = returnedDiff(ga, got(fe, ferrs))
					t.shadow.GetModule(op.Name)
					t.good = append(t.good, Op{Op: "readfile", Name: op.Name}) // (offer: the file is among the ones read by itself)
				}
				break
			}
			var returned [][]string
			afterRun(errs, false,
				func(f *yang.Modules) []error {
					fe, ferrs := f.GetModule(op.Name)
					returned = append(returned, got(fe, ferrs))
					return ferrs
				},
				func(s *yang.Modules) { s.GetModule(op.Name) })
			for k, t := range twins {
				diffs[k].get = returnedDiff(ga, returned[k])
				if read {
					t.good = append(t.good, Op{Op: "readfile", Name: op.Name}) // (offer: the file is among the ones read by itself)
				}
			}
		case "read":
			m := ms.Modules[op.Key]
			if m == nil {
				sr.Read = "nomodule"
				break
			}
			if e := yang.ToEntry(m).Find(op.Path); e != nil {
				sr.Read = "found " + lib.HexS(e.Path())
			} else {
				sr.Read = "found ~"
			}
			for _, t := range twins {
				if sm := t.shadow.Modules[op.Key]; sm != nil {
					yang.ToEntry(sm).Find(op.Path)
				}
			}
		case "walk":
			// what a tool does between loads: convert everything, look at every node, collect errors
			for _, m := range allModules(ms) {
				e := yang.ToEntry(m)
				var sink []string
				lib.DumpTree(m.FullName(), e, &sink)
				e.GetErrors()
			}
			// ... and ask for namespaces and modules by name (answers are not compared here: the
			// set may be unprocessed; the same questions are compared after every Process)
			queries(ms, []error{nil}, false)
			for _, t := range twins {
				for _, m := range allModules(t.shadow) {
					e := yang.ToEntry(m)
					var sink []string
					lib.DumpTree(m.FullName(), e, &sink)
					e.GetErrors()
				}
			}
			sr.Read = "walked"
		}
		// after EVERY operation: what a caller can look up at any time (namespaces, modules and
		// submodules by name and revision; in a file history the search path) must be answered as by
		// the value that never saw the refused texts
		battery := (op.Op == "load" && sr.Load != "accepted") || (op.Op == "readfile" && sr.Load != "accepted") || op.Op == "walk" || h.ReadsEverywhere
		qa := lookups(ms)
		if battery {
			// right after a refused load (and after a walk, which converts everything anyway; in a
			// reads-everywhere history after every operation): the whole read battery - the trees
			// ToEntry answers with, node by node, the errors recorded on them, identity value lists,
			// Find inside the trees and across imports - a reader that comes before the next Process
			// must see what it would see without the refused text
			qa = append(qa, readsOf(ms)...)
		}
		for k, t := range twins {
			qb := lookups(t.shadow)
			if battery {
				qb = append(qb, readsOf(t.shadow)...)
			}
			if d := rescorr.Diff(qa, qb); d != "" {
				d = strings.Replace(d, "| model:", "| the same history without the refused loads:", 1)
				diffs[k].shadow = strings.Replace(d, "go:", "history:", 1)
			}
		}
		if fileMode {
			sr.Path = append([]string{}, ms.Path...)
			// the files the value read by itself in this step - a run that meets an import nobody
			// loaded, but also ToEntry of an unprocessed module (the read battery, a walk) - as opposed
			// to the file or text the operation offered
			for _, f := range implicitLoads(ms, stepPtrs) {
				if (sr.Found != nil && f.Path == sr.Found.Path && sr.Load == "accepted") || (op.Op == "load" && f.Path == op.Name) {
					continue
				}
				sr.Implicit = append(sr.Implicit, f)
			}
			for k, t := range twins {
				for _, f := range implicitLoads(t.shadow, twinPtrs[k]) {
					if (sr.Found != nil && f.Path == sr.Found.Path && sr.Load == "accepted") || (op.Op == "load" && f.Path == op.Name) {
						continue
					}
					t.offer = append(t.offer, Op{Op: "load", Name: f.Path, Text: f.Text})
				}
			}
		}
		st := diffs[0]
		sr.BatchDiff, sr.Batch, sr.TreeDiff, sr.GetDiff, sr.ShadowDiff, sr.FreshLoadDiff = st.batch, st.batchDump, st.tree, st.get, st.shadow, st.freshLoad
		sr.Findings = st.findings
		res.Steps = append(res.Steps, sr)
	}
	return res
}
