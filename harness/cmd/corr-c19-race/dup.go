package main

// The "already set" storm: texts that goyang rejects while it BUILDS the AST, because a
// single-valued substatement (description, type, units, default, config, mandatory, namespace,
// prefix, ... : every pointer-typed field with a yang tag of every statement type of
// pkg/yang/yang.go) occurs twice.  The functions that fill these fields are closures made during
// package initialisation (ast.go, initTypes) and shared by every AST build of the process; whatever
// they keep between calls is process-wide state.  All goroutines of a round - pipelines before
// their first set, readers while they wait for the shared set - load the same sequence of such
// texts, each on a fresh Modules of its own, as the FIRST thing they do, released together per
// group of texts: in the first round of a process nothing has touched these error paths before
// (rejectAll has no text of this kind), so the first duplicate of every (statement type, field)
// pair in the process is met by all goroutines at the same moment.  The diagnostics are compared
// with a sequential load made after the concurrent phase.
//
// One text per (statement type, field) pair, found by walking the yang struct types from
// yang.Module with package reflect (the same walk initTypes makes): the text is the shortest chain
// of statements from `module` down to a statement of the type, with the field's statement twice.

import (
	"fmt"
	"reflect"
	"strings"
	"sync"

	"github.com/openconfig/goyang/pkg/yang"
)

type dupCase struct {
	holder  string   // keyword of the statement that holds the duplicate
	kw      string   // the duplicated single-valued substatement
	openers []string // statements from the module's body down to the holder, each "kw arg"
	stmt    string   // the substatement, complete (with the required substatements of its own)
}

var (
	dupCasesMemo []dupCase
	// dupFull: set by child for the first round of a process (all cases); other rounds take a
	// rotating eighth.
	dupFull bool
)

const clauseIndependent = `C19 clause "any number of independent module sets may be loaded and processed in parallel, each giving the result of a sequential run"`

func dupArg(kw string) string {
	switch kw {
	case "input", "output":
		return ""
	case "type":
		return " string"
	case "config", "mandatory", "require-instance", "yin-element":
		return " true"
	case "namespace":
		return " \"urn:a1\""
	case "description", "reference", "contact", "organization", "error-message":
		return " \"a b\""
	}
	return " a1"
}

// yangFields: the tagged fields of a statement type: (keyword, field type, options).
type yangField struct {
	kw   string
	typ  reflect.Type
	opts []string
}

func yangFields(t reflect.Type) []yangField {
	var out []yangField
	st := t.Elem()
	for i := 0; i < st.NumField(); i++ {
		f := st.Field(i)
		tag := f.Tag.Get("yang")
		if tag == "" {
			continue
		}
		parts := strings.Split(tag, ",")
		switch parts[0] {
		case "Name", "Statement", "Parent", "Ext":
			continue
		}
		out = append(out, yangField{kw: parts[0], typ: f.Type, opts: parts[1:]})
	}
	return out
}

func isNodeStruct(t reflect.Type) bool {
	return t.Kind() == reflect.Ptr && t.Elem().Kind() == reflect.Struct
}

// completeStmt: "kw arg;" or, when the statement's type has required substatements, with them.
func completeStmt(kw string, t reflect.Type, depth int) string {
	var req []string
	if isNodeStruct(t) && depth < 4 {
		for _, f := range yangFields(t) {
			for _, o := range f.opts {
				if o == "required" {
					ft := f.typ
					if ft.Kind() == reflect.Slice {
						ft = ft.Elem()
					}
					req = append(req, completeStmt(f.kw, ft, depth+1))
				}
			}
		}
	}
	if len(req) == 0 {
		return kw + dupArg(kw) + ";"
	}
	return kw + dupArg(kw) + " { " + strings.Join(req, " ") + " }"
}

func dupCases() []dupCase {
	if dupCasesMemo != nil {
		return dupCasesMemo
	}
	type item struct {
		t       reflect.Type
		kw      string
		openers []string
	}
	root := reflect.TypeOf(&yang.Module{})
	seen := map[reflect.Type]bool{root: true}
	queue := []item{{t: root, kw: "module"}}
	var out []dupCase
	for len(queue) > 0 {
		it := queue[0]
		queue = queue[1:]
		for _, f := range yangFields(it.t) {
			ct := f.typ
			single := ct.Kind() == reflect.Ptr
			if ct.Kind() == reflect.Slice {
				ct = ct.Elem()
			}
			if !isNodeStruct(ct) {
				continue
			}
			if single {
				out = append(out, dupCase{holder: it.kw, kw: f.kw, openers: it.openers, stmt: completeStmt(f.kw, ct, 0)})
			}
			if !seen[ct] {
				seen[ct] = true
				queue = append(queue, item{t: ct, kw: f.kw, openers: append(append([]string{}, it.openers...), f.kw+dupArg(f.kw))})
			}
		}
	}
	dupCasesMemo = out
	return out
}

// dupText: the text of case c under a module / file name of its own.
func dupText(c dupCase, name string) modSrc {
	var b strings.Builder
	fmt.Fprintf(&b, "module %s {\n", name)
	if c.holder != "module" || (c.kw != "namespace" && c.kw != "prefix") {
		fmt.Fprintf(&b, "  namespace \"urn:%s\";\n  prefix dp;\n", name)
	}
	for i, o := range c.openers {
		fmt.Fprintf(&b, "%s%s {\n", strings.Repeat("  ", i+1), o)
	}
	ind := strings.Repeat("  ", len(c.openers)+1)
	fmt.Fprintf(&b, "%s%s\n%s%s\n", ind, c.stmt, ind, c.stmt)
	for i := len(c.openers); i > 0; i-- {
		fmt.Fprintf(&b, "%s}\n", strings.Repeat("  ", i))
	}
	b.WriteString("}\n")
	return modSrc{Name: name + ".yang", Text: b.String()}
}

// dupPlan: the cases of a round (indices into dupCases) in groups; the goroutines pass a barrier
// before every group.
type dupPlan struct {
	round  int
	idx    []int
	groups int
	bars   []sync.WaitGroup
}

const dupGroup = 8

func newDupPlan(round, n int) *dupPlan {
	cases := dupCases()
	p := &dupPlan{round: round}
	if dupFull {
		for i := range cases {
			p.idx = append(p.idx, i)
		}
	} else {
		for i := range cases {
			if i%8 == round%8 {
				p.idx = append(p.idx, i)
			}
		}
	}
	p.groups = (len(p.idx) + dupGroup - 1) / dupGroup
	if !dupFull {
		p.groups = 1 // one release at the start
	}
	p.bars = make([]sync.WaitGroup, p.groups)
	for g := range p.bars {
		p.bars[g].Add(n)
	}
	return p
}

func dupWho(w int) string { return fmt.Sprintf("g%d", w) }

func dupName(round int, who string, i int) string {
	return fmt.Sprintf("dup-r%d-%s-%d", round, who, i)
}

// storm: what goroutine `who` does first: the diagnostics of the round's texts, in order.
func (p *dupPlan) storm(who string) []string {
	cases := dupCases()
	out := make([]string, len(p.idx))
	for j, i := range p.idx {
		if dupFull && j%dupGroup == 0 || j == 0 {
			g := 0
			if dupFull {
				g = j / dupGroup
			}
			p.bars[g].Done()
			p.bars[g].Wait()
		}
		out[j] = diagnose(yang.NewModules(), dupText(cases[i], dupName(p.round, who, i)), "")
	}
	return out
}

// check: sequentially, afterwards: every diagnostic equals the one a sequential load of the same
// text gives (names replaced), names no file of another goroutine, and the text was not accepted.
// alreadySet counts the texts whose sequential diagnostic is "<kw>: already set".
func (p *dupPlan) check(got [][]string) (evals int64, alreadySet int, problems []string) {
	cases := dupCases()
	for j, i := range p.idx {
		refName := dupName(p.round, "ref", i)
		t := dupText(cases[i], refName)
		want := diagnose(yang.NewModules(), t, "")
		if strings.Contains(want, cases[i].kw+": already set") {
			alreadySet++
		}
		for w, ds := range got {
			who := dupWho(w)
			evals++
			g := "none (the goroutine did not get that far)"
			if j < len(ds) {
				g = ds[j]
			}
			if strings.Replace(g, dupName(p.round, who, i), refName, -1) != want && len(problems) < 5 {
				problems = append(problems, fmt.Sprintf("%s: goroutine %s loaded, on a fresh Modules of its own and at the same time as the other goroutines, a text in which `%s` occurs twice in one `%s`: concurrent %s; sequential %s; text:\n%s",
					clauseIndependent, who, cases[i].kw, cases[i].holder, g, want, t.Text))
			}
		}
	}
	return
}
