// corr-c19-race: the supporting run of property C19 (not the proof; see Goyang/Props/C19.lean).
//
// Built with the race detector (the dispatcher builds cmd/*-race with `go build -race`,
// CGO_ENABLED=1).  Rounds run in child processes with GORACE="halt_on_error=1 exitcode=66", 20
// (quick) or 100 (thorough) rounds per process.  Every round STARTS COLD WITH THE CONCURRENT
// PHASE; the sequential reference answers are computed afterwards:
//
//   - N goroutines (8 quick / 32 thorough).  N/2 pipelines are released together, each running
//     the full pipeline (NewModules, Parse of 2-4 generated modules and sometimes a submodule,
//     Process, ToEntry, walk, dump) on module sets of its own.  Pipeline 0 first loads and
//     processes the shared set and publishes it; the N/2 readers then run the reader script
//     against it while pipelines are still working, beginning with the namespace look-ups, so
//     that the first-time (uncached) look-ups of all readers meet;
//   - in the first round of a process nothing has touched goyang before the goroutines are
//     released, so any first-use write of process-wide state (a lazily filled package-level
//     table) happens concurrently.  The first round uses the base statement kinds only (module,
//     import, container, leaf, typedef, identity); each later round of the process adds one more
//     kind (uses/grouping, leaf-list, list, choice, nested containers, rpc, action, notification,
//     anydata/anyxml, augment, deviation, submodule; order varies per process), so every kind is
//     converted for the first time in its process by concurrent goroutines;
//   - afterwards, sequentially: an identical copy of the shared set is processed and queried with
//     the same script (the expected answers) and every private set is run again (the expected
//     dumps); every reader answer and every pipeline dump is compared;
//   - independence of module sets across the whole process: after its last round every child
//     dumps a fixed canary set (all statement kinds; plain lists and leaf-lists) and the dump
//     must equal the one made by a fresh process that handled nothing else ("processed alone");
//     a difference is bisected to the first round that causes it;
//   - ToEntry storm: after the namespace look-ups the readers pass a barrier and all call
//     yang.ToEntry on the AST node of every entry of the shared trees and on every grouping, in the
//     same order, three times, so that many goroutines ask for the same node at once; the returned
//     entry (incl. its errors, and whether it is the cached one) is compared with the sequential
//     answer; pipeline 0 converts each of these nodes once while building the set and reports a
//     node for which a second call does not return the cached entry (guard of toentry-miss);
//   - GetErrors storm: in sets with errors (every fourth round) module m0 holds inner containers
//     with 3, 5, 6 and 7 errors of their own (uses of unknown groupings, children with the same
//     name) above erroneous leaves; in the storm phase all readers call GetErrors on every entry
//     that holds errors or stands above one, same order, three times, and every returned list
//     (order included) is compared with the sequential one;
//   - orphan submodules: half of the sets (once submodule is a statement kind of the process)
//     load a submodule explicitly that no module includes: Process converts it but never links
//     its imports, and nothing resolves their prefixes while the set is built (they occur in
//     leafref paths and must / when expressions only).  The builder makes no look-up on the shared
//     set; every reader BEGINS with r.Find(r.Type.Path) on the leafref leaves of the orphan's own
//     tree (ToEntry(ms.SubModules[x])) and Find of the must / when paths from their nodes.  The
//     trees of all submodules are reader roots like the module trees; expected answers come from
//     a twin set built afterwards;
//   - the first private set of every pipeline is a deep one (150-220 nested containers), so that
//     all pipelines are deep in the recursion of the conversion at the same time;
//   - every other round the shared set is a directory set: files on the search path, modules read
//     by name, import / include statements pinned to revision-dates that are not the loaded
//     revision; readers resolve prefixes against it (absolute prefixed Find, FindModuleByPrefix);
//     every set restricts built-in types with the keywords min / max (shared parent ranges);
//   - rejected texts: every goroutine that loads a set also loads 2-3 texts goyang must reject
//     (syntax errors of several kinds, an unknown statement), on a throw-away Modules and on the
//     set's own Modules before and between its sources; before every round (bar the cold first
//     round of every other process) texts of every kind are loaded sequentially.  The diagnostics
//     each text gets are compared with the sequential twin's; a diagnostic naming a file of
//     another set is a violation of its own wording;
//   - wide directories: sets with errors have a directory of 24, 32, 64 or 200 children (leaves,
//     containers) with errors in two or more child subtrees, in shared sets (all readers call
//     GetErrors on it together) and in pipeline sets;
//   - namespace-to-module look-ups whose sequential answer is an ERROR or a TIE-BREAK: two shared
//     sets in three hold one or two small modules that declare the namespace of another module
//     (two different modules, one namespace: FindModuleByNamespace, and InstantiatingModule of
//     every node of these modules, answer with an error, which is never cached), two in three
//     load older revisions of one module as well (nsExtras); a third of the private sets likewise.
//     Answers are compared in canonical form: which object came back, or the text of the error;
//   - namespace duels (duelPhase): five times per round a fresh small set (3-5 modules over three
//     names, four revisions, three namespaces) is built, all goroutines of the round line up
//     behind a start barrier and make the same first-time look-ups at the same moment, three
//     times over; expected answers come from a twin set asked sequentially, and the set itself is
//     asked once more afterwards (what the concurrent callers left in the cache);
//   - the conditions that put the allow-listed write sites (harness/cmd/extract-access/
//     allow.json) outside the claim are asserted: ToEntry of a processed module returns the entry
//     cached by Process; Find is called with paths of existing nodes only and afterwards no root
//     has more errors and no rpc has a different input/output entry; the module tables of the
//     shared set keep their keys; every Print call writes to a buffer of its own.
//
// A race report (exit status 66 of the child), a crash, a time-out or a differing answer is a
// disagreement of kind "crash" / "spec" whose replay is the seed and the round (replayed together
// with the rounds that preceded it in its process).
package main

import (
	"bytes"
	"crypto/sha256"
	"encoding/hex"
	"encoding/json"
	"flag"
	"fmt"
	"math/rand"
	"os"
	"os/exec"
	"path/filepath"
	"regexp"
	"runtime/debug"
	"sort"
	"strings"
	"sync"
	"time"

	"github.com/openconfig/goyang/pkg/yang"
	"verif/harness/lib"
)

// ---------------------------------------------------------------------------------------------
// generated module sets

type modSrc struct {
	Name string `json:"name"`
	Text string `json:"text"`
	// Explicit: a submodule that is loaded by name like a module (no loaded module includes it;
	// in a directory set the other submodules come in through their include statements)
	Explicit bool `json:"explicit,omitempty"`
}

type genStats struct {
	modules, submodules, rpcs, augments, uses, deviations, withErrors, orphans, leafrefs, wide int
	twins, revisions                                                                           int
}

// palette says which statement kinds a generated set may use.  The base kinds (module, import,
// container, leaf, typedef, identity) are always there.
type palette struct {
	uses, leafList, list, choice, nested, rpc, action, notification, anydata, augment, deviation, submodule bool
	// pins (not a staged kind, set by the caller): import and include statements carry a
	// revision-date that is not the revision that gets loaded
	pins bool
	// wide (not a staged kind, set by the caller): in a set with errors module m0 gets a WIDE
	// directory of that many children with errors in two or more child subtrees (see wideDir)
	wide int
	// twin, revs (not staged kinds, set by the caller; base statement kinds only, see nsExtras):
	// twin = one or two more modules of OTHER names declare the namespace of one of the modules
	// (the namespace-to-module look-up is ambiguous: its sequential answer is an error);
	// revs = one module has a revision statement and one or two OLDER revisions of it are loaded
	// as well (the look-up is a tie-break between objects of one name)
	twin, revs bool
}

var paletteKinds = []string{"uses", "leaf-list", "list", "choice", "nested", "rpc", "action", "notification", "anydata", "augment", "deviation", "submodule"}

// paletteFor: round number `round` is the stage-th round of its process (stage = round % batch).
// Stage 0 uses the base kinds only; every later stage adds one more kind, in an order that
// differs from batch to batch, so that each kind is converted for the first time in its process
// by the goroutines of one round, concurrently.  After all kinds are in, everything is allowed.
func paletteFor(seed int64, round, batch int) (palette, []string) {
	stage := round % batch
	order := rand.New(rand.NewSource(seed*31 + int64(round/batch))).Perm(len(paletteKinds))
	var p palette
	var names []string
	for pos, k := range order {
		if pos >= stage {
			break
		}
		names = append(names, paletteKinds[k])
		switch paletteKinds[k] {
		case "uses":
			p.uses = true
		case "leaf-list":
			p.leafList = true
		case "list":
			p.list = true
		case "choice":
			p.choice = true
		case "nested":
			p.nested = true
		case "rpc":
			p.rpc = true
		case "action":
			p.action = true
		case "notification":
			p.notification = true
		case "anydata":
			p.anydata = true
		case "augment":
			p.augment = true
		case "deviation":
			p.deviation = true
		case "submodule":
			p.submodule = true
		}
	}
	sort.Strings(names)
	return p, names
}

// genSet writes 2-4 modules (module i imports every module j > i) and sometimes a submodule of
// m0.  All names that goyang keeps in set-wide tables (identities, augment children, deviation
// targets) are unique in the set, so that the result does not depend on map iteration order.
func genSet(r *rand.Rand, withErrors bool, pal palette) ([]modSrc, genStats) {
	var st genStats
	nm := 2 + r.Intn(3)
	sub := pal.submodule && r.Intn(2) == 0
	// an ORPHAN submodule: loaded explicitly, belongs to m0, included by nobody (see orphanSub)
	orphan := pal.submodule && r.Intn(2) == 0
	var out []modSrc
	// restrictions that use the keywords min / max directly on a built-in type: their parent
	// range is a package-level table (Int8Range ... Uint64Range; Uint64Range for every length)
	builtinRestr := []string{
		"type int8 { range \"min..10\"; }", "type int16 { range \"-5..max\"; }", "type int32 { range \"min..max\"; }",
		"type int64 { range \"min..0 | 5..max\"; }", "type uint8 { range \"1..max\"; }", "type uint16 { range \"min..100\"; }",
		"type uint32 { range \"min..max\"; }", "type uint64 { range \"10..max\"; }",
		"type decimal64 { fraction-digits 2; range \"min..5.5\"; }", "type string { length \"1..max\"; }",
		"type binary { length \"min..16\"; }", "type string { length \"min..4 | 8..max\"; }",
	}
	leafType := func(i int, others []int) string {
		switch k := r.Intn(13); {
		case k == 0:
			return "type string;"
		case k == 1:
			return "type uint8; default 3;"
		case k == 2:
			return fmt.Sprintf("type t%d;", i)
		case k == 3:
			return fmt.Sprintf("type e%d;", i)
		case k == 4:
			return fmt.Sprintf("type identityref { base id%d; }", i)
		case k == 5 && len(others) > 0:
			j := others[r.Intn(len(others))]
			return fmt.Sprintf("type p%d:t%d;", j, j)
		case k == 6:
			return fmt.Sprintf("type t%d; mandatory true;", i)
		case k == 7:
			return "type int32 { range \"1..10\"; } default 5;"
		case k == 8:
			return fmt.Sprintf("type r%d { range \"0..max\"; }", i)
		case k == 12:
			// a leafref whose path is absolute and prefixed: into another module when there is
			// one to import, else into the own module (readers resolve it: r.Find(r.Type.Path))
			st.leafrefs++
			j := i
			if len(others) > 0 {
				j = others[r.Intn(len(others))]
			}
			return fmt.Sprintf("type leafref { path \"/p%d:c0/p%d:tg\"; }", j, j)
		default:
			return builtinRestr[r.Intn(len(builtinRestr))]
		}
	}
	var body func(b *strings.Builder, i int, others []int, depth int, ind string)
	body = func(b *strings.Builder, i int, others []int, depth int, ind string) {
		if r.Intn(3) == 0 {
			fmt.Fprintf(b, "%sconfig false;\n", ind)
		}
		nl := 1 + r.Intn(3)
		for k := 0; k < nl; k++ {
			fmt.Fprintf(b, "%sleaf l%d { %s }\n", ind, k, leafType(i, others))
		}
		if pal.uses && r.Intn(2) == 0 {
			st.uses++
			if len(others) > 0 && r.Intn(2) == 0 {
				j := others[r.Intn(len(others))]
				fmt.Fprintf(b, "%suses p%d:g%d;\n", ind, j, j)
			} else {
				fmt.Fprintf(b, "%suses g%d;\n", ind, i)
			}
		}
		if pal.leafList && r.Intn(2) == 0 {
			// plain leaf-list (no ordered-by / min-elements / max-elements), often of a type
			// with a default, so that DefaultValues falls back on the type
			fmt.Fprintf(b, "%sleaf-list ll { type %s; }\n", ind, []string{"string", fmt.Sprintf("t%d", i), fmt.Sprintf("e%d", i)}[r.Intn(3)])
		}
		if pal.list && r.Intn(2) == 0 {
			fmt.Fprintf(b, "%slist li { key k; leaf k { type string; } leaf v { %s } }\n", ind, leafType(i, others))
		}
		if pal.choice && r.Intn(3) == 0 {
			fmt.Fprintf(b, "%schoice ch { case ca { leaf cl { type string; } } leaf cb { type t%d; } }\n", ind, i)
		}
		if pal.anydata && r.Intn(3) == 0 {
			fmt.Fprintf(b, "%sanydata ad;\n%sanyxml ax;\n", ind, ind)
		}
		if pal.action && r.Intn(3) == 0 {
			switch r.Intn(3) {
			case 0:
				fmt.Fprintf(b, "%saction act { input { leaf ai { type string; } } output { leaf ao { %s } } }\n", ind, leafType(i, others))
			case 1:
				fmt.Fprintf(b, "%saction act { input { leaf ai { type string; } } }\n", ind)
			default:
				fmt.Fprintf(b, "%saction act { output { leaf ao { type string; } } }\n", ind)
			}
		}
		if pal.nested && depth > 0 && r.Intn(2) == 0 {
			fmt.Fprintf(b, "%scontainer n%d {\n", ind, depth)
			body(b, i, others, depth-1, ind+"  ")
			fmt.Fprintf(b, "%s}\n", ind)
		}
	}
	// the module of which older revisions are loaded too (see nsExtras)
	revOf := -1
	if pal.revs {
		revOf = r.Intn(nm)
	}
	for i := 0; i < nm; i++ {
		var others []int
		for j := i + 1; j < nm; j++ {
			others = append(others, j)
		}
		var b strings.Builder
		fmt.Fprintf(&b, "module m%d {\n  yang-version 1.1;\n  namespace \"urn:m%d\";\n  prefix p%d;\n", i, i, i)
		for _, j := range others {
			if pal.pins && r.Intn(2) == 0 {
				fmt.Fprintf(&b, "  import m%d { prefix p%d; revision-date 2019-0%d-01; }\n", j, j, 1+r.Intn(9))
			} else {
				fmt.Fprintf(&b, "  import m%d { prefix p%d; }\n", j, j)
			}
		}
		if i == 0 && sub {
			if pal.pins && r.Intn(2) == 0 {
				b.WriteString("  include s0 { revision-date 2019-01-01; }\n")
			} else {
				b.WriteString("  include s0;\n")
			}
		}
		if i == revOf {
			b.WriteString("  revision 2020-01-01;\n")
		}
		fmt.Fprintf(&b, "  typedef t%d { type string; default \"d%d\"; }\n", i, i)
		fmt.Fprintf(&b, "  typedef e%d { type enumeration { enum one; enum two; } default one; }\n", i)
		fmt.Fprintf(&b, "  typedef r%d { type int16 { range \"min..100\"; } }\n", i)
		if len(others) > 0 {
			j := others[0]
			fmt.Fprintf(&b, "  typedef u%d { type p%d:t%d; }\n", i, j, j)
			fmt.Fprintf(&b, "  identity x%d { base p%d:id%d; }\n", i, j, j)
		}
		fmt.Fprintf(&b, "  identity id%d;\n  identity sub%d { base id%d; }\n", i, i, i)
		if pal.uses {
			fmt.Fprintf(&b, "  grouping g%d {\n    leaf gl { type t%d; }\n    container gc { leaf x { type uint8; default 3; } }\n  }\n", i, i)
		}
		nc := 1 + r.Intn(3)
		for c := 0; c < nc; c++ {
			fmt.Fprintf(&b, "  container c%d {\n", c)
			if c == 0 {
				// the target of the leafref paths: no deviation and no augment touches it
				b.WriteString("    leaf tg { type string; }\n")
			}
			body(&b, i, others, 2, "    ")
			if pal.deviation && c == 0 {
				// directly written (not through uses or augment), without list statements of
				// their own: the targets of min-/max-elements deviations, and in sets without
				// such a deviation the plain lists whose attributes must stay untouched
				fmt.Fprintf(&b, "    list dl { key k; leaf k { type string; } leaf w { type uint8; } }\n    leaf-list dll { type t%d; }\n", i)
				if r.Intn(3) == 0 {
					b.WriteString("    list dlo { key k; ordered-by user; min-elements 1; max-elements 5; leaf k { type string; } }\n")
				}
			}
			if withErrors && i == 0 && c == 0 {
				// bad2 collects three errors on one leaf entry (unknown type, config, mandatory)
				b.WriteString("    leaf bad0 { type nosuchtype; }\n    leaf bad1 { type p0:alsonot; }\n    leaf bad2 { type nosuchtype; config maybe; mandatory perhaps; }\n")
			}
			b.WriteString("  }\n")
		}
		if withErrors && i == 0 {
			errorNests(&b, r, pal)
			if pal.wide > 0 {
				st.wide++
				wideDir(&b, r, pal)
			}
		}
		nr := 0
		if pal.rpc {
			nr = r.Intn(3)
		}
		for k := 0; k < nr; k++ {
			st.rpcs++
			fmt.Fprintf(&b, "  rpc r%d {\n", k)
			v := r.Intn(4)
			if v&1 != 0 {
				fmt.Fprintf(&b, "    input { leaf i { %s } container ic { leaf x { type string; } } }\n", leafType(i, others))
			}
			if v&2 != 0 {
				fmt.Fprintf(&b, "    output { leaf o { %s } }\n", leafType(i, others))
			}
			b.WriteString("  }\n")
		}
		if pal.notification && r.Intn(2) == 0 {
			fmt.Fprintf(&b, "  notification ev%d { leaf nl { %s } }\n", i, leafType(i, others))
		}
		if pal.augment && len(others) > 0 && r.Intn(3) != 0 {
			st.augments++
			j := others[r.Intn(len(others))]
			fmt.Fprintf(&b, "  augment \"/p%d:c0\" { leaf aug%d { type t%d; } container augc%d { leaf y { type string; } } }\n", j, i, i, i)
		}
		if pal.deviation && len(others) > 0 && r.Intn(3) != 0 {
			// module i is the only one that deviates module i+1; one to three deviations, each
			// with a target of its own
			st.deviations++
			j := others[0]
			for _, v := range r.Perm(4)[:1+r.Intn(3)] {
				switch v {
				case 0:
					fmt.Fprintf(&b, "  deviation \"/p%d:c0/p%d:l0\" { deviate not-supported; }\n", j, j)
				case 1:
					fmt.Fprintf(&b, "  deviation \"/p%d:c0/p%d:dll\" { deviate add { min-elements %d; } }\n", j, j, 1+r.Intn(4))
				case 2:
					fmt.Fprintf(&b, "  deviation \"/p%d:c0/p%d:dl\" { deviate add { max-elements %d; } }\n", j, j, 5+r.Intn(5))
				default:
					fmt.Fprintf(&b, "  deviation \"/p%d:c0/p%d:dl/p%d:w\" { deviate replace { type string; } }\n", j, j, j)
				}
			}
		}
		b.WriteString("}\n")
		out = append(out, modSrc{Name: fmt.Sprintf("m%d.yang", i), Text: b.String()})
		st.modules++
	}
	if sub {
		st.submodules++
		// the included submodule imports m1 for the sake of a leafref path only (Process links the
		// import all the same: it walks the includes of m0)
		out = append(out, modSrc{Name: "s0.yang",
			Text: "submodule s0 {\n  yang-version 1.1;\n  belongs-to m0 { prefix p0; }\n  import m1 { prefix sq1; }\n" +
				"  container sc { leaf sl { type string; default \"s\"; } leaf sm { type uint8; } leaf sr { type leafref { path \"/sq1:c0/sq1:tg\"; } } }\n}\n"})
		st.leafrefs++
	}
	if orphan {
		st.orphans++
		out = append(out, orphanSub(r, nm, pal))
	}
	if withErrors {
		st.withErrors++
	}
	out = nsExtras(r, out, nm, revOf, pal, &st)
	return out, st
}

// nsExtras adds, to a generated set, the small modules that make the NAMESPACE-TO-MODULE look-up
// (Modules.FindModuleByNamespace, and Entry.InstantiatingModule which goes through it) answer
// with something other than "the one module of that namespace" (base statement kinds only):
//
//	twin  one or two modules tw0, tw1 of names of their own declare the namespace urn:m<j> of module
//	      m<j>: two DIFFERENT modules, one namespace.  The sequential answer for that namespace,
//	      and for the instantiating module of every node of m<j> and of the twins, is an error
//	      (which is never cached: every call scans the module table again);
//	revs  module m<revOf> carries `revision 2020-01-01` and an older revision m<revOf>@2018-01-01
//	      (same namespace) is loaded as well, sometimes also m<revOf>@2017-01-01 which declares a
//	      namespace of its own (urn:m<revOf>:v2017, found under a name@revision key only); the
//	      sequential answer is a tie-break: the revision the bare name refers to.  The older
//	      revisions come before or after the other sources (load order varies).
//
// All of them hold a container with two leaves and nothing that goyang keeps in set-wide tables.
func nsExtras(r *rand.Rand, out []modSrc, nm, revOf int, pal palette, st *genStats) []modSrc {
	if pal.twin {
		st.twins++
		j := r.Intn(nm)
		for q, n := 0, 1+r.Intn(2); q < n; q++ {
			out = append(out, modSrc{Name: fmt.Sprintf("tw%d.yang", q),
				Text: fmt.Sprintf("module tw%d {\n  yang-version 1.1;\n  namespace \"urn:m%d\";\n  prefix tw%d;\n  container twc%d { leaf v { type string; } leaf w { type uint8; default 1; } }\n}\n", q, j, q, q)})
		}
	}
	if revOf >= 0 {
		st.revisions++
		var olds []modSrc
		olds = append(olds, modSrc{Name: fmt.Sprintf("m%d@2018-01-01.yang", revOf),
			Text: fmt.Sprintf("module m%d {\n  yang-version 1.1;\n  namespace \"urn:m%d\";\n  prefix p%d;\n  revision 2018-01-01;\n  container old2018 { leaf v { type string; } leaf w { type uint8; default 8; } }\n}\n", revOf, revOf, revOf)})
		if r.Intn(2) == 0 {
			olds = append(olds, modSrc{Name: fmt.Sprintf("m%d@2017-01-01.yang", revOf),
				Text: fmt.Sprintf("module m%d {\n  yang-version 1.1;\n  namespace \"urn:m%d:v2017\";\n  prefix p%d;\n  revision 2017-01-01;\n  container old2017 { leaf v { type string; } }\n}\n", revOf, revOf, revOf)})
		}
		if r.Intn(2) == 0 {
			out = append(olds, out...)
		} else {
			out = append(out, olds...)
		}
	}
	return out
}

// orphanSub: a submodule of m0 that no module includes.  It is loaded explicitly, Process converts
// it (it has an entry tree of its own: ToEntry(ms.SubModules["o0"])), but the walk that links
// import and include statements starts from the modules and never gets to it.  Its imports:
//
//	m1 (q1)  used in leafref paths only: nothing resolves the prefix while the set is processed
//	m2 (q2)  used in a must and a when expression only
//	m3 (q3)  used by the type of a leaf (resolved during Process) and in a leafref path
//
// so for q1 and q2 the first look-up ever made through the import is the one the readers make
// (Find with the leafref path from the leaf; Find with the path of the must from its container).
func orphanSub(r *rand.Rand, nm int, pal palette) modSrc {
	var b strings.Builder
	b.WriteString("submodule o0 {\n  yang-version 1.1;\n  belongs-to m0 { prefix p0; }\n")
	for j := 1; j < nm; j++ {
		if pal.pins && r.Intn(2) == 0 {
			fmt.Fprintf(&b, "  import m%d { prefix q%d; revision-date 2019-0%d-01; }\n", j, j, 1+r.Intn(9))
		} else {
			fmt.Fprintf(&b, "  import m%d { prefix q%d; }\n", j, j)
		}
	}
	b.WriteString("  container oc {\n")
	b.WriteString("    leaf r1 { type leafref { path \"/q1:c0/q1:tg\"; } }\n")
	b.WriteString("    leaf r0 { type leafref { path \"/p0:c0/p0:tg\"; } }\n")
	b.WriteString("    leaf plain { type string; default \"o\"; }\n")
	if nm > 2 {
		b.WriteString("    container on {\n      must \"/q2:c0/q2:tg != 'x'\";\n      leaf w { when \"/q2:c0/q2:tg\"; type uint8; }\n" +
			"      leaf r1b { type leafref { path \"/q1:c0\"; } }\n    }\n")
	}
	if nm > 3 {
		b.WriteString("    leaf t3 { type q3:t3; }\n    leaf r3 { type leafref { path \"/q3:c0/q3:tg\"; } }\n")
	}
	b.WriteString("  }\n}\n")
	return modSrc{Name: "o0.yang", Text: b.String(), Explicit: true}
}

// errorNests writes, into a module of a set with errors, inner nodes that hold SEVERAL errors of
// their own - 3, 5, 6 and 7 of them, the counts at which a list grown by append has room to spare -
// and have erroneous descendants as well (leaves of unknown types, directly below and one level
// further down; eb6 sits inside eb5).  The own errors come from uses statements that name no
// grouping (once uses is a statement kind of the process) and from children with the same name.
func errorNests(b *strings.Builder, r *rand.Rand, pal palette) {
	own := func(ind string, tag string, k int) {
		nu := 0
		if pal.uses {
			nu = []int{k, k / 2, 0}[r.Intn(3)]
		}
		for q := 0; q < nu; q++ {
			fmt.Fprintf(b, "%suses nogrouping-%s-%d;\n", ind, tag, q)
		}
		if nu < k {
			for q := 0; q <= k-nu; q++ {
				fmt.Fprintf(b, "%sleaf dup { type string; }\n", ind)
			}
		}
	}
	for _, k := range []int{3, 5, 7} {
		fmt.Fprintf(b, "  container eb%d {\n", k)
		own("    ", fmt.Sprint(k), k)
		fmt.Fprintf(b, "    leaf x { type nosuchtype; }\n    leaf y { type p0:alsonot; }\n    leaf ok { type string; }\n")
		fmt.Fprintf(b, "    container in { leaf z { type nosuchtype; } leaf fine { type uint8; } }\n")
		if k == 5 {
			b.WriteString("    container eb6 {\n")
			own("      ", "6", 6)
			b.WriteString("      leaf x6 { type nosuchtype; }\n      container in6 { leaf z6 { type p0:alsonot; mandatory perhaps; } }\n    }\n")
		}
		b.WriteString("  }\n")
	}
}

// wideWidths: the numbers of children of the wide directories.
var wideWidths = []int{24, 32, 64, 200}

// wideDir writes, into module m0 of a set with errors, a WIDE directory: pal.wide (24, 32, 64, 200)
// children - every third one a container, the rest leaves - of which TWO OR MORE (2-6 picked at
// random; one time in four every container as well) carry errors in their subtrees: a leaf child of
// an unknown type, a container child with such a leaf directly below it or one level further down,
// and (once uses is a statement kind of the process) container children that use one grouping whose
// leaf has an unknown type, so that the same error value stands in several child subtrees.  Two
// times in three the children stand in `container wide`, otherwise directly in the module (the
// module entry is the wide directory).  Whatever walks the children of a directory - the error
// accessor, Process (three times per module), Print - meets it in pipelines and, on the shared
// set, in all readers at once.
func wideDir(b *strings.Builder, r *rand.Rand, pal palette) {
	n := pal.wide
	top := r.Intn(3) == 0
	ind := "    "
	if top {
		ind = "  "
	}
	if pal.uses {
		b.WriteString("  grouping wg { leaf shared { type nosuchtype-in-grouping; } leaf plain { type string; } }\n")
	}
	if !top {
		b.WriteString("  container wide {\n")
	}
	bad := map[int]bool{}
	for ne := 2 + r.Intn(5); len(bad) < ne; {
		bad[r.Intn(n)] = true
	}
	if r.Intn(4) == 0 {
		for j := 0; j < n; j += 3 {
			bad[j] = true
		}
	}
	for j := 0; j < n; j++ {
		switch {
		case j%3 == 0:
			fmt.Fprintf(b, "%scontainer wc%d { leaf a { type string; }", ind, j)
			if bad[j] {
				switch v := r.Intn(3); {
				case v == 0:
					b.WriteString(" leaf bad { type nosuchtype; }")
				case v == 1:
					b.WriteString(" container in { leaf deep { type p0:alsonot; } leaf fine { type uint8; } }")
				case pal.uses:
					b.WriteString(" uses wg;")
				default:
					b.WriteString(" leaf bad { type nosuchtype; mandatory perhaps; }")
				}
			}
			b.WriteString(" }\n")
		case bad[j]:
			fmt.Fprintf(b, "%sleaf wl%d { type nosuchtype; }\n", ind, j)
		default:
			fmt.Fprintf(b, "%sleaf wl%d { type string; }\n", ind, j)
		}
	}
	if !top {
		b.WriteString("  }\n")
	}
}

// ---------------------------------------------------------------------------------------------
// rejected texts

// rejectedKinds: the ways in which a text is rejected when it is loaded.  The first six are
// reported by Parse (parser and lexer), "unknown-statement" by the AST builder.
var rejectedKinds = []string{"missing-closing-brace", "extra-closing-brace", "end-of-text-in-statement", "missing-semicolon",
	"quoted-keyword", "unterminated-string", "unknown-statement", "several-errors"}

// rejectedText: a module text of 3-30 leaves (one in eight: 100 more; parsing is what costs most
// under the race detector) that goyang must reject, with a file name of its
// own (tag names the round, the goroutine and the set it belongs to), so that every diagnostic
// says whose text it is about; the place of the mistake (hence the reported line) varies.
func rejectedText(r *rand.Rand, tag string, kind int) modSrc {
	kind %= len(rejectedKinds)
	name := fmt.Sprintf("rej-%s-%d", tag, kind)
	n := 3 + r.Intn(28)
	if r.Intn(8) == 0 {
		n += 100
	}
	at := r.Intn(n)
	var b strings.Builder
	fmt.Fprintf(&b, "module %s {\n  namespace \"urn:%s\";\n  prefix rj;\n  container c {\n", name, name)
	for i := 0; i < n; i++ {
		if i == at {
			switch rejectedKinds[kind] {
			case "missing-semicolon", "several-errors":
				fmt.Fprintf(&b, "    leaf x%d { type string }\n", i)
			case "quoted-keyword":
				fmt.Fprintf(&b, "    \"container\" q%d { }\n", i)
			case "unknown-statement":
				fmt.Fprintf(&b, "    nosuchstatement s%d;\n", i)
			}
		}
		fmt.Fprintf(&b, "    leaf l%d { type string; }\n", i)
	}
	switch rejectedKinds[kind] {
	case "missing-closing-brace":
		b.WriteString("  }\n")
	case "extra-closing-brace", "several-errors":
		b.WriteString("  }\n}\n}\n")
	case "end-of-text-in-statement":
		b.WriteString("    leaf last { type string")
	case "unterminated-string":
		b.WriteString("    leaf last { type string; description \"never closed; }\n  }\n}\n")
	default:
		b.WriteString("  }\n}\n")
	}
	return modSrc{Name: name + ".yang", Text: b.String()}
}

// rejectedFor: the rejected texts that go with one module set: 2-3 of them, of different kinds.
func rejectedFor(r *rand.Rand, tag string) []modSrc {
	var out []modSrc
	k0 := r.Intn(len(rejectedKinds))
	for q, n := 0, 2+r.Intn(2); q < n; q++ {
		out = append(out, rejectedText(r, tag, k0+q*3))
	}
	return out
}

var yangFileName = regexp.MustCompile(`[A-Za-z0-9_.-]+\.yang`)

// diagnose hands a rejected text to ms (Parse of the text, or Read by name when the text is a
// file of a directory set) and renders the outcome: the diagnostics as they are.  The text has a
// file name nobody else uses, so a diagnostic that names any other .yang file speaks about a
// text of another module set; that is marked.
func diagnose(ms *yang.Modules, s modSrc, dir string) string {
	return guard(func() string {
		var err error
		if dir != "" {
			err = ms.Read(strings.TrimSuffix(s.Name, ".yang"))
		} else {
			err = ms.Parse(s.Text, s.Name)
		}
		if err == nil {
			return "rejected-text " + s.Name + ": ACCEPTED"
		}
		out := fmt.Sprintf("rejected-text %s: %q", s.Name, err.Error())
		for _, f := range yangFileName.FindAllString(err.Error(), -1) {
			if f != s.Name {
				return out + " " + foreignMark + "(" + f + ")"
			}
		}
		return out
	})
}

const foreignMark = "DIAGNOSTIC-NAMES-A-FILE-OF-ANOTHER-SET"

// rejectAll: every kind of rejected text on a throw-away Modules of its own and, again, on one
// Modules that takes them all; run sequentially (between the rounds of a process).  Sequentially
// the diagnostics of a text do not depend on what was loaded before: the two must be equal.
func rejectAll(seed int64, round int) []string {
	r := rand.New(rand.NewSource(roundSeed(seed, round) + 7))
	var problems []string
	ms := yang.NewModules()
	for k := range rejectedKinds {
		t := rejectedText(r, fmt.Sprintf("r%d-between", round), k)
		d1 := diagnose(yang.NewModules(), t, "")
		d2 := diagnose(ms, t, "")
		if (d1 != d2 || strings.Contains(d1, foreignMark) || strings.HasSuffix(d1, "ACCEPTED")) && len(problems) < 3 {
			problems = append(problems, fmt.Sprintf("rejected text %s loaded twice, sequentially, before round %d: on a fresh Modules %s; on a Modules that had rejected other texts %s", t.Name, round, d1, d2))
		}
	}
	if len(ms.Modules)+len(ms.SubModules) > 0 {
		problems = append(problems, fmt.Sprintf("a Modules that rejected every text holds modules %v", modNames(ms)))
	}
	return problems
}

// deepSet: one module of 150-220 nested containers (every fifth level also uses a small grouping
// once groupings are in use in the process), a leaf on every level.  All pipelines of a round
// convert one such set first, at the same time: whatever limits or counts the recursion of the
// conversion must do so per module set, and each dump must equal the sequential one.
func deepSet(r *rand.Rand, pal palette) []modSrc {
	depth := 150 + r.Intn(71)
	var b strings.Builder
	b.WriteString("module deep {\n  yang-version 1.1;\n  namespace \"urn:deep\";\n  prefix d;\n")
	if pal.uses {
		b.WriteString("  grouping dg { leaf gl { type string; default \"g\"; } }\n")
	}
	for i := 0; i < depth; i++ {
		fmt.Fprintf(&b, "%scontainer d%d { leaf x%d { type uint8; default %d; }", strings.Repeat(" ", 1+i%8), i, i, i%200)
		if pal.uses && i%5 == 4 {
			b.WriteString(" uses dg;")
		}
		b.WriteString("\n")
	}
	b.WriteString(" leaf bottom { type string; }\n")
	b.WriteString(strings.Repeat("}", depth) + "\n}\n")
	return []modSrc{{Name: "deep.yang", Text: b.String()}}
}

func hashSet(srcs []modSrc) string {
	h := sha256.New()
	for _, s := range srcs {
		h.Write([]byte(s.Name))
		h.Write([]byte{0})
		h.Write([]byte(s.Text))
		h.Write([]byte{0})
	}
	return hex.EncodeToString(h.Sum(nil))[:16]
}

// ---------------------------------------------------------------------------------------------
// pipeline: load, process, dump

// load runs NewModules, the reading of the sources and Process.  With dir == "" the sources are
// parsed from strings; otherwise they have been written to dir (writeSet) and are loaded the way
// a tool does it: the directory is put on the search path and the modules are read by name
// (submodules come in through their include statements, from the path; an orphan submodule, which
// nobody includes, is read by name like a module).
func load(srcs []modSrc, dir string) (*yang.Modules, []string) {
	ms, errs, _ := loadRej(srcs, dir, nil)
	return ms, errs
}

// loadRej is load with REJECTED texts on the way (rej; see rejectedText): the first is handed to a
// throw-away Modules before the set's own Modules exists, the second to the set's Modules before
// its first source, the others between its sources (one after each).  In a directory set the
// texts handed to the set's Modules are files of the directory and are read by name.  A rejected
// text leaves no trace in a Modules, so the processed set is the same as without them; diags are
// the diagnostics each of them got, in order.
func loadRej(srcs []modSrc, dir string, rej []modSrc) (*yang.Modules, []string, []string) {
	var diags []string
	if len(rej) > 0 {
		diags = append(diags, diagnose(yang.NewModules(), rej[0], ""))
		rej = rej[1:]
	}
	ms := yang.NewModules()
	if dir != "" {
		ms.AddPath(dir)
	}
	for _, s := range srcs {
		if len(rej) > 0 {
			diags = append(diags, diagnose(ms, rej[0], dir))
			rej = rej[1:]
		}
		var err error
		switch {
		case dir == "":
			err = ms.Parse(s.Text, s.Name)
		case strings.HasPrefix(s.Text, "submodule") && !s.Explicit:
		default:
			err = ms.Read(strings.TrimSuffix(s.Name, ".yang"))
		}
		if err != nil {
			return ms, []string{"read: " + err.Error()}, diags
		}
	}
	for _, s := range rej {
		diags = append(diags, diagnose(ms, s, dir))
	}
	var errs []string
	for _, e := range ms.Process() {
		errs = append(errs, e.Error())
	}
	sort.Strings(errs)
	return ms, errs, diags
}

// writeSet puts the sources of a set into a directory of its own below the working directory
// of the process (which is otherwise empty: goyang looks for files in "." first).
func writeSet(name string, srcs []modSrc) string {
	dir, err := filepath.Abs(name)
	if err != nil {
		lib.Fatal("%v", err)
	}
	if err := os.MkdirAll(dir, 0o755); err != nil {
		lib.Fatal("%v", err)
	}
	for _, s := range srcs {
		if err := os.WriteFile(filepath.Join(dir, s.Name), []byte(s.Text), 0o644); err != nil {
			lib.Fatal("%v", err)
		}
	}
	return dir
}

// modNames: one key of the module table per loaded module object: the bare name for the revision
// the bare name refers to (its name@revision key is the same object), name@revision for every
// other (older) revision of that name.
func modNames(ms *yang.Modules) []string {
	var ns []string
	for k, m := range ms.Modules {
		if i := strings.Index(k, "@"); i >= 0 && ms.Modules[k[:i]] == m {
			continue
		}
		ns = append(ns, k)
	}
	sort.Strings(ns)
	return ns
}

// rootNames: the trees of a processed set: one per module and one per submodule (Process converts
// the submodules too; the tree of a submodule holds what is written in it, and for a submodule
// that no module includes it is the only place where its nodes are).
func rootNames(ms *yang.Modules) []string {
	ns := modNames(ms)
	var ss []string
	for k := range ms.SubModules {
		if !strings.Contains(k, "@") && ms.Modules[k] == nil {
			ss = append(ss, k)
		}
	}
	sort.Strings(ss)
	return append(ns, ss...)
}

// rootOf: the module or submodule of that name.
func rootOf(ms *yang.Modules, name string) *yang.Module {
	if m := ms.Modules[name]; m != nil {
		return m
	}
	return ms.SubModules[name]
}

// isOrphan: a submodule that no import/include walk from a module reaches.
func isOrphan(ms *yang.Modules, name string) bool {
	sm := ms.SubModules[name]
	if sm == nil || ms.Modules[name] != nil {
		return false
	}
	for _, mm := range []map[string]*yang.Module{ms.Modules, ms.SubModules} {
		for _, m := range mm {
			for _, inc := range m.Include {
				if inc.Name == name {
					return false
				}
			}
		}
	}
	return true
}

type node struct {
	mod  string
	path []string // names below the module entry ("input"/"output" for rpc parts)
	e    *yang.Entry
}

// walk lists every existing node of the tree below root (directory children and the declared
// input/output of rpcs), in sorted order.
func walk(mod string, root *yang.Entry) []node {
	var out []node
	var rec func(e *yang.Entry, path []string)
	rec = func(e *yang.Entry, path []string) {
		out = append(out, node{mod, append([]string{}, path...), e})
		var ks []string
		for k := range e.Dir {
			ks = append(ks, k)
		}
		sort.Strings(ks)
		for _, k := range ks {
			rec(e.Dir[k], append(path, k))
		}
		if e.RPC != nil {
			if e.RPC.Input != nil {
				rec(e.RPC.Input, append(path, "input"))
			}
			if e.RPC.Output != nil {
				rec(e.RPC.Output, append(path, "output"))
			}
		}
	}
	rec(root, nil)
	return out
}

func guard(f func() string) (s string) {
	defer func() {
		if r := recover(); r != nil {
			s = fmt.Sprintf("PANIC %v", r)
		}
	}()
	return f()
}

// listAttr renders the list attributes of a list / leaf-list ("-" for other nodes).
func listAttr(e *yang.Entry) string {
	if e.ListAttr == nil {
		return "-"
	}
	ob := "-"
	if e.ListAttr.OrderedBy != nil {
		ob = e.ListAttr.OrderedBy.Name
	}
	return fmt.Sprintf("min%d/max%d/%s/user=%v", e.ListAttr.MinElements, e.ListAttr.MaxElements, ob, e.ListAttr.OrderedByUser)
}

func describe(e *yang.Entry) string {
	return guard(func() string {
		var b strings.Builder
		fmt.Fprintf(&b, "%s kind=%v ro=%v", e.Path(), e.Kind, e.ReadOnly())
		if ns := e.Namespace(); ns != nil {
			fmt.Fprintf(&b, " ns=%s", ns.Name)
		}
		im, err := e.InstantiatingModule()
		fmt.Fprintf(&b, " im=%s/%v", im, err != nil)
		fmt.Fprintf(&b, " def=%q la=%s", e.DefaultValues(), listAttr(e))
		if e.Type != nil {
			fmt.Fprintf(&b, " type=%s/%v range=%v length=%v", e.Type.Name, e.Type.Kind, e.Type.Range, e.Type.Length)
		}
		return b.String()
	})
}

// pipelineLight is the same run with a cheaper dump, for the deep sets (the full dump costs
// depth x nodes): the errors of Process, the number of nodes, every 25th node and the last one
// described, the entry errors.
func pipelineLight(srcs []modSrc, rej []modSrc) string {
	return guard(func() string {
		ms, errs, diags := loadRej(srcs, "", rej)
		var b strings.Builder
		for _, d := range diags {
			b.WriteString(d + "\n")
		}
		fmt.Fprintf(&b, "errors %q\n", errs)
		for _, name := range modNames(ms) {
			root := yang.ToEntry(ms.Modules[name])
			nodes := walk(name, root)
			fmt.Fprintf(&b, "module %s: %d nodes\n", name, len(nodes))
			for i, n := range nodes {
				if i%25 == 0 || i == len(nodes)-1 {
					b.WriteString(describe(n.e))
					b.WriteByte('\n')
				}
				if len(n.e.Errors) > 0 {
					fmt.Fprintf(&b, "errors at %s: %d\n", strings.Join(n.path, "/"), len(n.e.Errors))
				}
			}
			var es []string
			for _, e := range root.GetErrors() {
				es = append(es, e.Error())
			}
			sort.Strings(es)
			fmt.Fprintf(&b, "entry errors %q\n", es)
		}
		return b.String()
	})
}

// pipeline is the full load-process-convert-walk run on a private module set.
func pipeline(srcs []modSrc, dir string, rej []modSrc) string {
	return guard(func() string {
		ms, errs, diags := loadRej(srcs, dir, rej)
		var b strings.Builder
		for _, d := range diags {
			b.WriteString(d + "\n")
		}
		fmt.Fprintf(&b, "errors %q\n", errs)
		for _, name := range rootNames(ms) {
			root := yang.ToEntry(rootOf(ms, name))
			fmt.Fprintf(&b, "module %s\n", name)
			for _, n := range walk(name, root) {
				b.WriteString(describe(n.e))
				b.WriteByte('\n')
			}
			var pb bytes.Buffer
			root.Print(&pb)
			b.Write(pb.Bytes())
			var es []string
			for _, e := range root.GetErrors() {
				es = append(es, e.Error())
			}
			sort.Strings(es)
			fmt.Fprintf(&b, "entry errors %q\n", es)
		}
		return b.String()
	})
}

// ---------------------------------------------------------------------------------------------
// reader script

type op struct {
	Kind string   `json:"kind"`
	Mod  string   `json:"mod"`
	Path []string `json:"path,omitempty"`
	Arg  string   `json:"arg,omitempty"`
}

func (o op) String() string {
	return fmt.Sprintf("%s %s /%s %s", o.Kind, o.Mod, strings.Join(o.Path, "/"), o.Arg)
}

// locate follows names from the module entry, reading only.
func locate(roots map[string]*yang.Entry, mod string, path []string) *yang.Entry {
	e := roots[mod]
	for _, p := range path {
		if e == nil {
			return nil
		}
		switch {
		case e.RPC != nil && p == "input":
			e = e.RPC.Input
		case e.RPC != nil && p == "output":
			e = e.RPC.Output
		default:
			e = e.Dir[p]
		}
	}
	return e
}

// script derives the reader operations from the structure of a processed set, reading only (no
// look-up is made here: the first look-ups on the shared set are the readers').  Every path names
// an existing node.  `first` operations come first of all, in this order for every reader: the
// prefixed look-ups from inside the tree of an orphan submodule (the leafref paths of its leaves,
// the paths of its must / when expressions), whose imports nothing linked or used while the set
// was processed.  `nsFirst` follow: the namespace look-ups.
func script(ms *yang.Modules, roots map[string]*yang.Entry, r *rand.Rand) (first, nsFirst, rest []op) {
	// every namespace some loaded module declares (older revisions included), once each, and one
	// that nobody declares
	seenNS := map[string]bool{}
	for _, name := range modNames(ms) {
		if m := ms.Modules[name]; m.Namespace != nil && !seenNS[m.Namespace.Name] {
			seenNS[m.Namespace.Name] = true
			nsFirst = append(nsFirst, op{Kind: "fmbn", Mod: name, Arg: m.Namespace.Name})
		}
	}
	nsFirst = append(nsFirst, op{Kind: "fmbn", Arg: "urn:no-such-namespace"})
	names := rootNames(ms)
	var all []node
	for _, name := range names {
		rest = append(rest, op{Kind: "toentry", Mod: name}, op{Kind: "errs", Mod: name}, op{Kind: "print", Mod: name})
		all = append(all, walk(name, roots[name])...)
	}
	for _, n := range all {
		orphan := isOrphan(ms, n.mod)
		if n.e.Type != nil && n.e.Type.Kind == yang.Yleafref && n.e.Type.Path != "" {
			// what a tool does with a leafref: r.Find(r.Type.Path)
			o := op{Kind: "find-path", Mod: n.mod, Path: n.path}
			if orphan {
				first = append(first, o)
			} else {
				rest = append(rest, o)
			}
		}
		if orphan {
			for _, x := range xpathsOf(n.e.Node) {
				first = append(first, op{Kind: "find-from", Mod: n.mod, Path: n.path, Arg: x})
			}
		}
	}
	for _, n := range all {
		nsFirst = append(nsFirst, op{Kind: "im", Mod: n.mod, Path: n.path})
		rest = append(rest, op{Kind: "ns", Mod: n.mod, Path: n.path}, op{Kind: "ro", Mod: n.mod, Path: n.path},
			op{Kind: "dv", Mod: n.mod, Path: n.path})
		if len(n.e.Errors) > 0 || len(n.path)%3 == 1 {
			// the error accessor on inner nodes and leaves too, in particular on every node
			// that holds errors of its own
			rest = append(rest, op{Kind: "errs-at", Mod: n.mod, Path: n.path})
		}
		if len(n.path) == 0 {
			continue
		}
		rel := strings.Join(n.path, "/")
		rest = append(rest, op{Kind: "find-rel", Mod: n.mod, Path: n.path, Arg: rel})
		// absolute, from some other node: without a prefix inside the same tree; with the prefix
		// under which the module that *defines* the context node (Find resolves prefixes
		// there) knows the target's module, when it knows it at all
		from := all[r.Intn(len(all))]
		if from.mod == n.mod {
			rest = append(rest, op{Kind: "find-from", Mod: from.mod, Path: from.path, Arg: "/" + rel})
		}
		if pfx := prefixFor(ms, from.e, n.mod); pfx != "" {
			rest = append(rest, op{Kind: "find-from", Mod: from.mod, Path: from.path, Arg: "/" + pfx + ":" + rel})
			if len(n.path) == 1 {
				rest = append(rest, op{Kind: "fmbp", Mod: from.mod, Path: from.path, Arg: pfx})
			}
		}
		if len(n.path) > 1 && r.Intn(4) == 0 {
			up := strings.Join(n.path[:len(n.path)-1], "/") + "/../" + n.path[len(n.path)-2] + "/./" + n.path[len(n.path)-1]
			if n.path[len(n.path)-2] != "input" && n.path[len(n.path)-2] != "output" {
				rest = append(rest, op{Kind: "find-rel", Mod: n.mod, Path: n.path, Arg: up})
			}
		}
	}
	return
}

// xpathsOf: the absolute paths at the start of the must / when expressions of a container or leaf
// (the generator writes expressions of the form `/q:a/q:b` or `/q:a/q:b != 'x'`).
func xpathsOf(n yang.Node) []string {
	var exprs []string
	add := func(v *yang.Value) {
		if v != nil {
			exprs = append(exprs, v.Name)
		}
	}
	switch n := n.(type) {
	case *yang.Container:
		add(n.When)
		for _, m := range n.Must {
			if m != nil {
				exprs = append(exprs, m.Name)
			}
		}
	case *yang.Leaf:
		add(n.When)
		for _, m := range n.Must {
			if m != nil {
				exprs = append(exprs, m.Name)
			}
		}
	}
	var out []string
	for _, x := range exprs {
		if f := strings.Fields(x); len(f) > 0 && strings.HasPrefix(f[0], "/") {
			out = append(out, f[0])
		}
	}
	return out
}

// stormOps: one ToEntry call per AST node that stands behind an entry of the processed trees
// (module, container, list, leaf, the stand-in leaf of a leaf-list, choice, case, rpc, input,
// output, notification, anydata, nodes that came in through uses / augment) and per grouping of
// the modules.  Every reader runs them in the SAME order after a barrier, several times, so that
// many goroutines ask for the same node at once.
func stormOps(ms *yang.Modules, roots map[string]*yang.Entry) []op {
	var out []op
	for _, name := range rootNames(ms) {
		for _, n := range walk(name, roots[name]) {
			if n.e.Node != nil {
				out = append(out, op{Kind: "toentry-node", Mod: n.mod, Path: n.path})
			}
		}
		for _, g := range rootOf(ms, name).Grouping {
			out = append(out, op{Kind: "toentry-grouping", Mod: name, Arg: g.Name})
		}
	}
	return out
}

// errStormOps: GetErrors on every node that holds errors of its own and on every ancestor of such a
// node (so: inner nodes with several own errors and erroneous descendants, their parents, the
// module entries).  Part of the storm: every reader runs them in the same order after the
// barrier, several times, and each returned list (order included) is compared with the
// sequential one.  Empty for a set without errors.
func errStormOps(ms *yang.Modules, roots map[string]*yang.Entry) []op {
	var out []op
	for _, name := range rootNames(ms) {
		nodes := walk(name, roots[name])
		marked := map[string]bool{}
		for _, n := range nodes {
			if len(n.e.Errors) > 0 {
				for d := 0; d <= len(n.path); d++ {
					marked[strings.Join(n.path[:d], "/")] = true
				}
			}
		}
		for _, n := range nodes {
			if marked[strings.Join(n.path, "/")] {
				out = append(out, op{Kind: "errs-at", Mod: n.mod, Path: n.path})
			}
		}
	}
	return out
}

// nodeOf: the AST node a ToEntry operation is about.
func nodeOf(ms *yang.Modules, roots map[string]*yang.Entry, o op) yang.Node {
	switch o.Kind {
	case "toentry-node":
		if e := locate(roots, o.Mod, o.Path); e != nil {
			return e.Node
		}
	case "toentry-grouping":
		for _, g := range rootOf(ms, o.Mod).Grouping {
			if g.Name == o.Arg {
				return g
			}
		}
	}
	return nil
}

// prime is part of building a set (one goroutine, before any reader): it converts every node of
// the ToEntry operations once - synthetic nodes (implied cases) and unused groupings were not
// converted by Process - and records the entry the cache then holds.  Whether the cache really
// holds it is the guard of allow-list entry toentry-miss: a second call must return the same
// entry.  The nodes for which it does not are reported.
func prime(ms *yang.Modules, roots map[string]*yang.Entry, ops []op) (pre map[string]*yang.Entry, problems []string) {
	pre = map[string]*yang.Entry{}
	for _, o := range ops {
		n := nodeOf(ms, roots, o)
		if n == nil {
			continue
		}
		var first, second *yang.Entry
		if guard(func() string { first = yang.ToEntry(n); second = yang.ToEntry(n); return "" }) != "" {
			continue // a node ToEntry cannot take (no module above it): crashes are C01's subject
		}
		pre[o.String()] = second
		if first != second && len(problems) < 5 {
			problems = append(problems, fmt.Sprintf("GUARD toentry-miss: ToEntry(%s %s) called twice in a row on a processed set returns two different entries: the node is converted again on every call instead of coming from the cache (%s)",
				n.Kind(), n.NName(), o))
		}
	}
	return
}

// entryDump: what a caller of ToEntry sees of the entry it got.
func entryDump(e *yang.Entry) string {
	if e == nil {
		return "nil"
	}
	var es []string
	for _, err := range e.Errors {
		es = append(es, err.Error())
	}
	tn := "-"
	if e.Type != nil {
		tn = e.Type.Name
	}
	return fmt.Sprintf("name=%q kind=%v type=%s def=%q la=%s children=%d errors=%q", e.Name, e.Kind, tn, e.Default, listAttr(e), len(e.Dir), es)
}

// prefixFor returns the prefix by which the module defining the context node refers to module
// `target` ("" when it does not import it): exactly the prefixes Find can resolve.
func prefixFor(ms *yang.Modules, ctx *yang.Entry, target string) string {
	if ctx.Node == nil {
		return ""
	}
	root := yang.RootNode(ctx.Node)
	if root == nil {
		return ""
	}
	own := root.Name
	if root.Kind() == "submodule" {
		if root.BelongsTo == nil {
			return ""
		}
		own = root.BelongsTo.Name
	} else if ms.Modules[own] != root {
		// an older revision: its tree goes by name@revision here (see modNames), and its own
		// prefix leads into that tree, not into the one of the revision the bare name refers to
		own = root.FullName()
	}
	if own == target {
		return root.GetPrefix()
	}
	for _, im := range root.Import {
		if im.Name == target && im.Prefix != nil {
			return im.Prefix.Name
		}
	}
	return ""
}

// run executes one reader operation against a processed set.
func run(ms *yang.Modules, roots map[string]*yang.Entry, pre map[string]*yang.Entry, o op) string {
	return guard(func() string {
		switch o.Kind {
		case "toentry-node", "toentry-grouping":
			n := nodeOf(ms, roots, o)
			if n == nil {
				return "HARNESS: node not found"
			}
			got := yang.ToEntry(n)
			where := "cached"
			if pre != nil && got != pre[o.String()] {
				where = "NOT-THE-CACHED-ENTRY"
			}
			return entryDump(got) + " " + where
		case "fmbn":
			return fmbnAnswer(ms, o.Arg)
		case "toentry":
			if yang.ToEntry(rootOf(ms, o.Mod)) != roots[o.Mod] {
				return "GUARD toentry-miss: ToEntry of a processed module did not return the cached entry"
			}
			return "cached"
		case "errs":
			var es []string
			for _, e := range roots[o.Mod].GetErrors() {
				es = append(es, e.Error())
			}
			sort.Strings(es)
			return fmt.Sprintf("%q", es)
		case "print":
			var b bytes.Buffer // a buffer of its own: guard of indent-writer-private
			roots[o.Mod].Print(&b)
			h := sha256.Sum256(b.Bytes())
			return fmt.Sprintf("%d:%x", b.Len(), h[:6])
		}
		e := locate(roots, o.Mod, o.Path)
		if e == nil {
			return "HARNESS: node not found"
		}
		switch o.Kind {
		case "im":
			return imAnswer(e)
		case "fmbp":
			m := yang.FindModuleByPrefix(e.Node, o.Arg)
			if m == nil {
				return "nil"
			}
			return m.Name
		case "errs-at":
			// the order is part of the answer here (GetErrors sorts)
			var es []string
			for _, err := range e.GetErrors() {
				es = append(es, err.Error())
			}
			return fmt.Sprintf("%q", es)
		case "ns":
			return e.Namespace().Name
		case "ro":
			return fmt.Sprint(e.ReadOnly())
		case "dv":
			s, ok := e.SingleDefaultValue()
			return fmt.Sprintf("%q %q %v la=%s", e.DefaultValues(), s, ok, listAttr(e))
		case "find-rel":
			got := roots[o.Mod].Find(o.Arg)
			if got != e {
				return "Find returned a different node: " + got.Path()
			}
			return got.Path()
		case "find-from":
			got := e.Find(o.Arg)
			if got == nil {
				return "nil"
			}
			return got.Path()
		case "find-path":
			// the target of a leafref, and what a caller then asks about it
			if e.Type == nil {
				return "HARNESS: not a typed leaf"
			}
			got := e.Find(e.Type.Path)
			if got == nil {
				return e.Type.Path + " -> nil"
			}
			im, err := got.InstantiatingModule()
			return fmt.Sprintf("%s -> %s ns=%s im=%s/%v ro=%v", e.Type.Path, got.Path(), got.Namespace().Name, im, err != nil, got.ReadOnly())
		}
		return "HARNESS: unknown op"
	})
}

const clauseSameResult = `C19 clause "every caller obtains the result a sequential run would give"`

// opCall words a reader operation as the call it makes.
func opCall(o op) string {
	at := o.Mod + ":/" + strings.Join(o.Path, "/")
	switch o.Kind {
	case "fmbn":
		return fmt.Sprintf("Modules.FindModuleByNamespace(%q)", o.Arg)
	case "im":
		return "Entry.InstantiatingModule() at " + at
	case "ns":
		return "Entry.Namespace() at " + at
	case "fmbp":
		return fmt.Sprintf("FindModuleByPrefix(node of %s, %q)", at, o.Arg)
	case "find-from", "find-rel":
		return fmt.Sprintf("Entry.Find(%q) from %s", o.Arg, at)
	case "find-path":
		return "Entry.Find(leafref path) from " + at
	case "errs", "errs-at":
		return "Entry.GetErrors() at " + at
	}
	return o.String()
}

// nsTable: the module table of a set as far as namespaces go: every key, the object's full name
// when the key is a bare name that stands for a revision, and the namespace the module declares.
func nsTable(ms *yang.Modules) string {
	var ks []string
	for k := range ms.Modules {
		ks = append(ks, k)
	}
	sort.Strings(ks)
	var out []string
	for _, k := range ks {
		m := ms.Modules[k]
		ns := "-"
		if m.Namespace != nil {
			ns = m.Namespace.Name
		}
		if full := m.FullName(); full != k {
			out = append(out, fmt.Sprintf("%s (= %s) namespace %s", k, full, ns))
		} else {
			out = append(out, fmt.Sprintf("%s namespace %s", k, ns))
		}
	}
	return strings.Join(out, ", ")
}

// fmbnAnswer: the answer of the namespace-to-module look-up in canonical form: WHICH object came
// back (its name, and the key of the module table under which that very object is filed) or the
// text of the error.  (The text is compared between two runs of the same code on the same set:
// concurrent against sequential; the look-up visits the modules in sorted order, so it is fixed.)
func fmbnAnswer(ms *yang.Modules, ns string) string {
	m, err := ms.FindModuleByNamespace(ns)
	switch {
	case err != nil && m != nil:
		return fmt.Sprintf("module %s AND error %q", m.Name, err.Error())
	case err != nil:
		return fmt.Sprintf("error %q", err.Error())
	case m == nil:
		return "no module, no error"
	}
	full := m.FullName()
	if ms.Modules[full] != m {
		return fmt.Sprintf("module %s, an object that is not Modules[%q]", m.Name, full)
	}
	return fmt.Sprintf("module %s, the object filed as Modules[%q]", m.Name, full)
}

// imAnswer: Entry.InstantiatingModule in canonical form: the module name, or the error text.
func imAnswer(e *yang.Entry) string {
	s, err := e.InstantiatingModule()
	if err != nil {
		return fmt.Sprintf("%q, error %q", s, err.Error())
	}
	return fmt.Sprintf("%q", s)
}

// snapshot of what the allow-listed guards must leave unchanged
type snapshot struct {
	errCount map[string]int
	rpcParts map[*yang.Entry][2]*yang.Entry
	modKeys  string
}

func snap(ms *yang.Modules, roots map[string]*yang.Entry) snapshot {
	s := snapshot{errCount: map[string]int{}, rpcParts: map[*yang.Entry][2]*yang.Entry{}}
	for name, root := range roots {
		for _, n := range walk(name, root) {
			s.errCount[name] += len(n.e.Errors)
			if n.e.RPC != nil {
				s.rpcParts[n.e] = [2]*yang.Entry{n.e.RPC.Input, n.e.RPC.Output}
			}
		}
	}
	var ks []string
	for k := range ms.Modules {
		ks = append(ks, "m:"+k)
	}
	for k := range ms.SubModules {
		ks = append(ks, "s:"+k)
	}
	sort.Strings(ks)
	s.modKeys = strings.Join(ks, ",")
	return s
}

func (a snapshot) diff(b snapshot) []string {
	var out []string
	for k, v := range a.errCount {
		if b.errCount[k] != v {
			out = append(out, fmt.Sprintf("GUARD find-unknown-prefix: errors recorded under module %s went from %d to %d", k, v, b.errCount[k]))
		}
	}
	for e, p := range a.rpcParts {
		if q, ok := b.rpcParts[e]; !ok || q != p {
			out = append(out, "GUARD find-lazy-rpc-input/output: the input/output entry of rpc "+e.Name+" changed")
		}
	}
	if a.modKeys != b.modKeys {
		out = append(out, "GUARD findmodule-read: the module tables changed from "+a.modKeys+" to "+b.modKeys)
	}
	return out
}

// ---------------------------------------------------------------------------------------------
// namespace duels

// duelSets: fresh sets per round on which all goroutines make the same look-ups together.
const duelSets = 5

// duelReps: how often every goroutine repeats the look-ups on one set.
const duelReps = 3

// duelSet: a SMALL module set made for the namespace-to-module look-up: 3-5 modules drawn from
// three names (a, b, c), four revisions (none, 2018-01-01, 2019-06-01, 2020-01-01) and three
// namespaces (urn:x, urn:y, urn:z), each (name, revision) once, in a random load order; in half of
// the sets the first two are forced to be two DIFFERENT modules with ONE namespace.  So a set has,
// in varying combination: a namespace two or three different modules declare (sequential answer:
// an error, never cached), several revisions of one module with one namespace (a tie-break: the
// revision the bare name refers to), an older revision with a namespace only it declares (found
// under its name@revision key), an older revision that shares its namespace with another
// module, a module without a revision statement outranked by a revision of the same name, a
// namespace with exactly one module, namespaces nobody declares.  Every module holds one
// container with one leaf (base statement kinds only), so that loading costs next to nothing.
func duelSet(r *rand.Rand) []modSrc {
	names := []string{"a", "b", "c"}
	revs := []string{"", "2018-01-01", "2019-06-01", "2020-01-01"}
	nss := []string{"urn:x", "urn:y", "urn:z"}
	n := 3 + r.Intn(3)
	force := r.Intn(2) == 0
	seen := map[string]bool{}
	var out []modSrc
	first := -1
	firstNS := ""
	for len(out) < n {
		ni, rv, ns := r.Intn(3), revs[r.Intn(4)], nss[r.Intn(3)]
		if force && len(out) == 1 {
			ni, ns = (first+1+r.Intn(2))%3, firstNS
		}
		key := names[ni] + "@" + rv
		if seen[key] {
			continue
		}
		seen[key] = true
		if len(out) == 0 {
			first, firstNS = ni, ns
		}
		file, revStmt, tag := names[ni], "", "norev"
		if rv != "" {
			file, revStmt, tag = key, "  revision "+rv+";\n", strings.ReplaceAll(rv, "-", "")
		}
		out = append(out, modSrc{Name: file + ".yang",
			Text: fmt.Sprintf("module %s {\n  yang-version 1.1;\n  namespace %q;\n  prefix %s;\n%s  container c%s { leaf v { type string; } }\n}\n", names[ni], ns, names[ni], revStmt, tag)})
	}
	return out
}

// duelQueries: the calls every goroutine makes on a duel set, in this order: the look-up of every
// namespace of the alphabet (declared by one module, by several, or by none) and of one more
// that nobody declares, in an order drawn per set, then namespace and instantiating module of the
// leaf of every loaded module object.
func duelQueries(r *rand.Rand) []op {
	var qs []op
	nss := []string{"urn:x", "urn:y", "urn:z", "urn:nobody"}
	for _, i := range r.Perm(len(nss)) {
		qs = append(qs, op{Kind: "fmbn", Arg: nss[i]})
	}
	return qs
}

// duelBuilt: a loaded and processed duel set, with the leaf of every module object.
type duelBuilt struct {
	ms     *yang.Modules
	leaves map[string]*yang.Entry // by key of the module table (see modNames)
	cname  map[string]string      // the name of the container above the leaf
	errs   []string
	bad    string // why the set cannot be used ("" = fine)
}

func buildDuel(srcs []modSrc) duelBuilt {
	var d duelBuilt
	d.bad = guard(func() string {
		d.ms, d.errs = load(srcs, "")
		d.leaves, d.cname = map[string]*yang.Entry{}, map[string]string{}
		for _, name := range modNames(d.ms) {
			root := yang.ToEntry(d.ms.Modules[name])
			for _, c := range root.Dir {
				if v := c.Dir["v"]; v != nil {
					d.leaves[name], d.cname[name] = v, c.Name
				}
			}
		}
		return ""
	})
	if d.bad == "" && len(d.errs) > 0 {
		d.bad = fmt.Sprintf("does not process cleanly: %q", d.errs)
	}
	return d
}

// duelRun: one call on a duel set.
func duelRun(d duelBuilt, q op) string {
	return guard(func() string {
		switch q.Kind {
		case "fmbn":
			return fmbnAnswer(d.ms, q.Arg)
		case "im":
			return imAnswer(d.leaves[q.Mod])
		case "ns":
			return d.leaves[q.Mod].Namespace().Name
		}
		return "HARNESS: unknown op"
	})
}

// duelFull: the namespace queries plus, for the leaf of every module object, namespace and
// instantiating module (derived from the structure, reading only).
func duelFull(d duelBuilt, qs []op) []op {
	qs = append([]op{}, qs...)
	var ks []string
	for k := range d.leaves {
		ks = append(ks, k)
	}
	sort.Strings(ks)
	for _, k := range ks {
		path := []string{d.cname[k], "v"}
		qs = append(qs, op{Kind: "im", Mod: k, Path: path}, op{Kind: "ns", Mod: k, Path: path})
	}
	return qs
}

// duelPhase: namespace look-ups under contention, over FRESH sets: duelSets times per round a small
// set (duelSet) is loaded and processed by one goroutine, which makes no look-up on it; then ALL n
// goroutines of the round, lined up behind a start barrier and released together, make the same
// calls in the same order - the first-time (uncached) look-up of every namespace, then namespace
// and instantiating module of a leaf of every module - duelReps times over.  Afterwards,
// sequentially: a twin of the set, loaded afresh, is asked the same (the expected answers, first
// time and again), every concurrent answer is compared with it, and the set the goroutines used
// is asked once more (what the concurrent callers left in the cache must be what a sequential
// run leaves there).
func duelPhase(seed int64, round, n int) (evals int64, problems []string, sets, anomalies int) {
	r := rand.New(rand.NewSource(roundSeed(seed, round) + 23))
	for j := 0; j < duelSets; j++ {
		srcs := duelSet(r)
		base := duelQueries(r)
		d := buildDuel(srcs)
		if d.bad != "" {
			anomalies++
			continue
		}
		qs := duelFull(d, base)
		got := make([][]string, n)
		var ready, done sync.WaitGroup
		start := make(chan struct{})
		for g := 0; g < n; g++ {
			ready.Add(1)
			done.Add(1)
			go func(g int) {
				defer done.Done()
				out := make([]string, 0, duelReps*len(qs))
				ready.Done()
				<-start
				for rep := 0; rep < duelReps; rep++ {
					for _, q := range qs {
						out = append(out, duelRun(d, q))
					}
				}
				got[g] = out
			}(g)
		}
		ready.Wait()
		close(start)
		done.Wait()
		sets++
		// the sequential run: a twin loaded afresh
		twin := buildDuel(srcs)
		if twin.bad != "" {
			anomalies++
			continue
		}
		want := make([]string, len(qs))
		for rep := 0; rep < duelReps; rep++ {
			for i, q := range qs {
				a := duelRun(twin, q)
				if rep == 0 {
					want[i] = a
					if strings.HasPrefix(a, "PANIC") || strings.HasPrefix(a, "HARNESS") {
						anomalies++
					}
				} else if a != want[i] {
					anomalies++ // a sequential answer that changes when asked again: not C19's subject
				}
			}
		}
		table := nsTable(twin.ms)
		np := 0
		report := func(who string, i int, gotAns string) {
			if np++; np > 4 || len(problems) >= 12 {
				return
			}
			problems = append(problems, fmt.Sprintf("%s: %s: concurrent answer %s, sequential answer %s (%s, on a fresh processed set that all %d goroutines query together: namespace set %d of round %d); module table of the set: %s; sources: %s",
				clauseSameResult, opCall(qs[i]), gotAns, want[i], who, n, j, round, table, duelSources(srcs)))
		}
		for g := 0; g < n; g++ {
			for k, a := range got[g] {
				evals++
				if i := k % len(qs); a != want[i] {
					report(fmt.Sprintf("goroutine %d, call %d of %d", g, k/len(qs)+1, duelReps), i, a)
				}
			}
		}
		for i, q := range qs {
			evals++
			if a := duelRun(d, q); a != want[i] {
				report("one goroutine afterwards (what the concurrent callers left behind)", i, a)
			}
		}
	}
	return
}

// duelSources: the texts of a duel set on one line.
func duelSources(srcs []modSrc) string {
	var out []string
	for _, s := range srcs {
		out = append(out, s.Name+" = "+strings.Join(strings.Fields(s.Text), " "))
	}
	return strings.Join(out, " | ")
}

// ---------------------------------------------------------------------------------------------
// one round

type roundResult struct {
	Round       int      `json:"round"`
	Evals       int64    `json:"evals"`
	Problems    []string `json:"problems,omitempty"`
	SharedHash  string   `json:"shared_hash"`
	Nontrivial  bool     `json:"nontrivial"`
	Nodes       int      `json:"nodes"`
	Ops         int      `json:"ops"`
	FirstTimeNS int      `json:"first_time_ns"`
	Modules     int      `json:"modules"`
	WithErrors  bool     `json:"with_errors"`
	SharedErrs  int      `json:"shared_errors"`
	// UnexpectedErrs: a set generated as valid did not process cleanly; SeqAnomalies: sequential
	// answers that are wrong look-ups or panics (not C19's subject; the reference all the same)
	UnexpectedErrs bool     `json:"unexpected_errors"`
	SeqAnomalies   int      `json:"sequential_anomalies"`
	Kinds          []string `json:"kinds"` // optional statement kinds the sets of this round may use
	// Canary: not a round but the check at the end of a process (see canarySet)
	Canary bool `json:"canary,omitempty"`
	DirSet bool `json:"dir_set,omitempty"` // the shared set was loaded from a directory on the search path
	// StormOps: AST nodes on which all readers called ToEntry together (stormReps times each)
	StormOps int `json:"storm_ops"`
	// ErrStormOps: entries with errors of their own, and their ancestors, on which all readers
	// called GetErrors together (stormReps times each); OwnErrCounts: the numbers of own errors
	// of those that also have an erroneous descendant
	ErrStormOps  int   `json:"err_storm_ops"`
	OwnErrCounts []int `json:"own_error_counts,omitempty"`
	// OrphanFirst: prefixed look-ups from inside the tree of an orphan submodule, made by every
	// reader before anything else; LeafrefFinds: r.Find(r.Type.Path) operations of the script
	OrphanFirst  int `json:"orphan_first_lookups"`
	LeafrefFinds int `json:"leafref_finds"`
	// Wide: number of children of the wide directory of the shared set (0 = none);
	// WidePrivate: private sets of the round with a wide directory
	Wide        int `json:"wide,omitempty"`
	WidePrivate int `json:"wide_private,omitempty"`
	// RejectedTexts: texts with a syntax error (or an unknown statement) loaded by the
	// goroutines of the round on the way, diagnostics compared; Between: such texts loaded
	// sequentially before the round
	RejectedTexts int `json:"rejected_texts"`
	Between       int `json:"rejected_between"`
	// Twin: the shared set has two or three different modules with one namespace; Revs: it has
	// several revisions of one module; TwinPrivate, RevsPrivate: private sets of such shapes;
	// ErrorNS: namespace look-ups and instantiating-module queries of the reader script whose
	// sequential answer is an error; DuelSets: fresh small sets of the round on which all
	// goroutines made the same namespace look-ups together (see duelPhase)
	Twin        bool `json:"twin,omitempty"`
	Revs        bool `json:"revs,omitempty"`
	TwinPrivate int  `json:"twin_private,omitempty"`
	RevsPrivate int  `json:"revs_private,omitempty"`
	ErrorNS     int  `json:"error_ns,omitempty"`
	DuelSets    int  `json:"duel_sets"`
	// DupTexts: texts with a single-valued substatement twice, one per (statement type, field)
	// pair, that every goroutine of the round loaded first of all (dup.go; all pairs in the first
	// round of a process, an eighth of them otherwise); AlreadySet: those of them whose sequential
	// diagnostic is "<keyword>: already set"
	DupTexts   int `json:"dup_texts"`
	AlreadySet int `json:"already_set"`
}

func roundSeed(seed int64, round int) int64 { return seed*1000003 + int64(round)*7919 + 17 }

// doRound: the concurrent phase comes FIRST.  Nothing in this process has touched the set's
// statement kinds before the goroutines are released (in the first round of a process nothing has
// touched goyang at all), so first-use writes of process-wide state happen while the other
// goroutines run.  The sequential reference answers are computed afterwards.
//
//	pipeline 0      loads and processes the shared set, derives the reader script from it
//	                (reading only), publishes it, then goes on with private sets like the others
//	pipelines 1..   load, process, convert, walk and dump private sets
//	readers         wait for the shared set, then run the script against it, namespace look-ups
//	                first, all released together
func doRound(seed int64, round, n, batch int) roundResult {
	r := rand.New(rand.NewSource(roundSeed(seed, round)))
	res := roundResult{Round: round}
	pal, kinds := paletteFor(seed, round, batch)
	res.Kinds = kinds
	withErrors := round%4 == 3
	// Every other round the shared set is a DIRECTORY set: its files are written to a directory
	// that is put on the search path and stays there, the modules are read by name, and import /
	// include statements carry revision-dates that are not the loaded revision.  Private sets are
	// directory sets at random.  (Files are written here, before any goroutine runs; this does
	// not touch goyang.)
	sharedDir := ""
	spal := sharedPalette(pal, round)
	shared, st := genSet(r, withErrors, spal)
	// the rejected texts of the round come from a generator of their own
	rr := rand.New(rand.NewSource(roundSeed(seed, round) + 11))
	sharedRej := rejectedFor(rr, fmt.Sprintf("r%d-shared", round))
	if round%2 == 1 {
		sharedDir = writeSet(fmt.Sprintf("r%d/shared", round), append(append([]modSrc{}, shared...), sharedRej[1:]...))
		res.DirSet = true
	}
	if st.wide > 0 {
		res.Wide = spal.wide
	}
	res.Twin, res.Revs = st.twins > 0, st.revisions > 0
	defer os.RemoveAll(fmt.Sprintf("r%d", round))
	res.SharedHash = hashSet(shared)
	res.Modules = st.modules
	res.WithErrors = withErrors
	res.Nontrivial = st.modules >= 3 && st.rpcs > 0 && st.augments > 0 && st.uses > 0

	np := n / 2
	nr := n - np
	// Some pipelines work through three sets so that they are still running while the readers
	// query the shared set; with many pipelines the rest do one set each (time budget).
	type privSet struct {
		srcs  []modSrc
		dir   string
		light bool // deep set: cheaper dump
		// rejected texts loaded on the way: one on a throw-away Modules first, the others on the
		// set's own Modules before and between its sources (see loadRej)
		rej []modSrc
	}
	dump := func(ps privSet) string {
		if ps.light {
			return pipelineLight(ps.srcs, ps.rej)
		}
		return pipeline(ps.srcs, ps.dir, ps.rej)
	}
	privs := make([][]privSet, np)
	for k := range privs {
		sets := 3
		if np > 4 && k >= np/8 {
			sets = 1
		}
		// first of all a deep set, for every pipeline (every other one when there are many) at the same moment
		if np <= 4 || k%2 == 0 {
			privs[k] = append(privs[k], privSet{srcs: deepSet(r, pal), light: true, rej: rejectedFor(rr, fmt.Sprintf("r%d-p%d-deep", round, k))})
		}
		for q := 0; q < sets; q++ {
			ppal := pal
			ppal.pins = r.Intn(2) == 0
			// a private set with errors has a wide directory too (small widths more often)
			ppal.wide = []int{24, 24, 32, 32, 64, 200}[r.Intn(6)]
			// a third of the private sets have two modules with one namespace, a third several
			// revisions of one module (their dumps hold the instantiating module of every node)
			ppal.twin, ppal.revs = r.Intn(3) == 0, r.Intn(3) == 0
			set, pst := genSet(r, r.Intn(5) == 0, ppal)
			res.TwinPrivate += pst.twins
			res.RevsPrivate += pst.revisions
			ps := privSet{srcs: set, rej: rejectedFor(rr, fmt.Sprintf("r%d-p%d-%d", round, k, q))}
			if r.Intn(3) == 0 {
				ps.dir = writeSet(fmt.Sprintf("r%d/p%d-%d", round, k, q), append(append([]modSrc{}, set...), ps.rej[1:]...))
			}
			res.RejectedTexts += len(ps.rej)
			res.WidePrivate += pst.wide
			privs[k] = append(privs[k], ps)
		}
	}

	// written by pipeline 0 before it closes sharedReady, read by the readers after it
	var (
		shMS           *yang.Modules
		shErrs         []string
		shDiags        []string
		shRoots        = map[string]*yang.Entry{}
		firstOps       []op
		nsOps, restOps []op
		storm          []op
		nToEntryStorm  int
		shPre          map[string]*yang.Entry
		primeProblems  []string
		ops            []op
		before         snapshot
		builderPanic   string
	)
	start := make(chan struct{})
	sharedReady := make(chan struct{})
	got := make([][]string, nr)
	gotStorm := make([][]string, nr)
	const stormReps = 3
	var stormBarrier sync.WaitGroup
	stormBarrier.Add(nr)
	gotDump := make([][]string, np)
	// first of all, every goroutine: the "already set" storm (dup.go)
	dups := newDupPlan(round, n)
	gotDup := make([][]string, n)
	var wg sync.WaitGroup
	for k := 0; k < np; k++ {
		wg.Add(1)
		go func(k int) {
			defer wg.Done()
			<-start
			gotDup[k] = dups.storm(dupWho(k))
			if k == 0 {
				func() {
					defer close(sharedReady)
					builderPanic = guard(func() string {
						shMS, shErrs, shDiags = loadRej(shared, sharedDir, sharedRej)
						for _, name := range rootNames(shMS) {
							shRoots[name] = yang.ToEntry(rootOf(shMS, name))
						}
						// (deriving the script reads the structure only: no Find, no prefix is
						// resolved on the shared set before the readers do it)
						firstOps, nsOps, restOps = script(shMS, shRoots, rand.New(rand.NewSource(roundSeed(seed, round)+1)))
						ops = append(append(append([]op{}, firstOps...), nsOps...), restOps...)
						storm = stormOps(shMS, shRoots)
						nToEntryStorm = len(storm)
						shPre, primeProblems = prime(shMS, shRoots, storm)
						storm = append(storm, errStormOps(shMS, shRoots)...)
						before = snap(shMS, shRoots)
						return ""
					})
				}()
			}
			for _, set := range privs[k] {
				gotDump[k] = append(gotDump[k], dump(set))
			}
		}(k)
	}
	for k := 0; k < nr; k++ {
		wg.Add(1)
		go func(k int) {
			defer wg.Done()
			<-start
			gotDup[np+k] = dups.storm(dupWho(np + k))
			<-sharedReady
			if builderPanic != "" {
				stormBarrier.Done()
				return
			}
			pr := rand.New(rand.NewSource(roundSeed(seed, round) + 100 + int64(k)))
			out := make([]string, len(ops))
			// 0. the look-ups from inside an orphan submodule: the first prefixed look-ups ever
			// made through its imports, by all readers, in the same order
			nf := len(firstOps)
			for i := 0; i < nf; i++ {
				out[i] = run(shMS, shRoots, shPre, ops[i])
			}
			// 1. the namespace look-ups, first-time for everybody
			for _, i := range pr.Perm(len(nsOps)) {
				out[nf+i] = run(shMS, shRoots, shPre, ops[nf+i])
			}
			// 2. the storm: all readers together, same nodes in the same order (ToEntry on every
			// AST node, then GetErrors on every entry with errors at or below it)
			stormBarrier.Done()
			stormBarrier.Wait()
			sout := make([]string, len(storm))
			for rep := 0; rep < stormReps; rep++ {
				for i, o := range storm {
					ans := run(shMS, shRoots, shPre, o)
					switch {
					case rep == 0:
						sout[i] = ans
					case ans != sout[i] && !strings.Contains(sout[i], " | repetition "):
						sout[i] = ans + " | repetition 0 gave: " + sout[i]
					}
				}
			}
			gotStorm[k] = sout
			// 3. everything else, in an order of its own
			for _, i := range pr.Perm(len(restOps)) {
				out[nf+len(nsOps)+i] = run(shMS, shRoots, shPre, ops[nf+len(nsOps)+i])
			}
			got[k] = out
		}(k)
	}
	close(start)
	wg.Wait()

	// ---- namespace look-ups under contention on fresh small sets (all n goroutines together)
	{
		ev, probs, sets, anom := duelPhase(seed, round, n)
		res.Evals += ev
		res.Problems = append(res.Problems, probs...)
		res.DuelSets = sets
		res.SeqAnomalies += anom
	}

	// ---- afterwards, sequentially: the reference answers
	{
		ev, already, probs := dups.check(gotDup)
		res.Evals += ev
		res.Problems = append(res.Problems, probs...)
		res.DupTexts, res.AlreadySet = len(dups.idx), already
	}
	if builderPanic != "" {
		// a crash while processing is C01's subject; without a shared set there is nothing to read
		res.SeqAnomalies++
	} else {
		res.SharedErrs = len(shErrs)
		if !withErrors && len(shErrs) > 0 {
			// the generator meant this set to be valid; the comparison with the sequential run
			// is still meaningful, but the round does not count as non-trivial
			res.UnexpectedErrs = true
			res.Nontrivial = false
		}
		for _, name := range rootNames(shMS) {
			for _, n := range walk(name, shRoots[name]) {
				res.Nodes++
				if len(n.e.Errors) > 2 && len(n.e.GetErrors()) > len(n.e.Errors) {
					res.OwnErrCounts = append(res.OwnErrCounts, len(n.e.Errors))
				}
			}
		}
		res.Ops = len(ops)
		res.FirstTimeNS = len(nsOps)
		res.OrphanFirst = len(firstOps)
		for _, o := range ops {
			if o.Kind == "find-path" {
				res.LeafrefFinds++
			}
		}
		// the expected answers come from a twin of the shared set, built now
		refMS, _, refDiags := loadRej(shared, sharedDir, sharedRej)
		res.RejectedTexts += len(sharedRej)
		for i, d := range refDiags {
			res.Evals++
			if i >= len(shDiags) || shDiags[i] != d {
				got := "none"
				if i < len(shDiags) {
					got = shDiags[i]
				}
				res.Problems = append(res.Problems, diagProblem("pipeline 0 while it loaded the shared set", got, d))
			}
		}
		refRoots := map[string]*yang.Entry{}
		for _, name := range rootNames(refMS) {
			refRoots[name] = yang.ToEntry(rootOf(refMS, name))
		}
		refPre, _ := prime(refMS, refRoots, storm)
		for i, o := range storm {
			want := run(refMS, refRoots, refPre, o)
			if strings.HasPrefix(want, "HARNESS") || strings.HasPrefix(want, "PANIC") {
				res.SeqAnomalies++
			}
			for k := 0; k < nr; k++ {
				res.Evals += stormReps
				if gotStorm[k][i] != want && len(res.Problems) < 20 {
					res.Problems = append(res.Problems, fmt.Sprintf("%s: reader %d of the shared set: storm (all readers at once, %d times), %s: concurrent answer %q, sequential answer %q", clauseSameResult, k, stormReps, opCall(o), gotStorm[k][i], want))
				}
			}
		}
		res.Problems = append(res.Problems, primeProblems...)
		res.StormOps = nToEntryStorm
		res.ErrStormOps = len(storm) - nToEntryStorm
		want := make([]string, len(ops))
		for i, o := range ops {
			want[i] = run(refMS, refRoots, refPre, o)
			switch {
			case strings.HasPrefix(want[i], "GUARD"):
				// a guard of the allow-list fires on an input the property speaks about
				res.Problems = append(res.Problems, fmt.Sprintf("sequential run: %s -> %s", o, want[i]))
			case (o.Kind == "fmbn" || o.Kind == "im") && strings.Contains(want[i], "error \""):
				res.ErrorNS++
			case strings.HasPrefix(want[i], "HARNESS"), strings.HasPrefix(want[i], "Find returned"), strings.HasPrefix(want[i], "PANIC"):
				// wrong or crashing look-ups are other properties' business (C17, C01); here the
				// sequential answer is the reference whatever it is.  Counted, not reported.
				res.SeqAnomalies++
			}
		}
		for k := 0; k < nr; k++ {
			for i := range ops {
				res.Evals++
				if got[k][i] != want[i] {
					p := fmt.Sprintf("%s: %s: concurrent answer %s, sequential answer %s (reader %d of the shared set)", clauseSameResult, opCall(ops[i]), got[k][i], want[i], k)
					if ops[i].Kind == "fmbn" || ops[i].Kind == "im" {
						p += "; module table of the shared set: " + nsTable(refMS)
					}
					res.Problems = append(res.Problems, p)
					if len(res.Problems) > 20 {
						break
					}
				}
			}
		}
		res.Problems = append(res.Problems, before.diff(snap(shMS, shRoots))...)
	}
	for k := 0; k < np; k++ {
		for q, set := range privs[k] {
			res.Evals++
			want := dump(set)
			if gotDump[k][q] != want {
				// the diagnostics of the rejected texts are the first lines of a dump
				gl, wl := strings.Split(gotDump[k][q], "\n"), strings.Split(want, "\n")
				for i := 0; i < len(gl) && i < len(wl) && strings.HasPrefix(wl[i], "rejected-text "); i++ {
					if gl[i] != wl[i] {
						res.Problems = append(res.Problems, diagProblem(fmt.Sprintf("pipeline %d, set %d", k, q), gl[i], wl[i]))
					}
				}
			}
			if gotDump[k][q] != want {
				res.Problems = append(res.Problems, fmt.Sprintf("pipeline %d, set %d: dump of the concurrent run differs from the sequential run (%d vs %d bytes): %s", k, q, len(gotDump[k][q]), len(want),
					strings.Replace(strings.Replace(firstDiff(want, gotDump[k][q]), "alone ", "sequential ", 1), "here ", "concurrent ", 1)))
			}
		}
	}
	return res
}

// sharedPalette: what the shared set of a round may use beyond the staged kinds: every other
// round it is a directory set with pinned revision-dates; in the rounds whose shared set has
// errors (every fourth) its module m0 has a wide directory of 24, 32, 64 or 200 children in turn;
// namespace shapes (see nsExtras) by round modulo 3.
func sharedPalette(pal palette, round int) palette {
	pal.pins = round%2 == 1
	pal.wide = wideWidths[(round/4)%len(wideWidths)]
	// two rounds in three: two or three different modules with one namespace; two rounds in three
	// (one of them the same): several revisions of one module
	pal.twin, pal.revs = round%3 != 2, round%3 != 0
	return pal
}

// diagProblem words a difference between the diagnostics a rejected text got in the concurrent
// phase and the ones its sequential twin got.
func diagProblem(who, got, want string) string {
	what := "differ from the ones the same text gets sequentially"
	if strings.Contains(got, foreignMark) && !strings.Contains(want, foreignMark) {
		what = "name a file of ANOTHER module set (this text is the only one of that name; independent sets share a parser?)"
	}
	return fmt.Sprintf("C19 clause \"every caller obtains the result a sequential run would give\": %s: the diagnostics of a rejected text %s: concurrent %s, sequential %s", who, what, got, want)
}

// showRound prints the program of a round: the shared sources, the script, the sequential answers.
func showRound(seed int64, round, batch int) {
	r := rand.New(rand.NewSource(roundSeed(seed, round)))
	pal, kinds := paletteFor(seed, round, batch)
	fmt.Printf("---- round %d = stage %d of its process; optional statement kinds in use: %v\n", round, round%batch, kinds)
	pal = sharedPalette(pal, round)
	if pal.pins {
		fmt.Printf("---- the shared set of this round is a directory set (files on the search path, modules read by name)\n")
	}
	shared, _ := genSet(r, round%4 == 3, pal)
	for _, s := range shared {
		fmt.Printf("---- %s\n%s", s.Name, s.Text)
	}
	for i, s := range rejectedFor(rand.New(rand.NewSource(roundSeed(seed, round)+11)), fmt.Sprintf("r%d-shared", round)) {
		fmt.Printf("---- rejected text %d of the shared set (the first goes to a throw-away Modules, the others to the set's own before and between its sources): %s, %d bytes -> %s\n",
			i, s.Name, len(s.Text), diagnose(yang.NewModules(), s, ""))
	}
	ms, errs := load(shared, "")
	fmt.Printf("---- Process errors: %q\n", errs)
	roots := map[string]*yang.Entry{}
	for _, name := range rootNames(ms) {
		roots[name] = yang.ToEntry(rootOf(ms, name))
	}
	f0, a, b := script(ms, roots, rand.New(rand.NewSource(roundSeed(seed, round)+1)))
	fmt.Printf("---- %d look-ups from inside an orphan submodule come first, then %d namespace look-ups, then the rest in an order of the reader's own;\n"+
		"---- in between all readers call ToEntry on every AST node and GetErrors on %d entries with errors at or below them, together\n", len(f0), len(a), len(errStormOps(ms, roots)))
	for _, o := range append(append(f0, a...), b...) {
		fmt.Printf("%-60s -> %s\n", o, run(ms, roots, nil, o))
	}
	fmt.Printf("---- module table of the shared set: %s\n", nsTable(ms))
	dr := rand.New(rand.NewSource(roundSeed(seed, round) + 23))
	for j := 0; j < duelSets; j++ {
		srcs := duelSet(dr)
		base := duelQueries(dr)
		fmt.Printf("---- namespace set %d of the round (fresh; all goroutines make these calls together, %d times): %s\n", j, duelReps, duelSources(srcs))
		d := buildDuel(srcs)
		if d.bad != "" {
			fmt.Printf("     not usable: %s\n", d.bad)
			continue
		}
		fmt.Printf("     module table: %s\n", nsTable(d.ms))
		for _, q := range duelFull(d, base) {
			fmt.Printf("     %-60s -> %s\n", opCall(q), duelRun(d, q))
		}
	}
}

// ---------------------------------------------------------------------------------------------
// child / parent

// canarySet is a fixed module set that uses every statement kind and, in a module of its own,
// plain lists and leaf-lists (no list statements, a type with a default).  A fresh process that
// does nothing else dumps it ("processed alone"); every child process dumps it again after its
// last round.  The two dumps must be equal: module sets share nothing, so whatever other sets were
// processed before or alongside must not show.  (It runs after the last round only, because it
// converts every statement kind and would spoil the cold introduction of kinds otherwise.)
func canarySet() []modSrc {
	full := palette{true, true, true, true, true, true, true, true, true, true, true, true, false, 0, false, false}
	set, _ := genSet(rand.New(rand.NewSource(424242)), false, full)
	return append(set, modSrc{Name: "plain.yang", Text: `module plain {
  yang-version 1.1;
  namespace "urn:plain";
  prefix pl;
  typedef t { type string; default "x"; }
  container c {
    leaf-list ll { type t; }
    list l { key k; leaf k { type string; } }
    leaf-list lo { type t; ordered-by user; }
    list lm { key k; min-elements 2; max-elements 4; leaf k { type string; } }
  }
}
`})
}

// canaryFile: path of the dump of canarySet made by a fresh process ("" = no check)
var canaryFile string

func firstDiff(a, b string) string {
	la, lb := strings.Split(a, "\n"), strings.Split(b, "\n")
	for i := 0; i < len(la) && i < len(lb); i++ {
		if la[i] != lb[i] {
			return fmt.Sprintf("line %d: alone %q, here %q", i+1, la[i], lb[i])
		}
	}
	return fmt.Sprintf("%d lines alone, %d lines here", len(la), len(lb))
}

func child(seed int64, from, to, n, batch int) {
	debug.SetTraceback("single")
	enc := json.NewEncoder(os.Stdout)
	for round := from; round < to; round++ {
		fmt.Fprintf(os.Stderr, "@round %d\n", round)
		// Before every round - except the first round of every other process, which starts cold
		// with the concurrent phase - texts of every rejected kind are loaded sequentially
		var pre []string
		between := 0
		if round > from || (batch > 0 && (from/batch)%2 == 1) {
			pre = rejectAll(seed, round)
			between = 2 * len(rejectedKinds)
		}
		dupFull = round == from
		rr := doRound(seed, round, n, batch)
		rr.Problems = append(pre, rr.Problems...)
		rr.Between = between
		rr.Evals += int64(between / 2)
		enc.Encode(rr)
	}
	if canaryFile != "" {
		want, err := os.ReadFile(canaryFile)
		if err != nil {
			lib.Fatal("canary: %v", err)
		}
		rr := roundResult{Round: to - 1, Canary: true, Evals: 1}
		if got := pipeline(canarySet(), "", nil); got != string(want) {
			rr.Problems = []string{"INDEPENDENCE: the canary module set processed in this process after its rounds differs from the same set processed alone in a fresh process: " + firstDiff(string(want), got)}
		}
		enc.Encode(rr)
	}
}

// makeCanary lets a fresh process dump the canary set and stores the dump in a temporary file.
func makeCanary() string {
	self, err := os.Executable()
	if err != nil {
		lib.Fatal("executable: %v", err)
	}
	work, err := os.MkdirTemp("", "c19-work-*")
	if err != nil {
		lib.Fatal("%v", err)
	}
	defer os.RemoveAll(work)
	cc := exec.Command(self, "-canary")
	cc.Dir = work
	out, err := cc.Output()
	if err != nil || len(out) == 0 {
		lib.Fatal("canary process: %v", err)
	}
	f, err := os.CreateTemp("", "c19-canary-*.txt")
	if err != nil {
		lib.Fatal("%v", err)
	}
	f.Write(out)
	f.Close()
	return f.Name()
}

// canaryProblem: the problem reported by the end-of-process check of a batch, if any.
func canaryProblem(o batchOutcome) string {
	for _, rr := range o.results {
		if rr.Canary && len(rr.Problems) > 0 {
			return rr.Problems[0]
		}
	}
	return ""
}

// culprit finds the first round r of the batch such that a process running rounds from..r ends
// with a differing canary (the state change is lasting, so prefixes are monotone).
func culprit(seed int64, from, to, n, batch int) int {
	lo, hi := from, to-1 // the answer is in [lo, hi]; hi is known to fail
	for lo < hi {
		mid := (lo + hi) / 2
		if canaryProblem(runBatch(seed, from, mid+1, n, batch, 10*time.Minute)) != "" {
			hi = mid
		} else {
			lo = mid + 1
		}
	}
	return lo
}

type batchOutcome struct {
	results []roundResult
	rc      int
	stderr  string
	last    int // last round announced
	timeout bool
}

func runBatch(seed int64, from, to, n, batch int, limit time.Duration) batchOutcome {
	self, err := os.Executable()
	if err != nil {
		lib.Fatal("executable: %v", err)
	}
	cmd := exec.Command(self, "-child", "-seed", fmt.Sprint(seed), "-from", fmt.Sprint(from), "-to", fmt.Sprint(to), "-n", fmt.Sprint(n),
		"-batch", fmt.Sprint(batch), "-canaryfile", canaryFile)
	cmd.Env = append(os.Environ(), "GORACE=halt_on_error=1 exitcode=66")
	// an empty working directory of its own: goyang looks for module files in "." before the
	// search path, and the directory sets of the rounds are written below it
	work, err := os.MkdirTemp("", "c19-work-*")
	if err != nil {
		lib.Fatal("%v", err)
	}
	defer os.RemoveAll(work)
	cmd.Dir = work
	var so, se bytes.Buffer
	cmd.Stdout, cmd.Stderr = &so, &se
	if err := cmd.Start(); err != nil {
		lib.Fatal("start child: %v", err)
	}
	done := make(chan error, 1)
	go func() { done <- cmd.Wait() }()
	out := batchOutcome{last: from}
	select {
	case err = <-done:
	case <-time.After(limit):
		cmd.Process.Kill()
		<-done
		out.timeout = true
	}
	if cmd.ProcessState != nil {
		out.rc = cmd.ProcessState.ExitCode()
	}
	dec := json.NewDecoder(&so)
	for {
		var rr roundResult
		if dec.Decode(&rr) != nil {
			break
		}
		out.results = append(out.results, rr)
	}
	out.stderr = se.String()
	for _, line := range strings.Split(out.stderr, "\n") {
		var k int
		if _, err := fmt.Sscanf(line, "@round %d", &k); err == nil {
			out.last = k
		}
	}
	return out
}

func raceSummary(stderr string) string {
	i := strings.Index(stderr, "WARNING: DATA RACE")
	if i < 0 {
		i = strings.Index(stderr, "fatal error:")
	}
	if i < 0 {
		i = strings.Index(stderr, "panic:")
	}
	if i < 0 {
		i = 0
	}
	s := stderr[i:]
	var keep []string
	for _, l := range strings.Split(s, "\n") {
		if strings.HasPrefix(l, "@round") {
			continue
		}
		keep = append(keep, l)
		if len(keep) >= 40 {
			break
		}
	}
	return strings.Join(keep, "\n")
}

// raceParties names the two accesses of the first race report: kind of access, the innermost
// function of the goyang packages on each stack with its source line, and whether the goroutine
// was a reader of the shared set or a pipeline ("" when there is no report to read).
func raceParties(stderr string) string {
	i := strings.Index(stderr, "WARNING: DATA RACE")
	if i < 0 {
		return ""
	}
	lines := strings.Split(stderr[i:], "\n")
	var parts []string
	for k := 1; k < len(lines) && len(parts) < 2; k++ {
		l := lines[k]
		if !(strings.HasPrefix(l, "Write at") || strings.HasPrefix(l, "Read at") || strings.HasPrefix(l, "Previous ") ||
			strings.HasPrefix(l, "Atomic") || strings.HasPrefix(l, "Previous atomic")) {
			continue
		}
		access := strings.ToLower(strings.TrimPrefix(strings.SplitN(l, " at ", 2)[0], "Previous "))
		fn, loc, role := "", "", "pipeline"
		inMain, dupStorm := false, false
		for j := k + 1; j+1 < len(lines) && strings.HasPrefix(lines[j], "  "); j += 2 {
			f := strings.TrimSpace(lines[j])
			if strings.HasPrefix(f, "main.") {
				inMain = true
			}
			if strings.HasPrefix(f, "main.run(") || strings.Contains(f, ".run.") {
				role = "reader"
			}
			if strings.Contains(f, "dupPlan") {
				dupStorm = true
			}
			if fn == "" && strings.Contains(f, "goyang/pkg/") {
				fn = strings.TrimSuffix(f[strings.LastIndex(f, "/")+1:], "()")
				loc = filepath.Base(strings.Fields(strings.TrimSpace(lines[j+1]))[0])
			}
		}
		if fn == "" {
			fn = "code outside the goyang packages"
		}
		if !inMain {
			role = "goroutine that the library itself started"
		}
		if dupStorm {
			role = "goroutine that loads, on a fresh Modules of its own, a text in which a single-valued substatement occurs twice (the same texts are loaded by all goroutines first of all, dup.go)"
		}
		parts = append(parts, fmt.Sprintf("%s in %s (%s) by a %s", access, fn, loc, role))
	}
	if len(parts) < 2 {
		return ""
	}
	return parts[0] + " against " + parts[1]
}

// whatOf: the headline of a round with problems (a problem that names the clause it violates
// speaks for itself).
func whatOf(p string) string {
	if strings.HasPrefix(p, "C19 clause") {
		return p
	}
	return "C19: concurrent run differs from the sequential run, or a guard of the allow-list fired: " + p
}

// replayInfo: the failing round is re-run together with the rounds that preceded it in its
// process (rounds [Round - Round%Batch, Round]), because what is cold in a round depends on them.
type replayInfo struct {
	Seed  int64 `json:"seed"`
	Round int   `json:"round"`
	N     int   `json:"goroutines"`
	Batch int   `json:"rounds_per_process"`
}

func main() {
	isChild := flag.Bool("child", false, "run rounds [from,to) in this process (internal)")
	isCanary := flag.Bool("canary", false, "dump the canary module set in this (fresh) process and exit (internal)")
	flag.StringVar(&canaryFile, "canaryfile", "", "dump of the canary set made by a fresh process (internal)")
	show := flag.Int("show", -1, "print the generated shared module set of this round, the reader script and the sequential answers")
	from := flag.Int("from", 0, "")
	to := flag.Int("to", 0, "")
	nflag := flag.Int("n", 0, "goroutines per round (default 8 quick / 32 thorough)")
	batchFlag := flag.Int("batch", 0, "rounds per child process (default 20 quick / 100 thorough); also the period of the statement-kind stages")
	rounds := flag.Int("rounds", 0, "rounds (default 200 quick / 20000 thorough)")
	parFlag := flag.Int("par", 0, "child processes at a time (default 4 quick / 12 thorough)")
	f := lib.ParseFlags()
	if *isCanary {
		os.Stdout.WriteString(pipeline(canarySet(), "", nil))
		return
	}
	if *isChild {
		child(f.Seed, *from, *to, *nflag, *batchFlag)
		return
	}
	n, total, par, batch := 8, 200, 4, 20
	if f.Thorough() {
		n, total, par, batch = 32, 20000, 12, 100
	}
	if *batchFlag > 0 {
		batch = *batchFlag
	}
	if *show >= 0 {
		showRound(f.Seed, *show, batch)
		return
	}
	if *parFlag > 0 {
		par = *parFlag
	}
	if *nflag > 0 {
		n = *nflag
	}
	if *rounds > 0 {
		total = *rounds
	}
	if f.Replay != "" {
		replay(f, n, batch)
		return
	}
	canaryFile = makeCanary()
	res := lib.NewResult("C19", f)
	res.Rule = "distinct_nontrivial = number of distinct generated shared module sets (hash of the sources) with at least 3 modules, " +
		"an rpc, a cross-module augment and a uses (possible from the stage of a process at which these kinds are in use), each processed by one " +
		"pipeline goroutine and then queried by goroutines/2 concurrent readers while goroutines/2 pipelines run on sets of their own, " +
		"the concurrent phase first in a cold process, the sequential reference afterwards; evaluations = reader answers and pipeline dumps compared with the sequential run"
	distinct := lib.NewDistinct()
	var mu sync.Mutex
	var nodes, ops, firstNS, mods, withErr, roundsDone, unexpected, anomalies, canaries, dirSets, stormNodes int64
	var errStorm, orphanRounds, orphanFirst, leafrefFinds, rejTexts, rejBetween, widePrivate int64
	var dupTexts, dupAlready, dupColdRounds int64
	var twinShared, revsShared, twinPrivate, revsPrivate, errorNS, duels int64
	wideHist := map[string]int64{}
	ownErrHist := map[string]int64{}
	type job struct{ from, to int }
	jobs := make(chan job)
	var wg sync.WaitGroup
	stop := false
	for w := 0; w < par; w++ {
		wg.Add(1)
		go func() {
			defer wg.Done()
			for j := range jobs {
				mu.Lock()
				s := stop
				mu.Unlock()
				if s {
					continue
				}
				o := runBatch(f.Seed, j.from, j.to, n, batch, 20*time.Minute)
				mu.Lock()
				for _, rr := range o.results {
					if rr.Canary {
						res.Evaluations += rr.Evals
						canaries++
						continue
					}
					roundsDone++
					res.Evaluations += rr.Evals
					nodes += int64(rr.Nodes)
					ops += int64(rr.Ops)
					firstNS += int64(rr.FirstTimeNS)
					mods += int64(rr.Modules)
					if rr.WithErrors {
						withErr++
					}
					if rr.UnexpectedErrs {
						unexpected++
					}
					if rr.DirSet {
						dirSets++
					}
					stormNodes += int64(rr.StormOps)
					errStorm += int64(rr.ErrStormOps)
					if rr.OrphanFirst > 0 {
						orphanRounds++
					}
					orphanFirst += int64(rr.OrphanFirst)
					leafrefFinds += int64(rr.LeafrefFinds)
					rejTexts += int64(rr.RejectedTexts)
					rejBetween += int64(rr.Between)
					dupTexts += int64(rr.DupTexts)
					dupAlready += int64(rr.AlreadySet)
					if rr.DupTexts == len(dupCases()) {
						dupColdRounds++
					}
					widePrivate += int64(rr.WidePrivate)
					if rr.Twin {
						twinShared++
					}
					if rr.Revs {
						revsShared++
					}
					twinPrivate += int64(rr.TwinPrivate)
					revsPrivate += int64(rr.RevsPrivate)
					errorNS += int64(rr.ErrorNS)
					duels += int64(rr.DuelSets)
					if rr.Wide > 0 {
						wideHist[fmt.Sprint(rr.Wide)]++
					}
					for _, c := range rr.OwnErrCounts {
						ownErrHist[fmt.Sprint(c)]++
					}
					anomalies += int64(rr.SeqAnomalies)
					if rr.Nontrivial {
						distinct.Add(rr.SharedHash)
					}
					if len(res.Samples) < 4 {
						res.Samples = append(res.Samples, map[string]any{"round": rr.Round, "shared_set": rr.SharedHash, "modules": rr.Modules,
							"nodes": rr.Nodes, "reader_ops": rr.Ops, "first_time_namespace_lookups": rr.FirstTimeNS, "evaluations": rr.Evals})
					}
				}
				mu.Unlock()
				if p := canaryProblem(o); p != "" {
					r := culprit(f.Seed, j.from, j.to, n, batch)
					_, kinds := paletteFor(f.Seed, r, batch)
					res.AddDisagreement(lib.Disagreement{Kind: "spec", SpecVerdict: "violates",
						Input: map[string]any{"seed": f.Seed, "round": r, "goroutines": n, "first_round_of_process": j.from, "kinds_in_round": kinds},
						Go:    p,
						What: fmt.Sprintf("C19: module sets are not independent: after round %d (rounds %d..%d in one process) a module set gives a result that differs from the same set processed alone; rounds %d..%d leave it intact. %s",
							r, j.from, r, j.from, r-1, p),
						Replay: replayInfo{f.Seed, r, n, batch}})
					mu.Lock()
					stop = true
					mu.Unlock()
				}
				for _, rr := range o.results {
					if rr.Canary {
						continue
					}
					if len(rr.Problems) > 0 {
						res.AddDisagreement(lib.Disagreement{Kind: "spec", SpecVerdict: "violates",
							Input: map[string]any{"seed": f.Seed, "round": rr.Round, "goroutines": n, "shared_set": rr.SharedHash},
							Go:    rr.Problems, What: whatOf(rr.Problems[0]),
							Replay: replayInfo{f.Seed, rr.Round, n, batch}})
					}
				}
				if o.rc != 0 || o.timeout {
					what := fmt.Sprintf("child exited with status %d in round %d", o.rc, o.last)
					if o.rc == 66 {
						what = fmt.Sprintf("C19 clause \"no data race\": race detector report in round %d", o.last)
						if p := raceParties(o.stderr); p != "" {
							what += ": " + p
						}
					} else if i := strings.Index(o.stderr, "fatal error: concurrent map"); i >= 0 {
						what = fmt.Sprintf("C19 clause \"no data race\": the Go runtime stopped the process in round %d: %s", o.last, strings.SplitN(o.stderr[i:], "\n", 2)[0])
					}
					if o.timeout {
						what = fmt.Sprintf("C19: round %d did not finish (deadlock?)", o.last)
					}
					// best effort: is it reproducible from the seed?
					again := 0
					for t := 0; t < 3; t++ {
						if o2 := runBatch(f.Seed, o.last-o.last%batch, o.last+1, n, batch, 5*time.Minute); o2.rc != 0 || o2.timeout {
							again++
						}
					}
					res.AddDisagreement(lib.Disagreement{Kind: "crash", SpecVerdict: "violates",
						Input: map[string]any{"seed": f.Seed, "round": o.last, "goroutines": n, "reproduced": fmt.Sprintf("%d of 3 re-runs of the round", again)},
						Go:    raceSummary(o.stderr), What: what, Replay: replayInfo{f.Seed, o.last, n, batch}})
					mu.Lock()
					stop = true
					mu.Unlock()
				}
			}
		}()
	}
	for lo := 0; lo < total; lo += batch {
		hi := lo + batch
		if hi > total {
			hi = total
		}
		jobs <- job{lo, hi}
	}
	close(jobs)
	wg.Wait()
	res.DistinctNontrivial = distinct.Len()
	res.Distribution["rounds"] = roundsDone
	res.Distribution["cold_processes"] = (total + batch - 1) / batch
	res.Distribution["processes_whose_final_canary_dump_was_compared_with_the_dump_of_a_fresh_process"] = canaries
	res.Distribution["rounds_per_process"] = batch
	res.Distribution["goroutines_per_round"] = n
	res.Distribution["readers_per_round"] = n - n/2
	res.Distribution["pipelines_per_round"] = n / 2
	res.Distribution["shared_sets_with_process_errors"] = withErr
	res.Distribution["shared_sets_unexpectedly_rejected"] = unexpected
	res.Distribution["shared_sets_loaded_from_a_directory_on_the_search_path_with_pinned_revision_dates"] = dirSets
	res.Distribution["sequential_answers_that_are_wrong_lookups_or_panics"] = anomalies
	res.Distribution["shared_sets_with_an_orphan_submodule_whose_prefixed_lookups_are_every_readers_first_operations"] = orphanRounds
	res.Distribution["first_lookups_from_inside_orphan_submodules_per_reader_total"] = orphanFirst
	res.Distribution["leafref_path_finds_per_reader_total"] = leafrefFinds
	res.Distribution["entries_on_which_all_readers_call_GetErrors_together_3_times_total"] = errStorm
	res.Distribution["rejected_texts_loaded_by_the_goroutines_of_the_rounds_diagnostics_compared"] = rejTexts
	res.Distribution["rejected_texts_loaded_sequentially_between_rounds"] = rejBetween
	res.Distribution["texts_with_a_single_valued_substatement_twice_loaded_first_of_all_by_every_goroutine"] = dupTexts
	res.Distribution["of_these_with_the_sequential_diagnostic_already_set"] = dupAlready
	res.Distribution["statement_type_field_pairs_with_a_single_valued_substatement"] = int64(len(dupCases()))
	res.Distribution["first_rounds_of_a_process_with_all_pairs_met_cold_by_all_goroutines_at_once"] = dupColdRounds
	res.Distribution["shared_sets_with_a_wide_directory_with_errors_in_2_or_more_child_subtrees_by_number_of_children"] = wideHist
	res.Distribution["private_sets_with_such_a_wide_directory"] = widePrivate
	res.Distribution["shared_sets_with_two_or_three_different_modules_declaring_one_namespace"] = twinShared
	res.Distribution["shared_sets_with_several_revisions_of_one_module"] = revsShared
	res.Distribution["private_sets_with_two_or_three_different_modules_declaring_one_namespace"] = twinPrivate
	res.Distribution["private_sets_with_several_revisions_of_one_module"] = revsPrivate
	res.Distribution["reader_script_namespace_and_instantiating_module_queries_whose_sequential_answer_is_an_error_per_reader_total"] = errorNS
	res.Distribution["fresh_small_namespace_sets_queried_by_all_goroutines_together_behind_a_start_barrier"] = duels
	res.Distribution["shared_entries_with_erroneous_descendants_by_number_of_own_errors_(3_or_more)"] = ownErrHist
	if roundsDone > 0 && unexpected*2 > roundsDone {
		lib.Fatal("the generator is out of date: %d of %d module sets meant to be valid do not process cleanly", unexpected, roundsDone)
	}
	if roundsDone > 0 {
		res.Distribution["avg_modules_per_shared_set"] = float64(mods) / float64(roundsDone)
		res.Distribution["avg_nodes_per_shared_set"] = float64(nodes) / float64(roundsDone)
		res.Distribution["avg_reader_ops_per_reader"] = float64(ops) / float64(roundsDone)
		res.Distribution["avg_ast_nodes_per_round_on_which_all_readers_call_ToEntry_together_3_times"] = float64(stormNodes) / float64(roundsDone)
		res.Distribution["avg_first_time_namespace_lookups_per_reader"] = float64(firstNS) / float64(roundsDone)
	}
	res.Notes = append(res.Notes,
		"supporting run, not the proof: schedules are sampled; the race detector reports only races that happen in an executed schedule",
		"reader paths: only existing nodes; the guards of the allow-list (allow.json) are asserted after every round",
		"independence: after its last round every child process dumps a fixed canary module set (all statement kinds, plain lists and leaf-lists); the dump must equal the one a fresh process makes of the same set alone; a difference is bisected to the first round that causes it",
		"ToEntry storm: after the namespace look-ups all readers pass a barrier and call yang.ToEntry on the AST node behind every entry of the processed trees (modules, containers, lists, leaves, stand-in leaves of leaf-lists, choices, cases, rpc parts, notifications, nodes from uses/augment) and on every grouping, same order, three times; the answer (name, kind, type, default, list attributes, children, errors of the returned entry, and whether it is the entry the cache held after the set was built) is compared with the sequential answer; the builder reports a node for which two consecutive ToEntry calls return different entries (guard of toentry-miss)",
		"GetErrors storm (sets with errors, every fourth round): module m0 holds inner containers with 3, 5, 6 and 7 errors of their own (uses statements that name no grouping, children with the same name) and erroneous leaves one and two levels below them (eb6 inside eb5); in the storm phase all readers call GetErrors on every entry that has errors of its own and on each of its ancestors, same order, three times; every returned list, order included, is compared with the list the sequential twin gives",
		"orphan submodules: when submodule is a statement kind of the process, half of the sets load a submodule o0 of m0 explicitly that no module includes (Process converts it but never links its imports); it imports m1 for leafref paths only, m2 for a must and a when expression only, m3 for a type and a leafref path; the building goroutine makes no look-up on the shared set, and every reader begins with r.Find(r.Type.Path) on the leafref leaves of the orphan's own tree (ToEntry(ms.SubModules[\"o0\"])) and Find of the must / when paths from their nodes, in the same order; the expected answers come from a twin set built afterwards; the trees of all submodules (included ones too) are reader roots like the module trees; leafref leaves with absolute prefixed paths also occur in ordinary modules and in the included submodule s0",
		"rejected texts: every module set of a round comes with 2-3 texts goyang must reject (missing / extra closing brace, text ending inside a statement, missing semicolon, quoted keyword, unterminated string, unknown statement, several mistakes at once; 3-30 leaves, one in eight 100 more, the mistake at a random line; a file name nobody else uses); the goroutine that loads the set hands the first to a throw-away Modules and the others to the set's own Modules before and between its sources (Read by name in a directory set); the diagnostics must equal the ones of the sequential twin, and a diagnostic that names another .yang file is reported as naming a file of another set; before every round (except the first round of every other process, which stays cold) texts of all kinds are loaded sequentially on fresh Modules and on one Modules that takes them all, so that whatever an error path hands back (a pooled parser, a buffer) is there, possibly twice, when the goroutines of the round start parsing",
		"wide directories: in sets with errors (every fourth shared set, a fifth of the private sets) module m0 has a directory of 24, 32, 64 or 200 children (every third a container, the rest leaves; two times in three below `container wide`, else directly in the module) with errors in 2-6 child subtrees chosen at random (one time in four in every container child): leaves of unknown types directly, one and two levels down, and uses of one grouping with such a leaf in several children; Process, the pipelines' dumps and all readers (error accessor at the directory, its ancestors and its erroneous children, together, three times; Print; Find) walk it",
		"namespace-to-module look-ups whose sequential answer is an error or a tie-break: two shared sets in three (a third of the private sets) hold one or two small modules tw0, tw1 that declare the namespace of one of the modules m<j> (two different modules, one namespace: FindModuleByNamespace and the InstantiatingModule of every node of these modules answer with an error, which is never cached), two in three (a third of the private sets) load one or two older revisions of a module that carries a revision statement (same namespace: the answer is the revision the bare name refers to; one older revision may declare a namespace of its own), before or after the other sources; every reader asks for every declared namespace and for one nobody declares, and for the instantiating module of every node, first of all after the orphan look-ups; answers are compared in canonical form: which object came back (name and the key of the module table it is filed under) or the text of the error",
		fmt.Sprintf("namespace duels: %d times per round a fresh small set (3-5 modules drawn from 3 names x 4 revisions x 3 namespaces, half of them forced to hold two different modules with one namespace) is loaded and processed by one goroutine that makes no look-up on it; all goroutines of the round line up behind a start barrier, are released together and make the same calls in the same order (FindModuleByNamespace of the three namespaces and of one nobody declares, then Namespace and InstantiatingModule of a leaf of every module object), %d times over; every answer is compared with the answer of a twin set loaded afresh and asked sequentially, and the set itself is asked once more afterwards (what the concurrent callers left in the cache)", duelSets, duelReps),
		"deep sets: the first private set of every pipeline is one module of 150-220 nested containers, converted by all pipelines at the same time; its dump must equal the sequential one (no process-wide budget or counter of the recursion)",
		"directory sets: every other shared set (and a third of the private sets) is written to a directory that stays on the search path and is loaded by Read; its import / include statements carry revision-dates that are not the loaded revision; readers resolve prefixes (absolute prefixed Find, FindModuleByPrefix) against it",
		"restrictions with the keywords min / max directly on built-in types (range on all integer types and decimal64, length on string and binary) occur in every set, so that the package-level range tables are the parents in concurrent pipelines",
		"cold start: each child process begins with the concurrent phase (nothing converted before); statement kinds are introduced one per round within a process, so first-use writes of process-wide tables meet concurrent goroutines",
		fmt.Sprintf("child processes run with GORACE=halt_on_error=1 exitcode=66, %d at a time, %d rounds each", par, batch))
	if int(roundsDone) < total && len(res.Disagreements) == 0 {
		lib.Fatal("only %d of %d rounds reported", roundsDone, total)
	}
	res.Write(f.Out)
	os.Remove(canaryFile)
	if len(res.Disagreements) > 0 {
		os.Exit(1)
	}
}

func replay(f *lib.Flags, n, batch int) {
	raw, err := os.ReadFile(f.Replay)
	if err != nil {
		lib.Fatal("%v", err)
	}
	var payload struct {
		Disagreement struct {
			Replay replayInfo `json:"replay"`
		} `json:"disagreement"`
	}
	if err := json.Unmarshal(raw, &payload); err != nil {
		lib.Fatal("replay file: %v", err)
	}
	ri := payload.Disagreement.Replay
	if ri.N > 0 {
		n = ri.N
	}
	if ri.Batch > 0 {
		batch = ri.Batch
	}
	first := ri.Round - ri.Round%batch
	canaryFile = makeCanary()
	// the program of the round: the shared module set (the private sets and the reader script
	// derive from the same seed; `-show <round> -seed <seed> -batch <b>` prints script and answers)
	pal, kinds := paletteFor(ri.Seed, ri.Round, batch)
	pal = sharedPalette(pal, ri.Round)
	shared, _ := genSet(rand.New(rand.NewSource(roundSeed(ri.Seed, ri.Round))), ri.Round%4 == 3, pal)
	fmt.Printf("replay: seed %d, rounds %d..%d of one fresh process (the recorded round is the last), %d goroutines;\n"+
		"optional statement kinds of round %d: %v; its shared module set %s:\n", ri.Seed, first, ri.Round, n, ri.Round, kinds, hashSet(shared))
	for _, src := range shared {
		fmt.Printf("---- %s\n%s", src.Name, src.Text)
	}
	bad := 0
	const tries = 20
	for t := 0; t < tries && bad == 0; t++ {
		o := runBatch(ri.Seed, first, ri.Round+1, n, batch, 10*time.Minute)
		var probs []string
		for _, rr := range o.results {
			for _, p := range rr.Problems {
				probs = append(probs, fmt.Sprintf("round %d: %s", rr.Round, p))
			}
		}
		switch {
		case o.rc != 0 || o.timeout:
			bad++
			fmt.Printf("run %d: child status %d in round %d, timeout=%v\n%s\n", t, o.rc, o.last, o.timeout, raceSummary(o.stderr))
		case len(probs) > 0:
			bad++
			fmt.Printf("run %d: %s\n", t, strings.Join(probs, "\n  "))
		default:
			fmt.Printf("run %d: no race report, all answers equal to the sequential run\n", t)
		}
	}
	fmt.Printf("Go: %d run(s) failed (up to %d tried, stopping at the first failure); model: race free under the extracted discipline (Props/C19.lean); spec verdict: %s\n",
		bad, tries, map[bool]string{true: "violates", false: "holds (on the schedules tried)"}[bad > 0])
	os.Remove(canaryFile)
	if bad > 0 {
		os.Exit(1)
	}
}
