// Sinks that stop short with the errors a real sink reports — io.ErrShortWrite, io.EOF, a wrapped
// io.ErrShortWrite, a custom error — in two, three consecutive calls.  The count clause of the
// property ("the count returned is the number of the caller's bytes that actually reached it") is
// judged against what the sink really holds after ALL the calls the writer made to it during one
// Write, however many those were: the history handed to the model and to the specification of
// histories is the REALISED one (per Write: `-` when it returned no error, otherwise the number of
// bytes the sink took during that Write, over all calls).
package main

import (
	"bytes"
	"errors"
	"fmt"
	"io"
	"strings"

	"github.com/openconfig/goyang/pkg/indent"
	"verif/harness/lib"
)

type fcase struct {
	Pre    string   `json:"prefix_hex"`
	Chunks []string `json:"chunks_hex"`     // what the caller has to write (the remainder of a failed Write is written next when Resume)
	Kind   string   `json:"fault_kind"`     // shortwrite | eof | wrapped | custom
	Start  int      `json:"start_call"`     // index of the first failing call on the sink
	Takes  []int    `json:"takes"`          // bytes taken by the failing calls Start, Start+1, ...
	Step   int      `json:"step,omitempty"` // > 0: the sink takes at most Step bytes per call and Room in all, failing whenever it takes less than it is handed
	Room   int      `json:"room,omitempty"`
	Resume bool     `json:"resume"`
}

var faultKinds = map[string]error{
	"shortwrite": io.ErrShortWrite,
	"eof":        io.EOF,
	"wrapped":    fmt.Errorf("sink: %w", io.ErrShortWrite),
	"custom":     errors.New("sink full"),
}

type fsink struct {
	buf    bytes.Buffer
	c      *fcase
	room   int
	calls  int
	handed int // length handed to call Start
	// per Write of the indenting writer
	wCalls, wTook int
}

func (s *fsink) Write(p []byte) (int, error) {
	c := s.calls
	s.calls++
	s.wCalls++
	k, fail := len(p), false
	if s.c.Step > 0 {
		if k > s.c.Step {
			k = s.c.Step
		}
		if k > s.room {
			k = s.room
		}
		s.room -= k
		fail = k < len(p)
	} else if c >= s.c.Start && c-s.c.Start < len(s.c.Takes) {
		if c == s.c.Start {
			s.handed = len(p)
		}
		if t := s.c.Takes[c-s.c.Start]; t < k {
			k = t
		}
		fail = true
	}
	s.buf.Write(p[:k])
	s.wTook += k
	if fail {
		return k, faultKinds[s.c.Kind]
	}
	return k, nil
}

type frun struct {
	h      hcase // the realised history
	res    []string
	ns     []int
	lens   []int // sink length after each Write
	calls  []int // sink calls per Write
	sink   []byte
	handed int
	crash  string
}

func (r frun) line(n int) string {
	if n >= len(r.res) {
		return lib.Hex(r.sink) + " ;" + strings.Join(append([]string{""}, r.res...), " ")
	}
	return lib.Hex(r.sink[:r.lens[n-1]]) + " ;" + strings.Join(append([]string{""}, r.res[:n]...), " ")
}

func runFault(c fcase) (r frun) {
	pre, _ := lib.UnHex(c.Pre)
	s := &fsink{c: &c, room: c.Room}
	r.h = hcase{Pre: c.Pre, How: "fault " + c.Kind}
	defer func() {
		if x := recover(); x != nil {
			r.crash = fmt.Sprint(x)
		}
		r.sink = append([]byte{}, s.buf.Bytes()...)
		r.handed = s.handed
	}()
	var queue [][]byte
	for _, chx := range c.Chunks {
		ch, _ := lib.UnHex(chx)
		queue = append(queue, ch)
	}
	w := indent.NewWriter(s, string(pre))
	for steps := 0; len(queue) > 0 && steps < 24; steps++ {
		ch := queue[0]
		queue = queue[1:]
		s.wCalls, s.wTook = 0, 0
		n, err := w.Write(ch)
		k, e := -1, 0
		if err != nil {
			k, e = s.wTook, 1
		}
		r.h.Chunks = append(r.h.Chunks, lib.Hex(ch))
		r.h.Ks = append(r.h.Ks, k)
		r.res = append(r.res, fmt.Sprintf("%d:%d", n, e))
		r.ns = append(r.ns, n)
		r.lens = append(r.lens, s.buf.Len())
		r.calls = append(r.calls, s.wCalls)
		if err != nil && c.Resume {
			if m := clamp(n, 0, len(ch)); m < len(ch) {
				queue = append([][]byte{ch[m:]}, queue...)
			}
		}
	}
	return r
}

func faultCases(f *lib.Flags) []fcase {
	var out []fcase
	kinds := []string{"shortwrite", "eof", "wrapped"}
	tails := [][]int{{}, {0}, {1}, {0, 0}, {1, 1}, {2, 0}}
	alphabet := [][]byte{[]byte("a"), []byte("\n"), []byte("é")}
	maxSym := 3
	if f.Thorough() {
		maxSym = 4
	}
	var texts [][]byte
	frontier := [][]byte{{}}
	for l := 1; l <= maxSym; l++ {
		var next [][]byte
		for _, t := range frontier {
			for _, a := range alphabet {
				next = append(next, append(append([]byte{}, t...), a...))
			}
		}
		texts = append(texts, next...)
		frontier = next
	}
	for _, pre := range []string{">", ">>", ">\n"} {
		for _, t := range texts {
			for _, parts := range compositions(t, false) {
				chunks := hexChunks(parts)
				for i := range parts {
					for k := 0; ; k++ {
						probe := fcase{Pre: lib.HexS(pre), Chunks: chunks, Kind: "custom", Start: i, Takes: []int{k}, Resume: true}
						handed := runFault(probe).handed
						for _, kind := range kinds {
							for _, tl := range tails {
								out = append(out, fcase{Pre: lib.HexS(pre), Chunks: chunks, Kind: kind, Start: i, Takes: append([]int{k}, tl...), Resume: true})
							}
						}
						if k >= handed {
							break
						}
					}
				}
			}
		}
	}
	// one Write of a text of several lines into a sink that takes at most `step` bytes per call and
	// `room` bytes in all (every pair), reporting io.ErrShortWrite (and the other errors) when cut
	for _, pt := range [][2]string{{"--", "one\ntwo\nthree\n"}, {">", "ab\n\ncd"}, {"  ", "\nx\n"}} {
		full := len(refRender([]byte(pt[0]), []byte(pt[1]), false))
		for step := 1; step <= full; step++ {
			for room := 0; room <= full; room++ {
				for _, kind := range []string{"shortwrite", "eof", "wrapped", "custom"} {
					out = append(out, fcase{Pre: lib.HexS(pt[0]), Chunks: []string{lib.HexS(pt[1])}, Kind: kind, Step: step, Room: room, Resume: room%2 == 0})
				}
			}
		}
	}
	// random: longer texts in random chunks into step/room sinks
	r := f.Rand(2222)
	prefixes := []string{">", ">>", "-- ", "é", ">\n", "\t"}
	alpha := [][]byte{[]byte("a"), []byte("b"), []byte("\n"), []byte("a"), []byte("\n"), []byte("é")}
	n := 15000
	if f.Thorough() {
		n = 300000
	}
	for ; n > 0; n-- {
		pre := prefixes[r.Intn(len(prefixes))]
		var text []byte
		for l := 3 + r.Intn(18); l > 0; l-- {
			text = append(text, alpha[r.Intn(len(alpha))]...)
		}
		total := len(refRender([]byte(pre), text, false))
		c := fcase{Pre: lib.HexS(pre), Kind: []string{"shortwrite", "shortwrite", "eof", "wrapped", "custom"}[r.Intn(5)],
			Step: 1 + r.Intn(9), Room: r.Intn(total + 2), Resume: r.Intn(10) < 7}
		for len(text) > 0 {
			m := 1 + r.Intn(8)
			if m > len(text) {
				m = len(text)
			}
			c.Chunks = append(c.Chunks, lib.Hex(text[:m]))
			text = text[m:]
		}
		out = append(out, c)
	}
	return out
}

// judgeFault compares one realised history (cut down to the part the specification speaks about:
// up to the first cut inside a prefix) with the specification and the model.
func judgeFault(c fcase, r frun, specAns, model string) *lib.Disagreement {
	if r.crash != "" {
		return &lib.Disagreement{Kind: "crash", Input: c, Go: r.line(len(r.res)), SpecVerdict: "violates",
			What: "indent writer panicked over a sink reporting " + c.Kind + ": " + r.crash, Replay: map[string]any{"fault": c}}
	}
	spec, states := parseSpec(specAns)
	n := len(states)
	if n == 0 {
		n = len(r.res)
	}
	g := r.line(n)
	if g == spec && g == model {
		return nil
	}
	if g == spec {
		return &lib.Disagreement{Kind: "correspondence", Input: map[string]any{"fault": c, "realised_history": r.h}, Go: g, Model: model, SpecVerdict: "holds",
			What: "indent writer over a sink reporting " + c.Kind + " differs from the model on the realised history; the Go output satisfies the specification", Replay: map[string]any{"fault": c}}
	}
	gp, sp := strings.SplitN(g, " ;", 2), strings.SplitN(spec, " ;", 2)
	what := ""
	if len(gp) == 2 && len(sp) == 2 && gp[0] == sp[0] {
		gr, sr := strings.Fields(gp[1]), strings.Fields(sp[1])
		for i := range gr {
			if i < len(sr) && gr[i] != sr[i] {
				ch, _ := lib.UnHex(r.h.Chunks[i])
				what = fmt.Sprintf("a sink that stops short reporting %s in consecutive calls: Write %d of %q returned %s (count:error); the writer called the sink %d time(s) during that Write and the sink took %d bytes of the rendering in all, that is %s caller bytes — the count returned must be the number of the caller's bytes that actually reached the underlying writer",
					c.Kind, i, ch, gr[i], r.calls[i], r.h.Ks[i], strings.SplitN(sr[i], ":", 2)[0])
				break
			}
		}
	}
	if what == "" {
		acc := acceptedText(hcase{Pre: r.h.Pre, Chunks: r.h.Chunks[:n], Ks: r.h.Ks[:n]}, r.ns[:n])
		sink, _ := lib.UnHex(gp[0])
		what = fmt.Sprintf("a sink that stops short reporting %s in consecutive calls: the caller bytes reported as accepted are %q (prefix %s), the underlying writer holds %q: not their one-shot rendering", c.Kind, acc, c.Pre, sink)
	}
	what += "; realised history " + r.h.request("writes") + "; specification: " + spec
	dis := &lib.Disagreement{Kind: "spec", Input: map[string]any{"fault": c, "realised_history": r.h}, Go: g, Model: model, SpecVerdict: "violates", What: what, Replay: map[string]any{"fault": c}}
	if g != model {
		dis.Kind = "correspondence"
	}
	return dis
}

// cutTo is the realised history up to call n.
func cutTo(h hcase, n int) hcase {
	if n <= 0 || n >= len(h.Chunks) {
		return h
	}
	return hcase{Pre: h.Pre, Chunks: h.Chunks[:n], Ks: h.Ks[:n], How: h.How}
}

func faults(f *lib.Flags, res *lib.Result) (int64, int64) {
	cases := faultCases(f)
	runs := make([]frun, len(cases))
	reqS := make([]string, len(cases))
	for i, c := range cases {
		runs[i] = runFault(c)
		reqS[i] = runs[i].h.request("spec.writes")
	}
	ansS, err := lib.ParBatch(f.Driver, reqS, f.Procs)
	if err != nil {
		lib.Fatal("driver: %v", err)
	}
	reqM := make([]string, len(cases))
	distinct := lib.NewDistinct()
	nontrivial := int64(0)
	for i := range cases {
		_, states := parseSpec(ansS[i])
		reqM[i] = cutTo(runs[i].h, len(states)).request("writes")
		if distinct.Add(cases[i].Kind+" "+reqM[i]) && strings.Contains(strings.Join(runs[i].h.Chunks, ""), "0a") {
			fails := 0
			for _, k := range runs[i].h.Ks {
				if k >= 0 {
					fails++
				}
			}
			if fails >= 2 {
				nontrivial++
			}
		}
	}
	ansM, err := lib.ParBatch(f.Driver, reqM, f.Procs)
	if err != nil {
		lib.Fatal("driver: %v", err)
	}
	viol, holds := 0, 0
	for i, c := range cases {
		dis := judgeFault(c, runs[i], ansS[i], ansM[i])
		if dis == nil {
			continue
		}
		if dis.SpecVerdict == "violates" {
			if viol++; viol <= 12 {
				res.AddDisagreement(*dis)
				continue
			}
		} else if holds++; holds <= 4 {
			res.AddDisagreement(*dis)
			continue
		}
		res.Count("disagreements_not_examined", 1)
	}
	res.Distribution["fault_sink_cases"] = int64(len(cases))
	return int64(len(cases)), nontrivial
}

func replayFault(d *lib.Driver, c fcase) bool {
	r := runFault(c)
	specAns, _ := d.Ask(r.h.request("spec.writes"))
	_, states := parseSpec(specAns)
	model, _ := d.Ask(cutTo(r.h, len(states)).request("writes"))
	fmt.Printf("input: %+v\nrealised history: %s (sink calls per Write: %v)\ngo:    %s\nmodel: %s\nspec:  %s\n", c, r.h.request("writes"), r.calls, r.line(len(r.res)), model, specAns)
	if dis := judgeFault(c, r, specAns, model); dis != nil {
		fmt.Printf("verdict: %s (%s)\n", dis.SpecVerdict, dis.What)
		return false
	}
	return true
}
