// Histories: Write calls that go on after the underlying writer cut one (or several) of them short.
// The sink takes the first k bytes of what it is handed in a scripted call and reports an error, then
// works again; the caller goes on — with the unwritten remainder of the chunk (as the returned count
// tells it), or with whatever comes next.  Compared: the real writer, the model (driver op `writes`,
// the transliteration of the Go code, which carries the state a failed call left on) and the
// executable specification (driver op `spec.writes`, Goyang.Spec.Indent.history): the bytes accepted
// in successive calls are rendered as ONE text — the prefix in front of every byte that starts a
// line, none in the middle of an open line — and every count is truthful, as long as no cut fell
// inside a prefix.
package main

import (
	"bytes"
	"fmt"
	"strconv"
	"strings"

	"github.com/openconfig/goyang/pkg/indent"
	"verif/harness/lib"
)

// (This stage found D20-M1 — after a short write the writer kept the line state of the END of the
// argument, not of the cut — repaired in /repo 8883425; no history is tagged as known any more.)

// hcase is one history: per Write call the chunk and what the sink does with what it is handed in
// that call (Ks[i] < 0: takes everything; otherwise takes min(Ks[i], len) bytes and reports an error).
type hcase struct {
	Pre    string   `json:"prefix_hex"`
	Chunks []string `json:"chunks_hex"`
	Ks     []int    `json:"ks"`
	How    string   `json:"how,omitempty"` // how the history was made (resume / skip / random …)
}

func (c hcase) request(op string) string {
	var sb strings.Builder
	sb.WriteString(op)
	sb.WriteByte(' ')
	sb.WriteString(c.Pre)
	for i, ch := range c.Chunks {
		sb.WriteByte(' ')
		sb.WriteString(ch)
		sb.WriteByte(' ')
		if c.Ks[i] >= 0 {
			sb.WriteString(strconv.Itoa(c.Ks[i]))
		} else {
			sb.WriteByte('-')
		}
	}
	return sb.String()
}

// scripted is the sink of a history: `next` is armed before every Write call on the indenting writer.
type scripted struct {
	buf    bytes.Buffer
	next   int // < 0: take everything
	handed int // length handed down in the last call
}

func (s *scripted) Write(p []byte) (int, error) {
	s.handed = len(p)
	if s.next >= 0 {
		k := s.next
		s.next = -1
		if k > len(p) {
			k = len(p)
		}
		s.buf.Write(p[:k])
		return k, errShort
	}
	s.buf.Write(p)
	return len(p), nil
}

// hrun is what one run of the real writer over a history gives.
type hrun struct {
	out    string // canonical line: sink ; n:err ...
	ns     []int  // counts returned
	handed []int  // bytes handed to the sink per call (0: the sink was not called)
	crash  string
}

func runHist(c hcase) (r hrun) {
	pre, _ := lib.UnHex(c.Pre)
	u := &scripted{next: -1}
	var res strings.Builder
	defer func() {
		if x := recover(); x != nil {
			r.crash = fmt.Sprint(x)
			r.out = lib.Hex(u.buf.Bytes()) + " ;" + res.String() + " panic"
		}
	}()
	w := indent.NewWriter(u, string(pre))
	for i, chx := range c.Chunks {
		ch, _ := lib.UnHex(chx)
		u.next, u.handed = c.Ks[i], 0
		n, err := w.Write(ch)
		u.next = -1
		e := 0
		if err != nil {
			e = 1
		}
		fmt.Fprintf(&res, " %d:%d", n, e)
		r.ns = append(r.ns, n)
		r.handed = append(r.handed, u.handed)
	}
	r.out = lib.Hex(u.buf.Bytes()) + " ;" + res.String()
	return r
}

// offsetSink fails at scripted absolute byte offsets: when the bytes taken so far would pass the next
// offset it takes only what fits, reports an error, and drops that offset (it works again afterwards).
// It records what it did per call as the k of an hcase.
type offsetSink struct {
	buf  bytes.Buffer
	cuts []int // ascending absolute offsets
	k    int   // k of the last call, -1 = took everything
}

func (s *offsetSink) Write(p []byte) (int, error) {
	s.k = -1
	if len(s.cuts) > 0 && s.buf.Len()+len(p) > s.cuts[0] {
		k := s.cuts[0] - s.buf.Len()
		if k < 0 {
			k = 0
		}
		s.cuts = s.cuts[1:]
		s.buf.Write(p[:k])
		s.k = k
		return k, errShort
	}
	s.buf.Write(p)
	return len(p), nil
}

func clamp(n, lo, hi int) int {
	if n < lo {
		return lo
	}
	if n > hi {
		return hi
	}
	return n
}

// continuations of the short write (parts[:i+1], write i cut after k bytes, count n returned): the
// caller resumes with the unwritten remainder and goes on with the rest of the text ("resume"), or
// goes on with the rest as if nothing had happened ("skip"; when nothing is left: one more byte).
func continuations(pre string, parts [][]byte, i, k, n int, tail bool) []hcase {
	hx := func(bs [][]byte) []string {
		o := make([]string, len(bs))
		for j, b := range bs {
			o[j] = lib.Hex(b)
		}
		return o
	}
	mk := func(how string, after [][]byte) hcase {
		chunks := append(append([][]byte{}, parts[:i+1]...), after...)
		ks := make([]int, len(chunks))
		for j := range ks {
			ks[j] = -1
		}
		ks[i] = k
		return hcase{Pre: lib.HexS(pre), Chunks: hx(chunks), Ks: ks, How: how}
	}
	var out []hcase
	rest := parts[i+1:]
	n = clamp(n, 0, len(parts[i]))
	if n < len(parts[i]) {
		out = append(out, mk("resume", append([][]byte{parts[i][n:]}, rest...)))
	}
	if len(rest) > 0 {
		out = append(out, mk("skip", rest))
	} else {
		out = append(out, mk("skip+a", [][]byte{[]byte("a")}))
		if tail {
			out = append(out, mk("skip+LF", [][]byte{[]byte("\n")}))
		}
	}
	return out
}

// secondFaults: in a "resume" history the resumed Write (index i+1) is cut short as well, at every
// offset, and resumed again.
func secondFaults(c hcase, i int) []hcase {
	var out []hcase
	base := runHist(c)
	if i+1 >= len(c.Chunks) || base.crash != "" {
		return nil
	}
	ch, _ := lib.UnHex(c.Chunks[i+1])
	for k2 := 0; k2 <= base.handed[i+1]; k2++ {
		d := hcase{Pre: c.Pre, How: "resume,resume"}
		d.Chunks = append([]string{}, c.Chunks[:i+2]...)
		d.Ks = append([]int{}, c.Ks[:i+2]...)
		d.Ks[i+1] = k2
		r := runHist(d)
		if r.crash != "" {
			out = append(out, d)
			continue
		}
		n2 := clamp(r.ns[i+1], 0, len(ch))
		if n2 < len(ch) {
			d.Chunks = append(d.Chunks, lib.Hex(ch[n2:]))
			d.Ks = append(d.Ks, -1)
		}
		d.Chunks = append(d.Chunks, c.Chunks[i+2:]...)
		for range c.Chunks[i+2:] {
			d.Ks = append(d.Ks, -1)
		}
		out = append(out, d)
	}
	return out
}

// randomHistories: longer texts over {a, b, LF, e-acute}, cut into random chunks, written to a sink
// that fails at 1-4 scripted absolute byte offsets; after a failed Write the caller resumes with the
// remainder (mostly) or skips it.
func randomHistories(f *lib.Flags, n int) []hcase {
	r := f.Rand(2021)
	prefixes := []string{">", ">>", "-- ", "é", ">\n", "\t"}
	alpha := [][]byte{[]byte("a"), []byte("b"), []byte("\n"), []byte("a"), []byte("\n"), []byte("é")}
	var out []hcase
	for ; n > 0; n-- {
		pre := prefixes[r.Intn(len(prefixes))]
		var text []byte
		for l := 3 + r.Intn(24); l > 0; l-- {
			text = append(text, alpha[r.Intn(len(alpha))]...)
		}
		var queue [][]byte
		for len(text) > 0 {
			m := 1 + r.Intn(6)
			if m > len(text) {
				m = len(text)
			}
			queue = append(queue, text[:m])
			text = text[m:]
		}
		// the rendering is at most len(text) * (1 + len(pre)) long
		total := 0
		for _, q := range queue {
			total += len(q) * (1 + len(pre))
		}
		sink := &offsetSink{}
		for j := 1 + r.Intn(4); j > 0; j-- {
			sink.cuts = append(sink.cuts, r.Intn(total/2+2))
		}
		for a := range sink.cuts { // ascending
			for b := a + 1; b < len(sink.cuts); b++ {
				if sink.cuts[b] < sink.cuts[a] {
					sink.cuts[a], sink.cuts[b] = sink.cuts[b], sink.cuts[a]
				}
			}
		}
		c := hcase{Pre: lib.HexS(pre), How: "random offsets"}
		func() {
			defer func() { recover() }() // a crash shows again (and is recorded) in runHist
			w := indent.NewWriter(sink, pre)
			for steps := 0; len(queue) > 0 && steps < 200; steps++ {
				ch := queue[0]
				queue = queue[1:]
				sink.k = -1
				nw, err := w.Write(ch)
				c.Chunks = append(c.Chunks, lib.Hex(ch))
				c.Ks = append(c.Ks, sink.k)
				if err != nil {
					nw = clamp(nw, 0, len(ch))
					if nw < len(ch) && r.Intn(10) < 7 {
						queue = append([][]byte{ch[nw:]}, queue...)
					}
				}
			}
		}()
		out = append(out, c)
	}
	return out
}

// parseSpec splits the answer of spec.writes: the expected canonical line and the line states.
func parseSpec(ans string) (string, []string) {
	p := strings.SplitN(ans, " |", 2)
	if len(p) != 2 {
		return ans, nil
	}
	return p[0], strings.Fields(p[1])
}

// acceptedText is the concatenation of the caller's bytes the run reports as accepted.
func acceptedText(c hcase, ns []int) []byte {
	var acc []byte
	for i, chx := range c.Chunks {
		if i >= len(ns) {
			break
		}
		ch, _ := lib.UnHex(chx)
		acc = append(acc, ch[:clamp(ns[i], 0, len(ch))]...)
	}
	return acc
}

// refRender is the one-shot rendering written out byte by byte (the prefix in front of every byte that
// starts a line); pending: the prefix of the next line is already out.
func refRender(pre, text []byte, pending bool) []byte {
	var out []byte
	atStart := true
	for _, b := range text {
		if atStart {
			out = append(out, pre...)
		}
		out = append(out, b)
		atStart = b == '\n'
	}
	if atStart && pending {
		out = append(out, pre...)
	}
	return out
}

// specRendersAccepted is the property's sentence checked on the specification's own answer for a
// history without a cut inside a prefix: what the underlying writer holds is the one-shot rendering
// of the concatenation of the accepted caller bytes (followed by one prefix when the last cut fell
// exactly after the prefix of a line that has no byte yet).  Returns "" when it is.
func specRendersAccepted(c hcase, specAns string) string {
	spec, states := parseSpec(specAns)
	if len(states) != len(c.Chunks) || len(states) == 0 || states[len(states)-1] == "x" {
		return ""
	}
	p := strings.SplitN(spec, " ;", 2)
	if len(p) != 2 {
		return "unparseable answer of spec.writes: " + specAns
	}
	var ns []int
	for _, r := range strings.Fields(p[1]) {
		n, _ := strconv.Atoi(strings.SplitN(r, ":", 2)[0])
		ns = append(ns, n)
	}
	pre, _ := lib.UnHex(c.Pre)
	acc := acceptedText(c, ns)
	want := refRender(pre, acc, states[len(states)-1] == "0")
	if lib.Hex(want) != p[0] {
		return fmt.Sprintf("accepted %q, one-shot rendering %q, the specification of histories asks %s", acc, want, p[0])
	}
	return ""
}

// judge compares one history: returns nil when the real writer agrees with model and specification.
func judge(d *lib.Driver, c hcase) *lib.Disagreement {
	g := runHist(c)
	if g.crash != "" {
		return &lib.Disagreement{Kind: "crash", Input: c, Go: g.out, SpecVerdict: "violates", What: "indent writer panicked in a history with short writes: " + g.crash, Replay: c}
	}
	model, _ := d.Ask(c.request("writes"))
	specAns, _ := d.Ask(c.request("spec.writes"))
	return judgeWith(d, c, g, model, specAns)
}

func judgeWith(d *lib.Driver, c hcase, g hrun, model, specAns string) *lib.Disagreement {
	spec, states := parseSpec(specAns)
	cmp := c
	gc := g
	if n := len(states); n > 0 && states[n-1] == "x" && n < len(c.Chunks) {
		// a cut inside a prefix: nothing is asked of what follows
		// (neither of the code nor, therefore, of its agreement with the model)
		cmp = hcase{Pre: c.Pre, Chunks: c.Chunks[:n], Ks: c.Ks[:n], How: c.How}
		gc = runHist(cmp)
		g = gc
		model, _ = d.Ask(cmp.request("writes"))
	}
	corrOK := g.out == model
	specOK := gc.out == spec
	if corrOK && specOK {
		return nil
	}
	if specOK {
		return &lib.Disagreement{Kind: "correspondence", Input: c, Go: g.out, Model: model, SpecVerdict: "holds",
			What: "indent writer differs from the model in a history that goes on after a short write; the Go output satisfies the specification (" + spec + ")", Replay: c}
	}
	acc := acceptedText(cmp, gc.ns)
	rendHex, _ := d.Ask("spec.indent " + c.Pre + " " + lib.Hex(acc))
	rend, _ := lib.UnHex(rendHex)
	sinkHex := strings.SplitN(gc.out, " ;", 2)[0]
	sink, _ := lib.UnHex(sinkHex)
	what := fmt.Sprintf("after a short write the caller went on writing: the caller bytes accepted in the successive Write calls are %q, their one-shot rendering is %q, but the underlying writer holds %q", acc, rend, sink)
	if strings.SplitN(spec, " ;", 2)[0] == sinkHex {
		what = fmt.Sprintf("history with short writes: the counts returned%s are not the caller bytes that reached the underlying writer (specification:%s)",
			strings.SplitN(gc.out, " ;", 2)[1], strings.SplitN(spec+" ;", " ;", 3)[1])
	} else if !bytes.Equal(sink, rend) && bytes.HasPrefix(sink, rend) {
		what += " (the rendering followed by a prefix already written for the next line)"
	}
	what += "; specification: " + spec
	dis := &lib.Disagreement{Kind: "spec", Input: c, Go: g.out, Model: model, SpecVerdict: "violates", What: what, Replay: c}
	if !corrOK {
		dis.Kind = "correspondence"
	}
	return dis
}

// histories runs all histories; returns their number and the number of distinct non-trivial ones.
func histories(f *lib.Flags, res *lib.Result, d *lib.Driver, cases []hcase) (int64, int64) {
	for _, c := range randomHistories(f, map[bool]int{false: 40000, true: 400000}[f.Thorough()]) {
		cases = append(cases, c)
	}
	runs := make([]hrun, len(cases))
	reqM := make([]string, len(cases))
	reqS := make([]string, len(cases))
	distinct := lib.NewDistinct()
	nontrivial := int64(0)
	for i, c := range cases {
		runs[i] = runHist(c)
		reqM[i] = c.request("writes")
		reqS[i] = c.request("spec.writes")
		if distinct.Add(reqM[i]) {
			for j, k := range c.Ks {
				if k >= 0 && j+1 < len(c.Chunks) && strings.Contains(strings.Join(c.Chunks, ""), "0a") {
					nontrivial++
					break
				}
			}
		}
	}
	ansM, err := lib.ParBatch(f.Driver, reqM, f.Procs)
	if err != nil {
		lib.Fatal("driver: %v", err)
	}
	ansS, err := lib.ParBatch(f.Driver, reqS, f.Procs)
	if err != nil {
		lib.Fatal("driver: %v", err)
	}
	holds, viol, insidePrefix := 0, 0, int64(0)
	for i, c := range cases {
		if strings.HasSuffix(ansS[i], " x") {
			insidePrefix++
		} else if why := specRendersAccepted(c, ansS[i]); why != "" {
			res.AddDisagreement(lib.Disagreement{Kind: "spec", Input: c, Go: runs[i].out, Model: ansM[i], SpecVerdict: "violates",
				What: "Spec.Indent.history (driver op spec.writes) does not render the accepted bytes of a history as one text: " + why, Replay: c})
		}
		if i%(len(cases)/3+1) == 1 {
			res.AddSample(map[string]any{"history": c, "go": runs[i].out, "model": ansM[i], "spec": ansS[i]})
		}
		if runs[i].crash == "" && runs[i].out == ansM[i] && strings.HasPrefix(ansS[i], runs[i].out+" |") {
			continue
		}
		var dis *lib.Disagreement
		if runs[i].crash != "" {
			dis = judge(d, c)
		} else {
			dis = judgeWith(d, c, runs[i], ansM[i], ansS[i])
		}
		if dis == nil {
			continue
		}
		switch {
		case dis.SpecVerdict == "violates":
			viol++
			if viol <= 40 {
				res.AddDisagreement(*dis)
			} else {
				res.Count("disagreements_not_examined", 1)
			}
		default:
			holds++
			if holds <= 6 {
				res.AddDisagreement(*dis)
			} else {
				res.Count("disagreements_not_examined", 1)
			}
		}
	}
	res.Distribution["history_cases"] = int64(len(cases))
	res.Distribution["history_cases_cut_inside_prefix"] = insidePrefix
	return int64(len(cases)), nontrivial
}
