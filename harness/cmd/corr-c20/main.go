// corr-c20: correspondence between pkg/indent (real code, in-process) and the Lean model
// Goyang.Model.Indent, by complete enumeration of texts x prefixes x chunkings x the position
// at which the underlying writer stops short; on a disagreement the executable specification
// (Goyang.Spec.Indent, driver ops spec.indent / spec.count) is evaluated on the Go output.
// history.go: histories in which the caller goes on writing after short writes (the sink works
// again): real code = model (`writes`) and real code = specification of histories (`spec.writes`).
package main

import (
	"bytes"
	"encoding/json"
	"errors"
	"fmt"
	"io"
	"os"
	"strconv"
	"strings"

	"github.com/openconfig/goyang/pkg/indent"
	"verif/harness/lib"
)

// budget is the underlying writer: takes everything until call `failAt`, where it takes only
// `k` bytes (or all of them when k >= len) and reports an error.
type budget struct {
	buf     bytes.Buffer
	call    int
	failAt  int
	k       int
	lastLen int // length handed to the failing call
}

var errShort = errors.New("short")

func (b *budget) Write(p []byte) (int, error) {
	c := b.call
	b.call++
	if c == b.failAt {
		b.lastLen = len(p)
		k := b.k
		if k > len(p) {
			k = len(p)
		}
		b.buf.Write(p[:k])
		return k, errShort
	}
	b.buf.Write(p)
	return len(p), nil
}

type tcase struct {
	Pre    string   `json:"prefix_hex"`
	Chunks []string `json:"chunks_hex"`
	FailAt int      `json:"fail_at"` // index of the failing Write, -1 = none
	K      int      `json:"k"`
}

func (c tcase) request() string {
	var sb strings.Builder
	sb.WriteString("writes ")
	sb.WriteString(c.Pre)
	for i, ch := range c.Chunks {
		sb.WriteByte(' ')
		sb.WriteString(ch)
		sb.WriteByte(' ')
		if i == c.FailAt {
			sb.WriteString(strconv.Itoa(c.K))
		} else {
			sb.WriteByte('-')
		}
		if i == c.FailAt {
			break
		}
	}
	return sb.String()
}

// runGo runs the real writer; returns the canonical answer line and the length handed to the
// failing underlying call (to know when k has passed the end).
func runGo(c tcase) (string, int) {
	pre, _ := lib.UnHex(c.Pre)
	u := &budget{failAt: -1, k: c.K}
	// the underlying writer sees one Write per non-empty chunk; map chunk index to call index
	w := indent.NewWriter(u, string(pre))
	var res strings.Builder
	calls := 0
	for i, chx := range c.Chunks {
		ch, _ := lib.UnHex(chx)
		if i == c.FailAt {
			u.failAt = calls
		}
		if len(ch) > 0 {
			calls++
		}
		n, err := w.Write(ch)
		e := 0
		if err != nil {
			e = 1
		}
		fmt.Fprintf(&res, " %d:%d", n, e)
		if i == c.FailAt {
			break
		}
	}
	return lib.Hex(u.buf.Bytes()) + " ;" + res.String(), u.lastLen
}

func pick(c bool, a, b int) int {
	if c {
		return a
	}
	return b
}

// lastCount is the count returned by the last Write of a canonical Go line ("... n:e").
func lastCount(g string) int {
	i := strings.LastIndexByte(g, ' ')
	j := strings.LastIndexByte(g, ':')
	if i < 0 || j < i {
		return 0
	}
	n, _ := strconv.Atoi(g[i+1 : j])
	return n
}

func compositions(b []byte, withEmpty bool) [][][]byte {
	if len(b) == 0 {
		return [][][]byte{{}}
	}
	var out [][][]byte
	n := len(b)
	for mask := 0; mask < 1<<(n-1); mask++ {
		var parts [][]byte
		start := 0
		for i := 0; i < n-1; i++ {
			if mask&(1<<i) != 0 {
				parts = append(parts, b[start:i+1])
				start = i + 1
			}
		}
		parts = append(parts, b[start:])
		out = append(out, parts)
	}
	if withEmpty {
		// one variant with an empty Write in front and one in the middle
		base := out[len(out)-1]
		e := append([][]byte{{}}, base...)
		out = append(out, e)
		if len(base) > 1 {
			m := append([][]byte{base[0], {}}, base[1:]...)
			out = append(out, m)
		}
	}
	return out
}

// symbols counts the symbols of the enumeration alphabet in t (a two-byte character is one symbol).
func symbols(t []byte) int {
	n := 0
	for _, b := range t {
		if b&0xc0 != 0x80 {
			n++
		}
	}
	return n
}

func main() {
	f := lib.ParseFlags()
	if f.Replay != "" {
		replay(f)
		return
	}
	res := lib.NewResult("C20", f)
	maxLen := 5
	if f.Thorough() {
		maxLen = 6
	}
	// a letter, the line feed, a two-byte character (chunks may split it) and the NUL byte (a data
	// byte like any other: no sentinel value may stand for "nothing written yet")
	alphabet := [][]byte{[]byte("a"), []byte("\n"), []byte("é"), {0}}
	// prefixes: one byte, two bytes, a multi-byte character, and prefixes that contain a line feed
	// themselves (the count returned on a short write must not confuse them with the text's)
	prefixes := []string{">", ">>", "é", ">\n", "\n> "}
	// all texts up to maxLen symbols
	texts := [][]byte{{}}
	frontier := [][]byte{{}}
	for l := 1; l <= maxLen; l++ {
		var next [][]byte
		for _, t := range frontier {
			for _, a := range alphabet {
				nt := append(append([]byte{}, t...), a...)
				next = append(next, nt)
			}
		}
		texts = append(texts, next...)
		frontier = next
	}
	// prefixes made of characters that are special to some text machinery a rewrite might reach for
	// (regexp replacement templates, fmt verbs, regexp and glob metacharacters, escapes, NUL, tab,
	// carriage return): the prefix is data; they run on the texts of at most 3 symbols in the
	// writer enumeration and on every text of the one-shot functions
	specialPrefixes := []string{"$1 ", "$$ ", "${a}> ", "$0", "a$b", "$", "\\1", "\\", "%s ", "%d%%", "%", "^", ".*", "[a]",
		"(", "\t", "\x00", "\r", "\r\n", " ", "\u2028"}
	var cases []tcase
	var goOut []string
	// histories that go on after a short write (history.go): every short write of the enumeration on
	// texts of at most histSym symbols (histSymSpecial under the special prefixes) is continued (resume
	// with the remainder / skip it), and on texts of at most histSym2 symbols (main prefixes; thorough:
	// special prefixes up to 2 symbols) the resumed Write is cut short again at every offset
	var hcases []hcase
	histSym, histSymSpecial, histSym2, histSym2Special := 3, 2, 3, 0
	if f.Thorough() {
		histSym, histSymSpecial, histSym2, histSym2Special = 4, 3, 3, 2
	}
	distinct := lib.NewDistinct()
	nontrivial := int64(0)
	for pi, pre := range append(append([]string{}, prefixes...), specialPrefixes...) {
		for _, t := range texts {
			if pi >= len(prefixes) && len(t) > 6 { // 3 symbols of at most 2 bytes
				continue
			}
			if pi >= len(prefixes) && symbols(t) > 3 {
				continue
			}
			sym := symbols(t)
			for _, parts := range compositions(t, len(t) <= 4) {
				chunks := make([]string, len(parts))
				for i, p := range parts {
					chunks[i] = lib.Hex(p)
				}
				// no failure
				c := tcase{Pre: lib.HexS(pre), Chunks: chunks, FailAt: -1}
				g, _ := runGo(c)
				cases = append(cases, c)
				goOut = append(goOut, g)
				// failure in write i at offset k (only non-empty chunks reach the underlying writer)
				for i := range parts {
					if len(parts[i]) == 0 {
						continue
					}
					for k := 0; ; k++ {
						c := tcase{Pre: lib.HexS(pre), Chunks: chunks[:i+1], FailAt: i, K: k}
						g, handed := runGo(c)
						cases = append(cases, c)
						goOut = append(goOut, g)
						if hs, hs2 := pick(pi < len(prefixes), histSym, histSymSpecial), pick(pi < len(prefixes), histSym2, histSym2Special); sym <= hs {
							for _, h := range continuations(pre, parts, i, k, lastCount(g), sym <= 3) {
								hcases = append(hcases, h)
								if h.How == "resume" && sym <= hs2 {
									hcases = append(hcases, secondFaults(h, i)...)
								}
							}
						}
						if k >= handed {
							break
						}
					}
				}
			}
		}
	}
	// large single writes: lines and arguments longer than any plausible internal block size
	// (32 KiB, 64 KiB), written in one call, in two, and cut short at block boundaries
	{
		rep := func(b byte, n int) []byte { return bytes.Repeat([]byte{b}, n) }
		larges := [][]byte{
			rep('a', 40000),
			append(append(rep('a', 33000), '\n'), rep('b', 10)...),
			append(append(append(rep('a', 20000), '\n'), rep('b', 50000)...), '\n'),
			bytes.Repeat([]byte("abcdefg\n"), 9000),
			rep('\n', 70000),
		}
		for _, pre := range []string{">", ">> "} {
			for _, t := range larges {
				for _, cut := range []int{0, 1, 32767, 32768, len(t) / 2} {
					var chunks []string
					if cut == 0 {
						chunks = []string{lib.Hex(t)}
					} else {
						chunks = []string{lib.Hex(t[:cut]), lib.Hex(t[cut:])}
					}
					c := tcase{Pre: lib.HexS(pre), Chunks: chunks, FailAt: -1}
					g, _ := runGo(c)
					cases = append(cases, c)
					goOut = append(goOut, g)
					for _, k := range []int{0, 1, 2, 32767, 32768, 32769, 32770, 40000, 65535, 65536, 65537} {
						c := tcase{Pre: lib.HexS(pre), Chunks: chunks[:1], FailAt: 0, K: k}
						g, handed := runGo(c)
						if k > handed {
							continue
						}
						cases = append(cases, c)
						goOut = append(goOut, g)
					}
				}
			}
		}
	}
	reqs := make([]string, len(cases))
	for i, c := range cases {
		reqs[i] = c.request()
		if distinct.Add(reqs[i]) && (len(c.Chunks) > 1 || c.FailAt >= 0) && strings.Contains(strings.Join(c.Chunks, ""), "0a") {
			nontrivial++
		}
	}
	ans, err := lib.ParBatch(f.Driver, reqs, f.Procs)
	if err != nil {
		lib.Fatal("driver: %v", err)
	}
	// one-shot function on every text and prefix (incl. the empty prefix)
	var oneReq []string
	var oneGo []string
	var heldB []byte // the Bytes result of the previous one-shot case, still held by the caller
	var heldS, heldReq string
	// byte-level texts for the one-shot functions: bytes that are not valid UTF-8 (a lone 0xff, a
	// truncated lead byte, a lone continuation byte) must come out as they went in
	oneTexts := append([][]byte{}, texts...)
	{
		balpha := []byte{'a', '\n', '\r', 0xff, 0xc3, 0xa9}
		fr := [][]byte{{}}
		for l := 1; l <= 4; l++ {
			var next [][]byte
			for _, t := range fr {
				for _, b := range balpha {
					next = append(next, append(append([]byte{}, t...), b))
				}
			}
			oneTexts = append(oneTexts, next...)
			fr = next
		}
	}
	for _, pre := range append(append([]string{"", "\xff", "\xc3"}, prefixes...), specialPrefixes...) {
		for _, t := range oneTexts {
			oneReq = append(oneReq, "indent "+lib.HexS(pre)+" "+lib.Hex(t))
			gs := indent.String(pre, string(t))
			gb := indent.Bytes([]byte(pre), t)
			if gs != string(gb) {
				res.AddDisagreement(lib.Disagreement{Kind: "spec", Input: oneReq[len(oneReq)-1], Go: gs, Model: string(gb),
					SpecVerdict: "violates", What: "indent.String and indent.Bytes differ on the same text and prefix"})
			}
			// what Bytes hands out is the caller's own: it must keep its value while the package renders
			// again (a writer streaming the same text, a second Bytes call), and what the caller does to
			// it (overwrite, append into spare capacity) must not reach later renderings.  Inputs are
			// passed as copies here because Bytes may return its argument when there is nothing to add.
			{
				var sink bytes.Buffer
				w := indent.NewWriter(&sink, pre)
				w.Write(append([]byte{}, t...))
				gb2 := indent.Bytes([]byte(pre), append([]byte{}, t...))
				if string(gb) != gs {
					res.AddDisagreement(lib.Disagreement{Kind: "spec", Input: oneReq[len(oneReq)-1], Go: string(gb), Model: gs,
						SpecVerdict: "violates", What: "a rendering handed out by indent.Bytes changed while the caller held it (a writer and a second Bytes call rendered in between): it no longer is the one-shot rendering of its text"})
				}
				if heldB != nil && string(heldB) != heldS {
					res.AddDisagreement(lib.Disagreement{Kind: "spec", Input: heldReq + " then " + oneReq[len(oneReq)-1], Go: string(heldB), Model: heldS,
						SpecVerdict: "violates", What: "a rendering handed out by indent.Bytes for an earlier text changed when a later text was rendered"})
				}
				for i := range gb2 {
					gb2[i] = 'X'
				}
				gb2 = append(gb2[:0], bytes.Repeat([]byte{'Y'}, cap(gb2))...)
				if gb3 := indent.Bytes([]byte(pre), append([]byte{}, t...)); string(gb3) != gs {
					res.AddDisagreement(lib.Disagreement{Kind: "spec", Input: oneReq[len(oneReq)-1], Go: string(gb3), Model: gs,
						SpecVerdict: "violates", What: "after the caller overwrote a rendering it had been handed by indent.Bytes, a later Bytes call on the same text no longer gives the one-shot rendering"})
				}
				if sink.String() != gs && pre != "" {
					// (the stream comparison proper is the enumeration above; here only as a witness)
					_ = gb2
				}
				heldB, heldS, heldReq = gb, gs, oneReq[len(oneReq)-1]
			}
			oneGo = append(oneGo, lib.HexS(gs))
		}
	}
	oneAns, err := lib.ParBatch(f.Driver, oneReq, f.Procs)
	if err != nil {
		lib.Fatal("driver: %v", err)
	}
	d, err := lib.StartDriver(f.Driver)
	if err != nil {
		lib.Fatal("driver: %v", err)
	}
	defer d.Close()
	for i := range oneReq {
		if oneAns[i] != oneGo[i] {
			specAns, _ := d.Ask(strings.Replace(oneReq[i], "indent", "spec.indent", 1))
			v := "holds"
			if specAns != oneGo[i] {
				v = "violates"
			}
			res.AddDisagreement(lib.Disagreement{Kind: "correspondence", Input: oneReq[i], Go: oneGo[i], Model: oneAns[i],
				SpecVerdict: v, What: "indent.String differs from the model; spec says " + specAns, Replay: map[string]any{"oneshot": oneReq[i]}})
		}
	}
	histN, histNontrivial := histories(f, res, d, hcases)
	nontrivial += histNontrivial
	short, full := int64(0), int64(0)
	for i, c := range cases {
		if c.FailAt >= 0 {
			short++
		} else {
			full++
		}
		if ans[i] != goOut[i] {
			if len(res.Disagreements) >= 50 {
				res.Count("disagreements_not_examined", 1)
				continue
			}
			v, what := specVerdict(d, c, goOut[i])
			res.AddDisagreement(lib.Disagreement{Kind: "correspondence", Input: c, Go: goOut[i], Model: ans[i], SpecVerdict: v,
				What: "indent writer differs from the model: " + what, Replay: c})
		}
		if i%(len(cases)/6+1) == 0 {
			res.AddSample(map[string]any{"case": c, "go": goOut[i], "model": ans[i]})
		}
	}
	// stacked writers: outer = NewWriter(inner, p2), inner = NewWriter(sink, p1), Write calls
	// addressed to either of them in every interleaving (a line may be open at a hand-over)
	nestedN := nested(f, res, maxLen-2) + siblings(f, res)
	res.Distribution["nested_writer_cases"] = nestedN
	// writers made one after another over one sink object / over one another (seq.go); sinks that
	// stop short with io.ErrShortWrite, io.EOF, a wrapped error in consecutive calls (fault.go)
	seqN, seqNT := sequences(f, res, d)
	faultN, faultNT := faults(f, res)
	nontrivial += seqNT + faultNT
	res.Evaluations = int64(len(cases)+len(oneReq)) + nestedN + histN + seqN + faultN
	res.DistinctNontrivial = nontrivial
	res.Exhaustive = true
	res.Rule = fmt.Sprintf("complete enumeration: texts of <= %d symbols over {a, LF, e-acute(2 bytes)} x prefixes {>, >>, e-acute, two with a line feed; and, on texts of <= 3 symbols, 21 prefixes of characters special to regexp templates / fmt / regexps / escapes (dollar templates, backslash escapes, percent verbs, regexp metacharacters, NUL, tab, CR, U+2028)} x all splittings of the bytes into Write calls (plus empty Writes) x (no failure | the underlying writer stopping after k bytes of any one Write, k = 0..len handed down, k = len meaning full length reported together with an error); in these cases comparison stops at the first failing Write. Histories that go on after a short write (the sink works again): every short write of the enumeration on texts of <= %d symbols (<= %d under the special prefixes) continued by the caller resuming with the unwritten remainder and the rest of the text, or skipping the remainder (at the end of the text: one more letter / line feed); on texts of <= %d symbols (main prefixes) the resumed Write cut short again at every offset and resumed again; plus seeded random histories (texts of 3-26 symbols, chunks of 1-6 bytes, a sink failing at 1-4 scripted absolute byte offsets, resume or skip after each failure); in these the real writer is compared with the model AND with the specification of histories (accepted bytes rendered as one text, truthful counts, nothing asked after a cut inside a prefix). distinct_nontrivial = distinct cases with a line feed in the text and either more than one Write or a short write (histories: a short write followed by a further Write). Writers made one after another over ONE sink object and over one another (2-3 writers exhaustively over texts of <= 2 symbols in every chunking, every choice of what each writer is made over; random programs of 2-7 writers): every writer must deliver String(prefix, its own text) from a fresh line state, and every older writer in the chain the rendering of all it was offered (counted: programs in which a writer is made over an object whose previous writer left a line open). Sinks stopping short with io.ErrShortWrite / io.EOF / a wrapped io.ErrShortWrite in 1-3 consecutive calls at every offset (texts of <= 3 symbols, every chunking, the caller resuming), step/room sinks on single Writes of several lines and on random texts: the realised history (bytes the sink took during each Write over ALL calls made to it) is judged by the specification of histories and the model (counted: realised histories with a line feed and at least two failed Writes)", maxLen, histSym, histSymSpecial, histSym2)
	res.Distribution["all_success_cases"] = full
	res.Distribution["short_write_cases"] = short
	res.Distribution["oneshot_cases"] = len(oneReq)
	res.Write(f.Out)
}

// specVerdict evaluates the specification on the Go output of case c: everything that reached
// the underlying writer must be a prefix of the byte-level rendering of the concatenated text;
// every successful Write returns len(chunk); the failing Write returns the number of caller
// bytes among the bytes of its own output that were taken.
func specVerdict(d *lib.Driver, c tcase, goLine string) (string, string) {
	parts := strings.SplitN(goLine, " ;", 2)
	if len(parts) != 2 {
		return "", "unparseable go output"
	}
	reached, _ := lib.UnHex(parts[0])
	var text []byte
	for i, ch := range c.Chunks {
		b, _ := lib.UnHex(ch)
		text = append(text, b...)
		if i == c.FailAt {
			break
		}
	}
	specHex, _ := d.Ask("spec.indent " + c.Pre + " " + lib.Hex(text))
	spec, _ := lib.UnHex(specHex)
	if !bytes.HasPrefix(spec, reached) || (c.FailAt < 0 && len(spec) != len(reached)) {
		return "violates", fmt.Sprintf("bytes that reached the underlying writer %q are not the rendering %q", reached, spec)
	}
	rs := strings.Fields(parts[1])
	var before []byte
	for i, ch := range c.Chunks {
		b, _ := lib.UnHex(ch)
		if i >= len(rs) {
			return "violates", "missing result"
		}
		if i == c.FailAt {
			// reached so far includes output of earlier writes: spec rendering of `before`
			bh, _ := d.Ask("spec.indent " + c.Pre + " " + lib.Hex(before))
			bb, _ := lib.UnHex(bh)
			k := len(reached) - len(bb)
			atStart := 1
			if len(before) > 0 && before[len(before)-1] != '\n' {
				atStart = 0
			}
			want, _ := d.Ask(fmt.Sprintf("spec.count %s %d %s %d", c.Pre, atStart, ch, k))
			if rs[i] != want+":1" {
				return "violates", fmt.Sprintf("short write returned %s, caller bytes that reached the writer: %s", rs[i], want)
			}
			break
		}
		if rs[i] != fmt.Sprintf("%d:0", len(b)) {
			return "violates", fmt.Sprintf("successful Write %d returned %s for %d bytes", i, rs[i], len(b))
		}
		before = append(before, b...)
	}
	return "holds", "go output satisfies the specification"
}

// nested enumerates texts of <= maxSym symbols x chunkings x every assignment of the chunks to the
// outer or the inner writer, for two prefix pairs; all writes succeed. The sink must receive what
// the composed model computes and every Write must return len(chunk).
func nested(f *lib.Flags, res *lib.Result, maxSym int) int64 {
	alphabet := [][]byte{[]byte("a"), []byte("\n"), []byte(">")}
	texts := [][]byte{}
	frontier := [][]byte{{}}
	for l := 1; l <= maxSym; l++ {
		var next [][]byte
		for _, t := range frontier {
			for _, a := range alphabet {
				next = append(next, append(append([]byte{}, t...), a...))
			}
		}
		texts = append(texts, next...)
		frontier = next
	}
	type ncase struct {
		P1, P2 string
		Chunks []string
		Outer  []bool
	}
	var cases []ncase
	var reqs, goOut []string
	for _, pp := range [][2]string{{">", "  "}, {"> ", ">"}} {
		for _, t := range texts {
			for _, parts := range compositions(t, false) {
				for mask := 0; mask < 1<<len(parts); mask++ {
					c := ncase{P1: pp[0], P2: pp[1]}
					var sink bytes.Buffer
					inner := indent.NewWriter(&sink, pp[0])
					outer := indent.NewWriter(inner, pp[1])
					var rs strings.Builder
					req := "nested " + lib.HexS(pp[0]) + " " + lib.HexS(pp[1])
					for i, p := range parts {
						o := mask&(1<<i) != 0
						c.Chunks = append(c.Chunks, lib.Hex(p))
						c.Outer = append(c.Outer, o)
						w := inner
						tag := "i"
						if o {
							w, tag = outer, "o"
						}
						n, err := w.Write(p)
						if err != nil {
							n = -1
						}
						fmt.Fprintf(&rs, " %d", n)
						req += " " + lib.Hex(p) + " " + tag
					}
					cases = append(cases, c)
					reqs = append(reqs, req)
					goOut = append(goOut, lib.Hex(sink.Bytes())+" ;"+rs.String())
				}
			}
		}
	}
	// large nested writes: what the outer writer hands down exceeds 32 KiB / 64 KiB
	for _, t := range [][]byte{bytes.Repeat([]byte{'a'}, 34000), bytes.Repeat([]byte("ab\n"), 12000),
		append(append(bytes.Repeat([]byte{'a'}, 30000), '\n'), bytes.Repeat([]byte{'b'}, 40000)...)} {
		for _, mode := range []string{"o", "i", "oi"} {
			var sink bytes.Buffer
			inner := indent.NewWriter(&sink, ">  ")
			outer := indent.NewWriter(inner, "--")
			req := "nested " + lib.HexS(">  ") + " " + lib.HexS("--")
			var rs strings.Builder
			c := ncase{P1: ">  ", P2: "--"}
			parts := [][]byte{t}
			if mode == "oi" {
				parts = [][]byte{t[:len(t)/2], t[len(t)/2:]}
			}
			for i, p := range parts {
				o := mode == "o" || (mode == "oi" && i == 0)
				w, tag := inner, "i"
				if o {
					w, tag = outer, "o"
				}
				n, err := w.Write(p)
				if err != nil {
					n = -1
				}
				fmt.Fprintf(&rs, " %d", n)
				req += " " + lib.Hex(p) + " " + tag
				c.Chunks = append(c.Chunks, fmt.Sprintf("%d bytes", len(p)))
				c.Outer = append(c.Outer, o)
			}
			cases = append(cases, c)
			reqs = append(reqs, req)
			goOut = append(goOut, lib.Hex(sink.Bytes())+" ;"+rs.String())
		}
	}
	ans, err := lib.ParBatch(f.Driver, reqs, f.Procs)
	if err != nil {
		lib.Fatal("driver: %v", err)
	}
	for i := range cases {
		if ans[i] != goOut[i] {
			// the specification: the sink receives the inner rendering of (the outer rendering of the
			// outer-addressed text interleaved with the inner-addressed text) — the model composes the
			// two proved writers, so a difference from it is a difference from the specification
			res.AddDisagreement(lib.Disagreement{Kind: "correspondence", Input: cases[i], Go: goOut[i], Model: ans[i], SpecVerdict: "violates",
				What: "stacked indent writers: what reached the sink / the returned counts differ from the composition of the two writers", Replay: map[string]any{"nested": reqs[i]}})
		}
	}
	return int64(len(cases))
}

// siblings: several writers alive in one process at a time, with blank prefixes of different
// lengths (what a tree printer uses), over separate sinks, their Write calls interleaved in every
// order. Each sink must receive what its own writer alone produces (the model's `writes` for its own
// chunks): writers share nothing.
func siblings(f *lib.Flags, res *lib.Result) int64 {
	prefixes := []string{"  ", "      ", "    ", "> "}
	texts := [][]byte{[]byte("a"), []byte("a\n"), []byte("\n"), []byte("ab\ncd"), []byte("leaf a\n"), []byte("\r\n")}
	type scase struct {
		Order  []int    // which writer writes next
		Chunks []string // hex, parallel to Order
	}
	var cases []scase
	var reqs []string // len(prefixes) requests per case
	var goOut []string
	r := f.Rand(777)
	for n := 0; n < 3000; n++ {
		k := 2 + r.Intn(5)
		c := scase{}
		sinks := make([]bytes.Buffer, len(prefixes))
		ws := make([]io.Writer, len(prefixes))
		for i, p := range prefixes {
			ws[i] = indent.NewWriter(&sinks[i], p)
		}
		per := make([][]string, len(prefixes))
		perRes := make([]strings.Builder, len(prefixes))
		for j := 0; j < k; j++ {
			wi := r.Intn(len(prefixes))
			t := texts[r.Intn(len(texts))]
			c.Order = append(c.Order, wi)
			c.Chunks = append(c.Chunks, lib.Hex(t))
			nw, err := ws[wi].Write(t)
			e := 0
			if err != nil {
				e = 1
			}
			fmt.Fprintf(&perRes[wi], " %d:%d", nw, e)
			per[wi] = append(per[wi], lib.Hex(t))
		}
		cases = append(cases, c)
		for i, p := range prefixes {
			tc := tcase{Pre: lib.HexS(p), Chunks: per[i], FailAt: -1}
			reqs = append(reqs, tc.request())
			goOut = append(goOut, lib.Hex(sinks[i].Bytes())+" ;"+perRes[i].String())
		}
	}
	ans, err := lib.ParBatch(f.Driver, reqs, f.Procs)
	if err != nil {
		lib.Fatal("driver: %v", err)
	}
	for i := range reqs {
		if ans[i] != goOut[i] {
			ci := i / len(prefixes)
			res.AddDisagreement(lib.Disagreement{Kind: "correspondence", Input: map[string]any{"prefixes": prefixes, "case": cases[ci], "writer": i % len(prefixes)},
				Go: goOut[i], Model: ans[i], SpecVerdict: "violates",
				What: "several writers alive at once: a sink did not receive what its own writer alone produces (the writers share state)", Replay: map[string]any{"siblings": cases[ci]}})
		}
	}
	res.Distribution["sibling_writer_cases"] = int64(len(cases))
	return int64(len(cases))
}

func replay(f *lib.Flags) {
	raw, err := os.ReadFile(f.Replay)
	if err != nil {
		lib.Fatal("%v", err)
	}
	var p struct {
		Disagreement struct {
			Replay json.RawMessage `json:"replay"`
		} `json:"disagreement"`
	}
	if err := json.Unmarshal(raw, &p); err != nil {
		lib.Fatal("%v", err)
	}
	d, err := lib.StartDriver(f.Driver)
	if err != nil {
		lib.Fatal("%v", err)
	}
	defer d.Close()
	var sq struct {
		Seq *sprog `json:"seq"`
	}
	if json.Unmarshal(p.Disagreement.Replay, &sq) == nil && sq.Seq != nil {
		if !replaySeq(d, *sq.Seq) {
			d.Close()
			os.Exit(1)
		}
		return
	}
	var fl struct {
		Fault *fcase `json:"fault"`
	}
	if json.Unmarshal(p.Disagreement.Replay, &fl) == nil && fl.Fault != nil {
		if !replayFault(d, *fl.Fault) {
			d.Close()
			os.Exit(1)
		}
		return
	}
	var nst struct {
		Nested string `json:"nested"`
	}
	if json.Unmarshal(p.Disagreement.Replay, &nst) == nil && nst.Nested != "" {
		fs := strings.Fields(nst.Nested)
		p1, _ := lib.UnHex(fs[1])
		p2, _ := lib.UnHex(fs[2])
		var sink bytes.Buffer
		inner := indent.NewWriter(&sink, string(p1))
		outer := indent.NewWriter(inner, string(p2))
		var rs strings.Builder
		for i := 3; i+1 < len(fs); i += 2 {
			ch, _ := lib.UnHex(fs[i])
			w := inner
			if fs[i+1] == "o" {
				w = outer
			}
			n, err := w.Write(ch)
			if err != nil {
				n = -1
			}
			fmt.Fprintf(&rs, " %d", n)
		}
		g := lib.Hex(sink.Bytes()) + " ;" + rs.String()
		m, _ := d.Ask(nst.Nested)
		fmt.Printf("input: %s\ngo:    %s\nmodel: %s\n", nst.Nested, g, m)
		if g != m {
			os.Exit(1)
		}
		return
	}
	var one struct {
		Oneshot string `json:"oneshot"`
	}
	if json.Unmarshal(p.Disagreement.Replay, &one) == nil && one.Oneshot != "" {
		fs := strings.Fields(one.Oneshot)
		pre, _ := lib.UnHex(fs[1])
		s, _ := lib.UnHex(fs[2])
		g := lib.HexS(indent.String(string(pre), string(s)))
		m, _ := d.Ask(one.Oneshot)
		fmt.Printf("input: %s\ngo:    %s\nmodel: %s\n", one.Oneshot, g, m)
		if g != m {
			os.Exit(1)
		}
		return
	}
	var h hcase
	if json.Unmarshal(p.Disagreement.Replay, &h) == nil && h.Ks != nil {
		g := runHist(h)
		m, _ := d.Ask(h.request("writes"))
		sp, _ := d.Ask(h.request("spec.writes"))
		dis := judgeWith(d, h, g, m, sp)
		fmt.Printf("input: %+v\ngo:    %s\nmodel: %s\nspec:  %s\n", h, g.out, m, sp)
		if dis != nil {
			fmt.Printf("verdict: %s known=%q (%s)\n", dis.SpecVerdict, dis.Known, dis.What)
			os.Exit(1)
		}
		return
	}
	var c tcase
	if err := json.Unmarshal(p.Disagreement.Replay, &c); err != nil {
		lib.Fatal("%v", err)
	}
	g, _ := runGo(c)
	m, _ := d.Ask(c.request())
	v, what := specVerdict(d, c, g)
	fmt.Printf("input: %+v\ngo:    %s\nmodel: %s\nspec:  %s (%s)\n", c, g, m, v, what)
	if g != m {
		os.Exit(1)
	}
}
