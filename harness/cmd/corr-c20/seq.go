// Writers created one after another over ONE sink object (what tree.go / entry.go do: one writer per
// directory entry over the same sink), and over one another (a writer over a writer, same and
// different prefixes).  Each writer is fed its own text in chunks; the one before it may have left
// its last line open.  The property's sentence is about a writer and the text written through IT:
// every writer renders its own text as String(prefix, text), starting from a fresh line state —
// whatever other writers did to the same sink before, however the sink object compares to the one an
// earlier writer was made over.
//
// Observation: node 0 is the sink (a *bytes.Buffer); the writer made by op i is wrapped in a tap
// (one tap object per writer, so that all writers made over writer i are made over the SAME pointer)
// that records everything offered to it.  After every op, at every level of the chain from the new
// writer down to the sink, what arrived below must be the rendering of what arrived above:
//   - the new writer:     delivered to its target  = spec.indent(prefix, its text)
//   - an older writer j:  delivered to its target  = spec.indent(prefix_j, all it was offered so far)
//     minus what it had delivered before
//
// Compared as well: every writer alone against the model (driver op `writes`, fresh state).
package main

import (
	"bytes"
	"fmt"
	"io"
	"strings"

	"github.com/openconfig/goyang/pkg/indent"
	"verif/harness/lib"
)

type sop struct {
	Target int      `json:"target"` // 0 = the sink, i = the writer made by op i (1-based)
	Pre    string   `json:"prefix_hex"`
	Chunks []string `json:"chunks_hex"`
}

type sprog struct {
	Ops []sop  `json:"ops"`
	How string `json:"how,omitempty"`
}

// tap records what is offered to the writer it wraps.
type tap struct {
	w  io.Writer
	in []byte
}

func (t *tap) Write(p []byte) (int, error) {
	t.in = append(t.in, p...)
	return t.w.Write(p)
}

// seqFinding: at op Op, the writer made by op Level (Level == Op: the new writer) did not deliver
// the rendering of what it was offered.
type seqFinding struct {
	Op, Level int
	Pre       []byte
	Before    []byte // offered to that writer before this op (empty for the new writer)
	After     []byte // offered to it up to and including this op
	Got       []byte // delivered to its target during this op
	Want      []byte // reference rendering (Go side, byte-wise)
	Counts    string // non-empty: a Write of the new writer did not return (len(chunk), nil)
}

type seqRun struct {
	lines    []string // per op: canonical line of the new writer alone: delivered ; n:e ...
	findings []seqFinding
	crash    string
}

func runSeq(p sprog) (r seqRun) {
	sink := &bytes.Buffer{}
	targets := []io.Writer{sink}           // what is handed to NewWriter for node i
	offered := []func() []byte{sink.Bytes} // what node i has been offered so far
	pres := [][]byte{nil}                  // prefix of node i
	under := []int{-1}                     // target of node i
	defer func() {
		if x := recover(); x != nil {
			r.crash = fmt.Sprint(x)
		}
	}()
	for oi, op := range p.Ops {
		i := oi + 1
		pre, _ := lib.UnHex(op.Pre)
		before := make([][]byte, len(offered))
		for j, f := range offered {
			before[j] = append([]byte{}, f()...)
		}
		w := indent.NewWriter(targets[op.Target], string(pre))
		tp := &tap{w: w}
		targets = append(targets, tp)
		offered = append(offered, func() []byte { return tp.in })
		pres = append(pres, pre)
		under = append(under, op.Target)
		var text []byte
		var rs strings.Builder
		counts := ""
		for ci, chx := range op.Chunks {
			ch, _ := lib.UnHex(chx)
			text = append(text, ch...)
			n, err := tp.Write(ch) // through the tap: it records all the writer is offered
			e := 0
			if err != nil {
				e = 1
			}
			fmt.Fprintf(&rs, " %d:%d", n, e)
			if (n != len(ch) || err != nil) && counts == "" {
				counts = fmt.Sprintf("Write %d of %d bytes returned (%d, %v)", ci, len(ch), n, err)
			}
		}
		t := op.Target
		got := offered[t]()[len(before[t]):]
		r.lines = append(r.lines, lib.Hex(got)+" ;"+rs.String())
		if want := refRender(pre, text, false); !bytes.Equal(got, want) || counts != "" {
			r.findings = append(r.findings, seqFinding{Op: i, Level: i, Pre: pre, After: text, Got: append([]byte{}, got...), Want: want, Counts: counts})
		}
		for j := t; j > 0; j = under[j] {
			tj := under[j]
			after := offered[j]()
			got := offered[tj]()[len(before[tj]):]
			was := refRender(pres[j], before[j], false)
			now := refRender(pres[j], after, false)
			if !bytes.Equal(got, now[len(was):]) {
				r.findings = append(r.findings, seqFinding{Op: i, Level: j, Pre: pres[j], Before: before[j], After: append([]byte{}, after...),
					Got: append([]byte{}, got...), Want: now[len(was):]})
			}
		}
	}
	return r
}

// seqVerdict evaluates the executable specification (driver op spec.indent) on a finding.
func seqVerdict(d *lib.Driver, f seqFinding) (string, string) {
	nowHex, _ := d.Ask("spec.indent " + lib.Hex(f.Pre) + " " + lib.Hex(f.After))
	now, _ := lib.UnHex(nowHex)
	wasHex, _ := d.Ask("spec.indent " + lib.Hex(f.Pre) + " " + lib.Hex(f.Before))
	was, _ := lib.UnHex(wasHex)
	if !bytes.HasPrefix(now, was) {
		return "", "specification: rendering is not monotone"
	}
	want := now[len(was):]
	if f.Level == f.Op {
		if !bytes.Equal(f.Got, want) {
			return "violates", fmt.Sprintf("writers made one after another over one sink object: the writer made by op %d (prefix %q) was fed the text %q and delivered %q to what it was made over; String(prefix, text) = %q — a new writer renders its own text from a fresh line state (the prefix at the start of every line of ITS text), whatever an earlier writer over the same object left open",
				f.Op, f.Pre, f.After, f.Got, want)
		}
		if f.Counts != "" {
			return "violates", fmt.Sprintf("writers made one after another over one sink object: in op %d (prefix %q, text %q) %s; a successful Write reports the full length of its argument", f.Op, f.Pre, f.After, f.Counts)
		}
		return "holds", "the Go output satisfies the specification (the runner's reference rendering differs from spec.indent)"
	}
	if !bytes.Equal(f.Got, want) {
		return "violates", fmt.Sprintf("a writer made over another writer: during op %d the writer made by op %d (prefix %q) had been offered %q before and was offered %q in all; it delivered %q during the op, the rendering of all it was offered continues with %q (text written in any division into Write calls comes out as the one-shot rendering of the concatenation)",
			f.Op, f.Level, f.Pre, f.Before, f.After, f.Got, want)
	}
	return "holds", "the Go output satisfies the specification (the runner's reference rendering differs from spec.indent)"
}

func hexChunks(bs [][]byte) []string {
	o := make([]string, len(bs))
	for j, b := range bs {
		o[j] = lib.Hex(b)
	}
	return o
}

func seqPrograms(f *lib.Flags) []sprog {
	var out []sprog
	type tc struct{ chunks []string }
	// (text, chunking) pairs: every text of <= 2 symbols over {a, LF} in every chunking
	var small []tc
	for _, t := range []string{"a", "\n", "aa", "a\n", "\na", "\n\n"} {
		for _, parts := range compositions([]byte(t), false) {
			small = append(small, tc{hexChunks(parts)})
		}
	}
	// flat: 2 and 3 writers in a row over the sink
	flatPre := []string{">", ">>"}
	var rec func(ops []sop, left int)
	rec = func(ops []sop, left int) {
		if left == 0 {
			out = append(out, sprog{Ops: append([]sop{}, ops...), How: "flat"})
			return
		}
		for _, p := range flatPre {
			for _, s := range small {
				rec(append(ops, sop{Target: 0, Pre: lib.HexS(p), Chunks: s.chunks}), left-1)
			}
		}
	}
	rec(nil, 2)
	rec(nil, 3)
	// nested: three ops, every choice of what each writer is made over
	var few []tc
	for _, t := range [][]string{{"a"}, {"a\n"}, {"\n"}, {"b\nc"}, {"a", "\n"}} {
		var bs [][]byte
		for _, s := range t {
			bs = append(bs, []byte(s))
		}
		few = append(few, tc{hexChunks(bs)})
	}
	nestPre := []string{">", "  "}
	var recn func(ops []sop, left int)
	recn = func(ops []sop, left int) {
		if left == 0 {
			out = append(out, sprog{Ops: append([]sop{}, ops...), How: "nested"})
			return
		}
		for tg := 0; tg <= len(ops); tg++ {
			for _, p := range nestPre {
				for _, s := range few {
					recn(append(ops, sop{Target: tg, Pre: lib.HexS(p), Chunks: s.chunks}), left-1)
				}
			}
		}
	}
	recn(nil, 3)
	// random: 2-7 writers, mostly over the sink, often with the prefix and target of the one before
	r := f.Rand(2121)
	prefixes := []string{">", ">>", "  ", "    ", "-- ", "é", ">\n", "\t"}
	alpha := [][]byte{[]byte("a"), []byte("b"), []byte("\n"), []byte("a"), []byte("\n"), []byte("é")}
	n := 6000
	if f.Thorough() {
		n = 200000
	}
	for ; n > 0; n-- {
		p := sprog{How: "random"}
		for k := 2 + r.Intn(6); k > 0; k-- {
			op := sop{}
			if len(p.Ops) > 0 && r.Intn(2) == 0 {
				op.Target, op.Pre = p.Ops[len(p.Ops)-1].Target, p.Ops[len(p.Ops)-1].Pre
			} else {
				if r.Intn(10) >= 6 {
					op.Target = r.Intn(len(p.Ops) + 1)
				}
				op.Pre = lib.HexS(prefixes[r.Intn(len(prefixes))])
			}
			var text []byte
			for l := r.Intn(9); l > 0; l-- {
				text = append(text, alpha[r.Intn(len(alpha))]...)
			}
			if r.Intn(8) == 0 {
				op.Chunks = append(op.Chunks, "-")
			}
			for len(text) > 0 {
				m := 1 + r.Intn(4)
				if m > len(text) {
					m = len(text)
				}
				op.Chunks = append(op.Chunks, lib.Hex(text[:m]))
				text = text[m:]
			}
			if len(op.Chunks) == 0 {
				op.Chunks = []string{"-"}
			}
			p.Ops = append(p.Ops, op)
		}
		out = append(out, p)
	}
	return out
}

// sequences runs the programs; returns their number and the number of distinct non-trivial ones (a
// writer made over an object an earlier writer left in the middle of a line).
func sequences(f *lib.Flags, res *lib.Result, d *lib.Driver) (int64, int64) {
	progs := seqPrograms(f)
	runs := make([]seqRun, len(progs))
	var reqs []string
	var where [][2]int
	nontrivial := int64(0)
	distinct := lib.NewDistinct()
	for i, p := range progs {
		runs[i] = runSeq(p)
		open := false
		key := ""
		for oi, op := range p.Ops {
			if oi < len(runs[i].lines) {
				reqs = append(reqs, tcase{Pre: op.Pre, Chunks: op.Chunks, FailAt: -1}.request())
				where = append(where, [2]int{i, oi})
			}
			key += fmt.Sprintf("%d %s %s|", op.Target, op.Pre, strings.Join(op.Chunks, " "))
			if oi+1 < len(p.Ops) {
				j := strings.Join(op.Chunks, "")
				if len(j) >= 2 && j != "-" && !strings.HasSuffix(j, "0a") {
					open = true
				}
			}
		}
		if distinct.Add(key) && open {
			nontrivial++
		}
	}
	ans, err := lib.ParBatch(f.Driver, reqs, f.Procs)
	if err != nil {
		lib.Fatal("driver: %v", err)
	}
	modelDiff := map[int]string{}
	for k, a := range ans {
		i, oi := where[k][0], where[k][1]
		if a != runs[i].lines[oi] {
			if _, ok := modelDiff[i]; !ok {
				modelDiff[i] = fmt.Sprintf("op %d: go %s model %s", oi+1, runs[i].lines[oi], a)
			}
		}
	}
	reported := 0
	for i, p := range progs {
		md, hasMd := modelDiff[i]
		if runs[i].crash == "" && len(runs[i].findings) == 0 && !hasMd {
			continue
		}
		reported++
		if reported > 12 {
			res.Count("disagreements_not_examined", 1)
			continue
		}
		dis := lib.Disagreement{Kind: "spec", Input: p, Go: runs[i].lines, Model: md, Replay: map[string]any{"seq": p}}
		switch {
		case runs[i].crash != "":
			dis.Kind, dis.SpecVerdict, dis.What = "crash", "violates", "indent writer panicked when writers were made one after another over one sink object: "+runs[i].crash
		case len(runs[i].findings) > 0:
			dis.SpecVerdict, dis.What = seqVerdict(d, runs[i].findings[0])
			if hasMd {
				dis.Kind = "correspondence"
			}
		default:
			dis.Kind, dis.SpecVerdict = "correspondence", "holds"
			dis.What = "writers made one after another over one sink object: a writer alone differs from the model (" + md + "); every level of the chain renders what it was offered"
		}
		res.AddDisagreement(dis)
	}
	res.Distribution["writer_sequence_programs"] = int64(len(progs))
	return int64(len(progs)), nontrivial
}

func replaySeq(d *lib.Driver, p sprog) bool {
	r := runSeq(p)
	fmt.Printf("input: %+v\ngo:    %v\n", p, r.lines)
	for oi, op := range p.Ops {
		if oi < len(r.lines) {
			m, _ := d.Ask(tcase{Pre: op.Pre, Chunks: op.Chunks, FailAt: -1}.request())
			fmt.Printf("model op %d: %s\n", oi+1, m)
		}
	}
	if r.crash != "" {
		fmt.Printf("verdict: violates (panic: %s)\n", r.crash)
		return false
	}
	ok := true
	for _, fd := range r.findings {
		v, what := seqVerdict(d, fd)
		fmt.Printf("spec:  %s (%s)\n", v, what)
		ok = false
	}
	return ok
}
