// corr-res: correspondence between goyang's resolver (Modules.Parse/Process/ToEntry, in-process)
// and the Lean resolver model (driver drv_res) on generated module sets; the dump both sides
// print is compared under the projection of the property named by -prop.
package main

import (
	"flag"
	"fmt"
	"os"
	"strings"

	"github.com/openconfig/goyang/pkg/yang"
	"verif/harness/gen"
	"verif/harness/lib"
)

var prop = flag.String("prop", "ALL", "property whose projection is compared")
var show = flag.Int("show", 0, "debug: print the first N disagreements in full")
var count = flag.Int("n", 0, "number of generated sets (0 = tier default)")

type tcase struct {
	Names []string `json:"names"`
	Texts []string `json:"texts"`
}

// runGo loads, processes and dumps; a panic is reported as a crash.
func runGo(c tcase) (dump []string, parseErr error, crashed string) {
	defer func() {
		if r := recover(); r != nil {
			crashed = fmt.Sprint(r)
		}
	}()
	ms := yang.NewModules()
	for i := range c.Names {
		if err := ms.Parse(c.Texts[i], c.Names[i]); err != nil {
			return nil, err, ""
		}
	}
	errs := ms.Process()
	return lib.DumpOutcome(ms, errs), nil, ""
}

func main() {
	f := lib.ParseFlags()
	res := lib.NewResult(*prop, f)
	n := 2000
	if f.Thorough() {
		n = 60000
	}
	if *count > 0 {
		n = *count
	}
	cfg := gen.Default()
	var cases []tcase
	var goDumps [][]string
	var reqs []string
	distinct := lib.NewDistinct()
	parseFail, crashes := 0, 0
	for i := 0; i < n; i++ {
		r := f.Rand(i)
		set := gen.Generate(r, cfg)
		names, texts := set.Files()
		c := tcase{names, texts}
		d, perr, crash := runGo(c)
		if crash != "" {
			crashes++
			res.AddDisagreement(lib.Disagreement{Kind: "crash", Input: c, Go: crash, SpecVerdict: "violates", What: "goyang panicked: " + crash, Replay: c})
			continue
		}
		if perr != nil {
			parseFail++
			continue
		}
		w, err := lib.WireFiles(names, texts)
		if err != nil {
			parseFail++
			continue
		}
		distinct.Add(strings.Join(texts, "\x00"))
		cases = append(cases, c)
		goDumps = append(goDumps, d)
		reqs = append(reqs, "process 0 0 "+w)
	}
	ans, err := lib.ParBatch(f.Driver, reqs, f.Procs)
	if err != nil {
		lib.Fatal("driver: %v", err)
	}
	outside, agree, withErrs := 0, 0, 0
	shown := 0
	for i := range cases {
		if strings.HasPrefix(ans[i], "outsideModel") {
			outside++
			continue
		}
		var model []string
		if ans[i] != "" {
			model = strings.Split(ans[i], " ; ")
		}
		g := goDumps[i]
		if len(g) > 0 && strings.HasPrefix(g[0], "E ") {
			withErrs++
		}
		if strings.Join(g, "\n") == strings.Join(model, "\n") {
			agree++
			if i%(len(cases)/5+1) == 0 {
				res.AddSample(map[string]any{"files": cases[i].Names, "records": len(g), "first": first(g)})
			}
			continue
		}
		what := firstDiff(g, model)
		res.AddDisagreement(lib.Disagreement{Kind: "correspondence", Input: cases[i], Go: g, Model: model, SpecVerdict: "", What: what, Replay: cases[i]})
		if shown < *show {
			shown++
			fmt.Fprintf(os.Stderr, "=== disagreement %d: %s\n", i, what)
			for j := range cases[i].Names {
				fmt.Fprintf(os.Stderr, "--- %s\n%s", cases[i].Names[j], cases[i].Texts[j])
			}
		}
	}
	res.Evaluations = int64(n)
	res.DistinctNontrivial = distinct.Len()
	res.Rule = "generated module sets (harness/gen); distinct by text"
	res.Distribution["go_parse_rejected"] = parseFail
	res.Distribution["outside_model"] = outside
	res.Distribution["agree"] = agree
	res.Distribution["with_process_errors"] = withErrs
	res.Distribution["crashes"] = crashes
	res.Write(f.Out)
	fmt.Fprintf(os.Stderr, "cases=%d parseFail=%d outside=%d agree=%d withErrs=%d disagreements=%d crashes=%d\n", n, parseFail, outside, agree, withErrs, len(res.Disagreements), crashes)
}

func first(g []string) string {
	if len(g) == 0 {
		return ""
	}
	return g[0]
}

func unhexFields(s string) string {
	f := strings.Fields(s)
	for i, x := range f {
		if i == 1 || i == 2 {
			if b, err := lib.UnHex(x); err == nil {
				f[i] = string(b)
			}
		}
	}
	return strings.Join(f, " ")
}

func firstDiff(g, m []string) string {
	for i := 0; i < len(g) || i < len(m); i++ {
		var a, b string
		if i < len(g) {
			a = g[i]
		}
		if i < len(m) {
			b = m[i]
		}
		if a != b {
			return fmt.Sprintf("record %d:\n   go:    %s\n   model: %s", i, unhexFields(a), unhexFields(b))
		}
	}
	return "?"
}
