package main

// Two refinements that make the facts stable under the extraction of helper functions
// (rules C1 and C2 in checks/C19.json, "trusted_base"):
//
// (C1) CALLER-HELD LOCKS.  The must-hold analysis of a function starts from the mutexes that are
//      held at EVERY call of it, instead of from the empty set, when all its calls are visible:
//      the function is a named function or method of the two packages with an unexported name,
//      its value is never taken (no method value, no function value), it is not a closure or a
//      synthetic wrapper, no interface declared in the two packages (nor one of the callback
//      names String/Error/Format/…) has a method of its name, and every call of it is a plain
//      static call (`go f()` and `defer f()` make it ineligible: the locks of the statement are
//      not the locks of the execution).  The entry sets are the least fixpoint from below
//      (start: empty everywhere; entry(f) := the intersection over its call sites of the set held
//      there, computed with the current entry sets), so every iterate is an under-approximation
//      of what is really held.  A function without a visible call keeps the empty set.
//
// (C2) ANCHORS.  An allow-list entry of kind write / read / call names a function; it also tags
//      the matching sites of the helpers that belong to that function.  The anchor of a function
//      is the function itself when it can be called from outside (exported name, value taken,
//      target of an interface or function-value edge, closure, no caller at all) or when its
//      callers have different anchors; otherwise it is the common anchor of its callers.  Moving
//      a tagged statement into an unexported helper that only the old function calls therefore
//      keeps its tag; a second caller with another anchor removes it (the wrappers that the
//      compiler synthesises for promoted unexported methods, and that nothing calls, do not count).  Region kinds
//      (region-after-nil-check, region-after-lookup-miss) are not extended: the region is a set
//      of blocks of the named function (calls inside the region are followed by the Lean
//      predicate through the call edges, as before).

import (
	"go/token"
	"go/types"
	"sort"

	"golang.org/x/tools/go/ssa"
)

type callRef struct {
	caller *fnInfo
	ins    ssa.Instruction
}

// visibleCalls: f -> its static call sites, for the functions all of whose calls are visible (C1).
func (a *analyzer) visibleCalls() map[*ssa.Function][]callRef {
	ifaceNames := map[string]bool{}
	for n := range ifaceCallbackNames {
		ifaceNames[n] = true
	}
	for _, t := range a.allInterfaces() {
		for i := 0; i < t.NumMethods(); i++ {
			ifaceNames[t.Method(i).Name()] = true
		}
	}
	calls := map[*ssa.Function][]callRef{}
	bad := map[*ssa.Function]bool{}
	for _, fi := range a.fns {
		for _, b := range fi.fn.Blocks {
			for _, ins := range b.Instrs {
				ci, ok := ins.(ssa.CallInstruction)
				if !ok {
					continue
				}
				f := ci.Common().StaticCallee()
				if f == nil {
					continue
				}
				calls[f] = append(calls[f], callRef{fi, ins})
			}
		}
	}
	// the wrappers that the compiler synthesises for promoted methods with an unexported name can only be
	// reached by a call of that name: when there is none (and no interface has the name, no method value
	// is taken) the wrapper is dead code and its call of the wrapped method does not count
	dead := func(g *ssa.Function) bool {
		return g.Synthetic != "" && g.Synthetic != "package initializer" && g.Signature.Recv() != nil && !token.IsExported(g.Name()) &&
			!a.addrTkn[g] && !ifaceNames[g.Name()] && len(calls[g]) == 0
	}
	for f, cs := range calls {
		var live []callRef
		for _, c := range cs {
			if !dead(c.caller.fn) {
				live = append(live, c)
			}
		}
		calls[f] = live
	}
	out := map[*ssa.Function][]callRef{}
	for _, fi := range a.fns {
		f := fi.fn
		o := f.Object()
		if o == nil || o.Exported() || a.addrTkn[f] || f.Parent() != nil || f.Synthetic != "" || bad[f] || len(calls[f]) == 0 {
			continue
		}
		if f.Signature.Recv() != nil && ifaceNames[f.Name()] {
			continue
		}
		out[f] = calls[f]
	}
	return out
}

func (a *analyzer) allInterfaces() []*types.Interface {
	var out []*types.Interface
	for _, p := range a.prog.AllPackages() {
		if p.Pkg == nil || !a.ours[p.Pkg.Path()] {
			continue
		}
		sc := p.Pkg.Scope()
		for _, n := range sc.Names() {
			if tn, ok := sc.Lookup(n).(*types.TypeName); ok {
				if it, ok := tn.Type().Underlying().(*types.Interface); ok {
					out = append(out, it)
				}
			}
		}
	}
	return out
}

// computeEntryHeld: (C1) the least fixpoint from below.
func (a *analyzer) computeEntryHeld() {
	a.entryHeld = map[*ssa.Function]map[string]bool{}
	vis := map[*ssa.Function][]callRef{}
	for f, calls := range a.visible {
		plain := true
		for _, c := range calls {
			if _, isCall := c.ins.(*ssa.Call); !isCall {
				plain = false // go / defer: the locks of the statement are not the locks of the execution
			}
		}
		if plain {
			vis[f] = calls
		}
	}
	var fs []*ssa.Function
	for f := range vis {
		fs = append(fs, f)
	}
	sort.Slice(fs, func(i, j int) bool { return a.byFn[fs[i]].name < a.byFn[fs[j]].name })
	for round := 0; round < 20; round++ {
		heldIn := map[*ssa.Function]map[ssa.Instruction]string{}
		changed := false
		for _, f := range fs {
			var inter map[string]bool
			for _, c := range vis[f] {
				h, ok := heldIn[c.caller.fn]
				if !ok {
					h = a.lockStates(c.caller.fn)
					heldIn[c.caller.fn] = h
				}
				cur := map[string]bool{}
				for _, k := range splitHeld(h[c.ins]) {
					cur[k[0]+":"+k[1]] = true
				}
				if inter == nil {
					inter = cur
				} else {
					for k := range inter {
						if !cur[k] {
							delete(inter, k)
						}
					}
				}
			}
			if len(inter) != len(a.entryHeld[f]) {
				changed = true
			}
			a.entryHeld[f] = inter
		}
		if !changed {
			return
		}
	}
	// no fixpoint within the bound: fall back to the empty sets (sound)
	a.entryHeld = map[*ssa.Function]map[string]bool{}
}

// computeBindings: (C3) parameters of functions all of whose calls are visible stand for the arguments.
func (a *analyzer) computeBindings() {
	a.visible = a.visibleCalls()
	a.bind = map[*ssa.Parameter][]ssa.Value{}
	for f, calls := range a.visible {
		ok := true
		for _, c := range calls {
			if len(c.ins.(ssa.CallInstruction).Common().Args) != len(f.Params) {
				ok = false
			}
		}
		if !ok {
			delete(a.visible, f)
			continue
		}
		for i, p := range f.Params {
			for _, c := range calls {
				a.bind[p] = append(a.bind[p], c.ins.(ssa.CallInstruction).Common().Args[i])
			}
		}
	}
}

// visibleResults: (C3) the values that the static callee of c returns as result i, when all its calls are visible.
func (a *analyzer) visibleResults(c *ssa.Call, i int) []ssa.Value {
	f := c.Call.StaticCallee()
	if f == nil || a.visible[f] == nil {
		return nil
	}
	var out []ssa.Value
	for _, b := range f.Blocks {
		for _, ins := range b.Instrs {
			if r, ok := ins.(*ssa.Return); ok && i < len(r.Results) {
				out = append(out, r.Results[i])
			}
		}
	}
	return out
}

// computeSentinels: (C4) a package-level variable of the interface type `error` whose only store in the
// two packages is the one in the package initialiser, of the result of errors.New or fmt.Errorf, and whose
// address is never taken, names an object of the standard library without any exported way to change it
// (*errors.errorString, *fmt.wrapError): handing it out (a sentinel error that callers compare by
// identity) shares no mutable memory between module sets, so it is not a leak in the sense of
// NoGlobalEscapes.  Any second store, or a value of another origin, makes it an ordinary variable again.
func (a *analyzer) computeSentinels() {
	a.sentinelErr = map[string]bool{}
	good := map[*ssa.Global]bool{}
	bad := map[*ssa.Global]bool{}
	for _, fi := range a.fns {
		isInit := fi.fn.Synthetic == "package initializer"
		for _, b := range fi.fn.Blocks {
			for _, ins := range b.Instrs {
				st, isStore := ins.(*ssa.Store)
				for _, op := range ins.Operands(nil) {
					g, ok := (*op).(*ssa.Global)
					if !ok {
						continue
					}
					if isStore && st.Addr == g {
						if isInit && !good[g] && sentinelValue(st.Val) {
							good[g] = true
						} else {
							bad[g] = true
						}
						continue
					}
					if u, isLoad := ins.(*ssa.UnOp); isLoad && u.Op == token.MUL && u.X == g {
						continue // a plain read of the variable
					}
					bad[g] = true // its address goes somewhere
				}
			}
		}
	}
	for g := range good {
		if bad[g] || g.Pkg == nil || !a.ours[g.Pkg.Pkg.Path()] {
			continue
		}
		if p, ok := g.Type().(*types.Pointer); !ok || p.Elem().String() != "error" {
			continue
		}
		a.sentinelErr[a.globalName(g)] = true
	}
}

func sentinelValue(v ssa.Value) bool {
	if mi, ok := v.(*ssa.MakeInterface); ok {
		v = mi.X
	}
	if ci, ok := v.(*ssa.ChangeInterface); ok {
		v = ci.X
	}
	c, ok := v.(*ssa.Call)
	if !ok {
		return false
	}
	f := c.Call.StaticCallee()
	if f == nil || f.Pkg == nil {
		return false
	}
	name := f.Pkg.Pkg.Path() + "." + f.Name()
	return name == "errors.New" || name == "fmt.Errorf"
}

// (C5) region-after-lookup-miss, generalised.  The value whose nil test opens the region is
//   - a map look-up (one result) whose key IS THE RESULT OF THE KEY CALL (the bare name; never a string
//     built from it: a miss under name@revision does not say that no module of that name is loaded,
//     seeded change C19-c1), possibly handed through: a phi all of whose edges are such, a parameter
//     of a function all of whose calls are visible all of whose arguments are such, a result of such a
//     function all of whose returned values are such; or
//   - the result of a LOOK-UP HELPER: a function all of whose calls are visible, that writes nothing and
//     calls nothing of the two packages, and every value it returns is nil, such a look-up (keys judged
//     through the parameters as above), a phi of these, or a value returned below the non-nil branch of
//     its own nil test (`if m := t[rev]; m != nil { return m }`).  Its result is nil only when the
//     look-up under the bare name missed.
//
// The region itself is unchanged: the blocks of the named function dominated by the nil branch of a
// test of that value alone against nil, when that branch has no other predecessor.
func (a *analyzer) builtFromKeyCall(v ssa.Value, keyCall string, seen map[ssa.Value]bool) bool {
	if seen[v] {
		return true // a cycle of phis adds nothing
	}
	seen[v] = true
	switch x := v.(type) {
	case *ssa.Call:
		if x.Call.IsInvoke() {
			return x.Call.Method.Name() == keyCall
		}
		f := x.Call.StaticCallee()
		if f == nil {
			return false
		}
		if f.Name() == keyCall {
			return true
		}
		return a.allResults(x, 0, func(r ssa.Value) bool { return a.builtFromKeyCall(r, keyCall, seen) })
	case *ssa.Extract:
		if c, ok := x.Tuple.(*ssa.Call); ok {
			return a.allResults(c, x.Index, func(r ssa.Value) bool { return a.builtFromKeyCall(r, keyCall, seen) })
		}
	case *ssa.Phi:
		for _, e := range x.Edges {
			if !a.builtFromKeyCall(e, keyCall, seen) {
				return false
			}
		}
		return len(x.Edges) > 0
	case *ssa.Parameter:
		args, ok := a.bind[x]
		if !ok || len(args) == 0 {
			return false
		}
		for _, arg := range args {
			if !a.builtFromKeyCall(arg, keyCall, seen) {
				return false
			}
		}
		return true
	}
	return false
}

// allResults: c is a static call of a function all of whose calls are visible and ok holds of every value it returns as result i.
func (a *analyzer) allResults(c *ssa.Call, i int, ok func(ssa.Value) bool) bool {
	rs := a.visibleResults(c, i)
	if len(rs) == 0 {
		return false
	}
	for _, r := range rs {
		if !ok(r) {
			return false
		}
	}
	return true
}

func (a *analyzer) missValue(v ssa.Value, keyCall string, seen map[ssa.Value]bool) bool {
	if seen[v] {
		return true
	}
	seen[v] = true
	switch x := v.(type) {
	case *ssa.Lookup:
		if x.CommaOk {
			return false
		}
		if _, isMap := x.X.Type().Underlying().(*types.Map); !isMap {
			return false
		}
		return a.builtFromKeyCall(x.Index, keyCall, map[ssa.Value]bool{})
	case *ssa.Phi:
		for _, e := range x.Edges {
			if !isNilConst(e) && !a.missValue(e, keyCall, seen) {
				return false
			}
		}
		return len(x.Edges) > 0
	case *ssa.Call:
		f := x.Call.StaticCallee()
		if f == nil || a.visible[f] == nil {
			return false
		}
		if fi := a.byFn[f]; fi != nil {
			for _, s := range fi.sites {
				if s.kind == kWrite || s.kind == kCall {
					return false // not a mere look-up
				}
			}
		}
		any := false
		for _, b := range f.Blocks {
			for _, ins := range b.Instrs {
				r, isRet := ins.(*ssa.Return)
				if !isRet || len(r.Results) == 0 {
					continue
				}
				any = true
				v := r.Results[0]
				if isNilConst(v) || nonNilAt(v, b) {
					continue // nil says nothing wrong; a value tested against nil on the way is not the nil result
				}
				if !a.missValue(v, keyCall, seen) {
					return false
				}
			}
		}
		return any
	}
	return false
}

// nonNilAt: block b is dominated by the non-nil branch of a test of v alone against nil.
func nonNilAt(v ssa.Value, b *ssa.BasicBlock) bool {
	for _, c := range b.Parent().Blocks {
		if len(c.Instrs) == 0 {
			continue
		}
		iff, ok := c.Instrs[len(c.Instrs)-1].(*ssa.If)
		if !ok {
			continue
		}
		bo, ok := iff.Cond.(*ssa.BinOp)
		if !ok || (bo.Op != token.NEQ && bo.Op != token.EQL) {
			continue
		}
		if !((bo.X == v && isNilConst(bo.Y)) || (bo.Y == v && isNilConst(bo.X))) {
			continue
		}
		nn := c.Succs[0]
		if bo.Op == token.EQL {
			nn = c.Succs[1]
		}
		if len(nn.Preds) == 1 && nn.Dominates(b) {
			return true
		}
	}
	return false
}

// computeAnchors: (C2); needs the call sites of collect().
func (a *analyzer) computeAnchors() {
	callers := map[*fnInfo]map[*fnInfo]bool{}
	dyn := map[*fnInfo]bool{} // reached through an edge that is not a plain static call
	for _, fi := range a.fns {
		static := map[string]bool{}
		for _, b := range fi.fn.Blocks {
			for _, ins := range b.Instrs {
				if ci, ok := ins.(ssa.CallInstruction); ok {
					if f := ci.Common().StaticCallee(); f != nil {
						if g, ours := a.byFn[f]; ours {
							static[g.name] = true
						}
					}
				}
			}
		}
		for _, s := range fi.sites {
			if s.kind != kCall {
				continue
			}
			g := a.byName[s.tgt]
			if g == nil {
				continue
			}
			if !static[s.tgt] {
				dyn[g] = true
			}
			if callers[g] == nil {
				callers[g] = map[*fnInfo]bool{}
			}
			callers[g][fi] = true
		}
	}
	a.anchor = map[*fnInfo]*fnInfo{}
	own := func(fi *fnInfo) bool {
		f := fi.fn
		o := f.Object()
		return o == nil || o.Exported() || a.addrTkn[f] || f.Parent() != nil || f.Synthetic != "" || dyn[fi] || len(callers[fi]) == 0
	}
	for _, fi := range a.fns {
		a.anchor[fi] = fi
	}
	// helpers take their callers' common anchor; iterate (chains of helpers), recursion keeps a function its own anchor
	for round := 0; round < 10; round++ {
		changed := false
		for _, fi := range a.fns {
			if own(fi) {
				continue
			}
			var common *fnInfo
			same := true
			for c := range callers[fi] {
				if c == fi {
					continue
				}
				if c.fn.Synthetic != "" && len(callers[c]) == 0 && !a.addrTkn[c.fn] && !token.IsExported(c.fn.Name()) {
					continue // a promoted-method wrapper of an unexported method that nothing calls
				}
				an := a.anchor[c]
				if common == nil {
					common = an
				} else if common != an {
					same = false
				}
			}
			want := fi
			if same && common != nil {
				want = common
			}
			if a.anchor[fi] != want {
				a.anchor[fi] = want
				changed = true
			}
		}
		if !changed {
			break
		}
	}
}
